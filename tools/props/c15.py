"""C15 -- no hidden mutation: functions leave inputs alone, copies leave originals alone."""
import random
import re

import vlib
from vlib import Violation

ID = "C15"
GEN_UNITS = ["MutSkeleton"]
PROPS_FILE = "Props/C15.v"
PROPS_MOD = "Props.C15"
COQ_TARGETS = ["Props/C15.vo"]
SOURCES = ["deepali/core/image.py", "deepali/core/flow.py", "deepali/core/linalg.py", "deepali/core/grid.py", "deepali/core/cube.py",
           "deepali/losses/functional.py", "deepali/spatial/base.py", "deepali/spatial/parametric.py", "deepali/data/image.py",
           "deepali/data/tensor.py", "deepali/core/functional.py"]
TRUSTED = [
    "Coq 8.16.1 kernel + vm_compute",
    "translator unit MutSkeleton (Python-ast may-alias extraction, fail-closed on constructs outside its vocabulary); trusted lists: "
    "torch methods returning new storage, module-level torch/numpy functions assumed not to write their arguments unless their name ends in '_' or out= is given",
    "modelled not verified: copy.copy of __slots__ objects, torch.nn.Module.__setattr__ routing of Parameter / None / tensor values, "
    "copy.deepcopy of modules (validated by replaying operation sequences on real objects)",
    "tensor version counters (Tensor._version) as the detector of in-place writes in the runtime sweep",
]
ASSUMPTIONS = [
    "object graph model: Grid, Cube and non-composite ParametricTransform instances; composite transforms share their sub-modules between "
    "shallow copies and are covered by the runtime sweep only",
    "effect skeletons: the names listed in Model/HeapPins.v are too coarse to be proved and are covered by the runtime sweep only",
]

COQ_HEAD = ("From Coq Require Import String List Bool Arith.\nFrom DV Require Import Model.ObjGraph Model.Heap Gen.MutSkeleton.\n"
            "Import ListNotations.\nOpen Scope nat_scope.\n")
GOPS = {"copy": "GCopy", "deepcopy": "GDeepCopy", "clone": "GDeepCopy", "acc_center": "GAccCenter", "acc_spacing": "GAccSpacing",
        "acc_align": "GAccAlign", "set_center": "GSetCenter", "edit_center": "GEditCenter", "edit_spacing": "GEditSpacing",
        "acc_grid": "GAccGrid", "acc_condition": "GAccCondition", "acc_data": "GAccData", "acc_unlink": "GAccUnlink",
        "set_data": "GSetData", "edit_params": "GEditParams"}
KIND_OPS = {
    "grid": ["copy", "deepcopy", "clone", "acc_center", "acc_spacing", "acc_align", "set_center", "edit_center", "edit_spacing"],
    "transform_param": ["copy", "deepcopy", "acc_grid", "acc_condition", "acc_data", "acc_unlink", "set_data", "edit_params"],
    "transform_tensor": ["copy", "deepcopy", "acc_grid", "acc_condition", "acc_data", "acc_unlink", "set_data", "edit_params"],
}
KIND_INIT = {"grid": "grid0", "transform_param": "tparam0", "transform_tensor": "ttensor0"}


def gen_graph_cases(rng, n):
    cases = []
    for i in range(n):
        kind = rng.choice(["grid", "grid", "transform_param", "transform_param", "transform_tensor"])
        steps = []
        nobj = 1
        for _ in range(rng.randint(2, 7)):
            op = rng.choice(KIND_OPS[kind])
            k = rng.randrange(nobj)
            steps.append({"op": op, "obj": k})
            if op in ("copy", "deepcopy", "clone") or op.startswith("acc_"):
                nobj += 1
        cases.append({"kind": kind, "steps": steps})
    return cases


def cl(items):
    return "[" + "; ".join(items) + "]"


def correspondence(ctx):
    rng = random.Random(f"{ctx.seed}:graph")
    failures = []
    dist = {}
    # (1) object graph: replay on real objects vs Model/ObjGraph.v
    cases = gen_graph_cases(rng, ctx.n(250, 2500))
    res = vlib.run_impl("c15_impl", {"fn": "graph", "cases": cases})
    lines = [COQ_HEAD]
    names = []
    for i, (c, r) in enumerate(zip(cases, res)):
        steps = r["steps"]
        if any("harness_error" in s for s in steps):
            failures.append({"case": c, "why": "harness error", "impl": steps})
            continue
        obs = []
        for s in steps:
            obs.append("None" if s["error"] else "(Some " + cl([str(j) for j in s["changed"]]) + ")")
        n_run = len(steps)
        coq_steps = cl([f"({GOPS[s['op']]}, {s['obj']})" for s in c["steps"][:n_run]])
        init = KIND_INIT[c["kind"]]
        lines.append(f"Definition c{i} : bool := if list_eq_dec (option_eq_dec (list_eq_dec Nat.eq_dec)) "
                     f"(greplay (fst {init}) [snd {init}] {coq_steps}) {cl(obs)} then true else false.")
        names.append(i)
        for s in c["steps"][:n_run]:
            dist["graph:" + c["kind"] + ":" + s["op"]] = dist.get("graph:" + c["kind"] + ":" + s["op"], 0) + 1
    text = "\n".join(lines) + "\n"
    text = text.replace(COQ_HEAD, COQ_HEAD + "Definition option_eq_dec {A} (d : forall x y : A, {x = y} + {x <> y}) : forall x y : option A, {x = y} + {x <> y}.\n"
                        "Proof. decide equality. Defined.\n")
    text += "Definition results : list bool := " + cl([f"c{i}" for i in names]) + ".\n"
    text += ("Fixpoint failing_from (i : nat) (l : list bool) : list nat := match l with [] => [] | b :: r => "
             "if b then failing_from (S i) r else i :: failing_from (S i) r end.\n")
    text += 'Eval vm_compute in ("FAIL"%string, failing_from 0 results).\n'
    rc, out = vlib.coqc_text(text, ctx.scratch, "cases_c15_graph")
    bad = vlib.parse_nat_list(out, "FAIL")
    if rc != 0 or bad is None:
        failures.append({"why": "graph case file did not evaluate", "coq": out[-800:]})
    else:
        for j in bad[:10]:
            i = names[j]
            init = KIND_INIT[cases[i]["kind"]]
            coq_steps = cl([f"({GOPS[s['op']]}, {s['obj']})" for s in cases[i]["steps"][:len(res[i]["steps"])]])
            rc2, out2 = vlib.coqc_text(COQ_HEAD + f'Eval vm_compute in ("M"%string, greplay (fst {init}) [snd {init}] {coq_steps}).\n',
                                       ctx.scratch, f"trace_c15_{i}")
            failures.append({"case": cases[i], "impl": res[i]["steps"], "model": " ".join(out2.split())[-400:],
                             "why": "object-graph model disagrees with the implementation about which objects changed"})
    n_graph = len(names)
    # (2) effect skeletons vs observed writes: every parameter seen written at run time must be in the predicted may-write set
    fres = vlib.run_impl("c15_impl", {"fn": "functions"})
    ctx._c15_functions = fres
    mut = [r for r in fres if r.get("mutated")]
    checks = []
    for r in mut:
        label = ("deepali/core/functional.py:" if r["mod"].endswith("core.functional") else "deepali/losses/functional.py:") + r["fn"]
        idx = sorted({int(m.group(1)) for x in r["mutated"] for m in [re.match(r"args\[(\d+)\]", x["arg"])] if m})
        checks.append((r, label, idx))
    if checks:
        lines = [COQ_HEAD]
        for k, (r, label, idx) in enumerate(checks):
            lines.append(f'Definition m{k} : bool := match find (fun sk => String.eqb (sk_name sk) "{label}") gen_skeletons with '
                         f"Some sk => forallb (fun a => existsb (Nat.eqb a) (written gen_summaries sk (repeat true (sk_nbits sk)))) {cl([str(a) for a in idx])} "
                         f"| None => true end.")
        lines.append("Definition results : list bool := " + cl([f"m{k}" for k in range(len(checks))]) + ".")
        lines.append("Fixpoint failing_from (i : nat) (l : list bool) : list nat := match l with [] => [] | b :: r => "
                     "if b then failing_from (S i) r else i :: failing_from (S i) r end.")
        lines.append('Eval vm_compute in ("FAIL"%string, failing_from 0 results).')
        rc, out = vlib.coqc_text("\n".join(lines) + "\n", ctx.scratch, "cases_c15_skel")
        bad = vlib.parse_nat_list(out, "FAIL")
        if rc != 0 or bad is None:
            failures.append({"why": "skeleton case file did not evaluate", "coq": out[-600:]})
        else:
            for j in bad:
                failures.append({"why": "a parameter was written at run time that the extracted effect skeleton does not list as possibly written",
                                 "call": {k: v for k, v in checks[j][0].items() if k != "exc"}})
    called = {(r["mod"], r["fn"]) for r in fres if r["status"] in ("ok", "raised")}
    ok = {(r["mod"], r["fn"]) for r in fres if r["status"] == "ok"}
    not_called = sorted({r["fn"] for r in fres if r["status"] in ("no-arguments", "no-signature")})
    dist.update({"functions:calls": len(fres), "functions:distinct_called": len(called), "functions:distinct_returned": len(ok),
                 "functions:not_exercised": len(not_called)})
    ctx.notes.append(f"functions never returning normally with the synthesised arguments (argument snapshots still compared): "
                     f"{sorted({r['fn'] for r in fres if r['status'] == 'raised'} - {f for _, f in ok})}; not exercised: {not_called}")
    return {"evaluations": n_graph + len(fres), "distinct_nontrivial": n_graph,
            "rule": "object graph: random sequences of 2-7 copies / with-argument accessors / rebinding setters / in-place edits on real Grid and "
                    "Translation objects (Parameter-held and buffer-held parameters), per step the set of previously existing objects whose state "
                    "changed compared exactly with Model/ObjGraph.v inside Coq (non-trivial = every case: at least one copy or accessor); "
                    "effect skeletons: every parameter observed written by the runtime sweep must be in the skeleton's may-write set",
            "samples": [{"case": cases[i], "impl": res[i]["steps"]} for i in range(min(3, len(cases)))],
            "failures": failures, "distribution": dist, "tolerances": {"all": "exact"},
            "exploration": {"graph_cases": n_graph, "function_calls": len(fres)}}


# ------------------------------------------------------------------------------------------------
# search: before/after snapshots over the API surface
# ------------------------------------------------------------------------------------------------
EXPLICIT_MUTATORS = {"update", "clear_buffers", "remove_update_hook", "register_update_hook", "fit", "reset_parameters"}
TENSOR_CALLERS = {"tensor", "disp", "flow", "forward", "points", "matrix"}


def accessor_key(r):
    obj = r["obj"]
    base = obj.split("[")[0]
    variant = obj[len(base):]
    m = r["method"]
    slots = " ".join(c["slot"] + " " + c["what"] for c in r["changed"])
    composite = base in ("RigidTransform", "AffineTransform", "FullAffineTransform", "SequentialTransform", "MultiLevelTransform")
    if composite and "_modules[_transforms]" in slots:
        if "_args" in slots or "_kwargs" in slots:
            return f"C15:CompositeTransform.{m}:member-condition-changed"
        if "written in place" in slots:
            mm = "tensor" if m in TENSOR_CALLERS else m
            return f"C15:{base}{variant}.{mm}:member-parameter-written-in-place"
        if "_buffers" in slots:
            return f"C15:CompositeTransform.{m}:member-buffers-changed"
        return f"C15:CompositeTransform.{m}:member-state-changed"
    if base.endswith("Transformer") and "_modules[_transform]" in slots:
        what = "wrapped-transform-conditioned" if ("_args" in slots or "_kwargs" in slots) else "wrapped-transform-changed"
        return f"C15:SpatialTransformer.{m}:{what}"
    if "_parameters[params]" in slots:
        kind = "receiver-parameter-removed" if "_parameters[params] kind tensor -> value" in slots else "receiver-parameter-rebound"
        return f"C15:ParametricTransform[Parameter].{m}:{kind}"
    if "<non-persistent buffers>" in slots or "<state_dict keys>" in slots:
        return f"C15:SpatialTransform.{m}:receiver-persistent-buffer-set-changed"
    if "written in place" in slots:
        return f"C15:{base}.{m}:receiver-tensor-written-in-place"
    return f"C15:{base}.{m}:receiver-state-changed"


def search(ctx, broken, corr_failures):
    found = {}
    fres = getattr(ctx, "_c15_functions", None) or vlib.run_impl("c15_impl", {"fn": "functions"})
    for r in fres:
        for m in r.get("mutated", []):
            key = f"C15:{r['mod'].replace('deepali.', '')}.{r['fn']}:argument-mutated:{m['arg']}"
            if key not in found:
                found[key] = Violation(key=key, what=f"{r['fn']}(...) {m['what']} ({m['arg']}, D={r['D']}, {r.get('dtype')}, argument variant {r.get('variant')})",
                                       replay={"fn": "functions", "match": {"mod": r["mod"], "fn": r["fn"], "D": r["D"], "dtype": r.get("dtype"),
                                                                            "variant": r.get("variant")}, "key": key})
    ares = vlib.run_impl("c15_impl", {"fn": "accessors"})
    n_calls = 0
    for r in ares:
        if r["status"] in ("ok", "raised"):
            n_calls += 1
        if r.get("changed") and r["method"] not in EXPLICIT_MUTATORS:
            key = accessor_key(r)
            if key not in found:
                found[key] = Violation(key=key, what=f"{r['obj']}.{r['method']}(<{r.get('nargs', 0)} args>) changed the object it was called on: "
                                                     + "; ".join(c["slot"] + " " + c["what"] for c in r["changed"][:3]),
                                       replay={"fn": "accessors", "match": {"obj": r["obj"], "method": r["method"], "D": r["D"], "variant": r.get("variant")},
                                               "key": key})
    dres = vlib.run_impl("c15_impl", {"fn": "deepcopies"})
    for r in dres:
        base = r["obj"].split("[")[0]
        if r["status"] == "raised":
            nonrigid = base in ("FreeFormDeformation", "StationaryVelocityFreeFormDeformation", "DisplacementFieldTransform",
                                "StationaryVelocityFieldTransform", "MultiLevelTransform")
            key = f"C15:{'NonRigidTransform[Parameter]' if nonrigid and 'graph leaves' in r['exc'] else base}.{r['how']}:raises"
            found.setdefault(key, Violation(key=key, what=f"{r['how']} of {r['obj']} raises {r['exc']}",
                                            replay={"fn": "deepcopies", "match": {"obj": r["obj"], "how": r["how"], "D": r["D"]}, "key": key}))
        elif r["changed"]:
            key = f"C15:{base}.{r['how']}:not-independent:{r['direction']}"
            found.setdefault(key, Violation(key=key, what=f"{r['how']} of {r['obj']}: in-place edits ({r['direction']}) reach the other object: "
                                                         + "; ".join(c["slot"] + " " + c["what"] for c in r["changed"][:3]),
                                            replay={"fn": "deepcopies", "match": {"obj": r["obj"], "how": r["how"], "D": r["D"], "direction": r["direction"]},
                                                    "key": key}))
    skipped = sorted({f"{r['obj'].split('[')[0]}.{r['method']}" for r in ares if r["status"] == "no-arguments"})
    ctx.notes.append(f"runtime sweep: {len(fres)} function calls ({len({(r['mod'], r['fn']) for r in fres})} functions, D in {{2,3}}, float32/float64), "
                     f"{n_calls} accessor / method calls on {len({r['obj'] for r in ares})} object kinds, {len(dres)} deep-copy independence probes; methods without synthesised arguments: {skipped}")
    return list(found.values())


def explains(broken_item, found):
    known, _ = vlib.load_findings()
    return any(v.key not in known for v in found)


def replay(ctx, data):
    fn = data.get("fn")
    if fn not in ("functions", "accessors", "deepcopies"):
        return None
    res = vlib.run_impl("c15_impl", {"fn": fn})
    m = data.get("match", {})
    for r in res:
        if all(r.get(k) == v for k, v in m.items()):
            if fn == "functions" and r.get("mutated"):
                return f"{r['fn']}: {r['mutated']}"
            if fn == "accessors" and r.get("changed"):
                return f"{r['obj']}.{r['method']}: {r['changed'][:3]}"
            if fn == "deepcopies" and (r.get("changed") or r["status"] == "raised"):
                return f"{r['how']} of {r['obj']}: {r.get('changed') or r.get('exc')}"
    return None


MANIFEST_ENTRY = {
    "text": "Coq theorems (closed under the global context): (a) object-graph model with tensor identities, content versions and "
            "nn.Module containers: every with-argument accessor of Grid / Cube (center, origin, spacing, direction, extent, align_corners) "
            "and grid(g) / condition(...) of a transform leaves every previously existing object exactly as it was; data(arg) / unlink() "
            "do so however the parameters are held (the copy made by grid / data / unlink gets its own _parameters dict; a plain shallow "
            "copy, as used by inverse(), still shares it); a deep copy shares nothing with its original and, by induction over arbitrary traces, any interleaving of in-place "
            "edits and rebinding on either side leaves the other side unchanged at every step; (b) may-alias effect skeletons with interprocedural summaries (result may refer to / function "
            "may write which parameters), extracted from the source of all public functions of deepali.core.functional / "
            "deepali.losses.functional and their package callees (273 skeletons): every claimed summary is re-checked in Coq for all "
            "branch vectors, and no parameter's tensor is written by any function not on the explicit exception list. "
            "Tie: translator unit MutSkeleton (skeletons, copy protocol tables, fingerprints pinned by theorem) + correspondence replaying "
            "random copy / accessor / edit sequences on real objects against the model + runtime sweep (before/after snapshots with tensor "
            "version counters) of every function and every public method of Grid, Cube, Image, ImageBatch, FlowField(s) and 17 transform kinds.",
    "note": "Partial: composite transforms and MultiLevelTransform.tensor() are outside the object-graph model (runtime sweep only); the listed skeleton "
            "names cannot be proved clean by the coarse alias abstraction (runtime sweep only); the sweep uses representative arguments in "
            "D in {2,3}. Trusted: list of torch functions/methods assumed to return new storage, nn.Module.__setattr__ model.",
}
