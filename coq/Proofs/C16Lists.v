(* List / sum lemmas over an abstract field used by the C16 (and C17) developments. *)
From Coq Require Import ZArith List Field Ring Lia.
From DV Require Import Base.Field Base.FieldFacts Base.LinAlg Model.Losses.
Import ListNotations.
Local Open Scope fld_scope.

Section Lists.
Variable K : fld.
Hypothesis Kf : is_field K.
Add Field KF : Kf.
Notation vec := (list K).

Lemma of_nat_S n : @of_nat K (S n) = of_nat n + 1.
Proof. unfold of_nat. rewrite Nat2Z.inj_succ, <- Z.add_1_r, (of_Z_add K Kf). cbn. ring. Qed.

Lemma of_nat_0 : @of_nat K 0 = 0.
Proof. reflexivity. Qed.

Lemma of_nat_nz (Kc : char0 K) n : n <> 0%nat -> @of_nat K n <> 0.
Proof. intro H. unfold of_nat. apply (of_Z_nz K Kf Kc). lia. Qed.

Lemma vsum_app (a b : vec) : vsum (a ++ b) = vsum a + vsum b.
Proof. induction a as [|x a IH]; cbn [vsum app]; [ring | rewrite IH; ring]. Qed.

Lemma vsum_map_scale (c : K) (l : vec) : vsum (map (fun a => a * c) l) = vsum l * c.
Proof. induction l as [|x l IH]; cbn [vsum map]; [ring | rewrite IH; ring]. Qed.

Lemma vsum_map_div (c : K) (l : vec) : vsum (map (fun a => a / c) l) = vsum l / c.
Proof.
  induction l as [|x l IH]; cbn [vsum map].
  - unfold fdiv. rewrite (Fdiv_def Kf). ring.
  - rewrite IH. rewrite !(Fdiv_def Kf). ring.
Qed.

Lemma vsum_map_add (f g : K -> K) (l : vec) :
  vsum (map (fun a => f a + g a) l) = vsum (map f l) + vsum (map g l).
Proof. induction l as [|x l IH]; cbn [vsum map]; [ring | rewrite IH; ring]. Qed.

Lemma vsum_map_const (c : K) (l : vec) : vsum (map (fun _ => c) l) = of_nat (length l) * c.
Proof.
  induction l as [|x l IH]; cbn [vsum map length].
  - rewrite of_nat_0. ring.
  - rewrite IH, of_nat_S. ring.
Qed.

Lemma vsum_zeros (l : vec) : Forall (fun a => a = 0) l -> vsum l = 0.
Proof. induction 1 as [|x l Hx _ IH]; cbn [vsum]; [reflexivity | rewrite Hx, IH; ring]. Qed.

Lemma vmap2_comm (f : K -> K -> K) (a b : vec) :
  (forall x y, f x y = f y x) -> vmap2 f a b = vmap2 f b a.
Proof.
  intro H. revert b. induction a as [|x a IH]; intros [|y b]; cbn [vmap2]; try reflexivity.
  rewrite H, IH. reflexivity.
Qed.

Lemma vmul_comm (a b : vec) : vmul a b = vmul b a.
Proof. apply vmap2_comm. intros; ring. Qed.

Lemma dot_comm (a b : vec) : dot a b = dot b a.
Proof. unfold dot. rewrite vmul_comm. reflexivity. Qed.

Lemma vmap2_length (f : K -> K -> K) (a b : vec) : length a = length b -> length (vmap2 f a b) = length a.
Proof.
  revert b. induction a as [|x a IH]; intros [|y b] H; cbn in *; try reflexivity; try discriminate.
  f_equal. apply IH. lia.
Qed.

Lemma vmap2_map_l (f : K -> K -> K) (g : K -> K) (a b : vec) :
  vmap2 f (map g a) b = vmap2 (fun x y => f (g x) y) a b.
Proof. revert b. induction a as [|x a IH]; intros [|y b]; cbn [vmap2 map]; try reflexivity. rewrite IH. reflexivity. Qed.

Lemma vmap2_map_r (f : K -> K -> K) (g : K -> K) (a b : vec) :
  vmap2 f a (map g b) = vmap2 (fun x y => f x (g y)) a b.
Proof. revert b. induction a as [|x a IH]; intros [|y b]; cbn [vmap2 map]; try reflexivity. rewrite IH. reflexivity. Qed.

Lemma vmap2_ext (f g : K -> K -> K) (a b : vec) :
  (forall x y, f x y = g x y) -> vmap2 f a b = vmap2 g a b.
Proof. intro H. revert b. induction a as [|x a IH]; intros [|y b]; cbn [vmap2]; try reflexivity. rewrite H, IH. reflexivity. Qed.

Lemma vmap2_diag (f : K -> K -> K) (a : vec) : vmap2 f a a = map (fun x => f x x) a.
Proof. induction a as [|x a IH]; cbn [vmap2 map]; [reflexivity | rewrite IH; reflexivity]. Qed.

Lemma nth_vmap2 (f : K -> K -> K) (a b : vec) j :
  f 0 0 = 0 -> (forall x, f x 0 = 0) -> (forall y, f 0 y = 0) ->
  nth j (vmap2 f a b) 0 = f (nth j a 0) (nth j b 0).
Proof.
  intros H00 Hx0 H0y. revert b j. induction a as [|x a IH]; intros b j.
  - cbn [vmap2]. destruct j, b; cbn [nth]; rewrite ?H00, ?H0y; reflexivity.
  - destruct b as [|y b]; cbn [vmap2].
    + destruct j; cbn [nth]; rewrite ?Hx0; reflexivity.
    + destruct j; cbn [nth]; [reflexivity | apply IH].
Qed.

Lemma nth_vmul (a b : vec) j : nth j (vmul a b) 0 = nth j a 0 * nth j b 0.
Proof. apply nth_vmap2; intros; ring. Qed.

Lemma gather_vmul (nbi : list nat) (a b : vec) : gather nbi (vmul a b) = vmul (gather nbi a) (gather nbi b).
Proof.
  unfold gather. induction nbi as [|j r IH]; [reflexivity|].
  cbn [map]. rewrite nth_vmul, IH. reflexivity.
Qed.

Lemma dot_scale_l (c : K) (a b : vec) : dot (map (fun v => c * v) a) b = c * dot a b.
Proof.
  unfold dot, vmul. revert b. induction a as [|x a IH]; intros [|y b]; cbn [map vmap2 vsum]; try ring.
  rewrite IH. ring.
Qed.

Lemma dot_scale_r (c : K) (a b : vec) : dot a (map (fun v => c * v) b) = c * dot a b.
Proof. rewrite dot_comm, dot_scale_l, dot_comm. reflexivity. Qed.

Lemma mul_nz (a b : K) : a <> 0 -> b <> 0 -> a * b <> 0.
Proof.
  intros Ha Hb E. apply Ha. transitivity (a * b / b); [field; exact Hb|].
  rewrite E, (Fdiv_def Kf). ring.
Qed.

Lemma div_zero_l (a : K) : 0 / a = 0.
Proof. rewrite (Fdiv_def Kf). ring. Qed.

End Lists.
