From Coq Require Import ZArith List String Field Ring.
From DV Require Import Base.Field Base.FieldFacts Base.LinAlg Base.Tactics Model.Enums Model.Rotation Gen.Euler.
Import ListNotations.
Local Open Scope fld_scope.

Section Proofs.
Variable K : fld.
Hypothesis Kf : is_field K.
Add Field KF : Kf.

Ltac mat_ring := fcbv; list_eq; ring.

(* every generated closed form (five hard-coded orders + the generic fallback) is the product of the
   elementary rotations in the stated order -- for all values of c_i, s_i in any field *)
Lemma gen_euler_is_product (o : order) (c0 c1 c2 s0 s1 s2 : K) :
  gen_euler o c0 c1 c2 s0 s1 s2 = euler_spec o c0 c1 c2 s0 s1 s2.
Proof. destruct o as [[[] []] []]; mat_ring. Qed.

Lemma rot_is_rotation (a : axis) (c s : K) : c * c + s * s = 1 -> is_rotation 3 (rot a c s).
Proof.
  intro H. assert (Hc : c * c = 1 - s * s) by (rewrite <- H; ring).
  destruct a; repeat split; fcbv; list_eq; ring [Hc].
Qed.

Definition is3 (A : list (list K)) : Prop :=
  exists a00 a01 a02 a10 a11 a12 a20 a21 a22,
    A = [[a00; a01; a02]; [a10; a11; a12]; [a20; a21; a22]].

Lemma is3_mm A B : is3 A -> is3 B -> is3 (mm 3 A B).
Proof.
  intros (a00&a01&a02&a10&a11&a12&a20&a21&a22&->) (b00&b01&b02&b10&b11&b12&b20&b21&b22&->).
  fcbv. repeat eexists.
Qed.

Lemma is3_rot a c s : is3 (rot a c s).
Proof. destruct a; fcbv; repeat eexists. Qed.

Lemma is_rotation_mm A B : is3 A -> is3 B ->
  is_rotation 3 A -> is_rotation 3 B -> is_rotation 3 (mm 3 A B).
Proof.
  intros (a00&a01&a02&a10&a11&a12&a20&a21&a22&->) (b00&b01&b02&b10&b11&b12&b20&b21&b22&->).
  intros (HA1&HA2&HA3) (HB1&HB2&HB3).
  set (A := [[a00; a01; a02]; [a10; a11; a12]; [a20; a21; a22]]) in *.
  set (B := [[b00; b01; b02]; [b10; b11; b12]; [b20; b21; b22]]) in *.
  assert (E1 : mm 3 (mT 3 (mm 3 A B)) (mm 3 A B) = mm 3 (mT 3 B) (mm 3 (mm 3 (mT 3 A) A) B))
    by (subst A B; fcbv; list_eq; ring).
  assert (E2 : mm 3 (mm 3 A B) (mT 3 (mm 3 A B)) = mm 3 A (mm 3 (mm 3 B (mT 3 B)) (mT 3 A)))
    by (subst A B; fcbv; list_eq; ring).
  assert (E3 : det3 (mm 3 A B) = det3 A * det3 B) by (subst A B; fcbv; ring).
  assert (I1 : mm 3 (eye 3) B = B) by (subst B; fcbv; list_eq; ring).
  assert (I2 : mm 3 (eye 3) (mT 3 A) = mT 3 A) by (subst A; fcbv; list_eq; ring).
  repeat split.
  - rewrite E1, HA1, I1. exact HB1.
  - rewrite E2, HB2, I2. exact HA2.
  - rewrite E3, HA3, HB3. ring.
Qed.

Lemma euler_spec_is_rotation (o : order) (c0 c1 c2 s0 s1 s2 : K) :
  c0 * c0 + s0 * s0 = 1 -> c1 * c1 + s1 * s1 = 1 -> c2 * c2 + s2 * s2 = 1 ->
  is_rotation 3 (euler_spec o c0 c1 c2 s0 s1 s2).
Proof.
  intros H0 H1 H2. destruct o as [[a b] d]. unfold euler_spec.
  apply is_rotation_mm; [apply is3_rot | apply is3_mm; apply is3_rot | apply rot_is_rotation; assumption |].
  apply is_rotation_mm; [apply is3_rot | apply is3_rot | apply rot_is_rotation; assumption
                        | apply rot_is_rotation; assumption].
Qed.

Lemma gen_euler_is_rotation (o : order) (c0 c1 c2 s0 s1 s2 : K) :
  c0 * c0 + s0 * s0 = 1 -> c1 * c1 + s1 * s1 = 1 -> c2 * c2 + s2 * s2 = 1 ->
  is_rotation 3 (gen_euler o c0 c1 c2 s0 s1 s2).
Proof. intros. rewrite gen_euler_is_product. apply euler_spec_is_rotation; assumption. Qed.

Lemma gen_euler2d_is_rot2 (c s : K) : gen_euler2d c s = rot2 c s.
Proof. reflexivity. Qed.

Lemma rot2_is_rotation (c s : K) : c * c + s * s = 1 -> is_rotation 2 (rot2 c s).
Proof.
  intro H. assert (Hc : c * c = 1 - s * s) by (rewrite <- H; ring).
  repeat split; fcbv; list_eq; ring [Hc].
Qed.

(* algebraic half of the angle round trip: what euler_rotation_angles feeds to atan2/acos, evaluated
   on the matrix euler_rotation_matrix builds from angles a_i, is (rho sin a_i, rho cos a_i) for the
   i-th angle -- in particular the first and third angle are not confused *)
Lemma angles_recover (o : order) (c0 c1 c2 s0 s1 s2 : K) l :
  gen_angles o (gen_euler o c0 c1 c2 s0 s1 s2) = Some l ->
  l = angles_spec c0 c1 c2 s0 s1 s2.
Proof.
  destruct o as [[[] []] []]; cbn [gen_angles]; try discriminate;
    intro H; injection H as <-; fcbv; list_eq; ring.
Qed.

Lemma angles_supported : gen_angles (K:=K) (AZ, AX, AZ) [] <> None /\ gen_angles (K:=K) (AX, AZ, AX) [] <> None.
Proof. split; discriminate. Qed.

Lemma angle2d_recover (c s : K) : gen_angles2d (gen_euler2d c s) = angle2d_spec c s.
Proof. reflexivity. Qed.
End Proofs.

Lemma order_table_ok : order_table_complete gen_order_table = true.
Proof. vm_compute. reflexivity. Qed.

(* instance at the reals: for all angles *)
From Coq Require Import Reals.
From DV Require Import Base.RInst.
Lemma euler_real_angles (o : order) (a0 a1 a2 : R) :
  let M := gen_euler (K:=RF) o (cos a0) (cos a1) (cos a2) (sin a0) (sin a1) (sin a2) in
  M = euler_spec (K:=RF) o (cos a0) (cos a1) (cos a2) (sin a0) (sin a1) (sin a2) /\ is_rotation 3 M.
Proof.
  split; [apply (gen_euler_is_product RF RF_field)|].
  apply (gen_euler_is_rotation RF RF_field); cbn;
    match goal with |- (cos ?a * cos ?a + sin ?a * sin ?a)%R = 1%R =>
      pose proof (sin2_cos2 a) as H; unfold Rsqr in H; rewrite Rplus_comm; exact H end.
Qed.
