(* C04: the traced ImageBatch methods (Gen/ImageOpsT.v) are the model's operations and keep data and grid in lock-step. *)
From Coq Require Import ZArith List Field Ring Lia Bool.
From DV Require Import Base.Field Base.FieldFacts Base.LinAlg Base.Tactics Model.Enums Model.Homog Model.Grid Model.Sampler
  Gen.GridT Gen.ImageOpsT Model.ImageOps Model.ImageOpsCheck Proofs.C01Grid.
Import ListNotations.
Local Open Scope fld_scope.

Section C04Gen.
Variable K : fld.
Hypothesis Kf : is_field K.
Hypothesis Kc : char0 K.
Add Field KF_C04Gen : Kf.

(* numerals are non-zero in characteristic 0 *)
Lemma nz1 : (of_Z 1 : K) <> 0. Proof. apply (of_Z_nz K Kf Kc); lia. Qed.
Lemma nz2 : (of_Z 2 : K) <> 0. Proof. apply (of_Z_nz K Kf Kc); lia. Qed.
Lemma nz3 : (of_Z 3 : K) <> 0. Proof. apply (of_Z_nz K Kf Kc); lia. Qed.
Lemma nz4 : (of_Z 4 : K) <> 0. Proof. apply (of_Z_nz K Kf Kc); lia. Qed.
Lemma nz5 : (of_Z 5 : K) <> 0. Proof. apply (of_Z_nz K Kf Kc); lia. Qed.
Lemma nz6 : (of_Z 6 : K) <> 0. Proof. apply (of_Z_nz K Kf Kc); lia. Qed.
Lemma nz7 : (of_Z 7 : K) <> 0. Proof. apply (of_Z_nz K Kf Kc); lia. Qed.
Lemma nz8 : (of_Z 8 : K) <> 0. Proof. apply (of_Z_nz K Kf Kc); lia. Qed.
Let K1 := K1nz K Kf.
Let K2 := K2nz K Kf Kc.
Lemma K4 : ((1 + 1) * (1 + 1) : K) <> 0.
Proof. intro E. apply K2. transitivity ((1 + 1) * (1 + 1) / (1 + 1) : K); [field; exact K2 | rewrite E; field; exact K2]. Qed.
Hint Resolve K1 K2 K4 nz1 nz2 nz3 nz4 nz5 nz6 nz7 nz8 : core.
Lemma rszZ_is_rsz (ac : bool) (n m : Z) (x : K) : rszZ ac n m x = rsz ac (of_Z n) (of_Z m) x.
Proof. unfold rszZ, rsz. rewrite !of_Z_sub by auto. reflexivity. Qed.
Ltac side := repeat split; auto.


Lemma ok_crop_num_holds : ok_crop_num K.
Proof. split; [intros; reflexivity | split; [reflexivity | intros s c d; unfold src_ok; repeat constructor; fcbv; list_eq; field; side]]. Qed.
Lemma ok_crop_margin_holds : ok_crop_margin K.
Proof. split; [intros; reflexivity | split; [reflexivity | intros s c d; unfold src_ok; repeat constructor; fcbv; list_eq; field; side]]. Qed.
Lemma ok_crop_mixed_holds : ok_crop_mixed K.
Proof. split; [intros; reflexivity | split; [reflexivity | intros s c d; unfold src_ok; repeat constructor; fcbv; list_eq; field; side]]. Qed.
Lemma ok_pad_num_holds : ok_pad_num K.
Proof. split; [intros; reflexivity | split; [reflexivity | intros s c d; unfold src_ok; repeat constructor; fcbv; list_eq; field; side]]. Qed.
Lemma ok_pad_margin_holds : ok_pad_margin K.
Proof. split; [intros; reflexivity | split; [reflexivity | intros s c d; unfold src_ok; repeat constructor; fcbv; list_eq; field; side]]. Qed.
Lemma ok_center_crop_holds : ok_center_crop K.
Proof. split; [intros; reflexivity | split; [reflexivity | intros s c d; unfold src_ok; repeat constructor; fcbv; list_eq; field; side]]. Qed.
Lemma ok_center_crop_odd_holds : ok_center_crop_odd K.
Proof. split; [intros; reflexivity | split; [reflexivity | intros s c d; unfold src_ok; repeat constructor; fcbv; list_eq; field; side]]. Qed.
Lemma ok_center_pad_holds : ok_center_pad K.
Proof. split; [intros; reflexivity | split; [reflexivity | intros s c d; unfold src_ok; repeat constructor; fcbv; list_eq; field; side]]. Qed.
Lemma ok_center_pad_odd_holds : ok_center_pad_odd K.
Proof. split; [intros; reflexivity | split; [reflexivity | intros s c d; unfold src_ok; repeat constructor; fcbv; list_eq; field; side]]. Qed.
Lemma ok_narrow_x_holds : ok_narrow_x K.
Proof. split; [intros; reflexivity | split; [reflexivity | intros s c d; unfold src_ok; repeat constructor; fcbv; list_eq; field; side]]. Qed.
Lemma ok_narrow_y_holds : ok_narrow_y K.
Proof. split; [intros; reflexivity | split; [reflexivity | intros s c d; unfold src_ok; repeat constructor; fcbv; list_eq; field; side]]. Qed.
Lemma ok_crop3_holds : ok_crop3 K.
Proof. split; [intros; reflexivity | split; [reflexivity | intros s c d; unfold src_ok; repeat constructor; fcbv; list_eq; field; side]]. Qed.
Lemma ok_roi3_holds : ok_roi3 K.
Proof. split; [intros; reflexivity | split; [reflexivity | intros s c d; unfold src_ok; repeat constructor; fcbv; list_eq; field; side]]. Qed.
Lemma ok_narrow_z_holds : ok_narrow_z K.
Proof. split; [intros; reflexivity | split; [reflexivity | intros s c d; unfold src_ok; repeat constructor; fcbv; list_eq; field; side]]. Qed.
Lemma ok_pool2_holds : ok_pool2 K.
Proof. split; [intros; fcbv; list_eq; field; side | reflexivity]. Qed.
Lemma ok_pool_aniso_holds : ok_pool_aniso K.
Proof. split; [intros; fcbv; list_eq; field; side | reflexivity]. Qed.
Lemma ok_resize_default_holds : ok_resize_default K.
Proof. intros s c d. unfold interp_ok, gen_io_interp_resize_default. cbn [indices flat_map map zseq seq Z.to_nat Pos.to_nat Pos.iter_op Nat.add app Z.of_nat Pos.of_succ_nat Pos.succ].
  repeat constructor; fcbv; list_eq; field; side. Qed.
Lemma ok_resize_default_nac_holds : ok_resize_default_nac K.
Proof. intros s c d. unfold interp_ok, gen_io_interp_resize_default_nac. cbn [indices flat_map map zseq seq Z.to_nat Pos.to_nat Pos.iter_op Nat.add app Z.of_nat Pos.of_succ_nat Pos.succ].
  repeat constructor; fcbv; list_eq; field; side. Qed.
Lemma ok_resize_flag_holds : ok_resize_flag K.
Proof. intros s c d. unfold interp_ok, gen_io_interp_resize_flag. cbn [indices flat_map map zseq seq Z.to_nat Pos.to_nat Pos.iter_op Nat.add app Z.of_nat Pos.of_succ_nat Pos.succ].
  repeat constructor; fcbv; list_eq; field; side. Qed.
Lemma ok_down_default_holds : ok_down_default K.
Proof. intros s c d. unfold interp_ok, gen_io_interp_down_default. cbn [indices flat_map map zseq seq Z.to_nat Pos.to_nat Pos.iter_op Nat.add app Z.of_nat Pos.of_succ_nat Pos.succ].
  repeat constructor; fcbv; list_eq; field; side. Qed.
Lemma ok_down_default_nac_holds : ok_down_default_nac K.
Proof. intros s c d. unfold interp_ok, gen_io_interp_down_default_nac. cbn [indices flat_map map zseq seq Z.to_nat Pos.to_nat Pos.iter_op Nat.add app Z.of_nat Pos.of_succ_nat Pos.succ].
  repeat constructor; fcbv; list_eq; field; side. Qed.
Lemma ok_down_flag_holds : ok_down_flag K.
Proof. intros s c d. unfold interp_ok, gen_io_interp_down_flag. cbn [indices flat_map map zseq seq Z.to_nat Pos.to_nat Pos.iter_op Nat.add app Z.of_nat Pos.of_succ_nat Pos.succ].
  repeat constructor; fcbv; list_eq; field; side. Qed.
Lemma ok_down_dims_holds : ok_down_dims K.
Proof. intros s c d. unfold interp_ok, gen_io_interp_down_dims. cbn [indices flat_map map zseq seq Z.to_nat Pos.to_nat Pos.iter_op Nat.add app Z.of_nat Pos.of_succ_nat Pos.succ].
  repeat constructor; fcbv; list_eq; field; side. Qed.
Lemma ok_up_default_holds : ok_up_default K.
Proof. intros s c d. unfold interp_ok, gen_io_interp_up_default. cbn [indices flat_map map zseq seq Z.to_nat Pos.to_nat Pos.iter_op Nat.add app Z.of_nat Pos.of_succ_nat Pos.succ].
  repeat constructor; fcbv; list_eq; field; side. Qed.
Lemma ok_up_default_nac_holds : ok_up_default_nac K.
Proof. intros s c d. unfold interp_ok, gen_io_interp_up_default_nac. cbn [indices flat_map map zseq seq Z.to_nat Pos.to_nat Pos.iter_op Nat.add app Z.of_nat Pos.of_succ_nat Pos.succ].
  repeat constructor; fcbv; list_eq; field; side. Qed.
Lemma ok_up_flag_holds : ok_up_flag K.
Proof. intros s c d. unfold interp_ok, gen_io_interp_up_flag. cbn [indices flat_map map zseq seq Z.to_nat Pos.to_nat Pos.iter_op Nat.add app Z.of_nat Pos.of_succ_nat Pos.succ].
  repeat constructor; fcbv; list_eq; field; side. Qed.
Lemma ok_resize3_holds : ok_resize3 K.
Proof. intros s c d. unfold interp_ok, gen_io_interp_resize3.
  repeat constructor; fcbv; list_eq; field; side. Qed.

Lemma traced_index_ops_hold_K : traced_index_ops_ok K.
Proof. unfold traced_index_ops_ok. repeat split; first [apply ok_crop_num_holds | apply ok_crop_margin_holds | apply ok_crop_mixed_holds | apply ok_pad_num_holds | apply ok_pad_margin_holds | apply ok_center_crop_holds | apply ok_center_crop_odd_holds | apply ok_center_pad_holds | apply ok_center_pad_odd_holds | apply ok_narrow_x_holds | apply ok_narrow_y_holds | apply ok_crop3_holds | apply ok_roi3_holds | apply ok_narrow_z_holds | apply ok_pool2_holds | apply ok_pool_aniso_holds | apply ok_resize_default_holds | apply ok_resize_default_nac_holds | apply ok_resize_flag_holds | apply ok_down_default_holds | apply ok_down_default_nac_holds | apply ok_down_flag_holds | apply ok_down_dims_holds | apply ok_up_default_holds | apply ok_up_default_nac_holds | apply ok_up_flag_holds | apply ok_resize3_holds]. Qed.
End C04Gen.
