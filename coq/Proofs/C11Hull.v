(* Over the rationals: hull invariance of the first affine map implies that every sample position of every
   squaring step stays inside the sample hull (good cells), for every number of steps. *)
From Coq Require Import ZArith QArith Qabs Qround Qcanon List Bool Lia Lqa Field.
From DV Require Import Base.Field Base.FieldFacts Base.LinAlg Base.Tactics Base.QcInst Model.Sampler Model.SamplerQc
  Model.Flow Model.FlowHull Proofs.C11Interp Proofs.C11Compose Proofs.C11Compose3 Proofs.C11Expv.
Import ListNotations.

(* ---- this : Qc -> Q is a field morphism up to Qeq ---- *)
Local Open Scope Q_scope.
Lemma this_add (a b : Qc) : this (a + b)%Qc == this a + this b.
Proof. unfold Qcplus. cbn [this Q2Qc]. apply Qred_correct. Qed.
Lemma this_mul (a b : Qc) : this (a * b)%Qc == this a * this b.
Proof. unfold Qcmult. cbn [this Q2Qc]. apply Qred_correct. Qed.
Lemma this_opp (a : Qc) : this (- a)%Qc == - this a.
Proof. unfold Qcopp. cbn [this Q2Qc]. apply Qred_correct. Qed.
Lemma this_sub (a b : Qc) : this (a - b)%Qc == this a - this b.
Proof. unfold Qcminus. rewrite this_add, this_opp. reflexivity. Qed.
Lemma this_inv (a : Qc) : this (/ a)%Qc == / this a.
Proof. unfold Qcinv. cbn [this Q2Qc]. apply Qred_correct. Qed.
Lemma this_div (a b : Qc) : this (a / b)%Qc == this a / this b.
Proof. unfold Qcdiv. rewrite this_mul, this_inv. reflexivity. Qed.
Lemma this_of_Z (z : Z) : this (of_Z (K:=QcF) z) == inject_Z z.
Proof.
  destruct z as [|p|p]; cbn [of_Z].
  - reflexivity.
  - rewrite Qc_of_pos. cbn -[Qred]. rewrite Qred_correct. reflexivity.
  - rewrite Qc_of_pos. cbn -[Qred Qopp]. rewrite !Qred_correct. reflexivity.
Qed.
Lemma this_one : this (1%Qc) == 1. Proof. reflexivity. Qed.
Lemma this_zero : this (0%Qc) == 0. Proof. reflexivity. Qed.

(* push `this` through an expression over QcF *)
Ltac qcq :=
  cbn [fadd fmul fsub fopp fdiv finv f0 f1 QcF T];
  repeat (rewrite ?this_add, ?this_mul, ?this_sub, ?this_opp, ?this_div, ?this_inv, ?this_of_Z, ?this_one, ?this_zero).

Lemma inject_Z_ge2 n : (2 <= n)%Z -> 2 <= inject_Z n.
Proof. intro H. change 2 with (inject_Z 2). now rewrite <- Zle_Qle. Qed.

(* the lattice lies in the hull *)
Lemma lattice_in_hull ac n i : (2 <= n)%Z -> (0 <= i < n)%Z -> Qabs (this (ncoord (K:=QcF) ac n i)) <= hull_half ac n.
Proof.
  intros Hn Hi. unfold ncoord, ncoordK. replace (n =? 1)%Z with false by (symmetry; apply Z.eqb_neq; lia).
  pose proof (inject_Z_ge2 n Hn) as HN.
  assert (H0 : 0 <= inject_Z i) by (change 0 with (inject_Z 0); rewrite <- Zle_Qle; lia).
  assert (H1 : inject_Z i <= inject_Z n - 1).
  { change 1 with (inject_Z 1). unfold Qminus. rewrite <- inject_Z_opp, <- inject_Z_plus, <- Zle_Qle. lia. }
  apply Qabs_Qle_condition. unfold hull_half. destruct ac; qcq.
  - set (I := inject_Z i) in *. set (N := inject_Z n) in *.
    assert (HD : 0 < N - 1) by lra.
    split.
    + apply Qle_minus_iff. setoid_replace ((1 + 1) * I / (N - 1) - 1 + - - (1)) with ((1 + 1) * I / (N - 1)) by ring.
      apply Qle_shift_div_l; lra.
    + apply Qle_minus_iff. setoid_replace (1 + - ((1 + 1) * I / (N - 1) - 1)) with ((2 * (N - 1) - 2 * I) / (N - 1)) by (field; lra).
      apply Qle_shift_div_l; lra.
  - set (I := inject_Z i) in *. set (N := inject_Z n) in *.
    assert (HD : 0 < N) by lra.
    split.
    + apply Qle_minus_iff. setoid_replace (((1 + 1) * I + 1) / N - 1 + - - ((N - 1) / N)) with ((2 * I) / N) by (field; lra).
      apply Qle_shift_div_l; lra.
    + apply Qle_minus_iff. setoid_replace ((N - 1) / N + - (((1 + 1) * I + 1) / N - 1)) with ((2 * (N - 1) - 2 * I) / N) by (field; lra).
      apply Qle_shift_div_l; lra.
Qed.

(* a position inside the hull selects a good cell *)
Lemma good_cell_Q n (p : Qc) : (2 <= n)%Z -> 0 <= this p -> this p <= inject_Z n - 1 -> good_cell (K:=QcF) floorQ n p.
Proof.
  intros Hn H0 H1. unfold good_cell, cell, floorQ.
  set (i := Qfloor (this p)).
  assert (Hi0 : (0 <= i)%Z). { change 0%Z with (Qfloor 0). now apply Qfloor_resp_le. }
  assert (Hi1 : (i <= n - 1)%Z).
  { rewrite <- (Qfloor_Z (n - 1)). apply Qfloor_resp_le.
    eapply Qle_trans; [exact H1|]. unfold Zminus. rewrite inject_Z_plus, inject_Z_opp. unfold Qminus. apply Qle_refl. }
  split; [exact Hi0|]. destruct (Z_le_gt_dec i (n - 2)) as [L|G]; [left; exact L|right].
  split; [lia|]. assert (E : i = (n - 1)%Z) by lia.
  apply Qc_is_canon. qcq. fold i.
  pose proof (Qfloor_le (this p)) as F. fold i in F.
  assert (EI : inject_Z i == inject_Z n - 1).
  { rewrite E. unfold Zminus. rewrite inject_Z_plus, inject_Z_opp. reflexivity. }
  lra.
Qed.

Lemma in_hull_good_cell ac n (y : Qc) : (2 <= n)%Z -> Qabs (this y) <= hull_half ac n ->
  good_cell (K:=QcF) floorQ n (unnorm (K:=QcF) ac n y).
Proof.
  intros Hn Hy. pose proof (inject_Z_ge2 n Hn) as HN. apply Qabs_Qle_condition in Hy. destruct Hy as [Hl Hu].
  apply good_cell_Q; [exact Hn| |]; unfold unnorm, hull_half in *; destruct ac; qcq;
    set (Y := this y) in *; set (N := inject_Z n) in *.
  - setoid_replace ((Y + 1) / (1 + 1) * (N - 1)) with ((Y + 1) * (N - 1) / 2) by (field; lra). apply Qle_shift_div_l; nra.
  - assert (HY : - (N - 1) <= Y * N).
    { setoid_replace (- (N - 1)) with (- ((N - 1) / N) * N) by (field; lra). apply Qmult_le_compat_r; lra. }
    apply Qle_shift_div_l; lra.
  - setoid_replace ((Y + 1) / (1 + 1) * (N - 1)) with ((Y + 1) * (N - 1) / 2) by (field; lra). apply Qle_shift_div_r; nra.
  - assert (HY : Y * N <= N - 1).
    { setoid_replace (N - 1) with ((N - 1) / N * N) by (field; lra). apply Qmult_le_compat_r; lra. }
    apply Qle_shift_div_r; lra.
Qed.

(* |a c + ...| <= |a| r + ... *)
Lemma abs_mul_le (a c r : Q) : Qabs c <= r -> Qabs (a * c) <= Qabs a * r.
Proof.
  intro H. rewrite Qabs_Qmult. rewrite (Qmult_comm (Qabs a) (Qabs c)), (Qmult_comm (Qabs a) r).
  apply Qmult_le_compat_r; [exact H | apply Qabs_nonneg].
Qed.
Lemma abs_lin1 (a t c r : Q) : Qabs c <= r -> Qabs (a * c + t) <= Qabs a * r + Qabs t.
Proof. intro H. eapply Qle_trans; [apply Qabs_triangle|]. pose proof (abs_mul_le a c r H). lra. Qed.
Lemma abs_lin2 (a b t c0 c1 r0 r1 : Q) : Qabs c0 <= r0 -> Qabs c1 <= r1 ->
  Qabs (a * c0 + b * c1 + t) <= Qabs a * r0 + Qabs b * r1 + Qabs t.
Proof.
  intros H0 H1. eapply Qle_trans; [apply Qabs_triangle|]. pose proof (abs_lin1 a (b * c1) c0 r0 H0).
  pose proof (abs_mul_le b c1 r1 H1). lra.
Qed.
Lemma abs_lin3 (a b c t c0 c1 c2 r0 r1 r2 : Q) : Qabs c0 <= r0 -> Qabs c1 <= r1 -> Qabs c2 <= r2 ->
  Qabs (a * c0 + b * c1 + c * c2 + t) <= Qabs a * r0 + Qabs b * r1 + Qabs c * r2 + Qabs t.
Proof.
  intros H0 H1 H2. eapply Qle_trans; [apply Qabs_triangle|]. pose proof (abs_lin2 a b (c * c2) c0 c1 r0 r1 H0 H1).
  pose proof (abs_mul_le c c2 r2 H2). lra.
Qed.

(* "maps the hull into itself", semantically *)
Definition box1 (r0 : Q) (A : list (list Qc)) : Prop :=
  forall c0 : Qc, Qabs (this c0) <= r0 -> Qabs (this (nth 0 (happly (K:=QcF) 1 A [c0]) 0%Qc)) <= r0.
Definition box2 (r0 r1 : Q) (A : list (list Qc)) : Prop :=
  forall c0 c1 : Qc, Qabs (this c0) <= r0 -> Qabs (this c1) <= r1 ->
  Qabs (this (nth 0 (happly (K:=QcF) 2 A [c0; c1]) 0%Qc)) <= r0 /\
  Qabs (this (nth 1 (happly (K:=QcF) 2 A [c0; c1]) 0%Qc)) <= r1.
Definition box3 (r0 r1 r2 : Q) (A : list (list Qc)) : Prop :=
  forall c0 c1 c2 : Qc, Qabs (this c0) <= r0 -> Qabs (this c1) <= r1 -> Qabs (this c2) <= r2 ->
  Qabs (this (nth 0 (happly (K:=QcF) 3 A [c0; c1; c2]) 0%Qc)) <= r0 /\
  Qabs (this (nth 1 (happly (K:=QcF) 3 A [c0; c1; c2]) 0%Qc)) <= r1 /\
  Qabs (this (nth 2 (happly (K:=QcF) 3 A [c0; c1; c2]) 0%Qc)) <= r2.

Lemma hull_inv1_box r0 A : hull_inv1 r0 A = true -> box1 r0 A.
Proof.
  destruct A as [|[|a [|t [|? ?]]] [|? ?]]; try discriminate. cbn [hull_inv1]. intro H. apply Qle_bool_iff in H.
  intros c0 H0. change [[a; t]] with (H1 (K:=QcF) a t). rewrite (happly1_0 QcF QcF_field). qcq.
  eapply Qle_trans; [apply (abs_lin1 _ _ _ r0 H0)| exact H].
Qed.
Lemma hull_inv2_box r0 r1 A : hull_inv2 r0 r1 A = true -> box2 r0 r1 A.
Proof.
  destruct A as [|[|a00 [|a01 [|t0 [|? ?]]]] [|[|a10 [|a11 [|t1 [|? ?]]]] [|? ?]]]; try discriminate.
  cbn [hull_inv2]. intro H. apply andb_prop in H as [Ha Hb]. apply Qle_bool_iff in Ha, Hb.
  intros c0 c1 H0 H1. change [[a00; a01; t0]; [a10; a11; t1]] with (H2 (K:=QcF) a00 a01 t0 a10 a11 t1).
  rewrite (happly2_0 QcF QcF_field), (happly2_1 QcF QcF_field). qcq. split.
  - eapply Qle_trans; [apply (abs_lin2 _ _ _ _ _ r0 r1 H0 H1)| exact Ha].
  - eapply Qle_trans; [apply (abs_lin2 _ _ _ _ _ r0 r1 H0 H1)| exact Hb].
Qed.
Lemma hull_inv3_box r0 r1 r2 A : hull_inv3 r0 r1 r2 A = true -> box3 r0 r1 r2 A.
Proof.
  destruct A as [|[|a00 [|a01 [|a02 [|t0 [|? ?]]]]] [|[|a10 [|a11 [|a12 [|t1 [|? ?]]]]] [|[|a20 [|a21 [|a22 [|t2 [|? ?]]]]] [|? ?]]]];
    try discriminate.
  cbn [hull_inv3]. intro H. apply andb_prop in H as [H Hc]. apply andb_prop in H as [Ha Hb]. apply Qle_bool_iff in Ha, Hb, Hc.
  intros c0 c1 c2 H0 H1 H2.
  change [[a00; a01; a02; t0]; [a10; a11; a12; t1]; [a20; a21; a22; t2]] with (H3 (K:=QcF) a00 a01 a02 t0 a10 a11 a12 t1 a20 a21 a22 t2).
  rewrite (happly3_0 QcF QcF_field), (happly3_1 QcF QcF_field), (happly3_2 QcF QcF_field). qcq. repeat split.
  - eapply Qle_trans; [apply (abs_lin3 _ _ _ _ _ _ _ r0 r1 r2 H0 H1 H2)| exact Ha].
  - eapply Qle_trans; [apply (abs_lin3 _ _ _ _ _ _ _ r0 r1 r2 H0 H1 H2)| exact Hb].
  - eapply Qle_trans; [apply (abs_lin3 _ _ _ _ _ _ _ r0 r1 r2 H0 H1 H2)| exact Hc].
Qed.

Section HapplyComp.
Local Open Scope fld_scope.
Variable K : fld.
Hypothesis Kf : is_field K.
Add Field KFH : Kf.
Lemma happly1_hcomp (B A : list (list K)) c0 : is_H1 K A -> is_H1 K B ->
  happly 1 (hcomp 1 B A) [c0] = happly 1 B [nth 0 (happly 1 A [c0]) 0].
Proof. intros [a [t ->]] [b [s ->]]. fcbv. list_eq; ring. Qed.
Lemma happly2_hcomp (B A : list (list K)) c0 c1 : is_H2 K A -> is_H2 K B ->
  happly 2 (hcomp 2 B A) [c0; c1] = happly 2 B [nth 0 (happly 2 A [c0; c1]) 0; nth 1 (happly 2 A [c0; c1]) 0].
Proof.
  intros [a00 [a01 [t0 [a10 [a11 [t1 ->]]]]]] [b00 [b01 [s0 [b10 [b11 [s1 ->]]]]]]. fcbv. list_eq; ring.
Qed.
Lemma happly3_hcomp (B A : list (list K)) c0 c1 c2 : is_H3 K A -> is_H3 K B ->
  happly 3 (hcomp 3 B A) [c0; c1; c2]
  = happly 3 B [nth 0 (happly 3 A [c0; c1; c2]) 0; nth 1 (happly 3 A [c0; c1; c2]) 0; nth 2 (happly 3 A [c0; c1; c2]) 0].
Proof.
  intros [a00 [a01 [a02 [t0 [a10 [a11 [a12 [t1 [a20 [a21 [a22 [t2 ->]]]]]]]]]]]]
         [b00 [b01 [b02 [s0 [b10 [b11 [b12 [s1 [b20 [b21 [b22 [s2 ->]]]]]]]]]]]]. fcbv. list_eq; ring.
Qed.
Lemma hone_plus2_H2 (c g00 g01 h0 g10 g11 h1 : K) :
  hone_plus 2 c (H2 g00 g01 h0 g10 g11 h1) = H2 (1 + c * g00) (c * g01) (c * h0) (c * g10) (1 + c * g11) (c * h1).
Proof. fcbv. list_eq; ring. Qed.
Lemma hone_plus3_H3 (c g00 g01 g02 h0 g10 g11 g12 h1 g20 g21 g22 h2 : K) :
  hone_plus 3 c (H3 g00 g01 g02 h0 g10 g11 g12 h1 g20 g21 g22 h2)
  = H3 (1 + c * g00) (c * g01) (c * g02) (c * h0) (c * g10) (1 + c * g11) (c * g12) (c * h1)
       (c * g20) (c * g21) (1 + c * g22) (c * h2).
Proof. fcbv. list_eq; ring. Qed.
End HapplyComp.

Lemma box1_sq r0 A : is_H1 QcF A -> box1 r0 A -> box1 r0 (hcomp 1 A A).
Proof.
  intros HA HB c0 H0. rewrite (happly1_hcomp QcF QcF_field) by auto. apply HB. now apply HB.
Qed.
Lemma box2_sq r0 r1 A : is_H2 QcF A -> box2 r0 r1 A -> box2 r0 r1 (hcomp 2 A A).
Proof.
  intros HA HB c0 c1 H0 H1. rewrite (happly2_hcomp QcF QcF_field) by auto.
  destruct (HB c0 c1 H0 H1) as [Y0 Y1]. now apply HB.
Qed.
Lemma box3_sq r0 r1 r2 A : is_H3 QcF A -> box3 r0 r1 r2 A -> box3 r0 r1 r2 (hcomp 3 A A).
Proof.
  intros HA HB c0 c1 c2 H0 H1 H2. rewrite (happly3_hcomp QcF QcF_field) by auto.
  destruct (HB c0 c1 c2 H0 H1 H2) as [Y0 [Y1 Y2]]. now apply HB.
Qed.

Lemma box1_iter r0 j : forall A, is_H1 QcF A -> box1 r0 A -> box1 r0 (hsq_iter 1 j A).
Proof.
  induction j as [|j IH]; intros A HA HB; [exact HB|]. unfold hsq_iter. cbn [sq_iter].
  apply IH; [now apply (is_H1_hcomp QcF QcF_field) | now apply box1_sq].
Qed.
Lemma box2_iter r0 r1 j : forall A, is_H2 QcF A -> box2 r0 r1 A -> box2 r0 r1 (hsq_iter 2 j A).
Proof.
  induction j as [|j IH]; intros A HA HB; [exact HB|]. unfold hsq_iter. cbn [sq_iter].
  apply IH; [now apply (is_H2_hcomp QcF QcF_field) | now apply box2_sq].
Qed.
Lemma box3_iter r0 r1 r2 j : forall A, is_H3 QcF A -> box3 r0 r1 r2 A -> box3 r0 r1 r2 (hsq_iter 3 j A).
Proof.
  induction j as [|j IH]; intros A HA HB; [exact HB|]. unfold hsq_iter. cbn [sq_iter].
  apply IH; [now apply (is_H3_hcomp QcF QcF_field) | now apply box3_sq].
Qed.

(* a hull-preserving map sends every lattice point to a good cell *)
Lemma box1_cells ac nx A : (2 <= nx)%Z -> box1 (hull_half ac nx) A -> cells_ok1 (K:=QcF) floorQ ac nx A.
Proof.
  intros Hx HB x Hxr. apply in_hull_good_cell; [exact Hx|]. apply HB. now apply lattice_in_hull.
Qed.
Lemma box2_cells ac nx ny A : (2 <= nx)%Z -> (2 <= ny)%Z -> box2 (hull_half ac nx) (hull_half ac ny) A ->
  cells_ok2 (K:=QcF) floorQ ac nx ny A.
Proof.
  intros Hx Hy HB x y Hxr Hyr. cbv zeta.
  destruct (HB (ncoord (K:=QcF) ac nx x) (ncoord (K:=QcF) ac ny y) (lattice_in_hull ac nx x Hx Hxr) (lattice_in_hull ac ny y Hy Hyr)) as [Y0 Y1].
  split; now apply in_hull_good_cell.
Qed.
Lemma box3_cells ac nx ny nz A : (2 <= nx)%Z -> (2 <= ny)%Z -> (2 <= nz)%Z ->
  box3 (hull_half ac nx) (hull_half ac ny) (hull_half ac nz) A -> cells_ok3 (K:=QcF) floorQ ac nx ny nz A.
Proof.
  intros Hx Hy Hz HB x y z Hxr Hyr Hzr. cbv zeta.
  destruct (HB (ncoord (K:=QcF) ac nx x) (ncoord (K:=QcF) ac ny y) (ncoord (K:=QcF) ac nz z) (lattice_in_hull ac nx x Hx Hxr)
              (lattice_in_hull ac ny y Hy Hyr) (lattice_in_hull ac nz z Hz Hzr)) as [Y0 [Y1 Y2]].
  repeat split; now apply in_hull_good_cell.
Qed.

(* ---- the closed form over the rationals: invariance of the FIRST map suffices, for every k ---- *)
Theorem expv1_closed_form_Q ac nx (scale : Qc) inverse k G : (2 <= nx)%Z -> is_H1 QcF G ->
  let A0 := hone_plus (K:=QcF) 1 (expv_pre (K:=QcF) k (expv_scale (K:=QcF) scale inverse)) G in
  hull_invariant1 ac nx A0 = true ->
  expv1 (K:=QcF) floorQ ac scale inverse k (vel_field1 ac nx G) = aff_field1 ac nx (hpow 1 A0 (2 ^ k)).
Proof.
  intros Hx HG A0 Hh. apply (expv1_affine_closed_form QcF QcF_field QcF_char0); auto.
  intros j _. apply box1_cells; [exact Hx|]. apply box1_iter; [now apply is_H1_hone_plus | now apply hull_inv1_box].
Qed.
Theorem expv2_closed_form_Q ac nx ny (scale : Qc) inverse k G : (2 <= nx)%Z -> (2 <= ny)%Z -> is_H2 QcF G ->
  let A0 := hone_plus (K:=QcF) 2 (expv_pre (K:=QcF) k (expv_scale (K:=QcF) scale inverse)) G in
  hull_invariant2 ac nx ny A0 = true ->
  expv2 (K:=QcF) floorQ ac scale inverse k (vel_field2 ac nx ny G) = aff_field2 ac nx ny (hpow 2 A0 (2 ^ k)).
Proof.
  intros Hx Hy HG A0 Hh. apply (expv2_affine_closed_form QcF QcF_field QcF_char0); auto.
  intros j _. apply box2_cells; [exact Hx|exact Hy|]. apply box2_iter; [now apply is_H2_hone_plus | now apply hull_inv2_box].
Qed.
Theorem expv3_closed_form_Q ac nx ny nz (scale : Qc) inverse k G : (2 <= nx)%Z -> (2 <= ny)%Z -> (2 <= nz)%Z -> is_H3 QcF G ->
  let A0 := hone_plus (K:=QcF) 3 (expv_pre (K:=QcF) k (expv_scale (K:=QcF) scale inverse)) G in
  hull_invariant3 ac nx ny nz A0 = true ->
  expv3 (K:=QcF) floorQ ac scale inverse k (vel_field3 ac nx ny nz G) = aff_field3 ac nx ny nz (hpow 3 A0 (2 ^ k)).
Proof.
  intros Hx Hy Hz HG A0 Hh. apply (expv3_affine_closed_form QcF QcF_field QcF_char0); auto.
  intros j _. apply box3_cells; [exact Hx|exact Hy|exact Hz|].
  apply box3_iter; [now apply is_H3_hone_plus | now apply hull_inv3_box].
Qed.

(* ---- weighted diagonal dominance with negative diagonal implies hull invariance ---- *)
Lemma hull_half_nonneg ac n : (2 <= n)%Z -> 0 <= hull_half ac n.
Proof.
  intro H. pose proof (inject_Z_ge2 n H). unfold hull_half. destruct ac; [lra|]. apply Qle_shift_div_l; lra.
Qed.

Lemma dd_row2_ok r0 r1 (a o t : Q) : 0 <= r0 -> 0 <= r1 -> dd_row2 r0 r1 (a - 1) o t ->
  Qabs a * r0 + Qabs o * r1 + Qabs t <= r0.
Proof. intros H0 H1 [Ha [Hb Hc]]. rewrite (Qabs_pos a) by lra. nra. Qed.
Lemma dd_row3_ok r0 r1 r2 (a o1 o2 t : Q) : 0 <= r0 -> 0 <= r1 -> 0 <= r2 -> dd_row3 r0 r1 r2 (a - 1) o1 o2 t ->
  Qabs a * r0 + Qabs o1 * r1 + Qabs o2 * r2 + Qabs t <= r0.
Proof. intros H0 H1 H2 [Ha [Hb Hc]]. rewrite (Qabs_pos a) by lra. nra. Qed.

Lemma dd1_hull r0 (a t : Qc) : 0 <= r0 -> diag_dominant1 (this a - 1) (this t) r0 -> hull_inv1 r0 (H1 (K:=QcF) a t) = true.
Proof.
  intros H0 [Ha [Hb Hc]]. cbn [hull_inv1 H1]. apply Qle_bool_iff. rewrite (Qabs_pos (this a)) by lra. nra.
Qed.
Lemma dd2_hull r0 r1 (a00 a01 t0 a10 a11 t1 : Qc) : 0 <= r0 -> 0 <= r1 ->
  diag_dominant2 r0 r1 (this a00 - 1) (this a01) (this t0) (this a10) (this a11 - 1) (this t1) ->
  hull_inv2 r0 r1 (H2 (K:=QcF) a00 a01 t0 a10 a11 t1) = true.
Proof.
  intros H0 H1 [Ra Rb]. cbn [hull_inv2 H2]. apply andb_true_intro. split; apply Qle_bool_iff.
  - now apply dd_row2_ok.
  - pose proof (dd_row2_ok r1 r0 _ _ _ H1 H0 Rb). lra.
Qed.
Lemma dd3_hull r0 r1 r2 (a00 a01 a02 t0 a10 a11 a12 t1 a20 a21 a22 t2 : Qc) : 0 <= r0 -> 0 <= r1 -> 0 <= r2 ->
  diag_dominant3 r0 r1 r2 (this a00 - 1) (this a01) (this a02) (this t0) (this a10) (this a11 - 1) (this a12) (this t1)
                 (this a20) (this a21) (this a22 - 1) (this t2) ->
  hull_inv3 r0 r1 r2 (H3 (K:=QcF) a00 a01 a02 t0 a10 a11 a12 t1 a20 a21 a22 t2) = true.
Proof.
  intros H0 H1 H2 [Ra [Rb Rc]]. cbn [hull_inv3 H3]. apply andb_true_intro. split; [apply andb_true_intro; split|]; apply Qle_bool_iff.
  - now apply dd_row3_ok.
  - pose proof (dd_row3_ok r1 r0 r2 _ _ _ _ H1 H0 H2 Rb). lra.
  - pose proof (dd_row3_ok r2 r0 r1 _ _ _ _ H2 H0 H1 Rc). lra.
Qed.

(* dominance is invariant under scaling by c >= 0 as long as the scaled diagonal stays >= -1 *)
Lemma abs_scale (c x : Q) : 0 <= c -> Qabs (c * x) == c * Qabs x.
Proof. intro H. rewrite Qabs_Qmult. now rewrite (Qabs_pos c). Qed.
Lemma dd_row2_scale r0 r1 (c d o h : Q) : 0 <= c -> -1 <= c * d -> d <= 0 -> Qabs o * r1 + Qabs h <= - d * r0 ->
  dd_row2 r0 r1 (c * d) (c * o) (c * h).
Proof.
  intros Hc H1 Hd Hdom. unfold dd_row2. rewrite !abs_scale by exact Hc. repeat split; [exact H1|nra|].
  setoid_replace (c * Qabs o * r1 + c * Qabs h) with (c * (Qabs o * r1 + Qabs h)) by ring.
  setoid_replace (- (c * d) * r0) with (c * (- d * r0)) by ring.
  rewrite (Qmult_comm c (Qabs o * r1 + Qabs h)), (Qmult_comm c (- d * r0)). now apply Qmult_le_compat_r.
Qed.
Lemma dd_row3_scale r0 r1 r2 (c d o1 o2 h : Q) : 0 <= c -> -1 <= c * d -> d <= 0 ->
  Qabs o1 * r1 + Qabs o2 * r2 + Qabs h <= - d * r0 -> dd_row3 r0 r1 r2 (c * d) (c * o1) (c * o2) (c * h).
Proof.
  intros Hc H1 Hd Hdom. unfold dd_row3. rewrite !abs_scale by exact Hc. repeat split; [exact H1|nra|].
  setoid_replace (c * Qabs o1 * r1 + c * Qabs o2 * r2 + c * Qabs h) with (c * (Qabs o1 * r1 + Qabs o2 * r2 + Qabs h)) by ring.
  setoid_replace (- (c * d) * r0) with (c * (- d * r0)) by ring.
  rewrite (Qmult_comm c (Qabs o1 * r1 + Qabs o2 * r2 + Qabs h)), (Qmult_comm c (- d * r0)). now apply Qmult_le_compat_r.
Qed.

(* closed form for diagonally dominant generators: c = scale / 2^k (sign by the inverse flag) *)
Theorem expv2_diag_dominant ac nx ny (scale : Qc) inverse k (g00 g01 h0 g10 g11 h1 : Qc) : (2 <= nx)%Z -> (2 <= ny)%Z ->
  let c := expv_pre (K:=QcF) k (expv_scale (K:=QcF) scale inverse) in
  let r0 := hull_half ac nx in let r1 := hull_half ac ny in
  0 <= this c -> -1 <= this c * this g00 -> -1 <= this c * this g11 -> this g00 <= 0 -> this g11 <= 0 ->
  Qabs (this g01) * r1 + Qabs (this h0) <= - this g00 * r0 ->
  Qabs (this g10) * r0 + Qabs (this h1) <= - this g11 * r1 ->
  expv2 (K:=QcF) floorQ ac scale inverse k (vel_field2 ac nx ny (H2 (K:=QcF) g00 g01 h0 g10 g11 h1))
  = aff_field2 ac nx ny (hpow 2 (hone_plus (K:=QcF) 2 c (H2 (K:=QcF) g00 g01 h0 g10 g11 h1)) (2 ^ k)).
Proof.
  intros Hx Hy c r0 r1 Hc Ha Hb Hd0 Hd1 Hr0 Hr1.
  apply expv2_closed_form_Q; [exact Hx|exact Hy|repeat (eapply ex_intro); reflexivity|].
  fold c. clearbody c. unfold hull_invariant2. fold r0 r1.
  rewrite (hone_plus2_H2 QcF QcF_field). cbn [fadd fmul f0 f1 QcF T].
  pose proof (hull_half_nonneg ac nx Hx) as R0. pose proof (hull_half_nonneg ac ny Hy) as R1. fold r0 in R0. fold r1 in R1.
  apply dd2_hull; [exact R0|exact R1|]. split.
  - assert (E : this (1 + c * g00)%Qc - 1 == this c * this g00) by (rewrite this_add, this_mul; cbn; ring).
    unfold dd_row2. rewrite E, (this_mul c g01), (this_mul c h0). now apply dd_row2_scale.
  - assert (E : this (1 + c * g11)%Qc - 1 == this c * this g11) by (rewrite this_add, this_mul; cbn; ring).
    unfold dd_row2. rewrite E, (this_mul c g10), (this_mul c h1). now apply dd_row2_scale.
Qed.

Theorem expv3_diag_dominant ac nx ny nz (scale : Qc) inverse k (g00 g01 g02 h0 g10 g11 g12 h1 g20 g21 g22 h2 : Qc) :
  (2 <= nx)%Z -> (2 <= ny)%Z -> (2 <= nz)%Z ->
  let c := expv_pre (K:=QcF) k (expv_scale (K:=QcF) scale inverse) in
  let r0 := hull_half ac nx in let r1 := hull_half ac ny in let r2 := hull_half ac nz in
  0 <= this c -> -1 <= this c * this g00 -> -1 <= this c * this g11 -> -1 <= this c * this g22 ->
  this g00 <= 0 -> this g11 <= 0 -> this g22 <= 0 ->
  Qabs (this g01) * r1 + Qabs (this g02) * r2 + Qabs (this h0) <= - this g00 * r0 ->
  Qabs (this g10) * r0 + Qabs (this g12) * r2 + Qabs (this h1) <= - this g11 * r1 ->
  Qabs (this g20) * r0 + Qabs (this g21) * r1 + Qabs (this h2) <= - this g22 * r2 ->
  let G := H3 (K:=QcF) g00 g01 g02 h0 g10 g11 g12 h1 g20 g21 g22 h2 in
  expv3 (K:=QcF) floorQ ac scale inverse k (vel_field3 ac nx ny nz G)
  = aff_field3 ac nx ny nz (hpow 3 (hone_plus (K:=QcF) 3 c G) (2 ^ k)).
Proof.
  intros Hx Hy Hz c r0 r1 r2 Hc Ha Hb Hcc Hd0 Hd1 Hd2 Hr0 Hr1 Hr2 G.
  apply expv3_closed_form_Q; [exact Hx|exact Hy|exact Hz|repeat (eapply ex_intro); reflexivity|].
  fold c. clearbody c. unfold hull_invariant3. fold r0 r1 r2.
  unfold G. rewrite (hone_plus3_H3 QcF QcF_field). cbn [fadd fmul f0 f1 QcF T].
  pose proof (hull_half_nonneg ac nx Hx) as R0. pose proof (hull_half_nonneg ac ny Hy) as R1.
  pose proof (hull_half_nonneg ac nz Hz) as R2. fold r0 in R0. fold r1 in R1. fold r2 in R2.
  apply dd3_hull; [exact R0|exact R1|exact R2|]. split; [|split].
  - assert (E : this (1 + c * g00)%Qc - 1 == this c * this g00) by (rewrite this_add, this_mul; cbn; ring).
    unfold dd_row3. rewrite E, (this_mul c g01), (this_mul c g02), (this_mul c h0). now apply dd_row3_scale.
  - assert (E : this (1 + c * g11)%Qc - 1 == this c * this g11) by (rewrite this_add, this_mul; cbn; ring).
    unfold dd_row3. rewrite E, (this_mul c g10), (this_mul c g12), (this_mul c h1). now apply dd_row3_scale.
  - assert (E : this (1 + c * g22)%Qc - 1 == this c * this g22) by (rewrite this_add, this_mul; cbn; ring).
    unfold dd_row3. rewrite E, (this_mul c g20), (this_mul c g21), (this_mul c h2). now apply dd_row3_scale.
Qed.
