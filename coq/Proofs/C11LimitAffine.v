(* Convergence of the closed form of scaling and squaring for generators WITH TRANSLATION (per-axis scaling velocity field
   v_a(x) = g_a x_a + h_a): the homogeneous matrix (I + G / 2^k)^(2^k) tends entrywise to the matrix exponential of
   G = [diag(g) | h], whose translation column is h_a * phi1(g_a), phi1(g) = (e^g - 1) / g (1 for g = 0); and that limit is
   the time-one map of the flow of the velocity field: x(t) = e^(g t) x + h t phi1(g t) solves x' = g x + h, x(0) = x. *)
From Coq Require Import Reals Lra Lia List.
From Coquelicot Require Import Coquelicot.
From DV Require Import Base.Field Base.LinAlg Base.RInst Base.Tactics Model.Sampler Model.Flow Proofs.C11Compose Proofs.C11Compose3
  Proofs.C11Limit Proofs.C11LimitModel.
Import ListNotations.
Local Open Scope R_scope.

(* geometric sum 1 + a + ... + a^(m-1) *)
Fixpoint gsum (a : R) (m : nat) : R := match m with O => 0 | S m' => 1 + a * gsum a m' end.

Lemma gsum_closed (a : R) m : a <> 1 -> gsum a m = (a ^ m - 1) / (a - 1).
Proof.
  intro Ha. induction m as [|m IH]; cbn [gsum pow].
  - field. lra.
  - rewrite IH. field. lra.
Qed.
Lemma gsum_one m : gsum 1 m = INR m.
Proof.
  induction m as [|m IH]; [reflexivity|]. cbn [gsum]. rewrite IH, S_INR. ring.
Qed.

(* powers of an axis-wise affine map x_a -> a_a x_a + s_a *)
Lemma hpow1_aff (a s : R) m : hpow (K:=RF) 1 (H1 (K:=RF) a s) m = H1 (K:=RF) (a ^ m) (s * gsum a m).
Proof.
  induction m as [|m IH]; cbn [hpow].
  - unfold hid, H1. cbn. list_eq; cbn; ring.
  - rewrite IH. rewrite (hcomp1_H1 RF RF_field). unfold H1. list_eq; cbn; ring.
Qed.
Lemma hpow2_aff (a b s t : R) m :
  hpow (K:=RF) 2 (H2 (K:=RF) a 0 s 0 b t) m = H2 (K:=RF) (a ^ m) 0 (s * gsum a m) 0 (b ^ m) (t * gsum b m).
Proof.
  induction m as [|m IH]; cbn [hpow].
  - unfold hid, H2. cbn. list_eq; cbn; ring.
  - rewrite IH. rewrite (hcomp2_H2 RF RF_field). unfold H2. list_eq; cbn; ring.
Qed.
Lemma hpow3_aff (a b c s t u : R) m :
  hpow (K:=RF) 3 (H3 (K:=RF) a 0 0 s 0 b 0 t 0 0 c u) m
  = H3 (K:=RF) (a ^ m) 0 0 (s * gsum a m) 0 (b ^ m) 0 (t * gsum b m) 0 0 (c ^ m) (u * gsum c m).
Proof.
  induction m as [|m IH]; cbn [hpow].
  - unfold hid, H3. cbn. list_eq; cbn; ring.
  - rewrite IH. rewrite (hcomp3_H3 RF RF_field). unfold H3. list_eq; cbn; ring.
Qed.

(* phi1(g) = (e^g - 1) / g, continued by 1 at g = 0 *)
Definition phi1 (g : R) : R := if Req_EM_T g 0 then 1 else (exp g - 1) / g.

(* the translation entry of one axis: (h / 2^k) (1 + a + ... + a^(2^k - 1)), a = 1 + g / 2^k, tends to h phi1(g) *)
Theorem translation_entry_converges (g h : R) :
  is_lim_seq (fun k : nat => h / 2 ^ k * gsum (1 + g / 2 ^ k) (2 ^ k)) (h * phi1 g).
Proof.
  unfold phi1. destruct (Req_EM_T g 0) as [-> | Hg].
  - apply is_lim_seq_ext with (fun _ => h); [|rewrite Rmult_1_r; apply is_lim_seq_const].
    intro k. replace (1 + 0 / 2 ^ k) with 1 by (unfold Rdiv; ring).
    rewrite gsum_one, pow_INR. change (INR 2) with 2. pose proof (pow2_pos k). field. lra.
  - apply is_lim_seq_ext with (fun k => h / g * ((1 + g / 2 ^ k) ^ (2 ^ k) - 1)).
    + intro k. pose proof (pow2_pos k) as Hp. rewrite gsum_closed.
      * field. split; lra.
      * intro E. apply Hg. assert (E' : g / 2 ^ k = 0) by lra.
        apply (Rmult_eq_compat_r (2 ^ k)) in E'. unfold Rdiv in E'. rewrite Rmult_assoc, Rinv_l in E'; lra.
    + replace (Finite (h * ((exp g - 1) / g))) with (Rbar_mult (h / g) (Finite (exp g - 1)))
        by (cbn; f_equal; field; exact Hg).
      apply is_lim_seq_scal_l.
      replace (Finite (exp g - 1)) with (Rbar_minus (Finite (exp g)) (Finite 1)) by reflexivity.
      apply is_lim_seq_minus'; [apply scalar_scaling_and_squaring_converges | apply is_lim_seq_const].
Qed.

(* the model's I + c G for the generator G = [diag(g) | h], c = 1 / 2^k *)
Lemma hone_plus_aff2 (c gx gy hx hy : R) :
  hone_plus (K:=RF) 2 c (H2 (K:=RF) gx 0 hx 0 gy hy) = H2 (K:=RF) (1 + c * gx) 0 (c * hx) 0 (1 + c * gy) (c * hy).
Proof. unfold hone_plus, hid, H2. cbn. list_eq; cbn; ring. Qed.
Lemma hone_plus_aff3 (c gx gy gz hx hy hz : R) :
  hone_plus (K:=RF) 3 c (H3 (K:=RF) gx 0 0 hx 0 gy 0 hy 0 0 gz hz)
  = H3 (K:=RF) (1 + c * gx) 0 0 (c * hx) 0 (1 + c * gy) 0 (c * hy) 0 0 (1 + c * gz) (c * hz).
Proof. unfold hone_plus, hid, H3. cbn. list_eq; cbn; ring. Qed.

Lemma inv_mul_div (k : nat) (x : R) : / 2 ^ k * x = x / 2 ^ k.
Proof. unfold Rdiv. ring. Qed.

Theorem closed_form_converges_scaling_translation2 (gx gy hx hy : R) :
  let A := fun k : nat => hpow (K:=RF) 2 (hone_plus (K:=RF) 2 (/ 2 ^ k) (H2 (K:=RF) gx 0 hx 0 gy hy)) (2 ^ k) in
  is_lim_seq (fun k => hentry (A k) 0 0) (exp gx) /\ is_lim_seq (fun k => hentry (A k) 1 1) (exp gy) /\
  is_lim_seq (fun k => hentry (A k) 0 2) (hx * phi1 gx) /\ is_lim_seq (fun k => hentry (A k) 1 2) (hy * phi1 gy) /\
  (forall k, hentry (A k) 0 1 = 0 /\ hentry (A k) 1 0 = 0).
Proof.
  intro A.
  assert (EA : forall k, A k = H2 (K:=RF) ((1 + gx / 2 ^ k) ^ (2 ^ k)) 0 (hx / 2 ^ k * gsum (1 + gx / 2 ^ k) (2 ^ k))
                                   0 ((1 + gy / 2 ^ k) ^ (2 ^ k)) (hy / 2 ^ k * gsum (1 + gy / 2 ^ k) (2 ^ k))).
  { intro k. unfold A. rewrite hone_plus_aff2, !inv_mul_div. apply hpow2_aff. }
  repeat split.
  - eapply is_lim_seq_ext; [|apply (scalar_scaling_and_squaring_converges gx)]. intro k. now rewrite EA.
  - eapply is_lim_seq_ext; [|apply (scalar_scaling_and_squaring_converges gy)]. intro k. now rewrite EA.
  - eapply is_lim_seq_ext; [|apply (translation_entry_converges gx hx)]. intro k. now rewrite EA.
  - eapply is_lim_seq_ext; [|apply (translation_entry_converges gy hy)]. intro k. now rewrite EA.
  - now rewrite EA.
  - now rewrite EA.
Qed.

Theorem closed_form_converges_scaling_translation3 (gx gy gz hx hy hz : R) :
  let A := fun k : nat => hpow (K:=RF) 3 (hone_plus (K:=RF) 3 (/ 2 ^ k) (H3 (K:=RF) gx 0 0 hx 0 gy 0 hy 0 0 gz hz)) (2 ^ k) in
  is_lim_seq (fun k => hentry (A k) 0 0) (exp gx) /\ is_lim_seq (fun k => hentry (A k) 1 1) (exp gy) /\
  is_lim_seq (fun k => hentry (A k) 2 2) (exp gz) /\
  is_lim_seq (fun k => hentry (A k) 0 3) (hx * phi1 gx) /\ is_lim_seq (fun k => hentry (A k) 1 3) (hy * phi1 gy) /\
  is_lim_seq (fun k => hentry (A k) 2 3) (hz * phi1 gz).
Proof.
  intro A.
  assert (EA : forall k, A k = H3 (K:=RF) ((1 + gx / 2 ^ k) ^ (2 ^ k)) 0 0 (hx / 2 ^ k * gsum (1 + gx / 2 ^ k) (2 ^ k))
                                   0 ((1 + gy / 2 ^ k) ^ (2 ^ k)) 0 (hy / 2 ^ k * gsum (1 + gy / 2 ^ k) (2 ^ k))
                                   0 0 ((1 + gz / 2 ^ k) ^ (2 ^ k)) (hz / 2 ^ k * gsum (1 + gz / 2 ^ k) (2 ^ k))).
  { intro k. unfold A. rewrite hone_plus_aff3, !inv_mul_div. apply hpow3_aff. }
  repeat split.
  - eapply is_lim_seq_ext; [|apply (scalar_scaling_and_squaring_converges gx)]. intro k. now rewrite EA.
  - eapply is_lim_seq_ext; [|apply (scalar_scaling_and_squaring_converges gy)]. intro k. now rewrite EA.
  - eapply is_lim_seq_ext; [|apply (scalar_scaling_and_squaring_converges gz)]. intro k. now rewrite EA.
  - eapply is_lim_seq_ext; [|apply (translation_entry_converges gx hx)]. intro k. now rewrite EA.
  - eapply is_lim_seq_ext; [|apply (translation_entry_converges gy hy)]. intro k. now rewrite EA.
  - eapply is_lim_seq_ext; [|apply (translation_entry_converges gz hz)]. intro k. now rewrite EA.
Qed.

(* the limit is the time-one map of the flow of the velocity field v(x) = g x + h:
   x(t) = e^(g t) x + h t phi1(g t) starts at x and satisfies x'(t) = g x(t) + h for every t *)
Definition axis_flow (g h x t : R) : R := exp (g * t) * x + h * (t * phi1 (g * t)).

Lemma axis_flow_start (g h x : R) : axis_flow g h x 0 = x.
Proof. unfold axis_flow. rewrite Rmult_0_r, exp_0. ring. Qed.

Lemma axis_flow_time_one (g h x : R) : axis_flow g h x 1 = exp g * x + h * phi1 g.
Proof. unfold axis_flow. rewrite !Rmult_1_r, Rmult_1_l. reflexivity. Qed.

Lemma axis_flow_eq (g h x t : R) : g <> 0 -> axis_flow g h x t = exp (g * t) * x + h * ((exp (g * t) - 1) / g).
Proof.
  intro Hg. unfold axis_flow, phi1. destruct (Req_EM_T (g * t) 0) as [E | Hne].
  - rewrite E, exp_0. f_equal. f_equal.
    assert (t = 0) as -> by (destruct (Rmult_integral _ _ E); [contradiction | assumption]). field. exact Hg.
  - f_equal. f_equal. field. split; [exact Hg|]. intro Ht. apply Hne. rewrite Ht. ring.
Qed.

Theorem axis_flow_solves_ode (g h x t : R) :
  is_derive (axis_flow g h x) t (g * axis_flow g h x t + h).
Proof.
  destruct (Req_dec g 0) as [-> | Hg].
  - assert (E : forall s : R, x + h * s = axis_flow 0 h x s).
    { intro s. unfold axis_flow, phi1. rewrite Rmult_0_l. destruct (Req_EM_T 0 0) as [_ | F]; [|contradiction].
      rewrite exp_0. ring. }
    apply (is_derive_ext _ _ _ _ E). rewrite <- E. auto_derive; [exact I|]. ring.
  - assert (E : forall s : R, exp (g * s) * x + h * ((exp (g * s) - 1) / g) = axis_flow g h x s).
    { intro s. symmetry. apply axis_flow_eq. exact Hg. }
    apply (is_derive_ext _ _ _ _ E). rewrite <- E. auto_derive; [exact I|]. field. exact Hg.
Qed.
