(* C17: null space, invariance, analytic values, homogeneity and spacing laws of the regularisers. *)
From Coq Require Import ZArith List Field Ring Lia Bool.
From DV Require Import Base.Field Base.FieldFacts Base.LinAlg Model.Losses Model.RegStencil Model.Regularisers
  Proofs.C16Lists Proofs.C17Stencil Proofs.C17Sobel.
Import ListNotations.
Local Open Scope fld_scope.

Section Loss.
Variable K : fld.
Hypothesis Kf : is_field K.
Hypothesis Kc : char0 K.
Add Field KF : Kf.
Notation img := (idx -> K).
Notation field := (list (idx -> K)).

Let two_nz := two_nz K Kf Kc.

(* a vector field whose components are affine functions: u_c(i) = t_c + sum_d A_cd i_d *)
Definition is_affine_field (v : field) (t : nat -> K) (A : nat -> list K) : Prop :=
  forall c j, comp v c j = aff (t c) (A c) j.
(* agreement of two fields *)
Definition field_sum (w u v : field) : Prop := forall c j, comp w c j = comp u c j + comp v c j.
Definition field_mul (w : field) (s : K) (u : field) : Prop := forall c j, comp w c j = s * comp u c j.

Lemma sumf_ext l (f g : nat -> K) : (forall x, In x l -> f x = g x) -> sumf l f = sumf l g.
Proof. intro H. unfold sumf. f_equal. apply map_ext_in. exact H. Qed.

Lemma sumf_zero l (f : nat -> K) : (forall x, In x l -> f x = 0) -> sumf l f = 0.
Proof.
  intro H. unfold sumf. induction l as [|x l IH]; cbn [map vsum]; [reflexivity|].
  rewrite H by (left; reflexivity). rewrite IH by (intros; apply H; right; assumption). ring.
Qed.

Lemma sumf_scale l s (f : nat -> K) : sumf l (fun x => s * f x) = s * sumf l f.
Proof. unfold sumf. induction l as [|x l IH]; cbn [map vsum]; [ring | rewrite IH; ring]. Qed.

Lemma sumf_const l (v : K) : sumf l (fun _ => v) = of_nat (length l) * v.
Proof.
  unfold sumf. induction l as [|x l IH]; cbn [map vsum length]; [rewrite (of_nat_0 K); ring|].
  rewrite IH, (of_nat_S K Kf). ring.
Qed.

Lemma d2_ext m sh sp d e (f g : img) : (forall j, f j = g j) -> forall i, d2 m sh sp d e f i = d2 m sh sp d e g i.
Proof. intros H i. unfold d2. apply (dstep_ext K). intro j. apply (dstep_ext K). exact H. Qed.

Lemma d1_ext m sh sp d (f g : img) : (forall j, f j = g j) -> forall i, d1 m sh sp d f i = d1 m sh sp d g i.
Proof. intros H i. unfold d1. apply (dstep_ext K). exact H. Qed.

(* ---- null space: bending and curvature of an affine field --------------------------------------- *)
Section Null.
Variables (m : dmode) (sh : list Z) (sp : list K) (v : field) (i : idx).
(* all second derivatives of all components of v vanish at i *)
Definition flat_at : Prop := forall c d e, In c (dims sh) -> In d (dims sh) -> In e (dims sh) -> d2 m sh sp d e (comp v c) i = 0.

Lemma bending_null : flat_at -> bending_pt m sh sp v i = 0.
Proof.
  intro H. unfold bending_pt. apply sumf_zero. intros c Hc. apply sumf_zero. intros d Hd.
  apply sumf_zero. intros e He. destruct (Nat.ltb e d); [reflexivity|].
  rewrite (H c d e Hc Hd He). unfold sq. ring.
Qed.

Lemma curvature_null : flat_at -> curvature_pt m sh sp v i = 0.
Proof.
  intro H. unfold curvature_pt.
  rewrite (sumf_zero (dims sh)); [apply (div_zero_l K Kf)|].
  intros c Hc. rewrite (sumf_zero (dims sh)); [unfold sq; ring|]. intros j Hj. apply H; assumption.
Qed.

(* adding such a field changes neither energy *)
Lemma bending_invariant (u w : field) : field_sum w u v -> flat_at -> bending_pt m sh sp w i = bending_pt m sh sp u i.
Proof.
  intros Hs H. unfold bending_pt. apply sumf_ext. intros c Hc. apply sumf_ext. intros d Hd. apply sumf_ext. intros e He.
  destruct (Nat.ltb e d); [reflexivity|]. f_equal. f_equal.
  rewrite (d2_ext m sh sp d e (comp w c) (fplus (comp u c) (comp v c))) by (intro j; apply Hs).
  rewrite (d2_plus K Kf), (H c d e Hc Hd He). ring.
Qed.

Lemma curvature_invariant (u w : field) : field_sum w u v -> flat_at -> curvature_pt m sh sp w i = curvature_pt m sh sp u i.
Proof.
  intros Hs H. unfold curvature_pt. f_equal. apply sumf_ext. intros c Hc. f_equal. apply sumf_ext. intros j Hj.
  rewrite (d2_ext m sh sp j j (comp w c) (fplus (comp u c) (comp v c))) by (intro k; apply Hs).
  rewrite (d2_plus K Kf), (H c j j Hc Hj Hj). ring.
Qed.
End Null.

Lemma in_dims sh d : In d (dims sh) -> (d < length sh)%nat.
Proof. unfold dims. intro H. apply in_seq in H. lia. Qed.

Definition spacing_ok (sh : list Z) (sp : list K) : Prop := forall d, (d < length sh)%nat -> hs sp d <> 0.

(* every derivative mode: every affine field is flat at every lattice point *)
Lemma affine_flat m sh sp (v : field) t A (i : idx) :
  is_affine_field v t A -> spacing_ok sh sp -> length i = length sh -> flat_at m sh sp v i.
Proof.
  intros Hv Hsp Hl c d e Hc Hd He. apply in_dims in Hd. apply in_dims in He.
  rewrite (d2_ext m sh sp d e (comp v c) (aff (t c) (A c))) by (intro j; apply Hv).
  apply (d2_aff K Kf Kc); [apply Hsp; lia | lia].
Qed.

(* ---- analytic values of the first-order terms on affine fields (every derivative mode) -------------- *)
Section Affine.
Variables (m : dmode) (sh : list Z) (sp : list K) (v : field) (t : nat -> K) (A : nat -> list K) (i : idx).
Hypothesis Hv : is_affine_field v t A.
Hypothesis Hsp : spacing_ok sh sp.
Hypothesis Hl : length i = length sh.

Definition J (c d : nat) : K := nth d (A c) 0 / hs sp d.    (* Jacobian entry d u_c / d x_d *)

Lemma d1_affine c d : In d (dims sh) -> d1 m sh sp d (comp v c) i = J c d.
Proof.
  intro Hd. apply in_dims in Hd.
  rewrite (d1_ext m sh sp d (comp v c) (aff (t c) (A c))) by (intro j; apply Hv).
  apply (d1_aff K Kf Kc); [apply Hsp; lia | lia].
Qed.

Lemma diffusion_affine :
  diffusion_pt m sh sp v i = sumf (dims sh) (fun d => sumf (dims sh) (fun c => sq (J c d))) / (1 + 1).
Proof.
  unfold diffusion_pt. f_equal. apply sumf_ext. intros d Hd. apply sumf_ext. intros c Hc.
  rewrite (d1_affine c d Hd). reflexivity.
Qed.

Lemma tv_affine (fabs : K -> K) :
  tv_pt m sh sp v i fabs = sumf (dims sh) (fun d => sumf (dims sh) (fun c => fabs (J c d))).
Proof.
  unfold tv_pt. apply sumf_ext. intros d Hd. apply sumf_ext. intros c Hc. rewrite (d1_affine c d Hd). reflexivity.
Qed.

Lemma divergence_affine : div_pt m sh sp v i = sq (sumf (dims sh) (fun c => J c c)) / (1 + 1).
Proof.
  unfold div_pt. f_equal. f_equal. apply sumf_ext. intros c Hc. apply (d1_affine c c Hc).
Qed.

Lemma elasticity_affine lambda mu :
  elasticity_pt m sh sp v i lambda mu
  = sq (sumf (dims sh) (fun c => J c c)) * (lambda / (1 + 1))
    + sumf (dims sh) (fun j => sumf (dims sh) (fun k => sq (J j k + J k j) * (mu / ((1 + 1) * (1 + 1))))).
Proof.
  unfold elasticity_pt. f_equal.
  - f_equal. f_equal. apply sumf_ext. intros c Hc. apply (d1_affine c c Hc).
  - apply sumf_ext. intros j Hj. apply sumf_ext. intros k Hk.
    rewrite (d1_affine j k Hk), (d1_affine k j Hj). reflexivity.
Qed.
End Affine.

(* the same values in ANY derivative mode, at any point where the first differences of the field are exact *)
Section ExactD1.
Variables (m : dmode) (sh : list Z) (sp : list K) (v : field) (Jm : nat -> nat -> K) (i : idx).
Hypothesis Hd1 : forall c d, In c (dims sh) -> In d (dims sh) -> d1 m sh sp d (comp v c) i = Jm c d.

Lemma gradient_terms_exact (fabs : K -> K) lambda mu :
  diffusion_pt m sh sp v i = sumf (dims sh) (fun d => sumf (dims sh) (fun c => sq (Jm c d))) / (1 + 1) /\
  tv_pt m sh sp v i fabs = sumf (dims sh) (fun d => sumf (dims sh) (fun c => fabs (Jm c d))) /\
  div_pt m sh sp v i = sq (sumf (dims sh) (fun c => Jm c c)) / (1 + 1) /\
  elasticity_pt m sh sp v i lambda mu
  = sq (sumf (dims sh) (fun c => Jm c c)) * (lambda / (1 + 1))
    + sumf (dims sh) (fun j => sumf (dims sh) (fun k => sq (Jm j k + Jm k j) * (mu / ((1 + 1) * (1 + 1))))).
Proof.
  repeat split.
  - unfold diffusion_pt. f_equal. apply sumf_ext. intros d Hd. apply sumf_ext. intros c Hc. rewrite Hd1 by assumption. reflexivity.
  - unfold tv_pt. apply sumf_ext. intros d Hd. apply sumf_ext. intros c Hc. rewrite Hd1 by assumption. reflexivity.
  - unfold div_pt. f_equal. f_equal. apply sumf_ext. intros c Hc. apply Hd1; assumption.
  - unfold elasticity_pt. f_equal.
    + f_equal. f_equal. apply sumf_ext. intros c Hc. apply Hd1; assumption.
    + apply sumf_ext. intros j Hj. apply sumf_ext. intros k Hk. rewrite !Hd1 by assumption. reflexivity.
Qed.
End ExactD1.

(* translations: all first-order terms vanish *)
Lemma translation_zero m sh sp (v : field) t (i : idx) (fabs : K -> K) lambda mu :
  is_affine_field v t (fun _ => []) -> spacing_ok sh sp -> length i = length sh -> fabs 0 = 0 ->
  diffusion_pt m sh sp v i = 0 /\ tv_pt m sh sp v i fabs = 0 /\ div_pt m sh sp v i = 0 /\
  elasticity_pt m sh sp v i lambda mu = 0.
Proof.
  intros Hv Hsp Hl Hf.
  assert (HJ : forall c d, J sp (fun _ => []) c d = 0).
  { intros c d. unfold J. rewrite (nth_nil_zero K). apply (div_zero_l K Kf). }
  rewrite (diffusion_affine m sh sp v t _ i Hv Hsp Hl), (tv_affine m sh sp v t _ i Hv Hsp Hl),
    (divergence_affine m sh sp v t _ i Hv Hsp Hl), (elasticity_affine m sh sp v t _ i Hv Hsp Hl).
  repeat split.
  - rewrite (sumf_zero (dims sh)); [apply (div_zero_l K Kf)|]. intros d _. apply sumf_zero. intros c _. rewrite HJ. unfold sq. ring.
  - apply sumf_zero. intros d _. apply sumf_zero. intros c _. rewrite HJ. exact Hf.
  - rewrite (sumf_zero (dims sh)); [unfold sq; rewrite (Fdiv_def Kf); ring|]. intros c _. apply HJ.
  - rewrite (sumf_zero (dims sh)) by (intros c _; apply HJ).
    rewrite (sumf_zero (dims sh)); [unfold sq; ring|]. intros j _. apply sumf_zero. intros k _.
    rewrite !HJ. unfold sq. ring.
Qed.

(* ---- quadratic homogeneity ------------------------------------------------------------------------ *)
Section Homog.
Variables (m : dmode) (sh : list Z) (sp : list K) (u w : field) (s : K) (i : idx).
Hypothesis Hw : field_mul w s u.

Lemma d2_mul c d e : d2 m sh sp d e (comp w c) i = s * d2 m sh sp d e (comp u c) i.
Proof.
  rewrite (d2_ext m sh sp d e (comp w c) (fscale s (comp u c))) by (intro j; apply Hw).
  apply (d2_scale K Kf).
Qed.
Lemma d1_mul c d : d1 m sh sp d (comp w c) i = s * d1 m sh sp d (comp u c) i.
Proof.
  rewrite (d1_ext m sh sp d (comp w c) (fscale s (comp u c))) by (intro j; apply Hw).
  apply (d1_scale K Kf).
Qed.

Lemma bending_quadratic : bending_pt m sh sp w i = s * s * bending_pt m sh sp u i.
Proof.
  unfold bending_pt. rewrite <- sumf_scale. apply sumf_ext. intros c _.
  rewrite <- sumf_scale. apply sumf_ext. intros d _. rewrite <- sumf_scale. apply sumf_ext. intros e _.
  destruct (Nat.ltb e d); [ring|]. rewrite d2_mul. unfold sq. ring.
Qed.

Lemma curvature_quadratic : curvature_pt m sh sp w i = s * s * curvature_pt m sh sp u i.
Proof.
  unfold curvature_pt.
  rewrite (sumf_ext (dims sh) _ (fun c => (s * s) * sq (sumf (dims sh) (fun j => d2 m sh sp j j (comp u c) i)))).
  - rewrite sumf_scale, !(Fdiv_def Kf). ring.
  - intros c _. rewrite (sumf_ext (dims sh) _ (fun j => s * d2 m sh sp j j (comp u c) i)) by (intros; apply d2_mul).
    rewrite sumf_scale. unfold sq. ring.
Qed.

Lemma diffusion_quadratic : diffusion_pt m sh sp w i = s * s * diffusion_pt m sh sp u i.
Proof.
  unfold diffusion_pt.
  rewrite (sumf_ext (dims sh) _ (fun d => (s * s) * sumf (dims sh) (fun c => sq (d1 m sh sp d (comp u c) i)))).
  - rewrite sumf_scale, !(Fdiv_def Kf). ring.
  - intros d _. rewrite <- sumf_scale. apply sumf_ext. intros c _. rewrite d1_mul. unfold sq. ring.
Qed.

Lemma divergence_quadratic : div_pt m sh sp w i = s * s * div_pt m sh sp u i.
Proof.
  unfold div_pt.
  assert (E1 : sumf (dims sh) (fun c => d1 m sh sp c (comp w c) i)
               = s * sumf (dims sh) (fun c => d1 m sh sp c (comp u c) i)).
  { rewrite <- sumf_scale. apply sumf_ext. intros; apply d1_mul. }
  rewrite E1, !(Fdiv_def Kf). unfold sq. ring.
Qed.

Lemma elasticity_quadratic lambda mu :
  elasticity_pt m sh sp w i lambda mu = s * s * elasticity_pt m sh sp u i lambda mu.
Proof.
  unfold elasticity_pt.
  assert (E1 : sumf (dims sh) (fun c => d1 m sh sp c (comp w c) i)
               = s * sumf (dims sh) (fun c => d1 m sh sp c (comp u c) i)).
  { rewrite <- sumf_scale. apply sumf_ext. intros; apply d1_mul. }
  assert (E2 : sumf (dims sh) (fun j => sumf (dims sh) (fun k =>
                 sq (d1 m sh sp k (comp w j) i + d1 m sh sp j (comp w k) i) * (mu / ((1 + 1) * (1 + 1)))))
               = s * s * sumf (dims sh) (fun j => sumf (dims sh) (fun k =>
                 sq (d1 m sh sp k (comp u j) i + d1 m sh sp j (comp u k) i) * (mu / ((1 + 1) * (1 + 1)))))).
  { rewrite <- sumf_scale. apply sumf_ext. intros j _. rewrite <- sumf_scale. apply sumf_ext. intros k _.
    rewrite !d1_mul. unfold sq. ring. }
  rewrite E1, E2. unfold sq. ring.
Qed.
End Homog.

(* ---- spacing: multiplying every spacing by k divides first derivatives by k, second by k^2 -------- *)
Section Spacing.
Variables (m : dmode) (sh : list Z) (sp : list K) (k : K).
Hypothesis Hk : k <> 0.
Hypothesis Hsp : forall d, hs sp d <> 0.
Let sp' := map (fun h => h * k) sp.

Lemma hs_scaled d : (d < length sp)%nat -> hs sp' d = hs sp d * k.
Proof.
  intro H. unfold hs, sp'. rewrite (nth_indep _ 0 (0 * k)) by (rewrite map_length; exact H).
  apply (map_nth (fun h => h * k)).
Qed.

Lemma dstep_spacing h d (f : img) i : h <> 0 -> dstep m sh (h * k) d f i = dstep m sh h d f i / k.
Proof. intro Hh. destruct m; cbn [dstep]; apply (fd_spacing K Kf Kc); assumption. Qed.

Lemma d1_spacing d (f : img) i : (d < length sp)%nat -> d1 m sh sp' d f i = d1 m sh sp d f i / k.
Proof. intro H. unfold d1. rewrite (hs_scaled d H). apply dstep_spacing. apply Hsp. Qed.

Lemma d2_spacing d e (f : img) i : (d < length sp)%nat -> (e < length sp)%nat ->
  d2 m sh sp' d e f i = d2 m sh sp d e f i / (k * k).
Proof.
  intros Hd He. unfold d2. rewrite !hs_scaled by lia.
  rewrite dstep_spacing by apply Hsp.
  rewrite (dstep_ext K m sh (hs sp (Nat.max d e)) (Nat.max d e) _
             (fscale (1 / k) (dstep m sh (hs sp (Nat.min d e)) (Nat.min d e) f))).
  - rewrite (dstep_scale K Kf). field. exact Hk.
  - intro j. rewrite dstep_spacing by apply Hsp. unfold fscale. field. exact Hk.
Qed.

Lemma bending_spacing (u : field) i : length sp = length sh ->
  bending_pt m sh sp' u i = bending_pt m sh sp u i / (k * k * (k * k)).
Proof.
  intro HL. unfold bending_pt.
  rewrite (sumf_ext (dims sh) _ (fun c => (1 / (k * k * (k * k))) * sumf (dims sh) (fun d => sumf (dims sh) (fun e =>
    if Nat.ltb e d then 0 else (if Nat.eqb d e then 1 else 1 + 1) * sq (d2 m sh sp d e (comp u c) i))))).
  - rewrite sumf_scale. field. exact Hk.
  - intros c _. rewrite <- sumf_scale. apply sumf_ext. intros d Hd. rewrite <- sumf_scale. apply sumf_ext. intros e He.
    apply in_dims in Hd. apply in_dims in He.
    destruct (Nat.ltb e d); [ring|]. rewrite d2_spacing by lia. unfold sq. field. exact Hk.
Qed.

Lemma diffusion_spacing (u : field) i : length sp = length sh ->
  diffusion_pt m sh sp' u i = diffusion_pt m sh sp u i / (k * k).
Proof.
  intro HL. unfold diffusion_pt.
  rewrite (sumf_ext (dims sh) _ (fun d => (1 / (k * k)) * sumf (dims sh) (fun c => sq (d1 m sh sp d (comp u c) i)))).
  - rewrite sumf_scale. field; repeat split; first [exact Hk | exact two_nz].
  - intros d Hd. apply in_dims in Hd. rewrite <- sumf_scale. apply sumf_ext. intros c _.
    rewrite d1_spacing by lia. unfold sq. field. exact Hk.
Qed.
End Spacing.

(* ---- reductions ------------------------------------------------------------------------------------ *)
Lemma reg_reductions sh (f : idx -> K) :
  reg_loss RNone sh f = over_box sh f /\
  reg_loss RSum sh f = [vsum (over_box sh f)] /\
  reg_loss RMean sh f = [vsum (over_box sh f) / of_nat (length (over_box sh f))].
Proof. repeat split. Qed.

Lemma vsum_map_const' {A : Type} (l : list A) (v : K) : vsum (map (fun _ => v) l) = of_nat (length l) * v.
Proof.
  induction l as [|x l IH]; cbn [map vsum length]; [rewrite (of_nat_0 K); ring|].
  rewrite IH, (of_nat_S K Kf). ring.
Qed.

(* a loss that takes the value v at every lattice point has mean v *)
Lemma reg_mean_const sh (f : idx -> K) v :
  (forall i, In i (box sh) -> f i = v) -> box sh <> [] -> reg_loss RMean sh f = [v].
Proof.
  intros H Hne. unfold reg_loss, over_box. cbn [reduce_loss]. unfold vmean. f_equal.
  rewrite map_length. rewrite (map_ext_in f (fun _ => v)) by exact H.
  rewrite (vsum_map_const' (box sh) v). field.
  apply (of_nat_nz K Kf Kc). destruct (box sh); [contradiction | discriminate].
Qed.

End Loss.
