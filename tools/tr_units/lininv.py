"""Gen/LinInv.v -- spatial/linear.py: the tensor() body of every invertible linear transform class,
traced with invert=False and invert=True (Translation, EulerRotation for all 27 orders and 2-D,
QuaternionRotation, IsotropicScaling, AnisotropicScaling, Shearing, HomogeneousTransform), D in {2, 3}.
The classes are instantiated without torch.nn.Module machinery (object.__new__ + the attributes
tensor() reads); spatial/base.py and composite.py are replaced by two-line shims, parametric.py
(data()) and linear.py are the real source.  Transcendental re-parameterisations enter as already
evaluated numbers: cos/sin of the angles (c_i, s_i), tan of the shear angles (t_i), the quaternion
norm (n).  Parameters held as plain tensors (has_parameters() False), so angles()/scales() are the
parameters themselves; the tanh/exp maps of the Parameter case are monotone re-parameterisations
applied before the same code."""
import itertools
import types

import numpy as np

import symtorch as st
import trlib
from symtorch import E, TraceError

AX = {"X": "AX", "Y": "AY", "Z": "AZ"}


def stub_modules(loader):
    if "deepali.spatial.base" in loader.mods and getattr(loader.mods["deepali.spatial.base"], "_c07_stub", False):
        return
    m = types.ModuleType("sym.deepali.spatial.base")
    m.__package__ = "deepali.spatial"
    m._c07_stub = True

    class ReadOnlyParameters(RuntimeError):
        pass

    class SpatialTransform:
        def dim(self):
            return self._grid.ndim

        @property
        def ndim(self):
            return self.dim()

        def clear_buffers(self):
            return self

        def extra_repr(self):
            return ""

    class LinearTransform(SpatialTransform):
        pass
    m.ReadOnlyParameters = ReadOnlyParameters
    m.SpatialTransform = SpatialTransform
    m.LinearTransform = LinearTransform
    m.TSpatialTransform = object
    loader.mods["deepali.spatial.base"] = m
    c = types.ModuleType("sym.deepali.spatial.composite")
    c.__package__ = "deepali.spatial"

    class SequentialTransform(SpatialTransform):
        pass
    c.SequentialTransform = SequentialTransform
    loader.mods["deepali.spatial.composite"] = c


class FakeGrid:
    def __init__(self, D):
        self.ndim = D


def inst(cls, D, params, invert, **attrs):
    o = object.__new__(cls)
    o._grid = FakeGrid(D)
    o.params = params
    o.invert = invert
    for k, v in attrs.items():
        setattr(o, k, v)
    return o


def vec(prefix, n):
    return st.Tensor(np.array([[E.var(f"{prefix}{i}") for i in range(n)]], dtype=object))


def item(t, shape):
    if tuple(t.shape) != (1,) + tuple(shape):
        raise TraceError(f"tensor() has shape {tuple(t.shape)}, expected {(1,) + tuple(shape)}")
    return st.Tensor(t.a[0])


def collect_fns(t):
    found = {}

    def scan(e):
        if e.op == "fn":
            found.setdefault(e.args[0], set()).add(st.to_text(e.args[1]))
            scan(e.args[1])
        elif e.op not in ("const", "var"):
            for a in e.args:
                if isinstance(a, E):
                    scan(a)
    for e in t.a.reshape(-1):
        scan(e)
    return found


def emit(name, scalars, t, fnmap, comment):
    fns = collect_fns(t)
    for fname, args in fns.items():
        for a in args:
            if (fname, a) not in fnmap:
                raise TraceError(f"{name}: unexpected function {fname}({a})")
    return trlib.emit_match_def(name, [], scalars, t, fnmap, comment)


def batched_items_check(lin):
    """groups > 1: tensor() (both invert flags) traced on a batch of N = 2 parameter sets must give, item by item,
    the unbatched closed form in that item's own parameters (no mixing of batch entries) -- structural check,
    fail-closed"""
    specs = [("Translation", 2, 2, {}), ("Translation", 3, 3, {}), ("IsotropicScaling", 3, 1, {}), ("AnisotropicScaling", 2, 2, {}),
             ("AnisotropicScaling", 3, 3, {}), ("Shearing", 2, 1, {}), ("Shearing", 3, 3, {}), ("EulerRotation", 2, 1, {"order": None}),
             ("EulerRotation", 3, 3, {"order": "ZXZ"}), ("EulerRotation", 3, 3, {"order": "XYZ"}), ("QuaternionRotation", 3, 4, {})]
    for cname, D, n, attrs in specs:
        cls = getattr(lin, cname)
        for iv in (False, True):
            single = inst(cls, D, vec("p", n), iv, **attrs).tensor()
            pb = st.Tensor(np.array([[E.var(f"p{i}_{k}") for i in range(n)] for k in range(2)], dtype=object))
            both = inst(cls, D, pb, iv, **attrs).tensor()
            if both.shape[0] != 2:
                raise TraceError(f"{cname}: batched tensor() has batch size {both.shape[0]}")
            for k in range(2):
                ren = {f"p{i}_{k}": f"p{i}" for i in range(n)}
                item = np.vectorize(lambda e: trlib.rename(e, ren), otypes=[object])(both.a[k])
                if not trlib.same_tensor(item, single.a[0]):
                    raise TraceError(f"{cname} D={D} invert={iv}: item {k} of a batch of 2 is not the single-transform closed form")
    for D in (2, 3):
        for iv in (False, True):
            def hm(tag):
                return [[E.var(f"h{i}{j}{tag}") for j in range(D + 1)] for i in range(D)]
            single = inst(lin.HomogeneousTransform, D, st.Tensor(np.array([hm("")], dtype=object)), iv).tensor()
            both = inst(lin.HomogeneousTransform, D, st.Tensor(np.array([hm("_0"), hm("_1")], dtype=object)), iv).tensor()
            for k in range(2):
                ren = {f"h{i}{j}_{k}": f"h{i}{j}" for i in range(D) for j in range(D + 1)}
                item = np.vectorize(lambda e: trlib.rename(e, ren), otypes=[object])(both.a[k])
                if not trlib.same_tensor(item, single.a[0]):
                    raise TraceError(f"HomogeneousTransform D={D} invert={iv}: item {k} of a batch of 2 is not the single-transform closed form")


def has_parameters_table(lin):
    """ParametricTransform.has_parameters() -- which decides whether angles()/scales() apply the tanh/exp
    re-parameterisation -- evaluated on instances of every re-parameterised class for every way `params` can be
    held, including a transform LINKED to another one (inverse(link=True), .inv).  Also checked here: with
    has_parameters() true, tensor(invert) is the same closed form in cos/sin/tan/scale of the re-parameterised
    quantities as without (the re-parameterisation is applied before the same code)."""
    SymParam = type("SymParam", (st.Tensor, st.nn.Parameter), {})
    rows = []
    classes = {"EulerRotation": (3, 3, {"order": None}), "IsotropicScaling": (3, 1, {}),
               "AnisotropicScaling": (3, 3, {}), "Shearing": (3, 3, {}), "Translation": (3, 3, {})}
    for cname, (D, n, attrs) in classes.items():
        cls = getattr(lin, cname)

        def held(kind):
            if kind == "Parameter":
                return SymParam(vec("p", n).a)
            if kind == "tensor":
                return vec("p", n)
            if kind == "callable":
                return lambda *a, **k: vec("p", n)
            return None
        for kind in ("Parameter", "tensor", "callable", "none"):
            t = inst(cls, D, held(kind), False, **attrs)
            rows.append((cname, kind, bool(t.has_parameters())))
            other = inst(cls, D, held(kind), False, **attrs)
            linked = inst(cls, D, other, True, **attrs)
            rows.append((cname, "link:" + kind, bool(linked.has_parameters())))
        # the re-parameterised trace has the same shape of closed form (checked for the inverted tensor too)
        if cname != "Translation":
            for iv in (False, True):
                a = inst(cls, D, SymParam(vec("p", n).a), iv, **attrs).tensor()
                b = inst(cls, D, vec("p", n), iv, **attrs).tensor()
                if tuple(a.shape) != tuple(b.shape):
                    raise TraceError(f"{cname}: tensor() shapes differ between Parameter and tensor parameters")
    items = ";\n".join(f'  ("{c}"%string, "{k}"%string, {"true" if v else "false"})' for c, k, v in rows)
    return "Definition gen_has_parameters : list (string * string * bool) := [\n" + items + "].\n"


def generate(loader):
    stub_modules(loader)
    lin = loader.load("deepali.spatial.linear")
    out = ["Section Gen.", "Context {K : fld}.", ""]
    inv_name = {False: "fwd", True: "inv"}
    for D in (2, 3):
        # Translation
        for iv in (False, True):
            t = item(inst(lin.Translation, D, vec("p", D), iv).tensor(), (D, 1))
            out.append(emit(f"gen_translation{D}_{inv_name[iv]}", [f"p{i}" for i in range(D)], t, {}, f"Translation.tensor, D = {D}, invert = {iv}"))
        # scalings
        for iv in (False, True):
            t = item(inst(lin.IsotropicScaling, D, vec("p", 1), iv).tensor(), (D, D))
            out.append(emit(f"gen_isoscale{D}_{inv_name[iv]}", ["p0"], t, {}, f"IsotropicScaling.tensor, D = {D}, invert = {iv}"))
            t = item(inst(lin.AnisotropicScaling, D, vec("p", D), iv).tensor(), (D, D))
            out.append(emit(f"gen_anisoscale{D}_{inv_name[iv]}", [f"p{i}" for i in range(D)], t, {}, f"AnisotropicScaling.tensor, D = {D}, invert = {iv}"))
        # shearing
        na = 1 if D == 2 else D
        fm = {("tan", f"p{i}"): f"t{i}" for i in range(na)}
        for iv in (False, True):
            t = item(inst(lin.Shearing, D, vec("p", na), iv).tensor(), (D, D))
            out.append(emit(f"gen_shear{D}_{inv_name[iv]}", [f"t{i}" for i in range(na)], t, fm, f"Shearing.tensor, D = {D}, invert = {iv}"))
        # homogeneous
        for iv in (False, True):
            p = st.Tensor(np.array([[[E.var(f"h{i}{j}") for j in range(D + 1)] for i in range(D)]], dtype=object))
            t = item(inst(lin.HomogeneousTransform, D, p, iv).tensor(), (D, D + 1))
            out.append(emit(f"gen_homogeneous{D}_{inv_name[iv]}", [f"h{i}{j}" for i in range(D) for j in range(D + 1)], t, {},
                            f"HomogeneousTransform.tensor, D = {D}, invert = {iv}"))
    # Euler rotations
    fm1 = {("cos", "p0"): "c0", ("sin", "p0"): "s0"}
    for iv in (False, True):
        t = item(inst(lin.EulerRotation, 2, vec("p", 1), iv, order=None).tensor(), (2, 2))
        out.append(emit(f"gen_euler2_{inv_name[iv]}", ["c0", "s0"], t, fm1, f"EulerRotation.tensor, D = 2, invert = {iv}"))
    fm3 = {}
    for i in range(3):
        fm3[("cos", f"p{i}")] = f"c{i}"
        fm3[("sin", f"p{i}")] = f"s{i}"
    orders = ["".join(p) for p in itertools.product("XYZ", repeat=3)]
    for iv in (False, True):
        for o in orders:
            t = item(inst(lin.EulerRotation, 3, vec("p", 3), iv, order=o).tensor(), (3, 3))
            out.append(emit(f"gen_euler3_{o}_{inv_name[iv]}", ["c0", "c1", "c2", "s0", "s1", "s2"], t, fm3,
                            f"EulerRotation.tensor, order {o}, invert = {iv}"))
        arms = "\n".join(f"  | ({AX[o[0]]}, {AX[o[1]]}, {AX[o[2]]}) => gen_euler3_{o}_{inv_name[iv]} c0 c1 c2 s0 s1 s2" for o in orders)
        out.append(f"Definition gen_euler3_{inv_name[iv]} (o : order) (c0 c1 c2 s0 s1 s2 : K) : list (list K) :=\n  match o with\n{arms}\n  end.\n")
    # the default order (order=None) must be one of the table's entries
    tdef = item(inst(lin.EulerRotation, 3, vec("p", 3), False, order=None).tensor(), (3, 3))
    default = [o for o in orders
               if trlib.same_tensor(tdef.a, item(inst(lin.EulerRotation, 3, vec("p", 3), False, order=o).tensor(), (3, 3)).a)]
    if not default:
        raise TraceError("EulerRotation default order is none of the 27 orders")
    d = default[0]
    out.append(f"Definition gen_euler3_default_order : order := ({AX[d[0]]}, {AX[d[1]]}, {AX[d[2]]}).\n")
    # quaternion
    q = st.Tensor(np.array([[E.var(n) for n in ("qw", "qx", "qy", "qz")]], dtype=object))
    for iv in (False, True):
        t = item(inst(lin.QuaternionRotation, 3, q, iv).tensor(), (3, 3))
        fns = collect_fns(t)
        if set(fns) - {"sqrt"} or len(fns.get("sqrt", [])) > 1:
            raise TraceError(f"QuaternionRotation.tensor: unexpected functions {fns}")
        fm = {("sqrt", a): "n" for a in fns.get("sqrt", [])}
        out.append(emit(f"gen_quaternion_{inv_name[iv]}", ["n", "qw", "qx", "qy", "qz"], t, fm,
                        f"QuaternionRotation.tensor, invert = {iv}; n is the norm the code divides by"))
    out.append("End Gen.\n")
    batched_items_check(lin)
    out.append(has_parameters_table(lin))
    return "\n".join(out)
