(* C08 -- Homogeneous-transform and rotation algebra is exact for every operand form.
   Statements only; every proof is `exact <lemma>`.  K ranges over all fields (instances used:
   R for meaning, Qc for running the model). *)
From Coq Require Import ZArith QArith List String Reals.
From DV Require Import Base.Field Base.LinAlg Base.RInst Base.QcInst Model.Enums Model.Homog Model.Rotation
  Gen.Hmm Gen.Euler Gen.Quat Gen.LinParams Proofs.C08Hmm Proofs.C08Euler Proofs.C08Quat Proofs.C08Params.
Import ListNotations.
Local Open Scope fld_scope.

(* 1. composing operands of any two forms = applying them one after the other (D = 2, 3; all 9 pairs) *)
Theorem C08_hmm_compose :
  forall (K : fld), is_field K ->
  forall (D : nat) (fa fb : form) (a b : nat -> nat -> K) (x : nat -> K),
  D = 2%nat \/ D = 3%nat ->
  let A := tab D (fcols D fa) a in
  let B := tab D (fcols D fb) b in
  let X := vtab D x in
  form_apply D (gen_hmm_form fa fb) (gen_hmm D fa fb A B) X
  = form_apply D fa A (form_apply D fb B X).
Proof. exact hmm_compose. Qed.
Print Assumptions C08_hmm_compose.

(* tab enumerates every well-shaped operand, so the quantification above is over all matrices *)
Theorem C08_tab_all :
  forall (K : fld) (r c : nat) (m : list (list K)),
  mshape r c m -> m = tab r c (fun i j => nth j (nth i m []) 0).
Proof. exact tab_all. Qed.
Print Assumptions C08_tab_all.

(* 2. converting any form to a full D x (D+1) matrix does not change the map *)
Theorem C08_as_homogeneous_same_map :
  forall (K : fld), is_field K ->
  forall (D : nat) (f : form) (a : nat -> nat -> K) (x : nat -> K),
  D = 2%nat \/ D = 3%nat ->
  let A := tab D (fcols D f) a in
  let X := vtab D x in
  happly D (gen_ashom D f A) X = form_apply D f A X
  /\ hvec D (gen_ashom D f A) X = form_vec D f A X
  /\ mshape D (S D) (gen_ashom D f A).
Proof. exact ashom_same_map. Qed.
Print Assumptions C08_as_homogeneous_same_map.

(* 3. applying to points is the affine map; applying to vectors is exactly its linear part *)
Theorem C08_apply :
  forall (K : fld), is_field K ->
  forall (D : nat) (f : form) (a : nat -> nat -> K) (x : nat -> K),
  D = 2%nat \/ D = 3%nat ->
  let A := tab D (fcols D f) a in
  let X := vtab D x in
  gen_apply D f false A X = form_apply D f A X /\ gen_apply D f true A X = form_vec D f A X.
Proof. exact apply_is_map. Qed.
Print Assumptions C08_apply.

Theorem C08_vectors_ignore_exactly_translation :
  forall (K : fld), is_field K ->
  forall (D : nat) (f : form) (a : nat -> nat -> K) (x v : nat -> K),
  D = 2%nat \/ D = 3%nat ->
  let A := tab D (fcols D f) a in
  vsub (form_apply D f A (vadd (vtab D x) (vtab D v))) (form_apply D f A (vtab D x))
  = form_vec D f A (vtab D v).
Proof. exact vec_is_linear_part. Qed.
Print Assumptions C08_vectors_ignore_exactly_translation.

(* 4. Euler matrices: every order (closed forms and generic fallback) is the product of the
      elementary rotations in the stated order, and a proper rotation *)
Theorem C08_euler_is_product :
  forall (K : fld), is_field K ->
  forall (o : order) (c0 c1 c2 s0 s1 s2 : K),
  gen_euler o c0 c1 c2 s0 s1 s2 = euler_spec o c0 c1 c2 s0 s1 s2.
Proof. exact gen_euler_is_product. Qed.
Print Assumptions C08_euler_is_product.

Theorem C08_euler_is_rotation :
  forall (K : fld), is_field K ->
  forall (o : order) (c0 c1 c2 s0 s1 s2 : K),
  c0 * c0 + s0 * s0 = 1 -> c1 * c1 + s1 * s1 = 1 -> c2 * c2 + s2 * s2 = 1 ->
  is_rotation 3 (gen_euler o c0 c1 c2 s0 s1 s2).
Proof. exact gen_euler_is_rotation. Qed.
Print Assumptions C08_euler_is_rotation.

Theorem C08_euler2d_is_rotation :
  forall (K : fld), is_field K ->
  forall (c s : K), c * c + s * s = 1 ->
  gen_euler2d c s = rot2 c s /\ is_rotation 2 (gen_euler2d c s).
Proof. intros K Kf c s H. split; [exact (gen_euler2d_is_rot2 K c s) | exact (rot2_is_rotation K Kf c s H)]. Qed.
Print Assumptions C08_euler2d_is_rotation.

(* the same at the reals, for all angles *)
Theorem C08_euler_real_angles :
  forall (o : order) (a0 a1 a2 : R),
  let M := gen_euler (K:=RF) o (cos a0) (cos a1) (cos a2) (sin a0) (sin a1) (sin a2) in
  M = euler_spec (K:=RF) o (cos a0) (cos a1) (cos a2) (sin a0) (sin a1) (sin a2) /\ is_rotation 3 M.
Proof. exact euler_real_angles. Qed.
Print Assumptions C08_euler_real_angles.

(* order strings: all 27 orders x 4 notations are normalised to the order they denote *)
Theorem C08_order_notation : order_table_complete gen_order_table = true.
Proof. exact order_table_ok. Qed.
Print Assumptions C08_order_notation.

(* 5. angle extraction (algebraic half of the round trip; quadrant logic of atan2/acos is numeric) *)
Theorem C08_angles_recover :
  forall (K : fld), is_field K ->
  forall (o : order) (c0 c1 c2 s0 s1 s2 : K) l,
  gen_angles o (gen_euler o c0 c1 c2 s0 s1 s2) = Some l -> l = angles_spec c0 c1 c2 s0 s1 s2.
Proof. exact angles_recover. Qed.
Print Assumptions C08_angles_recover.

Theorem C08_angle2d_recover :
  forall (K : fld) (c s : K), gen_angles2d (gen_euler2d c s) = angle2d_spec c s.
Proof. exact angle2d_recover. Qed.
Print Assumptions C08_angle2d_recover.

(* 6. quaternions (w, x, y, z): R(q) is a proper rotation for q <> 0, R(q) = R(-q) = R(kq),
      and the identity quaternion gives the identity matrix *)
Theorem C08_quaternion_rotation :
  forall (K : fld), is_field K ->
  forall (n w x y z : K), n <> 0 -> n * n = gen_quat_norm2 w x y z ->
  is_rotation 3 (gen_quat_matrix n w x y z).
Proof. exact quat_rotation. Qed.
Print Assumptions C08_quaternion_rotation.

Theorem C08_quaternion_sign_scale :
  forall (K : fld), is_field K ->
  forall (k n w x y z : K), k <> 0 -> n <> 0 ->
  gen_quat_matrix n (- w) (- x) (- y) (- z) = gen_quat_matrix n w x y z /\
  gen_quat_matrix (k * n) (k * w) (k * x) (k * y) (k * z) = gen_quat_matrix n w x y z.
Proof. intros K Kf k n w x y z Hk Hn. split; [exact (quat_sign K Kf n w x y z) | exact (quat_scale K Kf k n w x y z Hk Hn)]. Qed.
Print Assumptions C08_quaternion_sign_scale.

Theorem C08_quaternion_identity :
  forall (K : fld), is_field K -> gen_quat_matrix (K:=K) 1 1 0 0 0 = eye 3.
Proof. exact quat_identity. Qed.
Print Assumptions C08_quaternion_identity.

(* 7. matrix -> quaternion: every branch of rotation_matrix_to_quaternion returns +-(w,x,y,z) for the unit
      quaternion of its input (numerators 4 p (w,x,y,z), square-root argument 4 p^2 with p the branch's pivot
      component; eps = 0) -- which branch is taken and the eps-regularised square root are numeric *)
Theorem C08_matrix_to_quaternion_branches :
  forall (K : fld), is_field K ->
  forall (w x y z : K), w * w + x * x + y * y + z * z = 1 ->
  let M := unit_quat_matrix K w x y z in
  gen_m2q_num_0 0 M = m2q_spec K w w x y z /\ gen_m2q_arg_0 0 M = (1+1)*(1+1) * w * w /\
  gen_m2q_num_1 0 M = m2q_spec K x w x y z /\ gen_m2q_arg_1 0 M = (1+1)*(1+1) * x * x /\
  gen_m2q_num_2 0 M = m2q_spec K y w x y z /\ gen_m2q_arg_2 0 M = (1+1)*(1+1) * y * y /\
  gen_m2q_num_3 0 M = m2q_spec K z w x y z /\ gen_m2q_arg_3 0 M = (1+1)*(1+1) * z * z /\
  (gen_m2q_pivot_0, gen_m2q_pivot_1, gen_m2q_pivot_2, gen_m2q_pivot_3) = (0, 1, 2, 3)%nat.
Proof. exact m2q_branches_sound. Qed.
Print Assumptions C08_matrix_to_quaternion_branches.

Theorem C08_unit_quaternion_matrix_is_generated_one :
  forall (K : fld), is_field K ->
  forall (n w x y z : K), n <> 0 ->
  gen_quat_matrix n w x y z = unit_quat_matrix K (w / n) (x / n) (y / n) (z / n).
Proof. exact quat_matrix_unit. Qed.
Print Assumptions C08_unit_quaternion_matrix_is_generated_one.

(* the transform classes' getters/setters go through the functional code WITH THEIR OWN order: on this run the
   translator checked, on symbolic traces of spatial/linear.py, that EulerRotation(order=o).tensor() is
   euler_rotation_matrix(angles, order=o) (transposed when inverted) for 2-D, the default and all 27 orders, that
   EulerRotation(order=o).matrix_(R) sets euler_rotation_angles(R, order=o) for every supported order, and that
   QuaternionRotation.matrix_(R) sets rotation_matrix_to_quaternion(R); with C08_euler_is_product,
   C08_angles_recover and C08_matrix_to_quaternion_branches this gives the setter/getter round trips *)
Theorem C08_transform_classes_use_their_order :
  cls_tensor_complete = true /\ cls_setter_complete = true /\ gen_cls_quaternion_setter_ok = true /\
  cls_fixed_complete = true (* scales_/angles_ and scales/angles are the identity on fixed (non-Parameter) parameters *).
Proof. exact cls_params_ok. Qed.
Print Assumptions C08_transform_classes_use_their_order.

(* non-vacuity: the hypotheses are satisfiable by non-trivial values *)
Example C08_nonvacuous :
  let c : QcF := q 3 5 in let s : QcF := q 4 5 in
  qeqb (c * c + s * s)%F (@f1 QcF) = true /\
  mclose 0%Q (gen_euler (K:=QcF) (AZ, AX, AZ) c c c s s s) (eye (K:=QcF) 3) = false /\
  qeqb ((q 3 1 : QcF) * q 3 1)%F (gen_quat_norm2 (K:=QcF) (q 1 1) (q 2 1) (q 2 1) (q 0 1)) = true.
Proof. vm_compute. repeat split. Qed.
