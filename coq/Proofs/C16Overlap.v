(* C16: Dice and Tversky overlap measures (every field of characteristic 0). *)
From Coq Require Import ZArith List Field Ring Lia Bool.
From DV Require Import Base.Field Base.FieldFacts Base.LinAlg Model.Losses Proofs.C16Lists.
Import ListNotations.
Local Open Scope fld_scope.

Section Overlap.
Variable K : fld.
Hypothesis Kf : is_field K.
Add Field KF : Kf.
Notation vec := (list K).

Lemma dotw_comm (a b : vec) w : dotw a b w = dotw b a w.
Proof. destruct w; cbn [dotw]; [rewrite (vmul_comm K Kf a b) | rewrite (dot_comm K Kf a b)]; reflexivity. Qed.

Lemma dice_symmetric (eps : K) (p t : vec) w : dice_score eps p t w = dice_score eps t p w.
Proof.
  unfold dice_score. rewrite (dotw_comm p t).
  replace (dotw t t w + dotw p p w) with (dotw p p w + dotw t t w) by ring. reflexivity.
Qed.

Lemma dice_identical (eps : K) (x : vec) w :
  dotw x x w + dotw x x w + eps <> 0 -> dice_score eps x x w = 1.
Proof. intro H. unfold dice_score. field. exact H. Qed.

(* exchanging the roles of prediction and target exchanges alpha and beta *)
Lemma tversky_swap (alpha beta eps : K) (p t : vec) w :
  tversky_index alpha beta eps p t w = tversky_index beta alpha eps t p w.
Proof.
  unfold tversky_index. cbv zeta.
  rewrite (dotw_comm p t), (dotw_comm p (ones_minus t)), (dotw_comm (ones_minus p) t).
  f_equal. ring.
Qed.

Lemma tversky_symmetric (alpha eps : K) (p t : vec) w :
  tversky_index alpha alpha eps p t w = tversky_index alpha alpha eps t p w.
Proof. apply tversky_swap. Qed.

(* binary inputs: false positives / negatives in terms of the three dot products *)
Lemma binary_fp_none (p t : vec) :
  binary p -> length p = length t ->
  dotw p (ones_minus t) None = dotw p p None - dotw p t None.
Proof.
  cbn [dotw]. unfold dot, vmul, ones_minus. intro Hp. revert t.
  induction Hp as [|x p Hx _ IH]; intros [|y t] H; cbn in H; try discriminate; cbn [map vmap2 vsum]; [ring|].
  rewrite IH by lia. destruct Hx; subst; ring.
Qed.

Lemma binary_fp_some (p t m : vec) :
  binary p -> length p = length t -> length p = length m ->
  dotw p (ones_minus t) (Some m) = dotw p p (Some m) - dotw p t (Some m).
Proof.
  cbn [dotw]. unfold vmul, ones_minus. intro Hp. revert t m.
  induction Hp as [|x p Hx _ IH]; intros [|y t] [|v m] H H'; cbn in H, H'; try discriminate;
    cbn [map vmap2 vsum]; [ring|].
  rewrite IH by lia. destruct Hx; subst; ring.
Qed.

Definition wlen_ok (p : vec) (w : option vec) : Prop :=
  match w with None => True | Some m => length p = length m end.

Lemma binary_fp (p t : vec) w :
  binary p -> length p = length t -> wlen_ok p w ->
  dotw p (ones_minus t) w = dotw p p w - dotw p t w.
Proof. destruct w; cbn [wlen_ok]; intros; [apply binary_fp_some | apply binary_fp_none]; assumption. Qed.

Lemma binary_fn (p t : vec) w :
  binary t -> length p = length t -> wlen_ok p w ->
  dotw (ones_minus p) t w = dotw t t w - dotw p t w.
Proof.
  intros Ht H Hw. rewrite (dotw_comm (ones_minus p) t), (dotw_comm p t).
  apply binary_fp; [assumption | lia | destruct w; cbn [wlen_ok] in *; lia].
Qed.

(* Tversky index with alpha = beta = 1/2 on binary inputs is the Dice score with 2 epsilon *)
Lemma tversky_half_is_dice (Kc : char0 K) (eps : K) (p t : vec) w :
  binary p -> binary t -> length p = length t -> wlen_ok p w ->
  dotw p p w + dotw t t w + (1 + 1) * eps <> 0 ->
  tversky_index (1 / (1 + 1)) (1 / (1 + 1)) eps p t w = dice_score ((1 + 1) * eps) p t w.
Proof.
  intros Hp Ht H Hw Hd. unfold tversky_index, dice_score. cbv zeta.
  rewrite (binary_fp p t w Hp H Hw), (binary_fn p t w Ht H Hw).
  pose proof (two_nz K Kf Kc) as H2.
  field. repeat split; assumption.
Qed.

(* identical binary segmentations: Tversky index 1 for every alpha, beta *)
Lemma tversky_identical_binary (alpha beta eps : K) (x : vec) w :
  binary x -> wlen_ok x w -> dotw x x w + eps <> 0 ->
  tversky_index alpha beta eps x x w = 1.
Proof.
  intros Hx Hw Hd. unfold tversky_index. cbv zeta.
  rewrite (binary_fp x x w Hx eq_refl Hw), (binary_fn x x w Hx eq_refl Hw).
  field. intro E. apply Hd. rewrite <- E. ring.
Qed.

End Overlap.

(* tversky_loss (repaired: it no longer forwards gamma to tversky_index) *)
Section TverskyLoss.
Variable K : fld.
Hypothesis Kf : is_field K.
Add Field KF2 : Kf.

Lemma fpow_zero n : (0 < n)%nat -> fpow (K:=K) 0 n = 0.
Proof. destruct n; [lia|]. intros _. cbn [fpow]. ring. Qed.

Lemma fpow_one (x : K) : fpow x 1 = x.
Proof. cbn [fpow]. ring. Qed.

(* the documented clause, through tversky_loss itself: alpha = beta = 1/2 on binary inputs is the
   Dice loss with 2 epsilon (to the power gamma) *)
Lemma tversky_loss_half_is_dice_loss (Kc : char0 K) gamma (eps : K) (p t : list K) w :
  binary p -> binary t -> length p = length t -> wlen_ok K p w ->
  dotw p p w + dotw t t w + (1 + 1) * eps <> 0 ->
  tversky_loss gamma (1 / (1 + 1)) (1 / (1 + 1)) eps p t w = fpow (dice_loss ((1 + 1) * eps) p t w) (Nat.max gamma 1) /\
  ((gamma <= 1)%nat -> tversky_loss gamma (1 / (1 + 1)) (1 / (1 + 1)) eps p t w = dice_loss ((1 + 1) * eps) p t w).
Proof.
  intros Hp Ht H Hw Hd. unfold tversky_loss, dice_loss.
  rewrite (tversky_half_is_dice K Kf Kc eps p t w Hp Ht H Hw Hd). split; [reflexivity|].
  intro Hg. replace (Nat.max gamma 1) with 1%nat by lia. apply fpow_one.
Qed.

Lemma tversky_loss_identical_binary gamma (alpha beta eps : K) (x : list K) w :
  binary x -> wlen_ok K x w -> dotw x x w + eps <> 0 -> tversky_loss gamma alpha beta eps x x w = 0.
Proof.
  intros Hx Hw Hd. unfold tversky_loss. rewrite (tversky_identical_binary K Kf alpha beta eps x w Hx Hw Hd).
  replace (1 - 1 : K) with (0 : K) by ring. apply fpow_zero. lia.
Qed.

Lemma tversky_loss_swap gamma (alpha beta eps : K) (p t : list K) w :
  tversky_loss gamma alpha beta eps p t w = tversky_loss gamma beta alpha eps t p w.
Proof. unfold tversky_loss. rewrite (tversky_swap K Kf alpha beta eps p t w). reflexivity. Qed.
End TverskyLoss.
