(* C07 -- the inverse shares the forward parameters: after inverse(link=False) both objects resolve
   `params` to the same tensor cell, have the same grid and opposite sign; in-place updates of that
   cell (through either object, or any other) keep this, so the inverse stays the inverse. *)
From Coq Require Import List Bool Arith Lia.
From DV Require Import Model.TransformState Proofs.C09Fresh Proofs.C09Replace.
Import ListNotations.

Section Shared.
Context {P G C : Type}.
Variable p0 : P.
Variable fillP : P -> P -> P.
Variable callP : nat -> option C -> P.
Variable cf : cfg.
Hypothesis Hcf : cfg_all cf = true.

Notation state := (state P G C).
Notation obj := (obj P G C).
Notation get_obj := (get_obj P G C).
Notation set_obj := (set_obj P G C).
Notation get_params := (get_params P G C).
Notation tval := (tval P G C p0).
Notation held := (held P G C p0 callP).
Notation edit := (edit P G C p0 fillP).
Notation inverse1 := (inverse1 P G C p0 cf).

(* o and n read the same cell r, on the same grid, with opposite inversion flags *)
Definition mirror (s : state) (o n r : nat) : Prop :=
  exists ob obn ip ipn,
    get_obj s o = Some ob /\ get_obj s n = Some obn /\
    get_params s ob = Some (VTen r ip) /\ get_params s obn = Some (VTen r ipn) /\
    o_grid P G C obn = o_grid P G C ob /\ o_kind P G C obn = o_kind P G C ob /\
    invertible (o_kind P G C ob) = true /\ o_inv P G C obn = negb (o_inv P G C ob).

(* the specification then says: same parameters, same grid, opposite sign *)
Lemma mirror_held s o n r :
  mirror s o n r ->
  exists p g sg, held s o = Some (p, g, sg) /\ held s n = Some (p, g, negb sg).
Proof.
  intros (ob & obn & ip & ipn & Ho & Hn & Hp & Hpn & Hg & Hk & Hi & Hv).
  exists (tval s r), (o_grid P G C ob), (o_inv P G C ob).
  unfold TransformState.held. fold (get_obj s o) (get_obj s n). rewrite Ho, Hn, Hp, Hpn.
  unfold sign_of. rewrite Hk, Hi, Hg, Hv. split; reflexivity.
Qed.

(* an in-place edit only touches tensor contents *)
Lemma edit_frame s o p s' out :
  edit s o p = out -> s' = (match out with Ok _ x => x | Er _ x => x end) ->
  objs P G C s' = objs P G C s /\ pds P G C s' = pds P G C s.
Proof.
  intros <- ->. unfold TransformState.edit, with_obj.
  destruct (TransformState.get_obj P G C s o) as [ob|]; cbn; auto.
  destruct (o_kind P G C ob); cbn; auto.
  all: unfold bind, data_ref; destruct (TransformState.get_params P G C s ob) as [[| r ip | f | o']|]; cbn; auto;
    destruct (o_p P G C ob); cbn; auto.
Qed.

Lemma mirror_frame s s' o n r :
  objs P G C s' = objs P G C s -> pds P G C s' = pds P G C s -> mirror s o n r -> mirror s' o n r.
Proof.
  intros Eo Ep (ob & obn & ip & ipn & Ho & Hn & Hp & Hpn & Rest).
  exists ob, obn, ip, ipn. unfold TransformState.get_obj in *. rewrite Eo.
  repeat split; try tauto.
  - rewrite (get_params_pds s s' ob Ep). exact Hp.
  - rewrite (get_params_pds s s' obn Ep). exact Hpn.
Qed.

(* any sequence of in-place updates, through any objects *)
Fixpoint edits (s : state) (es : list (nat * P)) : state :=
  match es with
  | [] => s
  | (o, p) :: r => edits (match edit s o p with Ok _ x => x | Er _ x => x end) r
  end.

Theorem mirror_after_edits es : forall s o n r, mirror s o n r -> mirror (edits s es) o n r.
Proof.
  induction es as [|[t p] es IH]; intros s o n r H; cbn; auto.
  apply IH. destruct (edit_frame s t p _ _ eq_refl eq_refl) as [Eo Ep].
  eapply mirror_frame; eauto.
Qed.

(* inverse(link=False) establishes the mirror relation *)
Definition slots_eq (a b : obj) : Prop :=
  o_adict P G C a = o_adict P G C b /\ o_pd P G C a = o_pd P G C b /\ o_bpar P G C a = o_bpar P G C b
  /\ o_mpar P G C a = o_mpar P G C b /\ o_grid P G C a = o_grid P G C b /\ o_kind P G C a = o_kind P G C b.
Lemma slots_eq_trans a b c : slots_eq a b -> slots_eq b c -> slots_eq a c.
Proof. unfold slots_eq. intuition congruence. Qed.
Lemma slots_set_uv (x : obj) u v : slots_eq (set_uv P G C x u v) x.
Proof. destruct x; repeat split. Qed.
Lemma slots_set_inv (x : obj) i : slots_eq (set_inv P G C x i) x.
Proof. destruct x; repeat split. Qed.
Lemma inv_set_uv (x : obj) u v : o_inv P G C (set_uv P G C x u v) = o_inv P G C x.
Proof. destruct x; reflexivity. Qed.
Lemma inv_set_inv (x : obj) i : o_inv P G C (set_inv P G C x i) = i.
Proof. destruct x; reflexivity. Qed.
Lemma nth_error_app_new {A} (l : list A) x : nth_error (l ++ [x]) (length l) = Some x.
Proof. induction l; cbn; auto. Qed.
Lemma nth_error_app_old {A} (l : list A) x n y : nth_error l n = Some y -> nth_error (l ++ [x]) n = Some y.
Proof. revert n. induction l as [|a l IH]; intros [|n] H; cbn in *; try discriminate; auto. Qed.

Theorem inverse_mirrors s o upd n s1 ob r ip :
  get_obj s o = Some ob -> get_params s ob = Some (VTen r ip) ->
  inverse1 s o false upd = Ok n s1 -> mirror s1 o n r.
Proof.
  destruct (cfg_all_fields _ Hcf) as (_ & _ & _ & _ & _ & _ & _ & _ & _ & _ & Hfl & _).
  intros Ho Hp H. unfold TransformState.inverse1, with_obj in H. fold (get_obj s o) in H. rewrite Ho in H.
  destruct (invertible (o_kind P G C ob)) eqn:Hi; cbn in H; try discriminate.
  unfold with_obj, TransformState.get_obj in H. cbn in H.
  rewrite nth_error_app_new in H. rewrite Hfl in H.
  injection H as <- <-.
  set (obn := if has_exp (o_kind P G C ob) && upd then _ else _).
  assert (Hsl : slots_eq obn ob /\ o_inv P G C obn = negb (o_inv P G C ob)).
  { subst obn. destruct (has_exp (o_kind P G C ob) && upd).
    - match goal with |- context [match ?x with Some _ => _ | None => _ end] => destruct x end.
      + split; [eapply slots_eq_trans; [eapply slots_set_uv | eapply slots_set_inv] | rewrite inv_set_uv; apply inv_set_inv].
      + split; [apply slots_set_inv | apply inv_set_inv].
    - split; [apply slots_set_inv | apply inv_set_inv]. }
  destruct Hsl as ((Ha & Hd & Hb & Hm & Hg & Hk) & Hv).
  exists ob, obn, ip, ip.
  assert (Hlen : length (objs P G C s) <> o).
  { intro E. unfold TransformState.get_obj in Ho. rewrite <- E in Ho.
    assert (nth_error (objs P G C s) (length (objs P G C s)) = None) by (apply nth_error_None; lia). congruence. }
  refine (conj _ (conj _ (conj _ (conj _ (conj Hg (conj Hk (conj Hi Hv))))))).
  - unfold TransformState.get_obj, TransformState.set_obj; cbn.
    rewrite nth_error_replace_other by exact Hlen. apply nth_error_app_old. exact Ho.
  - unfold TransformState.get_obj, TransformState.set_obj; cbn.
    apply nth_error_replace_same with (y := ob). apply nth_error_app_new.
  - unfold TransformState.get_params, get_pd in *. cbn. exact Hp.
  - unfold TransformState.get_params, get_pd in *. cbn. rewrite Ha, Hd, Hb, Hm. exact Hp.
Qed.

(* together: the inverse stays the inverse after any in-place parameter updates *)
Theorem inverse_stays_inverse s o upd n s1 ob r ip es :
  get_obj s o = Some ob -> get_params s ob = Some (VTen r ip) ->
  inverse1 s o false upd = Ok n s1 ->
  exists p g sg, held (edits s1 es) o = Some (p, g, sg) /\ held (edits s1 es) n = Some (p, g, negb sg).
Proof.
  intros Ho Hp H. eapply mirror_held. apply mirror_after_edits. eapply inverse_mirrors; eauto.
Qed.

End Shared.
