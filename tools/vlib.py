"""Driver library for /verif/check: obligations, build, assumptions, correspondence plumbing,
violations / known findings, evidence."""
from __future__ import annotations

import fcntl
import hashlib
import json
import os
import random
import re
import shutil
import subprocess
import sys
import time
from dataclasses import dataclass, field
from fractions import Fraction
from typing import Any, Callable, Dict, List, Optional, Sequence, Tuple

HERE = os.path.dirname(os.path.abspath(__file__))
VERIF = os.path.dirname(HERE)
COQ = os.path.join(VERIF, "coq")
REPO = os.environ.get("DEEPALI_REPO", "/repo")
REPO_SRC = os.path.join(REPO, "src")
PY = "/venv/bin/python"
GUARD = "DEEPALI_VERIF"
LOCK = os.path.join(VERIF, ".build.lock")

FORBIDDEN = re.compile(
    r"\b(Admitted|admit|Axiom|Axioms|Parameter|Parameters|Conjecture|Conjectures|Admit\s+Obligations|"
    r"Unset\s+Guard\s+Checking|Unset\s+Positivity\s+Checking|Unset\s+Universe\s+Checking|bypass_check|"
    r"type-in-type|impredicative-set|native_compute)\b")

STD_AXIOMS = {
    "ClassicalDedekindReals.sig_not_dec": "stdlib real numbers",
    "ClassicalDedekindReals.sig_forall_dec": "stdlib real numbers",
    "FunctionalExtensionality.functional_extensionality_dep": "stdlib functional extensionality (via Reals)",
    "Classical_Prop.classic": "stdlib excluded middle",
    "Coq.Logic.FunctionalExtensionality.functional_extensionality_dep": "stdlib functional extensionality",
    "Coq.Reals.ClassicalDedekindReals.sig_not_dec": "stdlib real numbers",
    "Coq.Reals.ClassicalDedekindReals.sig_forall_dec": "stdlib real numbers",
    "Coq.Logic.Classical_Prop.classic": "stdlib excluded middle",
    "Coq.Logic.ProofIrrelevance.proof_irrelevance": "stdlib proof irrelevance",
    "ProofIrrelevance.proof_irrelevance": "stdlib proof irrelevance",
    "Coq.Logic.Eqdep.Eq_rect_eq.eq_rect_eq": "stdlib Streicher K (Eqdep)",
    "Eqdep.Eq_rect_eq.eq_rect_eq": "stdlib Streicher K (Eqdep)",
    "Coq.Logic.JMeq.JMeq_eq": "stdlib JMeq_eq",
    "JMeq.JMeq_eq": "stdlib JMeq_eq",
    "Coq.Logic.PropExtensionality.propositional_extensionality": "stdlib propositional extensionality",
    "PropExtensionality.propositional_extensionality": "stdlib propositional extensionality",
    "Coq.Logic.Epsilon.epsilon_statement": "stdlib epsilon (via Reals libraries)",
    "Coq.Logic.ClassicalEpsilon.constructive_indefinite_description": "stdlib indefinite description",
}


# ------------------------------------------------------------------------------------------------
@dataclass
class Violation:
    key: str            # canonical key  property:call-site:kind
    what: str           # one line
    replay: Dict[str, Any]
    found_input: bool = True


@dataclass
class Obligation:
    name: str
    ok: bool
    detail: str = ""


@dataclass
class Ctx:
    prop: str
    tier: str
    seed: int
    rng: random.Random
    scratch: str
    t0: float
    notes: List[str] = field(default_factory=list)

    def thorough(self) -> bool:
        return self.tier == "thorough"

    def n(self, quick: int, thorough: int) -> int:
        return thorough if self.tier == "thorough" else quick


# ------------------------------------------------------------------------------------------------
# implementation side
# ------------------------------------------------------------------------------------------------
def impl_env() -> Dict[str, str]:
    env = dict(os.environ)
    env["PYTHONPATH"] = REPO_SRC + os.pathsep + HERE
    env["PYTHONHASHSEED"] = "0"
    env[GUARD] = "1"
    env["PYTHONWARNINGS"] = "ignore"
    env["OMP_NUM_THREADS"] = env.get("OMP_NUM_THREADS", "4")
    env.pop("PYTHONSTARTUP", None)
    return env


def run_impl(script: str, payload: Any, timeout: int = 900) -> Any:
    """Run tools/impl/<script>.py against /repo's working tree; JSON in, JSON out."""
    path = os.path.join(HERE, "impl", script + ".py")
    p = subprocess.run([PY, path], input=json.dumps(payload), capture_output=True, text=True,
                       env=impl_env(), cwd="/", timeout=timeout)
    if p.returncode != 0:
        raise RuntimeError(f"impl runner {script} failed ({p.returncode}):\n{p.stderr[-3000:]}")
    out = p.stdout
    i = out.rfind("\n##JSON##")
    if i < 0:
        raise RuntimeError(f"impl runner {script}: no JSON marker in output:\n{out[-2000:]}\n{p.stderr[-2000:]}")
    return json.loads(out[i + len("\n##JSON##"):])


def emit_json(obj: Any) -> None:
    """used by impl runners"""
    sys.stdout.write("\n##JSON##" + json.dumps(obj))
    sys.stdout.flush()


# ------------------------------------------------------------------------------------------------
# Coq side
# ------------------------------------------------------------------------------------------------
class BuildLock:
    def __enter__(self):
        self.f = open(LOCK, "w")
        fcntl.flock(self.f, fcntl.LOCK_EX)
        return self

    def __exit__(self, *a):
        fcntl.flock(self.f, fcntl.LOCK_UN)
        self.f.close()


def coq_sources() -> List[str]:
    out = []
    for root, _, files in os.walk(COQ):
        for f in files:
            if f.endswith(".v"):
                out.append(os.path.relpath(os.path.join(root, f), COQ))
    return sorted(out)


def ensure_makefile() -> None:
    srcs = coq_sources()
    stamp = os.path.join(COQ, ".Makefile.list")
    want = "\n".join(srcs)
    try:
        have = open(stamp).read()
    except OSError:
        have = None
    if have != want or not os.path.exists(os.path.join(COQ, "Makefile")):
        subprocess.run(["coq_makefile", "-f", "_CoqProject", "-o", "Makefile"] + srcs, cwd=COQ,
                       check=True, capture_output=True)
        with open(stamp, "w") as f:
            f.write(want)


def make(targets: Sequence[str], jobs: int = 8, timeout: int = 1500) -> Tuple[bool, str]:
    ensure_makefile()
    p = subprocess.run(["timeout", str(timeout), "make", f"-j{jobs}", "-k"] + list(targets), cwd=COQ,
                       capture_output=True, text=True)
    return p.returncode == 0, p.stdout + p.stderr


def failing_items(log: str) -> List[str]:
    """names of lemmas/theorems (or files) where the build failed"""
    out = []
    for m in re.finditer(r'File "\./([^"]+)", line (\d+), characters [^\n]*\nError:((?:\n?[^\n]+){1,4})', log):
        path, line, msg = m.group(1), int(m.group(2)), m.group(3).strip().replace("\n", " ")
        name = "?"
        try:
            lines = open(os.path.join(COQ, path)).read().split("\n")
            for k in range(min(line, len(lines)) - 1, -1, -1):
                mm = re.match(r"\s*(Lemma|Theorem|Example|Definition|Corollary|Fact|Remark|Fixpoint)\s+([A-Za-z0-9_']+)", lines[k])
                if mm:
                    name = mm.group(2)
                    break
        except OSError:
            pass
        out.append(f"{path}:{line} {name}: {msg[:160]}")
    return out


def theorems_of(props_file: str) -> List[str]:
    src = open(os.path.join(COQ, props_file)).read()
    return re.findall(r"^\s*Theorem\s+([A-Za-z0-9_']+)", src, flags=re.M)


def require_closure(roots: Sequence[str]) -> List[str]:
    """.v files (relative to coq/) reachable from the given files through `From DV Require ...` lines"""
    seen, todo = [], list(roots)
    while todo:
        f = todo.pop()
        if f in seen:
            continue
        try:
            src = open(os.path.join(COQ, f)).read()
        except OSError:
            continue
        seen.append(f)
        src = re.sub(r"\(\*.*?\*\)", "", src, flags=re.S)
        for m in re.finditer(r"From\s+DV\s+Require\s+(?:Import\s+|Export\s+)?(.*?)\.\s", src + " ", flags=re.S):
            for mod in m.group(1).split():
                todo.append(mod.replace(".", "/") + ".v")
        for m in re.finditer(r"(?<!DV\s)Require\s+(?:Import\s+|Export\s+)?(.*?)\.\s", src + " ", flags=re.S):
            for mod in m.group(1).split():
                if mod.startswith("DV."):
                    todo.append(mod[3:].replace(".", "/") + ".v")
    return sorted(seen)


_VERNAC_BAD = re.compile(r"^(Local\s+|Global\s+|Polymorphic\s+|Monomorphic\s+|#\[[^\]]*\]\s*)*"
                         r"(Axiom|Axioms|Parameter|Parameters|Conjecture|Conjectures|Admitted|Admit\s+Obligations|"
                         r"Unset\s+Guard\s+Checking|Unset\s+Positivity\s+Checking|Unset\s+Universe\s+Checking)\b")
_ANYWHERE_BAD = re.compile(r"\b(admit|give_up|bypass_check|native_compute|native_cast_no_check)\b|type-in-type|impredicative-set")


def lint_sources(files: Sequence[str]) -> List[str]:
    """forbidden vernacular (at the start of a sentence) and tactics (anywhere), comments stripped;
    Variable/Hypothesis only inside a Section"""
    bad = []
    for f in files:
        try:
            src = open(os.path.join(COQ, f)).read()
        except OSError:
            continue
        src_nc = re.sub(r"\(\*.*?\*\)", " ", src, flags=re.S)
        src_nc = re.sub(r'"[^"]*"', '""', src_nc)
        for m in _ANYWHERE_BAD.finditer(src_nc):
            bad.append(f"{f}: forbidden token {m.group(0)!r}")
        depth = 0
        for sent in re.split(r"\.(?:\s+|$)", src_nc):
            st = sent.strip()
            st = re.sub(r"^(?:[-+*]+\s*|\{\s*|\}\s*)+", "", st)
            m = _VERNAC_BAD.match(st)
            if m:
                bad.append(f"{f}: forbidden vernacular {m.group(2)!r}")
            if re.match(r"(Section|Module)\s+\w+", st):
                depth += 1
            elif re.match(r"End\s+\w+", st) and depth > 0:
                depth -= 1
            elif re.match(r"(Variable|Variables|Hypothesis|Hypotheses|Context)\b", st) and depth == 0:
                bad.append(f"{f}: Variable/Hypothesis/Context outside a Section")
    return bad


def coqc_text(text: str, scratch: str, name: str = "cases", timeout: int = 600) -> Tuple[int, str]:
    path = os.path.join(scratch, name + ".v")
    with open(path, "w") as f:
        f.write(text)
    p = subprocess.run(["timeout", str(timeout), "coqc", "-Q", COQ, "DV", "-w", "-all", path],
                       capture_output=True, text=True, cwd=scratch)
    return p.returncode, p.stdout + p.stderr


def run_cases(scratch: str, header: Sequence[str], items: Sequence[Tuple[Any, str]], shard: int = 400, jobs: int = 8,
              name: str = "cases", timeout: int = 1200) -> Tuple[List[Any], List[str]]:
    """Evaluate boolean case terms inside Coq, sharded into files of <= `shard` cases run in parallel.
    items = [(case id, Coq term of type bool)].  Returns (ids of failing cases, errors of shards that did not evaluate)."""
    from concurrent.futures import ThreadPoolExecutor
    shards = [items[i:i + shard] for i in range(0, len(items), shard)]

    def one(k_sh):
        k, sh = k_sh
        lines = list(header)
        for j, (_, term) in enumerate(sh):
            lines.append(f"Definition c{j} : bool := {term}.")
        lines.append("Definition results : list bool := " + coq_list([f"c{j}" for j in range(len(sh))]) + ".")
        lines.append('Eval vm_compute in ("FAIL"%string, failing results).')
        rc, out = coqc_text("\n".join(lines) + "\n", scratch, f"{name}_{k}", timeout=timeout)
        bad = parse_nat_list(out, "FAIL")
        if rc != 0 or bad is None:
            return [], [out[-800:]]
        return [sh[j][0] for j in bad], []
    failed, errors = [], []
    with ThreadPoolExecutor(max_workers=jobs) as ex:
        for f, e in ex.map(one, list(enumerate(shards))):
            failed += f
            errors += e
    return failed, errors


def print_assumptions(props_mod: str, thms: Sequence[str], scratch: str) -> Dict[str, List[str]]:
    """axioms each theorem depends on, as Print Assumptions reports them"""
    lines = [f"From DV Require Import {props_mod}.", "From Coq Require Import String."]
    for t in thms:
        lines.append(f'Eval vm_compute in ("##THM {t}"%string).')
        lines.append(f"Print Assumptions {t}.")
    rc, out = coqc_text("\n".join(lines) + "\n", scratch, "assumptions")
    if rc != 0:
        raise RuntimeError("Print Assumptions failed:\n" + out[-2000:])
    res: Dict[str, List[str]] = {}
    cur = None
    for line in out.split("\n"):
        m = re.search(r'"##THM ([A-Za-z0-9_\']+)"', line)
        if m:
            cur = m.group(1)
            res[cur] = []
            continue
        if cur is None:
            continue
        m = re.match(r"^([A-Za-z_][A-Za-z0-9_.']*)\s*(:|$)", line)
        if m and m.group(1) not in ("Axioms", "Closed", "string"):
            if not line.startswith(" ") and m.group(1)[0].isupper() and "." in m.group(1):
                res[cur].append(m.group(1))
            elif not line.startswith(" ") and ":" in line and "." not in m.group(1):
                res[cur].append(m.group(1))
    return res


def coqchk(props_mod: str, timeout: int = 1500) -> Tuple[bool, List[str], str]:
    """independent re-check of the compiled closure; returns (ok, axioms, tail of output)"""
    p = subprocess.run(["timeout", str(timeout), "coqchk", "-silent", "-o", "-Q", COQ, "DV", "DV." + props_mod],
                       capture_output=True, text=True, cwd=COQ)
    out = p.stdout + p.stderr
    axioms = []
    m = re.search(r"\* Axioms:(.*?)\n\s*\n\* Constants", out, flags=re.S)
    if m:
        axioms = [a.strip() for a in m.group(1).split("\n") if a.strip() and a.strip() != "<none>"]
    clean = all(re.search(rf"\* {k}: <none>", out) for k in
                ("Constants/Inductives relying on type-in-type", r"Constants/Inductives relying on unsafe \(co\)fixpoints",
                 "Inductives whose positivity is assumed"))
    return p.returncode == 0 and clean, axioms, out[-800:]


# rationals <-> Coq
def qc(x) -> str:
    """Coq term of type Qc for an exact rational / float (float converted exactly)."""
    if isinstance(x, float):
        fr = Fraction(*x.as_integer_ratio())
    else:
        fr = Fraction(x)
    return f"(q ({fr.numerator}) {fr.denominator})"


def qlit(x) -> str:
    fr = Fraction(*x.as_integer_ratio()) if isinstance(x, float) else Fraction(x)
    return f"(({fr.numerator}) # {fr.denominator})%Q"


def coq_list(items: Sequence[str]) -> str:
    return "[" + "; ".join(items) + "]"


def qc_vec(v) -> str:
    return coq_list([qc(x) for x in v])


def qc_mat(m) -> str:
    return coq_list([qc_vec(r) for r in m])


def parse_nat_list(out: str, marker: str) -> Optional[List[int]]:
    """parse the value printed by  Eval vm_compute in (marker, l)  where l : list nat"""
    m = re.search(r'=\s*\("' + re.escape(marker) + r'"(?:%string)?,\s*(\[[^\]]*\])', out, flags=re.S)
    if not m:
        return None
    body = m.group(1)
    return [int(t) for t in re.findall(r"\d+", body)]


# ------------------------------------------------------------------------------------------------
# findings, replays, evidence
# ------------------------------------------------------------------------------------------------
def load_findings() -> Tuple[Dict[str, str], List[str]]:
    known: Dict[str, str] = {}
    fixed: List[str] = []
    path = os.path.join(VERIF, "known_findings.txt")
    if os.path.exists(path):
        for line in open(path):
            line = line.strip()
            if line.startswith("finding:"):
                m = re.match(r"finding:\s*property=(\S+)\s+key=(\S+)\s+(.*)$", line)
                if m:
                    known[m.group(2)] = m.group(3)
            elif line.startswith("fixed:"):
                fixed.append(line)
    return known, fixed


def slug(s: str) -> str:
    return re.sub(r"[^A-Za-z0-9_.-]+", "_", s)[:120]


def write_replay(prop: str, v: Violation) -> str:
    d = os.path.join(VERIF, "replays")
    os.makedirs(d, exist_ok=True)
    path = os.path.join(d, f"{prop}_{slug(v.key)}.json")
    with open(path, "w") as f:
        json.dump({"property": prop, "key": v.key, "what": v.what, "found_input": v.found_input,
                   "replay": v.replay, "cmd": f"./check {prop} --replay {path}"}, f, indent=1, default=str)
    return path


def write_evidence(prop: str, ev: Dict[str, Any]) -> None:
    d = os.path.join(VERIF, "evidence")
    os.makedirs(d, exist_ok=True)
    with open(os.path.join(d, f"{prop}.json"), "w") as f:
        json.dump(ev, f, indent=1, default=str)
        f.write("\n")


def src_hashes(files: Sequence[str]) -> Dict[str, str]:
    out = {}
    for f in files:
        p = os.path.join(REPO_SRC, f)
        try:
            out[f] = hashlib.sha256(open(p, "rb").read()).hexdigest()[:16]
        except OSError:
            out[f] = "missing"
    return out


def f2q(x: float) -> Fraction:
    return Fraction(*float(x).as_integer_ratio())
