(* C20 -- comparators used by the generated correspondence case files (definitions only): forward values and
   gradients of an AD term, evaluated exactly over Qc (transcendental nodes through the oracle table), against
   the implementation's forward values and torch.autograd gradients (compared with G, the reverse-mode model that
   stops at graph cuts; G = D on cut-free terms is a theorem). *)
From Coq Require Import QArith Qabs Qcanon List Bool Arith.
From DV Require Import Model.AD.
Import ListNotations.

Definition qrel_close (tol : Q) (a b : Qc) : bool :=
  Qle_bool (Qabs (this a - this b)) (tol * (1 + Qabs (this b))).

Fixpoint forallb2 {X Y : Type} (f : X -> Y -> bool) (a : list X) (b : list Y) : bool :=
  match a, b with
  | [], [] => true
  | x :: a', y :: b' => f x y && forallb2 f a' b'
  | _, _ => false
  end.

Definition ad_forward_ok (tol : Q) (o : oracle) (env : list Qc) (outs : list expr) (vals : list Qc) : bool :=
  forallb2 (fun e v => match evalQ o env e with Some x => qrel_close tol x v | None => false end) outs vals.

Definition ad_grad_ok (tol : Q) (o : oracle) (env : list Qc) (outs : list expr) (nv : nat) (jac : list (list Qc)) : bool :=
  forallb2 (fun e row =>
              forallb2 (fun i g => match evalQ o env (G i e) with Some x => qrel_close tol x g | None => false end)
                       (seq 0 nv) row) outs jac.

Definition q (n : Z) (d : positive) : Qc := Q2Qc (n # d).

Fixpoint failing_from (i : nat) (l : list bool) : list nat :=
  match l with
  | [] => []
  | b :: r => if b then failing_from (S i) r else i :: failing_from (S i) r
  end.
Definition failing := failing_from 0.
