"""Gen/LinParams.v -- spatial/linear.py: how the rotation transform classes hand their own `order` to the
functional code of core/affine.py (structural checks on traces, fail-closed):
  * EulerRotation(order=o).tensor() is euler_rotation_matrix(angles, order=o) for all 27 orders (letter
    notation), the default order and 2-D, for invert in {False, True} (inverse = transpose);
  * EulerRotation(order=o).matrix_(R) passes to angles_() exactly euler_rotation_angles(R, order=o), for every
    order the functional code supports (ZXZ, XZX, default, 2-D);
  * QuaternionRotation.matrix_(R) passes to quaternion_() exactly rotation_matrix_to_quaternion(R).
The classes are instantiated as in tr_units/lininv.py (object.__new__ + the attributes the methods read)."""
import itertools

import numpy as np

import symtorch as st
import trlib
from symtorch import E, TraceError
from tr_units import lininv, euler

AX = {"X": "AX", "Y": "AY", "Z": "AZ"}


def _same(a, b):
    a = a.a if hasattr(a, "a") else a
    b = b.a if hasattr(b, "a") else b
    return a.shape == b.shape and trlib.same_tensor(a, b)


def generate(loader):
    lininv.stub_modules(loader)
    lin = loader.load("deepali.spatial.linear")
    aff = loader.load("deepali.core.affine")
    checked_tensor, checked_setter = [], []
    # --- tensor(): own order reaches euler_rotation_matrix
    orders3 = [None] + ["".join(p) for p in itertools.product("XYZ", repeat=3)]
    for D, orders in ((2, [None]), (3, orders3)):
        na = 1 if D == 2 else 3
        for order in orders:
            ang = lininv.vec("a", na)
            want = aff.euler_rotation_matrix(ang, order=order) if D == 3 else aff.euler_rotation_matrix(ang)
            for iv in (False, True):
                t = lininv.inst(lin.EulerRotation, D, ang, iv, order=order)
                got = t.tensor()
                w = want.transpose(1, 2) if iv else want
                if not _same(got, w):
                    raise TraceError(f"EulerRotation(order={order!r}, invert={iv}).tensor() is not euler_rotation_matrix(angles, order={order!r})"
                                     + ("^T" if iv else ""))
            checked_tensor.append((D, order))
    # --- matrix_(): own order reaches euler_rotation_angles
    orig = st.Tensor.detach
    try:
        for D, orders in ((2, [None]), (3, [None, "ZXZ", "XZX"])):
            st.Tensor.detach = lambda self, D=D: st.Tensor(np.array(st.eye(D).a, dtype=object))  # det(I) = 1 for the source's check
            for order in orders:
                R = st.Tensor(np.array([[[E.var(f"m{i}{j}") for j in range(D)] for i in range(D)]], dtype=object))
                want = aff.euler_rotation_angles(R, order=order)
                seen = []
                t = lininv.inst(lin.EulerRotation, D, None, False, order=order)
                t.angles_ = lambda arg, seen=seen: seen.append(arg) or t
                t.matrix_(R)
                if len(seen) != 1 or not _same(seen[0], want):
                    raise TraceError(f"EulerRotation(order={order!r}).matrix_(R) does not set euler_rotation_angles(R, order={order!r})")
                checked_setter.append((D, order))
    finally:
        st.Tensor.detach = orig
    # --- QuaternionRotation.matrix_
    quat_ok = False
    try:
        R = st.Tensor(np.array([[[E.var(f"m{i}{j}") for j in range(3)] for i in range(3)]], dtype=object))
        seen = []
        q = lininv.inst(lin.QuaternionRotation, 3, None, False)
        q.quaternion_ = lambda arg, seen=seen: seen.append(arg) or q
        old = st.SYMBOLIC_COND
        st.SYMBOLIC_COND = True
        try:
            q.matrix_(R)
            lg = loader.load("deepali.core.linalg")
            want = lg.rotation_matrix_to_quaternion(R)
        finally:
            st.SYMBOLIC_COND = old
        if len(seen) != 1 or not _same(seen[0], want):
            raise TraceError("QuaternionRotation.matrix_(R) does not set rotation_matrix_to_quaternion(R)")
        quat_ok = True
    except TraceError:
        raise
    # --- parameters held as a plain tensor (has_parameters() False): setters store the value itself, getters return the
    #     stored parameters themselves (no tanh/exp re-parameterisation on either side)
    fixed_ok = []
    for D in (2, 3):
        for cls, getter, setter, n in ((lin.AnisotropicScaling, "scales", "scales_", D), (lin.IsotropicScaling, "scales", "scales_", 1),
                                       (lin.Shearing, "angles", "angles_", 1 if D == 2 else D), (lin.EulerRotation, "angles", "angles_", 1 if D == 2 else 3)):
            t = lininv.inst(cls, D, lininv.vec("p", n), False, order=None)
            seen = []
            t.data_ = lambda arg, seen=seen, t=t: seen.append(arg) or t
            v = lininv.vec("v", n)
            getattr(t, setter)(v)
            if len(seen) != 1 or not _same(seen[0], v):
                raise TraceError(f"{cls.__name__}.{setter}(v) with fixed (non-Parameter) parameters does not store v itself (D={D})")
            if not _same(getattr(t, getter)(), lininv.vec("p", n)):
                raise TraceError(f"{cls.__name__}.{getter}() with fixed (non-Parameter) parameters does not return the stored parameters (D={D})")
            if D == 3:
                fixed_ok.append(cls.__name__)

    def o2coq(o):
        return "None" if o is None else f"(Some ({AX[o[0]]}, {AX[o[1]]}, {AX[o[2]]}))"
    out = ["(* which (D, order) pairs the structural checks of tools/tr_units/linparams.py covered on this run *)",
           "Definition gen_cls_tensor_uses_order : list (nat * option order) :=",
           "  [" + "; ".join(f"({D}%nat, {o2coq(o)})" for D, o in checked_tensor) + "].",
           "Definition gen_cls_matrix_setter_uses_order : list (nat * option order) :=",
           "  [" + "; ".join(f"({D}%nat, {o2coq(o)})" for D, o in checked_setter) + "].",
           f"Definition gen_cls_quaternion_setter_ok : bool := {'true' if quat_ok else 'false'}.",
           "(* classes whose setter/getter pair is the identity on fixed (non-Parameter) parameters, D = 2 and 3 *)",
           "Definition gen_cls_fixed_params_identity : list string := [" + "; ".join('"%s"%%string' % c for c in fixed_ok) + "].", ""]
    return "\n".join(out)
