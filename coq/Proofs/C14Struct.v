(* C14: (a) every derivative mode evaluates the tensor product of the analytic basis derivatives; (b) the default algorithm
   in 2-D and 3-D -- one grouped 4-tap correlation + reshuffle pass per axis, crop at the end -- computes the closed form. *)
From Coq Require Import ZArith List Field Ring Lia Bool.
From DV Require Import Base.Field Base.FieldFacts Base.LinAlg Base.Tactics Model.BSplineBase Gen.BSpline Model.BSpline
  Proofs.C14Tac Proofs.C14Weights Proofs.C14Ctrl Proofs.C14Eval Proofs.C14Subdiv Proofs.C14SubdivND.
Import ListNotations.
Local Open Scope fld_scope.



Section Proofs.
Variable K : fld.
Hypothesis Kf : is_field K.
Hypothesis Kc : char0 K.
Add Field KF : Kf.

(* (a) *)
Lemma derivative_modes_analytic (d s o : nat) : @wrow K d s o = basis4 d (zn o / zn s).
Proof. unfold wrow. apply weights_are_basis_all; assumption. Qed.

(* (b) one pass *)
Lemma length_mirtk_pass (d s : nat) (c : list K) : length (mirtk_pass d s c) = ((length c - 3) * s)%nat.
Proof.
  unfold mirtk_pass, interleave. apply length_flat_map_blocks. intro j. rewrite !map_length, seq_length. reflexivity.
Qed.

Lemma nth_mirtk_pass (d s : nat) (c : list K) (x : nat) : (1 <= s)%nat -> (x < (length c - 3) * s)%nat ->
  nth x (mirtk_pass d s c) 0 = spl (wrow d s (x mod s)) c (x / s).
Proof.
  intros Hs Hx. pose proof (mirtk1_pointwise K d s c ((length c - 3) * s) Hs ltac:(lia)) as E.
  unfold eval_mirtk1 in E. fold (mirtk_pass d s c) in E.
  rewrite firstn_all2 in E by (rewrite length_mirtk_pass; lia). rewrite E. apply nth_ev1. exact Hx.
Qed.

Lemma nth_map_in'' {A B} (f : A -> B) (l : list A) (i : nat) (da : A) (db : B) : (i < length l)%nat ->
  nth i (map f l) db = f (nth i l da).
Proof. intro H. rewrite (nth_indep _ db (f da)) by (rewrite map_length; exact H). apply map_nth. Qed.

(* D = 2 *)
Theorem mirtk2_pointwise (dx dy sx sy : nat) (c : list (list K)) (ny nx mx my : nat) : rect K ny nx c ->
  (1 <= sx)%nat -> (1 <= sy)%nat -> (1 <= ny)%nat -> (1 <= nx)%nat ->
  (1 <= mx)%nat -> (mx <= (nx - 3) * sx)%nat -> (my <= (ny - 3) * sy)%nat ->
  eval_mirtk2 dx dy sx sy c mx my = ev2 dx dy sx sy c mx my.
Proof.
  intros [Hy Hr] Hsx Hsy H1y H1x NZx Hmx Hmy. unfold eval_mirtk2, ev2.
  set (T1 := along_x2 (mirtk_pass dx sx) c).
  assert (R1 : rect K ny ((nx - 3) * sx) T1).
  { unfold T1, along_x2. split; [rewrite map_length; exact Hy|]. intros y Ly.
    rewrite (nth_map_in'' (mirtk_pass dx sx) c y [] []) by lia. rewrite length_mirtk_pass, Hr by exact Ly. reflexivity. }
  assert (A1 : forall j i, (j < ny)%nat -> (i < (nx - 3) * sx)%nat ->
            at2 T1 j i = spl_f (wrow dx sx (i mod sx)) (fun i' => at2 c j i') (i / sx)).
  { intros j i Lj Li. unfold T1, along_x2, at2. rewrite (nth_map_in'' (mirtk_pass dx sx) c j [] []) by lia.
    rewrite nth_mirtk_pass by (auto; rewrite Hr by exact Lj; exact Li). reflexivity. }
  set (T2 := along_y2 (mirtk_pass dy sy) T1).
  assert (A2 : forall y x, (y < (ny - 3) * sy)%nat -> (x < (nx - 3) * sx)%nat ->
            at2 T2 y x = ev2_at dx dy sx sy c y x).
  { intros y x Ly Lx. unfold T2.
    rewrite (nth_along_y2_gen K (mirtk_pass dy sy) T1 ny ((nx - 3) * sx) ((ny - 3) * sy) x y R1) by
      (try lia; intros l Hl; rewrite length_mirtk_pass, Hl; reflexivity).
    rewrite nth_mirtk_pass by (auto; rewrite map_length, seq_length; exact Ly).
    unfold spl, ev2_at. apply (spl_f_ext K). intros k Hk.
    assert (Lq : (y / sy + k < ny)%nat).
    { assert (y / sy < ny - 3)%nat by (apply Nat.div_lt_upper_bound; lia). lia. }
    rewrite (nth_map_seq (fun j' => at2 T1 j' x)) by exact Lq. apply A1; assumption. }
  (* list equality *)
  assert (NZ : ((nx - 3) * sx <> 0)%nat) by lia.
  assert (L2 : length T2 = ((ny - 3) * sy)%nat).
  { unfold T2, along_y2. rewrite map_length, seq_length. destruct R1 as [L1 Rr]. rewrite (Rr 0%nat) by lia.
    rewrite (nth_map_seq (fun i => mirtk_pass dy sy (map (fun r => nth i r 0) T1))) by lia.
    rewrite length_mirtk_pass, map_length, L1. reflexivity. }
  assert (R2 : forall y, (y < (ny - 3) * sy)%nat -> length (nth y T2 []) = ((nx - 3) * sx)%nat).
  { intros y Ly. unfold T2, along_y2. destruct R1 as [L1 Rr]. rewrite (Rr 0%nat) by lia.
    rewrite (nth_map_seq (fun i => mirtk_pass dy sy (map (fun r => nth i r 0) T1))) by lia.
    rewrite length_mirtk_pass, map_length, L1.
    rewrite (nth_map_seq (fun j => map (fun cl => nth j cl 0) (map (fun i => mirtk_pass dy sy (map (fun r => nth i r 0) T1)) (seq 0 ((nx - 3) * sx))))) by exact Ly.
    rewrite !map_length, seq_length. reflexivity. }
  apply (nth_ext _ _ [] []).
  - rewrite firstn_length, !map_length, seq_length, L2. lia.
  - intros y Hy'. rewrite firstn_length, map_length, L2 in Hy'. assert (Ly : (y < my)%nat) by lia.
    rewrite nth_firstn_lt by exact Ly. rewrite (nth_map_in'' (firstn mx) T2 y [] []) by lia.
    rewrite (nth_map_seq (fun y => map (fun x => ev2_at dx dy sx sy c y x) (seq 0 mx))) by exact Ly.
    apply (nth_ext _ _ 0 0).
    + rewrite firstn_length, map_length, seq_length, R2 by lia. lia.
    + intros x Hx'. rewrite firstn_length, R2 in Hx' by lia. assert (Lx : (x < mx)%nat) by lia.
      rewrite nth_firstn_lt by exact Lx. rewrite (nth_map_seq (fun x => ev2_at dx dy sx sy c y x)) by exact Lx.
      apply A2; lia.
Qed.
(* D = 3 *)
Theorem mirtk3_pointwise (dx dy dz sx sy sz : nat) (c : list (list (list K))) (nz ny nx mx my mz : nat) : box K nz ny nx c ->
  (1 <= sx)%nat -> (1 <= sy)%nat -> (1 <= sz)%nat -> (1 <= nz)%nat -> (1 <= ny)%nat -> (1 <= nx)%nat ->
  (1 <= mx)%nat -> (mx <= (nx - 3) * sx)%nat -> (1 <= my)%nat -> (my <= (ny - 3) * sy)%nat -> (mz <= (nz - 3) * sz)%nat ->
  eval_mirtk3 dx dy dz sx sy sz c mx my mz = ev3 dx dy dz sx sy sz c mx my mz.
Proof.
  intros [Hz Hb] Hsx Hsy Hsz H1z H1y H1x NZx Hmx NZy Hmy Hmz. unfold eval_mirtk3, ev3.
  set (NX := ((nx - 3) * sx)%nat). set (NY := ((ny - 3) * sy)%nat). set (NZ := ((nz - 3) * sz)%nat).
  assert (PX : (1 <= NX)%nat) by (unfold NX; lia). assert (PY : (1 <= NY)%nat) by (unfold NY; lia).
  set (T1 := along_x3 (mirtk_pass dx sx) c).
  assert (B1 : box K nz ny NX T1).
  { unfold T1, along_x3. split; [rewrite map_length; exact Hz|]. intros k Lk. destruct (Hb k Lk) as [Hy Hr].
    rewrite (nth_map_in'' (map (mirtk_pass dx sx)) c k [] []) by lia. split; [rewrite map_length; exact Hy|].
    intros j Lj. rewrite (nth_map_in'' (mirtk_pass dx sx) _ j [] []) by lia. rewrite length_mirtk_pass, Hr by exact Lj. reflexivity. }
  assert (A1 : forall k j i, (k < nz)%nat -> (j < ny)%nat -> (i < NX)%nat ->
            at3 T1 k j i = spl_f (wrow dx sx (i mod sx)) (fun i' => at3 c k j i') (i / sx)).
  { intros k j i Lk Lj Li. destruct (Hb k Lk) as [Hy Hr]. unfold T1, along_x3, at3.
    rewrite (nth_map_in'' (map (mirtk_pass dx sx)) c k [] []) by lia.
    rewrite (nth_map_in'' (mirtk_pass dx sx) _ j [] []) by lia.
    rewrite nth_mirtk_pass by (auto; rewrite Hr by exact Lj; exact Li). reflexivity. }
  set (T2 := along_y3 (mirtk_pass dy sy) T1).
  assert (LY : forall l : list K, length l = ny -> length (mirtk_pass dy sy l) = NY)
    by (intros l Hl; rewrite length_mirtk_pass, Hl; reflexivity).
  assert (A2 : forall k y i, (k < nz)%nat -> (y < NY)%nat -> (i < NX)%nat ->
            at3 T2 k y i = spl_f (wrow dy sy (y mod sy)) (fun j => at3 T1 k j i) (y / sy)).
  { intros k y i Lk Ly Li. destruct B1 as [L1 R1]. unfold T2, along_y3, at3.
    rewrite (nth_map_in'' (along_y2 (mirtk_pass dy sy)) T1 k [] []) by lia.
    pose proof (nth_along_y2_gen K (mirtk_pass dy sy) (nth k T1 []) ny NX NY i y (R1 k Lk) LY H1y Li Ly) as E.
    unfold at2 in E. rewrite E. rewrite nth_mirtk_pass by (auto; rewrite map_length, seq_length; exact Ly).
    unfold spl. apply (spl_f_ext K). intros t Ht.
    assert (Lq : (y / sy + t < ny)%nat).
    { assert (y / sy < ny - 3)%nat by (apply Nat.div_lt_upper_bound; unfold NY in Ly; lia). lia. }
    rewrite (nth_map_seq (fun j' => nth i (nth j' (nth k T1 []) []) 0)) by exact Lq. reflexivity. }
  assert (B2 : box K nz NY NX T2).
  { destruct B1 as [L1 R1]. unfold T2, along_y3. split; [rewrite map_length; exact L1|]. intros k Lk.
    rewrite (nth_map_in'' (along_y2 (mirtk_pass dy sy)) T1 k [] []) by lia. destruct (R1 k Lk) as [Ry Rr].
    assert (C0 : length (nth 0 (map (fun i => mirtk_pass dy sy (map (fun r => nth i r 0) (nth k T1 []))) (seq 0 NX)) []) = NY).
    { rewrite (nth_map_seq (fun i => mirtk_pass dy sy (map (fun r => nth i r 0) (nth k T1 [])))) by lia. apply LY. rewrite map_length. exact Ry. }
    unfold along_y2. rewrite (Rr 0%nat) by lia. split.
    - rewrite map_length, seq_length. exact C0.
    - intros y Ly. rewrite C0.
      rewrite (nth_map_seq (fun j => map (fun cl => nth j cl 0) (map (fun i => mirtk_pass dy sy (map (fun r => nth i r 0) (nth k T1 []))) (seq 0 NX)))) by exact Ly.
      rewrite !map_length, seq_length. reflexivity. }
  set (T3 := along_z3 (mirtk_pass dz sz) T2).
  assert (LZ : forall l : list K, length l = nz -> length (mirtk_pass dz sz l) = NZ)
    by (intros l Hl; rewrite length_mirtk_pass, Hl; reflexivity).
  assert (A3 : forall z y x, (z < NZ)%nat -> (y < NY)%nat -> (x < NX)%nat ->
            at3 T3 z y x = ev3_at dx dy dz sx sy sz c z y x).
  { intros z y x Lz Ly Lx. unfold T3.
    rewrite (at3_along_z3_gen K (mirtk_pass dz sz) T2 nz NY NX NZ x y z B2 LZ H1z PY PX Lx Ly Lz).
    rewrite nth_mirtk_pass by (auto; rewrite map_length, seq_length; exact Lz).
    unfold spl, ev3_at. apply (spl_f_ext K). intros t Ht.
    assert (Lq : (z / sz + t < nz)%nat).
    { assert (z / sz < nz - 3)%nat by (apply Nat.div_lt_upper_bound; unfold NZ in Lz; lia). lia. }
    rewrite (nth_map_seq (fun k' => at3 T2 k' y x)) by exact Lq. rewrite A2 by assumption.
    apply (spl_f_ext K). intros t' Ht'.
    assert (Lq' : (y / sy + t' < ny)%nat).
    { assert (y / sy < ny - 3)%nat by (apply Nat.div_lt_upper_bound; unfold NY in Ly; lia). lia. }
    apply A1; assumption. }
  (* shape of T3 *)
  destruct B2 as [L2 R2]. destruct (R2 0%nat ltac:(lia)) as [R20 R200].
  set (cols := map (fun j => map (fun i => mirtk_pass dz sz (map (fun pl => at2 pl j i) T2)) (seq 0 NX)) (seq 0 NY)).
  assert (E3 : T3 = map (fun k => map (fun row => map (fun cl => nth k cl 0) row) cols) (seq 0 NZ)).
  { unfold T3, along_z3. rewrite R20, (R200 0%nat) by lia. fold cols. f_equal. f_equal.
    unfold cols. rewrite (nth_map_seq (fun j => map (fun i => mirtk_pass dz sz (map (fun pl => at2 pl j i) T2)) (seq 0 NX))) by lia.
    rewrite (nth_map_seq (fun i => mirtk_pass dz sz (map (fun pl => at2 pl 0 i) T2))) by lia. apply LZ. rewrite map_length. exact L2. }
  assert (S3 : length T3 = NZ) by (rewrite E3, map_length, seq_length; reflexivity).
  assert (S3y : forall z, (z < NZ)%nat -> length (nth z T3 []) = NY).
  { intros z Lz. rewrite E3. rewrite (nth_map_seq (fun k => map (fun row => map (fun cl => nth k cl 0) row) cols)) by exact Lz.
    rewrite map_length. unfold cols. rewrite map_length, seq_length. reflexivity. }
  assert (S3x : forall z y, (z < NZ)%nat -> (y < NY)%nat -> length (nth y (nth z T3 []) []) = NX).
  { intros z y Lz Ly. rewrite E3. rewrite (nth_map_seq (fun k => map (fun row => map (fun cl => nth k cl 0) row) cols)) by exact Lz.
    rewrite (nth_map_in'' (fun row => map (fun cl => nth z cl 0) row) cols y [] []) by (unfold cols; rewrite map_length, seq_length; exact Ly).
    rewrite map_length. unfold cols.
    rewrite (nth_map_seq (fun j => map (fun i => mirtk_pass dz sz (map (fun pl => at2 pl j i) T2)) (seq 0 NX))) by exact Ly.
    rewrite map_length, seq_length. reflexivity. }
  apply (nth_ext _ _ [] []).
  - rewrite firstn_length, !map_length, seq_length, S3. lia.
  - intros z Hz'. rewrite firstn_length, map_length, S3 in Hz'. assert (Lz : (z < mz)%nat) by lia.
    rewrite nth_firstn_lt by exact Lz.
    rewrite (nth_map_in'' (fun pl => firstn my (map (firstn mx) pl)) T3 z [] []) by lia.
    rewrite (nth_map_seq (fun z => map (fun y => map (fun x => ev3_at dx dy dz sx sy sz c z y x) (seq 0 mx)) (seq 0 my))) by exact Lz.
    apply (nth_ext _ _ [] []).
    + rewrite firstn_length, !map_length, seq_length, S3y by lia. lia.
    + intros y Hy'. rewrite firstn_length, map_length, S3y in Hy' by lia. assert (Ly : (y < my)%nat) by lia.
      rewrite nth_firstn_lt by exact Ly. rewrite (nth_map_in'' (firstn mx) _ y [] []) by (rewrite S3y by lia; lia).
      rewrite (nth_map_seq (fun y => map (fun x => ev3_at dx dy dz sx sy sz c z y x) (seq 0 mx))) by exact Ly.
      apply (nth_ext _ _ 0 0).
      * rewrite firstn_length, map_length, seq_length, S3x by lia. lia.
      * intros x Hx'. rewrite firstn_length, S3x in Hx' by lia. assert (Lx : (x < mx)%nat) by lia.
        rewrite nth_firstn_lt by exact Lx. rewrite (nth_map_seq (fun x => ev3_at dx dy dz sx sy sz c z y x)) by exact Lx.
        apply A3; lia.
Qed.
End Proofs.
