(* Data side of the image operations of core/image.py / data/image.py (C04), hand-written model.
   Definitions only.

   An image is (shape, value function): shape = sizes in GRID order (x, y[, z]) -- i.e. the REVERSE of
   the tensor's spatial shape (..., X) -- and ival J the value at integer index J = [jx; jy[; jz]].
   Every operation of the anchored code acts axis by axis (F.pad, slicing, F.interpolate with a linear
   mode, avg_pool with stride = kernel, separable conv, grid_sample on an axis-parallel lattice), so the
   model is a composition of per-axis operations:
     crop_ax    out[j] = in[j + lo] or the constant c outside   (F.pad with +/- margins, slicing)
     interp_ax  out[j] = linear interpolation of in at continuous index src j along the axis, with
                border (F.interpolate: source index clamped) or zeros (grid_sample) padding
     pool_ax    out[j] = mean of in[j k .. j k + k - 1]
     corr_ax    out[j] = sum_p w_p in[j + p - r], zeros outside ("same" zero padding, odd or even kernel)
   The argument conventions of the code ((X, ...) orders, which margin belongs to which tensor dim,
   // rounding, which align_corners flag reaches F.interpolate) live in the d_* functions below; they
   are tied to the code by the translator unit ImageOpsT (traces) and the correspondence check. *)
From Coq Require Import ZArith List Bool.
From DV Require Import Base.Field Base.LinAlg Model.Enums Model.Sampler.
Import ListNotations.
Local Open Scope fld_scope.

Section ImageOps.
Context {K : fld}.
Variable floorK : K -> Z.

Record nimg := mkI { ishape : list Z; ival : list Z -> K }.

Fixpoint upd {A} (k : nat) (v : A) (l : list A) : list A :=
  match l, k with
  | [], _ => []
  | _ :: r, O => v :: r
  | x :: r, S k' => x :: upd k' v r
  end.
Definition zget (J : list Z) (k : nat) : Z := nth k J 0%Z.
Fixpoint in_box (shape J : list Z) : bool :=
  match shape, J with
  | [], [] => true
  | n :: s', j :: J' => inb j n && in_box s' J'
  | _, _ => false
  end.

(* ---- per-axis operations ---- *)
Definition crop_ax (c : K) (ax : nat) (lo hi : Z) (im : nimg) : nimg :=
  let n := zget (ishape im) ax in
  mkI (upd ax (n - lo - hi)%Z (ishape im))
      (fun J => let j := (zget J ax + lo)%Z in if inb j n then ival im (upd ax j J) else c).

(* accessor along one axis with padding *)
Definition get_ax (pad : padmode) (ax : nat) (im : nimg) (J : list Z) (i : Z) : K :=
  let n := zget (ishape im) ax in
  match pad with
  | PZeros => if inb i n then ival im (upd ax i J) else 0
  | PBorder => ival im (upd ax (clampz i n) J)
  end.
Definition interp_ax (pad : padmode) (ax : nat) (src : Z -> K) (m : Z) (im : nimg) : nimg :=
  mkI (upd ax m (ishape im))
      (fun J => let '(i, t) := cell floorK (src (zget J ax)) in
                lerp (get_ax pad ax im J i) (get_ax pad ax im J (i + 1)%Z) t).
Definition pool_ax (ax : nat) (k : Z) (ceil_mode : bool) (im : nimg) : nimg :=
  let n := zget (ishape im) ax in
  mkI (upd ax (if ceil_mode then (n + k - 1) / k else n / k)%Z (ishape im))
      (fun J => let cnt := Z.min k (n - zget J ax * k) in   (* ceil_mode: the last window is clipped *)
                vsum (map (fun d => get_ax PZeros ax im J (zget J ax * k + d)%Z) (zseq k)) / of_Z cnt).
Definition corr_ax (ax : nat) (w : list K) (im : nimg) : nimg :=
  let r := (zlen w / 2)%Z in
  let n := zget (ishape im) ax in
  mkI (upd ax (n + 2 * r - zlen w + 1)%Z (ishape im))
      (fun J => vsum (map (fun p => fst p * get_ax PZeros ax im J (zget J ax + snd p - r)%Z) (combine w (zseq (zlen w))))).

(* source-index maps along one axis *)
Definition resize_src (ac : bool) (n m : Z) (j : Z) : K := interp_src ac n m j.       (* F.interpolate *)
Definition resample_src (n m : Z) (s s' : K) (j : Z) : K :=                            (* concentric lattices *)
  (of_Z j - (of_Z m - 1) / (1 + 1)) * s' / s + (of_Z n - 1) / (1 + 1).
Definition pool_src (k : Z) (j : Z) : K := of_Z k * of_Z j + (of_Z k - 1) / (1 + 1).

(* apply a per-axis operation along every axis, axis 0 (x) first *)
Fixpoint fold_axes (f : nat -> nimg -> nimg) (k : nat) (D : nat) (im : nimg) : nimg :=
  match D with O => im | S D' => fold_axes f (S k) D' (f k im) end.
Definition all_axes (D : nat) (f : nat -> nimg -> nimg) (im : nimg) : nimg := fold_axes f 0 D im.

(* tabulation in tensor order (last grid axis outermost), and freezing a stage into a table *)
Fixpoint indices (shape : list Z) : list (list Z) :=         (* all J in the box, x fastest *)
  match shape with
  | [] => [[]]
  | n :: s' => flat_map (fun J' => map (fun j => j :: J') (zseq n)) (indices s')
  end.
Definition tabulate (im : nimg) : list K := map (ival im) (indices (ishape im)).
Fixpoint lin (shape J : list Z) : Z :=
  match shape, J with
  | n :: s', j :: J' => (j + n * lin s' J')%Z
  | _, _ => 0%Z
  end.
Definition freeze (im : nimg) : nimg :=
  let t := tabulate im in mkI (ishape im) (fun J => nth (Z.to_nat (lin (ishape im) J)) t 0).
Definition of_table (shape : list Z) (t : list K) : nimg := mkI shape (fun J => nth (Z.to_nat (lin shape J)) t 0).

(* ---- operations with the code's argument conventions ---- *)
Definition eqshape (a b : list Z) : bool := (Nat.eqb (length a) (length b)) && forallb (fun p => Z.eqb (fst p) (snd p)) (combine a b).
(* core.image.crop(num=(x_lo, x_hi, y_lo, y_hi, ...), value=c) = F.pad(data, -num): first pair = last tensor dim = x *)
Definition d_crop (D : nat) (c : K) (num : list Z) (im : nimg) : nimg :=
  all_axes D (fun k => crop_ax c k (nth (2 * k) num 0%Z) (nth (2 * k + 1) num 0%Z)) im.
Definition d_pad (D : nat) (c : K) (num : list Z) (im : nimg) : nimg := d_crop D c (map Z.opp num) im.
(* center_crop(size = (X, ...)): out = min(n, size), offset (n - out) // 2 *)
Definition d_center_crop (D : nat) (size : list Z) (im : nimg) : nimg :=
  all_axes D (fun k i => let n := zget (ishape i) k in let o := Z.min n (nth k size 0%Z) in
                         crop_ax 0 k ((n - o) / 2) (n - o - (n - o) / 2) i) im.
(* center_pad: out = max(n, size), pad (p // 2, (p + 1) // 2) *)
Definition d_center_pad (D : nat) (c : K) (size : list Z) (im : nimg) : nimg :=
  all_axes D (fun k i => let n := zget (ishape i) k in let p := (Z.max n (nth k size 0%Z) - n)%Z in
                         crop_ax c k (- (p / 2)) (- ((p + 1) / 2)) i) im.
(* Tensor.narrow along the grid axis k (tensor dim ndim - 1 - k) *)
Definition d_narrow (k : nat) (start len : Z) (im : nimg) : nimg :=
  crop_ax 0 k start (zget (ishape im) k - start - len) im.
(* region_of_interest(start, size): crop(num = [start_i, n_i - (start_i + size_i)]) *)
Definition d_roi (D : nat) (c : K) (start size : list Z) (im : nimg) : nimg :=
  all_axes D (fun k i => let n := zget (ishape i) k in
                         crop_ax c k (nth k start 0%Z) (n - (nth k start 0%Z + nth k size 0%Z)) i) im.
(* grid_resize / F.interpolate(size, linear, align_corners); unchanged when the size is unchanged *)
Definition d_interp (D : nat) (ac : bool) (size : list Z) (im : nimg) : nimg :=
  if eqshape size (ishape im) then im
  else all_axes D (fun k i => interp_ax PBorder k (resize_src ac (zget (ishape i) k) (nth k size 0%Z)) (nth k size 0%Z) i) im.
(* downsample / upsample target sizes computed from the integer tensor shape (a default grid of that shape) *)
Definition in_dimsb (dims : option (list nat)) (i : nat) : bool :=
  match dims with None => true | Some l => existsb (Nat.eqb i) l end.
Fixpoint mapi_z {B} (f : nat -> Z -> B) (i : nat) (l : list Z) : list B :=
  match l with [] => [] | x :: r => f i x :: mapi_z f (S i) r end.
Definition down_size (L : nat) (dims : option (list nat)) (min_size : Z) (shape : list Z) : list Z :=
  mapi_z (fun i n => if in_dimsb dims i
                     then (if (min_size * 2 ^ Z.of_nat L <=? n)%Z then (n + 2 ^ Z.of_nat L - 1) / 2 ^ Z.of_nat L else n)%Z
                     else n) 0 shape.
Definition up_size (L : nat) (dims : option (list nat)) (shape : list Z) : list Z :=
  mapi_z (fun i n => if in_dimsb dims i then (n * 2 ^ Z.of_nat L)%Z else n) 0 shape.
(* optional Gaussian pre-smoothing (kernel values are oracle inputs) along the axes whose size changes *)
Definition d_smooth (D : nat) (kern : list K) (newsize : list Z) (im : nimg) : nimg :=
  match kern with
  | [] => im
  | _ => all_axes D (fun k i => if Z.eqb (nth k newsize 0%Z) (zget (ishape im) k) then i else corr_ax k kern i) im
  end.
Definition d_downsample (D : nat) (L : nat) (dims : option (list nat)) (min_size : Z) (ac : bool) (kern : list K) (im : nimg) : nimg :=
  match L with
  | O => im
  | _ => let sz := down_size L dims min_size (ishape im) in
         let sm := freeze (d_smooth D kern sz im) in
         all_axes D (fun k i => interp_ax PBorder k (resize_src ac (zget (ishape i) k) (nth k sz 0%Z)) (nth k sz 0%Z) i) sm
  end.
Definition d_upsample (D : nat) (L : nat) (dims : option (list nat)) (ac : bool) (im : nimg) : nimg :=
  match L with
  | O => im
  | _ => let sz := up_size L dims (ishape im) in
         all_axes D (fun k i => interp_ax PBorder k (resize_src ac (zget (ishape i) k) (nth k sz 0%Z)) (nth k sz 0%Z) i) im
  end.
(* avg_pool(kernel_size (scalar or per tensor dim ... X?), stride = kernel): ks given per GRID axis here *)
Definition d_pool (D : nat) (ks : list Z) (ceil_mode : bool) (im : nimg) : nimg :=
  all_axes D (fun k i => pool_ax k (nth k ks 1%Z) ceil_mode i) im.
(* grid_resample(in_spacing, out_spacing): the concentric lattice of the new size sampled with zeros padding.  The code
   returns the input unchanged only when the resampled grid EQUALS the input grid (same spacing); with equal spacing the
   source index of sample j is j itself, so the interpolation below returns the input as well *)
Definition d_resample (D : nat) (s s' : list K) (newsize : list Z) (im : nimg) : nimg :=
  all_axes D (fun k i => interp_ax PZeros k (resample_src (zget (ishape i) k) (nth k newsize 0%Z) (nth k s 0) (nth k s' 0))
                                   (nth k newsize 0%Z) i) im.
(* conv with one 1-D kernel used along every axis (zeros, "same" margin) *)
Definition d_conv (D : nat) (w : list K) (im : nimg) : nimg := all_axes D (fun k i => freeze (corr_ax k w i)) im.
(* conv with one n-D kernel tensor (kernel in tensor order [ky][kx] / [kz][ky][kx]; correlation as F.conv*d; zeros,
   "same" margin; applied to the LAST axes of the image, here all of them) *)
Definition getz (im : nimg) (J : list Z) : K := if in_box (ishape im) J then ival im J else 0.
Definition d_conv2 (w : list (list K)) (im : nimg) : nimg :=
  let ry := (zlen w / 2)%Z in let rx := (zlen (hd [] w) / 2)%Z in
  mkI (ishape im)
      (fun J => vsum (map (fun q => vsum (map (fun p => fst p * getz im [(zget J 0 + snd p - rx)%Z; (zget J 1 + snd q - ry)%Z])
                                              (combine (fst q) (zseq (zlen (fst q))))))
                          (combine w (zseq (zlen w))))).
Definition d_conv3 (w : list (list (list K))) (im : nimg) : nimg :=
  let rz := (zlen w / 2)%Z in let ry := (zlen (hd [] w) / 2)%Z in let rx := (zlen (hd [] (hd [] w)) / 2)%Z in
  mkI (ishape im)
      (fun J => vsum (map (fun r => vsum (map (fun q => vsum (map (fun p =>
                   fst p * getz im [(zget J 0 + snd p - rx)%Z; (zget J 1 + snd q - ry)%Z; (zget J 2 + snd r - rz)%Z])
                   (combine (fst q) (zseq (zlen (fst q)))))) (combine (fst r) (zseq (zlen (fst r))))))
                          (combine w (zseq (zlen w))))).

(* continuous per-axis source-index maps of the resizing operations, and the field-of-view condition of a position *)
Definition rsz (ac : bool) (n m x : K) : K := if ac then x * (n - 1) / (m - 1) else (x + 1 / (1 + 1)) * n / m - 1 / (1 + 1).
Definition rsm (n m s s' x : K) : K := (x - (m - 1) / (1 + 1)) * s' / s + (n - 1) / (1 + 1).
Definition fovc (nn : Z) (x : K) : Prop :=
  (0 <= floorK x <= nn - 1)%Z /\ ((floorK x <= nn - 2)%Z \/ x - of_Z (floorK x) = 0).

(* affine functions of the index *)
Definition aff (a : list K) (b : K) (J : list Z) : K := dot a (map of_Z J) + b.
End ImageOps.
