(* C04: chains of per-axis image operations of ANY length on images of ANY number of axes: an image that is affine in
   the index where it is known (V) stays affine, with transported coefficients, at every output index whose reads stay
   inside V; the transported coefficients are the original ones composed with the chain's index map. *)
From Coq Require Import ZArith List Field Ring Lia Bool.
From DV Require Import Base.Field Base.FieldFacts Base.LinAlg Base.Tactics Model.Enums Model.Sampler Model.ImageOps Model.ImageChain
  Proofs.C04Axis.
Import ListNotations.
Local Open Scope fld_scope.

Section C04Chain.
Variable K : fld.
Hypothesis Kf : is_field K.
Hypothesis Kc : char0 K.
Add Field KF_C04Chain : Kf.
Variable floorK : K -> Z.

(* ---------- boxes ---------- *)
Lemma in_box_length shape J : in_box shape J = true -> length J = length shape.
Proof.
  revert J; induction shape as [|n s IH]; intros [|j J] H; cbn in *; try discriminate; auto.
  apply andb_prop in H as [_ H]. f_equal. auto.
Qed.
Lemma in_box_zget shape J k : in_box shape J = true -> (k < length J)%nat -> (0 <= zget J k < zget shape k)%Z.
Proof.
  unfold zget. revert J k; induction shape as [|n s IH]; intros [|j J] k H Hk; cbn [in_box length] in *; try discriminate.
  - exfalso. lia.
  - apply andb_prop in H as [H1 H2]. destruct k as [|k]; cbn [nth]; [now apply inb_true in H1 | apply IH; auto; lia].
Qed.
Lemma in_box_upd shape J k v m : in_box shape J = true -> (0 <= v < m)%Z -> in_box (upd k m shape) (upd k v J) = true.
Proof.
  revert J k; induction shape as [|n s IH]; intros [|j J] [|k] H Hv; cbn in *; try discriminate; auto.
  - apply andb_prop in H as [H1 H2]. apply andb_true_intro; split; auto. apply inb_true. exact Hv.
  - apply andb_prop in H as [H1 H2]. apply andb_true_intro; split; auto.
Qed.

(* ---------- local versions of the per-axis lemmas: only the indices that are read matter ---------- *)
Lemma interp_ax_affine_local (pad : padmode) (ax : nat) (src : Z -> K) (m : Z) (im : nimg (K:=K)) (a : list K) (b : K) (J : list Z) :
  length a = length J -> (ax < length J)%nat ->
  let x := src (zget J ax) in let i := floorK x in
  (0 <= i < zget (ishape im) ax)%Z -> ival im (upd ax i J) = aff a b (upd ax i J) ->
  (x - of_Z i = 0 \/ ((0 <= i + 1 < zget (ishape im) ax)%Z /\ ival im (upd ax (i + 1)%Z J) = aff a b (upd ax (i + 1)%Z J))) ->
  ival (interp_ax floorK pad ax src m im) J = aff a b J + nth ax a 0 * (x - of_Z (zget J ax)).
Proof.
  intros HL Hax x i Hi H0 H1. cbn [interp_ax ival]. unfold cell. cbn beta iota. fold x. fold i.
  rewrite (get_ax_in K pad ax im J i) by exact Hi. rewrite H0, (aff_upd K Kf) by auto.
  destruct H1 as [Ht | [Hi1 H1]].
  - assert (Ex : x = of_Z i) by (transitivity (of_Z i + (x - of_Z i)); [ring | rewrite Ht; ring]).
    unfold lerp. rewrite Ex. ring.
  - rewrite (get_ax_in K pad ax im J (i + 1)) by exact Hi1. rewrite H1, (aff_upd K Kf) by auto.
    unfold lerp. rewrite (of_Z_add K Kf). cbn [of_Z of_pos]. ring.
Qed.

Lemma pool_ax_affine_local (ax : nat) (k : Z) (im : nimg (K:=K)) (a : list K) (b : K) (J : list Z) :
  length a = length J -> (ax < length J)%nat -> (0 < k)%Z ->
  (0 <= zget J ax)%Z -> ((zget J ax + 1) * k <= zget (ishape im) ax)%Z ->
  (forall d, (0 <= d < k)%Z -> ival im (upd ax (zget J ax * k + d)%Z J) = aff a b (upd ax (zget J ax * k + d)%Z J)) ->
  ival (pool_ax ax k false im) J = aff a b J + nth ax a 0 * (pool_src k (zget J ax) - of_Z (zget J ax)).
Proof.
  intros HL Hax Hk Hj Hw Him.
  set (n := zget (ishape im) ax) in *.
  cbn [pool_ax ival].
  replace (Z.min k (zget (ishape im) ax - zget J ax * k)) with k by lia.
  set (j := zget J ax) in *.
  assert (E : map (fun d => get_ax PZeros ax im J (j * k + d)) (zseq k)
              = map (fun d => (aff a b J + nth ax a 0 * (of_Z (j * k) - of_Z j)) + nth ax a 0 * of_Z d) (zseq k)).
  { apply map_ext_in. intros d Hd. apply in_zseq in Hd.
    rewrite (get_ax_in K) by (fold n; nia). rewrite Him by lia. rewrite (aff_upd K Kf) by auto. fold j.
    rewrite (of_Z_add K Kf). ring. }
  rewrite E. clear E.
  assert (Ek : k = Z.of_nat (Z.to_nat k)) by lia.
  assert (Hk0 : of_Z (K:=K) k <> 0) by (apply (of_Z_nz K Kf Kc); lia).
  assert (H2 : (1 + 1 : K) <> 0) by (apply (two_nz K Kf Kc)).
  pose proof (sum_arith K Kf (aff a b J + nth ax a 0 * (of_Z (j * k) - of_Z j)) (nth ax a 0) (Z.to_nat k)) as S.
  rewrite <- Ek in S. unfold pool_src.
  rewrite (of_Z_mul K Kf) in S.
  match type of S with (1 + 1) * ?V = _ =>
    assert (EV : V = of_Z k * (aff a b J + nth ax a 0 * (of_Z j * of_Z k - of_Z j)) + nth ax a 0 * of_Z k * (of_Z k - 1) / (1 + 1))
      by (transitivity ((1 + 1) * V / (1 + 1)); [field; auto | rewrite S; field; auto])
  end.
  rewrite (of_Z_mul K Kf). rewrite EV. field; auto.
Qed.

Lemma corr_ax_affine_local (ax : nat) (w : list K) (im : nimg (K:=K)) (a : list K) (b : K) (J : list Z) :
  length a = length J -> (ax < length J)%nat ->
  let r := (zlen w / 2)%Z in
  vsum w = 1 ->
  vsum (map (fun p => fst p * (of_Z (snd p) - of_Z r)) (combine w (zseq (zlen w)))) = 0 ->
  (forall p, (0 <= p < zlen w)%Z -> (0 <= zget J ax + p - r < zget (ishape im) ax)%Z /\
     ival im (upd ax (zget J ax + p - r)%Z J) = aff a b (upd ax (zget J ax + p - r)%Z J)) ->
  ival (corr_ax ax w im) J = aff a b J.
Proof.
  intros HL Hax r Hs Hm Him. cbn [corr_ax ival]. fold r.
  set (j := zget J ax) in *.
  assert (E : map (fun p => fst p * get_ax PZeros ax im J (j + snd p - r)) (combine w (zseq (zlen w)))
              = map (fun p => fst p * (aff a b J + nth ax a 0 * (of_Z (snd p) - of_Z r))) (combine w (zseq (zlen w)))).
  { apply map_ext_in. intros [x p] Hp. apply (in_combine_zseq K) in Hp. cbn [fst snd].
    destruct (Him p Hp) as [R V]. rewrite (get_ax_in K) by exact R. rewrite V, (aff_upd K Kf) by auto. fold j.
    replace (j + p - r)%Z with (j + (p - r))%Z by lia. rewrite (of_Z_add K Kf), (of_Z_sub K Kf). ring. }
  rewrite E, (stencil_sum K Kf), Hm.
  assert (Ef : map fst (combine w (zseq (zlen w))) = w).
  { clear. unfold zlen, zseq. rewrite Nat2Z.id.
    assert (G : forall (l : list K) (s : list Z), length s = length l -> map fst (combine l s) = l).
    { induction l as [|x l IH]; intros [|y s] H; cbn in *; try discriminate; auto. f_equal. apply IH. lia. }
    apply G. rewrite map_length, seq_length. reflexivity. }
  rewrite Ef, Hs. ring.
Qed.

(* ---------- one step ---------- *)
Lemma aff_step (s : axstep) (a : list K) (b : K) (J : list Z) : length a = length J -> (step_axis s < length J)%nat ->
  aff (fst (step_coef s (a, b))) (snd (step_coef s (a, b))) J
  = aff a b J + nth (step_axis s) a 0 * ((fst (step_map s) * of_Z (zget J (step_axis s)) + snd (step_map s)) - of_Z (zget J (step_axis s))).
Proof.
  intros HL Hax. unfold step_coef. destruct (step_map s) as [al be]. cbn [fst snd].
  symmetry. apply (aff_rescale K Kf); auto.
Qed.

Lemma step_affine (D : nat) (s : axstep) (im : nimg (K:=K)) (ab : list K * K) (V : list Z -> Prop) :
  (step_axis s < D)%nat -> affine_on D im ab V ->
  affine_on D (run_step floorK s im) (step_coef s ab) (valid_after floorK s im V).
Proof.
  intros Hax (La & Ls & HV). destruct ab as [a b]. cbn [fst snd] in *.
  split; [|split].
  - unfold step_coef. destruct (step_map s). cbn [fst]. now rewrite upd_length.
  - destruct s; cbn [run_step crop_ax interp_ax pool_ax corr_ax ishape]; now rewrite upd_length.
  - intros J LJ [HB HS]. split; [exact HB|].
    assert (LaJ : length a = length J) by congruence.
    assert (HaxJ : (step_axis s < length J)%nat) by (rewrite LJ; exact Hax).
    rewrite aff_step by auto.
    assert (LU : forall k v, length (upd k v J) = D) by (intros; rewrite upd_length; exact LJ).
    destruct s as [c ax lo hi | pad ax al be m | ax k | ax w]; cbn [step_axis step_map fst snd run_step step_valid] in *.
    + (* crop *)
      destruct (HV _ (LU _ _) HS) as [B E].
      pose proof (in_box_zget _ _ ax B ltac:(rewrite upd_length; exact HaxJ)) as R. rewrite zget_upd_same in R by auto.
      cbn [crop_ax ival]. rewrite (proj2 (inb_true _ _) R), E. rewrite (aff_upd K Kf) by auto.
      rewrite (of_Z_add K Kf). ring.
    + (* interpolation *)
      destruct HS as [H0 H1].
      destruct (HV _ (LU _ _) H0) as [B0 E0].
      pose proof (in_box_zget _ _ ax B0 ltac:(rewrite upd_length; exact HaxJ)) as R0. rewrite zget_upd_same in R0 by auto.
      apply (interp_ax_affine_local pad ax (fun j => al * of_Z j + be) m im a b J LaJ HaxJ R0 E0).
      destruct H1 as [Ht | H1]; [left; exact Ht | right].
      destruct (HV _ (LU _ _) H1) as [B1 E1].
      pose proof (in_box_zget _ _ ax B1 ltac:(rewrite upd_length; exact HaxJ)) as R1. rewrite zget_upd_same in R1 by auto.
      split; [exact R1 | exact E1].
    + (* pooling *)
      destruct HS as (Hk & Hj & Hw & Hd).
      rewrite (pool_ax_affine_local ax k im a b J LaJ HaxJ Hk Hj Hw).
      * unfold pool_src. ring.
      * intros d Hdd. exact (proj2 (HV _ (LU _ _) (Hd d Hdd))).
    + (* correlation *)
      destruct HS as (Hs1 & Hm & Hp).
      rewrite (corr_ax_affine_local ax w im a b J LaJ HaxJ Hs1 Hm).
      * ring.
      * intros p Hpp. destruct (HV _ (LU _ _) (Hp p Hpp)) as [B E]. split; [|exact E].
        pose proof (in_box_zget _ _ ax B ltac:(rewrite upd_length; exact HaxJ)) as R. rewrite zget_upd_same in R by auto. exact R.
Qed.

(* ---------- chains of any length ---------- *)
Theorem steps_affine (D : nat) (l : list axstep) : steps_ok D l ->
  forall (im : nimg (K:=K)) (ab : list K * K) (V : list Z -> Prop), affine_on D im ab V ->
  affine_on D (run_steps floorK l im) (steps_coef l ab) (valid_chain floorK l im V).
Proof.
  intro Hl. induction Hl as [|s r Hs Hr IH]; intros im ab V H; cbn [run_steps steps_coef valid_chain]; [exact H|].
  apply IH. apply step_affine; auto.
Qed.

(* ---------- the transported coefficients are the original ones composed with the chain's index map ---------- *)
Lemma dot_upd (a X : list K) (k : nat) (v : K) : length a = length X -> (k < length X)%nat ->
  dot a (upd k v X) = dot a X + nth k a 0 * (v - nth k X 0).
Proof.
  unfold dot, vmul. revert a k. induction X as [|x X IH]; intros [|y a] [|k] HL Hk; cbn in *; try lia.
  - ring.
  - injection HL as HL. rewrite (IH a k HL ltac:(lia)). ring.
Qed.
Lemma dot_upd_l (a X : list K) (k : nat) (v : K) : length a = length X -> (k < length X)%nat ->
  dot (upd k v a) X = dot a X + (v - nth k a 0) * nth k X 0.
Proof.
  unfold dot, vmul. revert a k. induction X as [|x X IH]; intros [|y a] [|k] HL Hk; cbn in *; try lia.
  - ring.
  - injection HL as HL. rewrite (IH a k HL ltac:(lia)). ring.
Qed.

Lemma step_phi_length s (X : list K) : length (step_phi s X) = length X.
Proof. unfold step_phi. destruct (step_map s). apply upd_length. Qed.
Lemma steps_phi_length l (X : list K) : length (steps_phi l X) = length X.
Proof. induction l as [|s r IH]; cbn [steps_phi]; [reflexivity | now rewrite step_phi_length]. Qed.

Lemma coef_phi_step (s : axstep) (a : list K) (b : K) (X : list K) : length a = length X -> (step_axis s < length X)%nat ->
  dot (fst (step_coef s (a, b))) X + snd (step_coef s (a, b)) = dot a (step_phi s X) + b.
Proof.
  intros HL Hk. unfold step_coef, step_phi. destruct (step_map s) as [al be]. cbn [fst snd].
  rewrite dot_upd_l, dot_upd by auto. ring.
Qed.

Theorem coef_phi (D : nat) (l : list axstep) : steps_ok D l ->
  forall (a : list K) (b : K) (X : list K), length a = D -> length X = D ->
  dot (fst (steps_coef l (a, b))) X + snd (steps_coef l (a, b)) = dot a (steps_phi l X) + b.
Proof.
  intro Hl. induction Hl as [|s r Hs Hr IH]; intros a b X La LX; cbn [steps_coef steps_phi]; [reflexivity|].
  destruct (step_coef s (a, b)) as [a' b'] eqn:E.
  assert (La' : length a' = D).
  { unfold step_coef in E. destruct (step_map s). injection E as <- _. now rewrite upd_length. }
  rewrite (IH a' b' X La' LX).
  pose proof (coef_phi_step s a b (steps_phi r X)) as P. rewrite E in P. cbn [fst snd] in P.
  apply P; rewrite steps_phi_length; congruence.
Qed.

(* composition of chains *)
Lemma run_steps_app l1 l2 (im : nimg (K:=K)) : run_steps floorK (l1 ++ l2) im = run_steps floorK l2 (run_steps floorK l1 im).
Proof. revert im; induction l1 as [|s r IH]; intro im; cbn; auto. Qed.
Lemma steps_phi_app l1 l2 (X : list K) : steps_phi (l1 ++ l2) X = steps_phi l1 (steps_phi l2 X).
Proof. induction l1 as [|s r IH]; cbn; [reflexivity | now rewrite IH]. Qed.
Lemma steps_ok_app D (l1 l2 : list (axstep (K:=K))) : steps_ok D l1 -> steps_ok D l2 -> steps_ok D (l1 ++ l2).
Proof. unfold steps_ok. intros. apply Forall_app. split; auto. Qed.
End C04Chain.
