"""C06 -- a spatial transform means one world-space map, however it is evaluated."""
import math

import vlib
from vlib import Violation, qc, qc_mat, qc_vec, coq_list

ID = "C06"
GEN_UNITS = ["Hmm", "Quat", "GridT", "LinInv", "Transform"]
PROPS_FILE = "Props/C06.v"
PROPS_MOD = "Props.C06"
COQ_TARGETS = ["Props/C06.vo", "Model/TransformQc.vo"]
SOURCES = ["deepali/spatial/base.py", "deepali/spatial/linear.py", "deepali/spatial/composite.py", "deepali/spatial/nonrigid.py",
           "deepali/spatial/bspline.py", "deepali/spatial/generic.py", "deepali/spatial/transformer.py", "deepali/spatial/parametric.py",
           "deepali/core/pointset.py", "deepali/core/flow.py", "deepali/modules/sample.py"]
TRUSTED = [
    "Coq 8.16.1 kernel + vm_compute",
    "translator: tools/symtorch.py semantics of the traced torch subset incl. its minimal nn.Module/ModuleDict/Parameter shims "
    "(validated by this run's correspondence on every traced view)",
    "modelled not verified: F.grid_sample / F.interpolate (coq/Model/Sampler.v, validated here on random fields and images), "
    "tanh/exp/tan/cos/sin/sqrt (evaluated only at 0 / 1 for the defaults; otherwise the stored matrix is the model's input), float rounding",
]
ASSUMPTIONS = [
    "loop uniformity of SequentialTransform.tensor / MultiLevelTransform.tensor / forward beyond 4 members (checked structurally for 1..4 members "
    "in the translator unit, numerically up to 6 members; the Coq theorems are inductions over the member list of the fold model)",
    "ImageTransformer rounds the pre-mapped target coordinates to 12 decimals (not modelled; |error| <= 5e-13, C01 rounding theorem)",
    "batched parameters (groups = N): items are independent (checked structurally for fresh tensors, numerically for every view)",
    "non-rigid models: T := x + (multi)linearly interpolated displacement buffer u with border replication; how u is obtained from the parameters "
    "(grid_reshape, expv, B-spline evaluation) is the business of C11/C13/C14 and enters here as the implementation's own buffer",
]
COQF = {1: "FT", 0: "FA", -1: "FH"}
AXC = {"grid": "GRID", "cube": "CUBE", "cube_corners": "CUBE_CORNERS", "world": "WORLD"}
ELEMENTARY = ["Translation", "EulerRotation", "QuaternionRotation", "IsotropicScaling", "AnisotropicScaling", "Shearing", "HomogeneousTransform"]
COMPOSITE = ["RigidTransform", "RigidQuaternionTransform", "SimilarityTransform", "AffineTransform", "FullAffineTransform"]
LINEAR = ELEMENTARY + COMPOSITE
NONRIGID = ["DisplacementFieldTransform", "StationaryVelocityFieldTransform", "FreeFormDeformation", "StationaryVelocityFreeFormDeformation"]
HEADER = ["From Coq Require Import ZArith QArith List String Bool.",
          "From DV Require Import Base.Field Base.LinAlg Base.QcInst Base.QcCmp Model.Enums Model.Homog Model.Grid Model.Sampler Model.SamplerQc "
          "Model.Transform Model.TransformQc Gen.Hmm Gen.GridT Gen.LinInv Gen.Transform.",
          "Import ListNotations.", "Definition tol : Q := 2 # 100000.", "Definition tolw : Q := 2 # 10000."]


def dy(rng, lo=-2.0, hi=2.0, bits=4):
    return rng.randint(int(lo * 2 ** bits), int(hi * 2 ** bits)) / 2 ** bits


def form_of(m, D):
    c = len(m[0])
    return "FT" if c == 1 else ("FA" if c == D else "FH")


def rgrid(rng, D, ac=None, small=True):
    size = [rng.randint(2, 5 if small else 7) for _ in range(D)]
    spacing = [rng.choice([0.5, 1.0, 1.5, 2.0]) for _ in range(D)]
    center = [dy(rng, -3, 3, 2) for _ in range(D)]
    if D == 2:
        c, s = rng.choice([(1.0, 0.0), (0.6, 0.8), (0.0, 1.0), (-0.8, 0.6), (0.6, -0.8)])
        d = [[c, -s], [s, c]]
    else:
        q = rng.choice([(1, 0, 0, 0), (1, 1, 0, 0), (1, 1, 1, 1), (1, 2, 2, 0), (2, 1, 0, 2), (0, 1, 0, 1), (2, 2, 1, 0)])
        n = math.sqrt(sum(v * v for v in q))
        w, x, y, z = [v / n for v in q]
        d = [[1 - 2 * (y * y + z * z), 2 * (x * y - z * w), 2 * (x * z + y * w)],
             [2 * (x * y + z * w), 1 - 2 * (x * x + z * z), 2 * (y * z - x * w)],
             [2 * (x * z - y * w), 2 * (y * z + x * w), 1 - 2 * (x * x + y * y)]]
    return {"size": size, "spacing": spacing, "center": center, "direction": d, "ac": (rng.random() < 0.5) if ac is None else ac}


def qgrid(g):
    return f"(qgrid {qc_vec(g['size'])} {qc_vec(g['spacing'])} {qc_vec(g['center'])} {qc_mat(g['direction'])})"


def cb(b):
    return "true" if b else "false"


def rand_linear(rng, cls, D, N):
    """plain-tensor parameters in the documented ranges: angles in (-pi, pi], shear angles in (-pi/4, pi/4), scales > 0"""
    def ang(k, lim=math.pi):
        return [[rng.uniform(-lim, lim) for _ in range(k)] for _ in range(N)]
    na = 1 if D == 2 else 3
    tr = [[dy(rng, -1, 1) for _ in range(D)] for _ in range(N)]
    sc = lambda k: [[rng.choice([0.5, 0.75, 1.25, 1.5, 2.0]) for _ in range(k)] for _ in range(N)]  # noqa: E731
    quat = [[dy(rng, -2, 2) or 1.0 for _ in range(4)] for _ in range(N)]
    c = {"kind": "linear", "cls": cls}
    if cls == "Translation":
        c["params"] = tr
    elif cls == "EulerRotation":
        c["params"] = ang(na)
        c["order"] = None if D == 2 or rng.random() < 0.4 else "".join(rng.choice("XYZ") for _ in range(3))
    elif cls == "QuaternionRotation":
        c["params"] = quat
    elif cls == "IsotropicScaling":
        c["params"] = sc(1)
    elif cls == "AnisotropicScaling":
        c["params"] = sc(D)
    elif cls == "Shearing":
        c["params"] = ang(na, math.pi / 4 * 0.9)
    elif cls == "HomogeneousTransform":
        c["params"] = [[[dy(rng, -1.5, 1.5) + (1.0 if i == j else 0.0) for j in range(D + 1)] for i in range(D)] for _ in range(N)]
    elif cls == "RigidTransform":
        c["params"] = {"rotation": ang(na), "translation": tr}
    elif cls == "RigidQuaternionTransform":
        c["params"] = {"rotation": quat, "translation": tr}
    elif cls == "SimilarityTransform":
        c["params"] = {"scaling": sc(1), "rotation": ang(na), "translation": tr}
    elif cls == "AffineTransform":
        c["params"] = {"scaling": sc(D), "rotation": ang(na), "translation": tr}
    elif cls == "FullAffineTransform":
        c["params"] = {"scaling": sc(D), "shearing": ang(na, math.pi / 4 * 0.9), "rotation": ang(na), "translation": tr}
    return c


def lininv_term(c, D, k, orc):
    """Gen/LinInv.v parameter -> matrix map of an elementary class on the stored parameters of group item k"""
    cls, p = c["cls"], c["params"][k]
    if cls == "Translation":
        return f"gen_translation{D}_fwd (K:=QcF) " + " ".join(qc(v) for v in p)
    if cls == "IsotropicScaling":
        return f"gen_isoscale{D}_fwd (K:=QcF) {qc(p[0])}"
    if cls == "AnisotropicScaling":
        return f"gen_anisoscale{D}_fwd (K:=QcF) " + " ".join(qc(v) for v in p)
    if cls == "HomogeneousTransform":
        return f"gen_homogeneous{D}_fwd (K:=QcF) " + " ".join(qc(v) for r in p for v in r)
    if cls == "Shearing":
        return f"gen_shear{D}_fwd (K:=QcF) " + " ".join(qc(v) for v in orc["tan"][k])
    if cls == "QuaternionRotation":
        return f"gen_quaternion_fwd (K:=QcF) {qc(orc['norm'][k])} " + " ".join(qc(v) for v in p)
    if cls == "EulerRotation":
        cs = " ".join(qc(v) for v in orc["cos"][k] + orc["sin"][k])
        if D == 2:
            return f"gen_euler2_fwd (K:=QcF) {cs}"
        o = c.get("order")
        ot = "gen_euler3_default_order" if o is None else "(" + ", ".join("A" + ch for ch in o) + ")"
        return f"gen_euler3_fwd (K:=QcF) {ot} {cs}"
    return None


def nested(a):
    if isinstance(a, list):
        return "[" + "; ".join(nested(v) for v in a) + "]"
    return qc(a)


def gen_cases(ctx):
    rng = ctx.rng
    cases = []
    # fresh: every class x admissible D x groups
    for cls in LINEAR:
        for D in (2, 3):
            if cls in ("QuaternionRotation", "RigidQuaternionTransform") and D == 2:
                continue
            cases.append({"kind": "fresh", "cls": cls, "D": D, "grid": rgrid(rng, D), "groups": rng.choice([1, 2])})
    n_lin = ctx.n(36, 240)
    for i in range(n_lin):
        cls = LINEAR[i % len(LINEAR)]
        D = 3 if cls in ("QuaternionRotation", "RigidQuaternionTransform") else (2 if (i // len(LINEAR)) % 2 == 0 else 3)
        N = rng.choice([1, 1, 2])
        g = rgrid(rng, D)
        c = rand_linear(rng, cls, D, N)
        Np = rng.choice([1, N])
        c.update({"D": D, "N": N, "grid": g, "oracle_fns": cls in ELEMENTARY,
                  "points": [[[dy(rng, -1, 1) for _ in range(D)] for _ in range(3)] for _ in range(Np)],
                  "lattice": [[rng.randrange(s) for s in g["size"]] for _ in range(2)],
                  "world_points": [[[dy(rng, -4, 4, 2) for _ in range(D)] for _ in range(2)] for _ in range(Np)]})
        # dense field on another grid with the same cube frame (same domain + flag, other size)
        if rng.random() < 0.6:
            sz = [rng.randint(2, 6) for _ in range(D)]
            if g["ac"]:
                sp = [g["spacing"][j] * (g["size"][j] - 1) / (sz[j] - 1) for j in range(D)]
            else:
                sp = [g["spacing"][j] * g["size"][j] / sz[j] for j in range(D)]
            c["disp_grid"] = {"size": sz, "spacing": sp, "center": g["center"], "direction": g["direction"], "ac": g["ac"]}
            c["lattice_other"] = [[rng.randrange(s) for s in sz] for _ in range(2)]
        # composite (sequential) classes re-express the map for ANY other grid (CompositeTransform.disp)
        if True:   # since the repair of SpatialTransform.disp every linear class does, elementary ones included
            c["disp_any"] = rgrid(rng, D)
            c["lattice_any"] = [[rng.randrange(s) for s in c["disp_any"]["size"]] for _ in range(2)]
        axes = ["grid", "cube", "cube_corners", "world"]
        pa = {"axes": rng.choice(axes), "to_axes": rng.choice(axes), "grid": rgrid(rng, D) if rng.random() < 0.6 else None,
              "to_grid": rgrid(rng, D) if rng.random() < 0.6 else None}
        pa["x"] = [[[dy(rng, -1, 1) * (3 if pa["axes"] in ("grid", "world") else 1) for _ in range(D)] for _ in range(2)] for _ in range(Np)]
        c["points_api"] = pa
        cases.append(c)
    # composites of any length
    for i in range(ctx.n(18, 120)):
        D = rng.choice([2, 3])
        g = rgrid(rng, D)
        k = rng.choice([0, 1, 2, 2, 3, 3, 4, 5, 6])
        pool = [c for c in ELEMENTARY if D == 3 or c != "QuaternionRotation"]
        members = [rand_linear(rng, rng.choice(pool), D, 1) for _ in range(k)]
        cname = ["SequentialTransform", "MultiLevelTransform"][i % 2]
        if cname == "MultiLevelTransform" and k >= 1 and rng.random() < 0.4:
            shape = list(reversed(g["size"]))
            def fld(shape):  # noqa: E306
                if len(shape) == 1:
                    return [dy(rng, -0.25, 0.25, 5) for _ in range(shape[0])]
                return [fld(shape[1:]) for _ in range(shape[0])]
            members[rng.randrange(k)] = {"kind": "disp", "u": [[fld(shape) for _ in range(D)]]}
        cases.append({"kind": "composite", "cls": cname, "D": D, "grid": g, "members": members,
                      "points": [[[dy(rng, -0.75, 0.75) for _ in range(D)] for _ in range(2)]]})
    # non-rigid models, T := interpolated buffer
    for i in range(ctx.n(12, 80)):
        cls = NONRIGID[i % 4]
        D = 2 if i % 3 else 3
        ac = True if "FreeForm" in cls else (rng.random() < 0.5)
        g = rgrid(rng, D, ac=ac)
        g["size"] = [rng.randint(3, 5) for _ in range(D)]
        N = rng.choice([1, 2]) if cls == "DisplacementFieldTransform" else 1
        c = {"kind": "nonrigid", "cls": cls, "D": D, "N": N, "grid": g}
        if "FreeForm" in cls:
            c["stride"] = 1
            pshape = [s + 2 for s in reversed(g["size"])]   # control points incl. margin; verified by the constructor
            pshape = None
        shape = list(reversed(g["size"]))
        def fld(shape, amp):  # noqa: E306
            if len(shape) == 1:
                return [dy(rng, -amp, amp, 5) for _ in range(shape[0])]
            return [fld(shape[1:], amp) for _ in range(shape[0])]
        if "FreeForm" in cls:
            shape = [s + 3 for s in shape]          # cubic_bspline_control_point_grid_size(n, stride=1) = n + 3
        if cls.startswith("StationaryVelocity"):
            c["steps"] = 3
        c["params"] = [[fld(shape, 0.25) for _ in range(D)] for _ in range(N)]
        Np = rng.choice([1, N])
        c["points"] = [[[dy(rng, -1, 1) for _ in range(D)] for _ in range(3)] for _ in range(Np)]
        c["world_points"] = [[[dy(rng, -2, 2, 2) for _ in range(D)] for _ in range(2)] for _ in range(Np)]
        if cls == "DisplacementFieldTransform" and N == 1:
            c["resize_to"] = [rng.randint(2, 6) for _ in range(D)]
        c["disp_any"] = rgrid(rng, D)
        c["lattice_any"] = [[rng.randrange(s) for s in c["disp_any"]["size"]] for _ in range(2)]
        cases.append(c)
    # coarse parameter lattices: stride > 1 x resize x align_corners x class; own-grid disp()/flow()/tensor() vs the point map
    combos = [(cls, st_, rs, ac) for cls in NONRIGID for st_ in (2, 3) for rs in ((False, True) if "FreeForm" not in cls else (None,))
              for ac in ((False, True) if "FreeForm" not in cls else (True,))]
    for i in range(ctx.n(12, 48)):
        cls, st_, rs, ac = combos[i % len(combos)] if i < len(combos) else rng.choice(combos)
        D = 2 if i % 4 else 3
        g = rgrid(rng, D, ac=ac)
        g["size"] = [rng.randint(4, 6) for _ in range(D)]
        c = {"kind": "nonrigid", "cls": cls, "D": D, "N": 1, "grid": g, "stride": st_, "param_seed": rng.randrange(1 << 30), "strided": True,
             "points": [[[dy(rng, -1, 1) for _ in range(D)] for _ in range(3)]],
             "world_points": [[[dy(rng, -2, 2, 2) for _ in range(D)] for _ in range(2)]]}
        if rs is not None:
            c["resize"] = rs
        if cls.startswith("StationaryVelocity"):
            c["steps"] = 3
        cases.append(c)
    # SequentialTransform(linear, displacement field): grid=True must reach the first member only (also through ImageTransformer)
    for i in range(ctx.n(8, 40)):
        D = 2
        g = rgrid(rng, D)
        g["size"] = [rng.randint(3, 5) for _ in range(D)]
        shape = list(reversed(g["size"]))
        u = [[[[dy(rng, -0.25, 0.25, 5) for _ in range(shape[1])] for _ in range(shape[0])] for _ in range(D)]]
        lin = rand_linear(rng, ["Translation", "RigidTransform", "AnisotropicScaling", "AffineTransform", "Shearing"][i % 5], D, 1)
        if lin["cls"] in ("Translation",):
            lin["params"] = [[dy(rng, -0.5, 0.5) or 0.25 for _ in range(D)]]
        tg = rgrid(rng, D)
        tg["size"] = [rng.randint(2, 4) for _ in range(D)]
        src = rgrid(rng, D)
        src["size"] = [rng.randint(3, 6) for _ in range(D)]
        src["center"] = [g["center"][j] + dy(rng, -0.5, 0.5, 2) for j in range(D)]
        ishape = list(reversed(src["size"]))
        img = [[[[dy(rng, -4, 4, 3) for _ in range(ishape[1])] for _ in range(ishape[0])]]]
        cases.append({"kind": "seqgrid", "D": D, "grid": g, "linear": lin, "u": u, "target": tg, "source": src, "image": img,
                      "padding": rng.choice(["border", "zeros"]), "probe": [[rng.randrange(s_) for s_ in tg["size"]] for _ in range(3)],
                      "lattice": [[rng.randrange(s_) for s_ in g["size"]] for _ in range(3)]})
    # ImageTransformer
    for i in range(ctx.n(16, 100)):
        D = 2 if i % 3 else 3
        nonrigid = D == 2 and i % 4 == 1
        g = rgrid(rng, D)
        if nonrigid:
            g["size"] = [rng.randint(3, 5) for _ in range(D)]
            sz = [rng.randint(2, 4) for _ in range(D)]
            sp = [g["spacing"][j] * ((g["size"][j] - 1) / (sz[j] - 1) if g["ac"] else g["size"][j] / sz[j]) for j in range(D)]
            tg = {"size": sz, "spacing": sp, "center": g["center"], "direction": g["direction"], "ac": rng.random() < 0.5}
            any_target = rng.random() < 0.5
            if any_target:      # a target that is NOT a lattice of the transform's domain: the field is interpolated at the pre-mapped points
                tg = rgrid(rng, D)
                tg["size"] = [rng.randint(2, 4) for _ in range(D)]
            shape = list(reversed(g["size"]))
            u = [[[[dy(rng, -0.25, 0.25, 5) for _ in range(shape[1])] for _ in range(shape[0])] for _ in range(D)]]
            tr = {"kind": "nonrigid", "cls": "DisplacementFieldTransform", "params": u, "any_target": any_target}
        else:
            tg = rgrid(rng, D)
            tg["size"] = [rng.randint(2, 4) for _ in range(D)]
            cls = LINEAR[i % len(LINEAR)]
            if cls in ("QuaternionRotation", "RigidQuaternionTransform") and D == 2:
                cls = "AffineTransform"
            tr = rand_linear(rng, cls, D, 1)
        src = rgrid(rng, D)
        src["size"] = [rng.randint(3, 6) for _ in range(D)]
        src["center"] = [g["center"][j] + dy(rng, -0.5, 0.5, 2) for j in range(D)]
        shape = list(reversed(src["size"]))
        def im(shape):  # noqa: E306
            if len(shape) == 1:
                return [dy(rng, -4, 4, 3) for _ in range(shape[0])]
            return [im(shape[1:]) for _ in range(shape[0])]
        cases.append({"kind": "warp", "D": D, "grid": g, "target": tg, "source": src, "transform": tr, "padding": rng.choice(["border", "zeros"]),
                      "image": [[im(shape)]], "probe": [[rng.randrange(s) for s in tg["size"]] for _ in range(4)]})
    return cases


def at(a, idx):
    """a[z][y][x] for idx = (x, y, z)"""
    for i in reversed(idx):
        a = a[i]
    return a


def checks_for(c, r):
    """list of Coq boolean terms for one case"""
    D = c.get("D")
    out = []
    k = c["kind"]
    if k == "fresh":
        for item in r["val"]:
            out.append(f"mcloser tol (gen_fresh (K:=QcF) L{c['cls']} {D}) {qc_mat(item)}")
        return out
    if k == "linear":
        g = qgrid(r["grid"])
        ac = cb(r["grid"]["ac"])
        N = len(r["M"])
        for kk in range(N):
            M = r["M"][kk]
            f = form_of(M, D)
            Mq = qc_mat(M)
            if c.get("oracle_fns"):
                t = lininv_term(c, D, kk, r.get("oracle") or {})
                if t:
                    out.append(f"mcloser tol ({t}) {Mq}")
            out.append(f"mcloser tol (view_matrix (K:=QcF) {D} {f} {Mq}) {qc_mat(r['matrix'][kk])}")
            for key in ("fwd", "fwd_grid"):
                pts = c["points"][kk if len(c["points"]) > 1 else 0]
                for x, y in zip(pts, r[key][kk]):
                    out.append(f"vcloser tol (view_forward (K:=QcF) {D} {f} {Mq} {qc_vec(x)}) {qc_vec(y)}")
            for idx, dv in zip(c["lattice"], r["disp"][kk]):
                out.append(f"vcloser tol (view_disp (K:=QcF) {D} {f} {Mq} (qlattice {D} {ac} {g} {qc_vec([float(v) for v in idx])})) {qc_vec(dv)}")
            if "disp_other" in r:
                go = qgrid(r["disp_grid"])
                for idx, dv in zip(c["lattice_other"], r["disp_other"][kk]):
                    out.append(f"vcloser tol (view_disp (K:=QcF) {D} {f} {Mq} (qlattice {D} {ac} {go} {qc_vec([float(v) for v in idx])})) {qc_vec(dv)}")
            if "disp_any" in r:
                ga = qgrid(r["disp_any_grid"])
                aca = cb(r["disp_any_grid"]["ac"])
                for idx, dv in zip(c["lattice_any"], r["disp_any"][kk]):
                    out.append(f"vcloser tolw (field_of_world_map (K:=QcF) {D} (world_map (K:=QcF) {D} {f} {Mq} {ac} {g}) {aca} {ga} "
                               f"(qlattice {D} {aca} {ga} {qc_vec([float(v) for v in idx])})) {qc_vec(dv)}")
                    if D == 2 and c["cls"] in ELEMENTARY:   # the traced other-grid field itself (validates the emitted closed form)
                        out.append(f"vcloser tolw (gen_disp_other2 (K:=QcF) {f} {ac} {aca} (gN 2 {g}) (gS 2 {g}) (gC 2 {g}) (gD 2 {g}) (gN 2 {ga}) (gS 2 {ga}) "
                                   f"(gC 2 {ga}) (gD 2 {ga}) {Mq} (qlattice 2 {aca} {ga} {qc_vec([float(v) for v in idx])})) {qc_vec(dv)}")
            wp = c["world_points"][kk if len(c["world_points"]) > 1 else 0]
            for x, y in zip(wp, r["points_world"][kk]):
                out.append(f"vcloser tolw (gen_points_world (K:=QcF) {D} {f} {ac} (gN {D} {g}) (gS {D} {g}) (gC {D} {g}) (gD {D} {g}) {Mq} {qc_vec(x)}) {qc_vec(y)}")
            pa = c["points_api"]
            g1 = qgrid(r["g1"]) if r["g1"] else g
            g2 = qgrid(r["g2"]) if r["g2"] else g1
            xs = pa["x"][kk if len(pa["x"]) > 1 else 0]
            for key in ("points_api", "pst"):
                for x, y in zip(xs, r[key][kk]):
                    out.append(f"vcloser tolw (view_points2 (K:=QcF) {D} {f} {Mq} {ac} {g} {AXC[pa['axes']]} {g1} {AXC[pa['to_axes']]} {g2} {qc_vec(x)}) {qc_vec(y)}")
        out.append(cb(r["flow_ok"]))
        return out
    if k == "composite":
        pts = c["points"][0]
        if r["linear"]:
            ms = "[" + "; ".join(f"({form_of(m, D)}, {qc_mat(m)})" for m in r["member_tensors"]) + "]"
            if c["cls"] == "SequentialTransform":
                out.append(f"mcloser tol (snd (seq_tensor (K:=QcF) {D} {ms})) {qc_mat(r['tensor'])}")
                for x, y in zip(pts, r["fwd"][0]):
                    out.append(f"vcloser tol (seq_spec (K:=QcF) {D} {ms} {qc_vec(x)}) {qc_vec(y)}")
                    out.append(f"vcloser tol (m_apply (K:=QcF) {D} (seq_tensor (K:=QcF) {D} {ms}) {qc_vec(x)}) {qc_vec(y)}")
            else:
                out.append(f"mcloser tol (ml_tensor (K:=QcF) {D} {ms}) {qc_mat(r['tensor'])}")
                for x, y in zip(pts, r["fwd"][0]):
                    out.append(f"vcloser tol (happly (K:=QcF) {D} (ml_tensor (K:=QcF) {D} {ms}) {qc_vec(x)}) {qc_vec(y)}")
                    out.append(f"vcloser tol (ml_spec_linear (K:=QcF) {D} {ms} {qc_vec(x)}) {qc_vec(y)}")
                # evaluating the composite must leave every member's tensor untouched (and the trace says so)
                if c["members"]:
                    out.append(cb(not any(r["members_modified"])))
                    out.append(f"negb (gen_ml_overwrites_first {form_of(r['member_tensors'][0], D)})")
        elif c["cls"] == "MultiLevelTransform":
            for j, (x, y) in enumerate(zip(pts, r["fwd"][0])):
                ys = "[" + "; ".join(qc_vec(mf[0][j]) for mf in r["member_fwd"]) + "]"
                out.append(f"vcloser tol (ml_forward (K:=QcF) {qc_vec(x)} {ys}) {qc_vec(y)}")
                out.append(f"vcloser tol (ml_spec (K:=QcF) {qc_vec(x)} {ys}) {qc_vec(y)}")
        return out
    if k == "seqgrid":
        ac = cb(r["grid"]["ac"])
        g, tg, src = qgrid(r["grid"]), qgrid(r["target"]), qgrid(r["source"])
        M = r["M"][0]
        f, Mq = form_of(M, D), qc_mat(M)
        ux, uy = nested(r["u"][0][0]), nested(r["u"][0][1])
        for idx in c["lattice"]:
            x = at(r["lattice"], idx)
            for key in ("fwd", "fwd_grid"):
                out.append(f"vcloser tol (qwarp_points2 {ac} {ux} {uy} (view_forward (K:=QcF) 2 {f} {Mq} {qc_vec(x)})) {qc_vec(at(r[key], idx))}")
        pad = "PBorder" if c["padding"] == "border" else "PZeros"
        img = nested(c["image"][0][0])
        for idx in c["probe"]:
            out.append(f"qcloser tolw (qwarp_seq_out2 {pad} {f} {ac} {Mq} {ux} {uy} {tg} {g} {src} {img} {qc_vec([float(v) for v in idx])}) "
                       f"{qc(at(r['out'][0][0], idx))}")
        return out
    if k == "nonrigid":
        ac = cb(r["grid"]["ac"])
        N = len(r["u"])
        out.append(cb(r["flow_is_disp"]))
        gshape = list(reversed(c["grid"]["size"]))
        if c.get("strided"):
            # dense field on the own grid: the buffer itself when it has the grid's shape, else the buffer RESIZED with the grid's flag;
            # either way x + disp(x) is the point map at the own lattice points
            ms = " ".join(f"{v}%Z" for v in c["grid"]["size"])
            for d in range(D):
                if D == 2:
                    out.append(f"mcloser tol (qresize2 {ac} {ms} {nested(r['u'][0][d])}) {qc_mat(r['disp_own'][0][d])}")
                else:
                    out.append(f"ball (map (fun p => mcloser tol (fst p) (snd p)) (combine (qresize3 {ac} {ms} {nested(r['u'][0][d])}) {nested(r['disp_own'][0][d])}))")
            ref = r["own_lattice_fwd"][0]
            lat = r["own_lattice"]
            dev = 0.0
            for idx in __import__("itertools").product(*[range(v) for v in c["grid"]["size"]]):
                xx, yy = at(lat, idx), at(ref, idx)
                dv = [at(r["disp_own"][0][d], idx) for d in range(D)]
                dev = max(dev, max(abs(xx[d] + dv[d] - yy[d]) for d in range(D)))
            out.append(cb(dev < 2e-5))
        else:
            out.append(cb(r["disp_is_u"]))
        for kk in range(N):
            comps = " ".join(nested(r["u"][kk][d]) for d in range(D))
            pts = c["points"][kk if len(c["points"]) > 1 else 0]
            for x, y in zip(pts, r["fwd"][kk]):
                out.append(f"vcloser tol (qwarp_points{D} {ac} {comps} {qc_vec(x)}) {qc_vec(y)}")
        if "disp_any" in r:
            # dense field on ANY other grid (other domain, size, orientation, flag): the world map of x + interpolated buffer, re-expressed
            g0, ga, aca = qgrid(r["grid"]), qgrid(r["disp_any_grid"]), cb(r["disp_any_grid"]["ac"])
            for kk in range(N):
                comps = " ".join(nested(r["u"][kk][d]) for d in range(D))
                for idx, dv in zip(c["lattice_any"], r["disp_any"][kk]):
                    out.append(f"vcloser tolw (field_of_world_map (K:=QcF) {D} (world_map_gen (K:=QcF) {D} (qwarp_points{D} {ac} {comps}) {ac} {g0}) {aca} {ga} "
                               f"(qlattice {D} {aca} {ga} {qc_vec([float(v) for v in idx])})) {qc_vec(dv)}")
        if "disp_resized" in r:
            # disp(grid) on a same-domain grid of another size: the buffer resampled at that grid's lattice (border replication)
            g2 = qgrid(r["resized_grid"])
            m = c["resize_to"]
            for idx in [[0] * D, [v - 1 for v in m], [v // 2 for v in m]]:
                lat = f"(qlattice {D} {ac} {g2} {qc_vec([float(v) for v in idx])})"
                for d in range(D):
                    val = at(r["disp_resized"][0][d], idx)
                    if D == 2:
                        out.append(f"match {lat} with [x; y] => qcloser tol (qgrid_sample2 PBorder {ac} {nested(r['u'][0][d])} x y) {qc(val)} | _ => false end")
                    else:
                        out.append(f"match {lat} with [x; y; z] => qcloser tol (qgrid_sample3 PBorder {ac} {nested(r['u'][0][d])} x y z) {qc(val)} | _ => false end")
            # transform(lattice, grid=True): the buffer RESIZED (F.interpolate) and added
            ms = " ".join(f"{v}%Z" for v in m)
            if D == 2:
                for d in range(D):
                    ref = [[r["fwd_grid"][0][jy][jx][d] - r["lattice"][jy][jx][d] for jx in range(m[0])] for jy in range(m[1])]
                    out.append(f"mcloser tol (qresize2 {ac} {ms} {nested(r['u'][0][d])}) {qc_mat(ref)}")
        return out
    if k == "warp":
        ac = cb(r["grid"]["ac"])
        pad = "PBorder" if c["padding"] == "border" else "PZeros"
        tg, g, src = qgrid(r["target"]), qgrid(r["grid"]), qgrid(r["source"])
        img = nested(c["image"][0][0])
        for idx in c["probe"]:
            val = at(r["out"][0][0], idx)
            j = qc_vec([float(v) for v in idx])
            if "M" in r:
                M = r["M"][0]
                out.append(f"qcloser tolw (qwarp_out{D} {pad} {form_of(M, D)} {ac} {qc_mat(M)} {tg} {g} {src} {img} {j}) {qc(val)}")
            elif c["transform"].get("any_target"):
                eye = "[[q 1 1; q 0 1]; [q 0 1; q 1 1]]"
                out.append(f"qcloser tolw (qwarp_seq_out2 {pad} FA {ac} {eye} {nested(r['u'][0][0])} {nested(r['u'][0][1])} {tg} {g} {src} {img} {j}) {qc(val)}")
            else:
                tn = " ".join(f"{v}%Z" for v in c["target"]["size"])
                out.append(f"qcloser tolw (qwarp_nonrigid_out2 {pad} {ac} {nested(r['u'][0][0])} {nested(r['u'][0][1])} {tg} {g} {src} {tn} {img} "
                           f"{idx[0]}%Z {idx[1]}%Z) {qc(val)}")
        return out
    return out


def max_abs_diff(a, b):
    if isinstance(a, list):
        return max((max_abs_diff(x, y) for x, y in zip(a, b)), default=0.0)
    return abs(a - b)


def correspondence(ctx):
    cases = gen_cases(ctx)
    res = vlib.run_impl("c06_impl", {"fn": "cases", "cases": cases})
    failures, dist, names = [], {}, []
    shards, cur, cur_n = [], list(HEADER), 0
    n_checks = 0
    for i, (c, r) in enumerate(zip(cases, res)):
        tag = f"{c['kind']}:{c.get('cls') or c.get('transform', {}).get('cls')}:D{c.get('D')}"
        if c["kind"] == "composite":
            tag += f":k={len(c['members'])}" + (":generic" if any(m["kind"] != "linear" for m in c["members"]) else ":linear")
        dist[tag] = dist.get(tag, 0) + 1
        if "error" in r:
            failures.append({"case": slim(c), "impl": r, "why": "implementation raised where the model is defined"})
            continue
        try:
            terms = checks_for(c, r)
        except Exception as exc:  # harness problem = disagreement (fail closed)
            failures.append({"case": slim(c), "why": f"could not build the model check: {type(exc).__name__}: {exc}"})
            continue
        if not terms:
            continue
        n_checks += len(terms)
        cur.append(f"Definition c{i} : list bool := [" + ";\n  ".join(terms) + "].")
        names.append(i)
        cur_n += 1
        if cur_n >= 40:
            shards.append((cur, names))
            cur, names, cur_n = list(HEADER), [], 0
    if cur_n:
        shards.append((cur, names))
    for si, (lines, nm) in enumerate(shards):
        lines.append("Definition results : list bool := " + coq_list([f"ball c{i}" for i in nm]) + ".")
        lines.append('Eval vm_compute in ("FAIL"%string, failing results).')
        lines.append('Eval vm_compute in ("DETAIL"%string, map (fun l => failing l) ' + coq_list([f"c{i}" for i in nm]) + ").")
        rc, out = vlib.coqc_text("\n".join(lines) + "\n", ctx.scratch, f"cases_c06_{si}")
        bad = vlib.parse_nat_list(out, "FAIL")
        if rc != 0 or bad is None:
            failures.append({"why": "case file did not evaluate (generated definitions missing or ill-typed)", "coq": out[-900:]})
            continue
        for j in bad:
            i = nm[j]
            failures.append({"case": slim(cases[i]), "impl": slim(res[i]), "why": "model value differs from implementation",
                             "checks": len(checks_for(cases[i], res[i]))})
    samples = [{"case": slim(cases[i]), "impl": slim(res[i])} for i in (0, 30, len(cases) - 1) if i < len(cases)]
    return {"evaluations": len(cases), "distinct_nontrivial": len({str(c) for c in cases if c["kind"] != "fresh"}),
            "rule": f"{n_checks} in-Coq comparisons over {len(cases)} seeded cases: every linear class x random parameters in the documented ranges x "
                    "oriented anisotropic grids (2-D/3-D, both align_corners) x point sets x groups {1, N}; composites of 0..6 members; non-rigid "
                    "models via their displacement buffer; ImageTransformer on three different grids; non-trivial = every case except the fresh ones",
            "samples": samples, "failures": failures, "distribution": dist,
            "tolerances": {"cube/grid coordinates": "2e-5 * (1 + |model|) (float32 grid attributes)", "world coordinates, image values": "2e-4 * (1 + |model|)"}}


def slim(o, depth=0):
    s = str(o)
    return o if len(s) < 1500 else s[:1500] + "..."


def search(ctx, broken, corr_failures):
    n = ctx.n(48, 480)
    r = vlib.run_impl("c06_impl", {"fn": "oracle", "seed": ctx.seed, "n": n})
    ctx.notes.append(f"implementation-side property evaluation (incl. GenericSpatialTransform, label: partial, search only): {r['counts']}")
    out, seen = [], set()
    for f in r["fails"]:
        if f["key"] in seen:
            continue
        seen.add(f["key"])
        out.append(Violation(key=f["key"], what=f["what"], replay={"oracle": "c06", "seed": ctx.seed, "n": n, "failure": f}))
    return out


def explains(broken_item, found):
    """a concrete failing input explains a broken obligation only if it is a NEW violation (not a recorded known finding)
    about the same mechanism"""
    import re
    known, _ = vlib.load_findings()
    keys = " ".join(v.key for v in found if v.key not in known).lower()
    if not keys:
        return False
    b = re.sub(r"\(deepali/[^)]*\)", "", broken_item.lower())
    # consequences of a failed (fail-closed) translation: Gen/Transform.v is a stub, so everything importing it stops building and
    # the case files cannot be evaluated; the cause is the translator item itself, which is matched below
    if "was not found in the current environment" in b or "case file did not evaluate" in b or b.startswith("proof obligation: build failed"):
        return True
    table = [(("composite_flags_traced", "seqgrid", "grid flags", "undeformed lattice"), ("grid-flag", "imagetransformer.forward:sequence")),
             (("dense_paths_traced", '"kind": "nonrigid"', "'kind': 'nonrigid'", "grid_reshape", "grid_sample"),
              (".disp:nonrigid", "forward:nonrigid:grid-flag", "imagetransformer.forward:nonrigid", "differs-from-point-map")),
             (("generic_order_traced", "generic_fresh"), ("genericspatialtransform",)),
             (("fresh", "default", "reset_parameters", "transcendental node"), ("default-not-identity", "fresh")),
             (("multilevel", "ml_", "ml2"), ("multilevel",)),
             (("sequential", "seq2", "seq_", "grid flags", "undeformed lattice"), ("sequential", "grid-flag", "imagetransformer.forward:sequence")),
             (("grid_reshape", "grid_sample", "align_corners flag"), (".disp", "forward:grid-flag", "imagetransformer")),
             (("warp", "imagetransformer", "pullback", "sampling coordinates"), ("imagetransformer",)),
             (("disp", "affine_flow"), (".disp",)),
             (("points", "pointset", "forward"), (".points", "pointsettransformer", "tensor:differs", "forward"))]
    for words, ks in table:
        if any(w in b for w in words):
            return any(k in keys for k in ks)
    return False


def replay(ctx, data):
    f = data.get("failure") or {}
    r = vlib.run_impl("c06_impl", {"fn": "oracle", "seed": data.get("seed", ctx.seed), "n": data.get("n", 48)})
    for g in r["fails"]:
        if g["key"] == f.get("key"):
            return g["what"]
    return None


MANIFEST_ENTRY = {
    "text": "Coq theorems (closed under the global context) over every field of characteristic 0, D in {2,3}, arbitrary well-formed oriented grids "
            "and both align_corners flags: (1) tensor() of a freshly constructed instance -- traced from the real constructors/reset_parameters/"
            "tensor() of every linear class in spatial/linear.py -- is the identity for all 12 classes and admissible dimensions, equals C07's traced parameter->matrix "
            "maps at the default literals; zero fields are the identity; (2) for a linear model transform(points), matrix(), disp (x + disp(x) = T(x)), "
            "points(grid, axes, to_grid, to_axes)/PointSetTransformer and points(axes=WORLD) are one world map re-expressed (composition of the C01 "
            "two-grid maps); dense field on ANY grid describes that map (own frame: matrix as is; other grids: matrix re-expressed, traced 2-D closed form proved equal); non-rigid: exact on "
            "index-affine fields, resizing == interpolating on same-domain lattices; (3) SequentialTransform.tensor of any number of members (induction) "
            "= members applied in listed order; MultiLevelTransform = x + sum of member displacements for any number of members, both the generic loop "
            "and the linear branch (sum of the member matrices - (k-1) I; inductions), members left unchanged (generated fact); generic loops of SequentialTransform/MultiLevelTransform.forward for any member list with the grid flag reaching member 0 only (traced flag table); "
            "(4) ImageTransformer output = image at the source index of T(world(x_j)) for any transform/target/source grids (2-D, 3-D; "
            "linear T; index-affine image cells); with a sequence whose first member is a dense field on same-domain target lattices of any size = "
            "pull-back by the composition of point maps; for non-lattice targets the traced flag is false and the output is the pull-back by the composition of point maps for any three grids; own-grid disp of a strided "
            "buffer = resize model = point map on the lattice (2-D, 3-D, all sizes; traced flags/shapes reaching grid_reshape/grid_sample); "
            "generic configurable transform: traced constructor, composition order = notation, fresh linear configurations = identity. Tie: translator unit Transform "
            "(real spatial/*.py code executed symbolically, structural checks of all argument plumbing) + correspondence (model run in Coq over Qc).",
    "note": "Partial: GenericSpatialTransform: constructor traced for 13 configurations (FFD/SVFFD components and dict/callable parameters by "
            "implementation-side search only); non-rigid models exact for index-affine fields only, otherwise by "
            "correspondence on the displacement buffer (how the buffer is computed belongs to C11/C13/C14); fold structure of composites beyond 4 "
            "members by induction on the model + numeric correspondence up to 6. Trusted: Coq kernel, vm_compute, symtorch incl. nn.Module shims, "
            "Sampler model of grid_sample/interpolate, float rounding, 12-decimal rounding of pre-mapped coordinates.",
}
