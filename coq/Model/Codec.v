(* C18 -- the convention layer of image I/O (hand-written part; definitions only).

   An image is (size (X, ...), channels C, element type, origin, spacing, direction, data) with the data
   stored as the C-order flattening of the (C, ..., Y, X) tensor.  Files are modelled at the level of
   header fields + payload order:
     mfile  a MetaImage (.mha): NDims, DimSize, ElementNumberOfChannels, ElementType, Offset,
            ElementSpacing, TransformMatrix, CompressedData, payload in file order;
     sfile  a SimpleITK image (what every SimpleITK-backed format stores and returns);
     nfile  a NIfTI-1 file: dim[0..], pixdim[1..], 4x4 affine (RAS), intent code, payload in file order.
   Header conventions (which entry goes where, transpositions, sign flips, element-type tables, defaults)
   come from Gen/Codec.v, i.e. from deepali's source; the payload permutation for arbitrary sizes and
   channel counts (moving the channel axis = transposing the C x N matrix of the flat data) is written
   here and tied to the traced instances (Proofs/C18Tie.v) and to real files (correspondence).
   Byte encodings, zlib, nibabel and ITK are runtime: their conventions appear as the specifications
   itk_read_mha / itk_write_mha / itk_write_nii below, validated only by the correspondence. *)
From Coq Require Import String ZArith List Bool Arith.
From DV Require Import Base.Field Base.LinAlg Model.Enums Model.CodecTypes Gen.Codec.
Import ListNotations.
Local Open Scope fld_scope.

(* ---------------------------------------------------------------------------------------------- *)
(* payload layout                                                                                  *)
(* ---------------------------------------------------------------------------------------------- *)
Section Layout.
Context {A : Type}.

(* r rows of length c, in order *)
Fixpoint chunk (r c : nat) (l : list A) : list (list A) :=
  match r with
  | O => []
  | S r' => firstn c l :: chunk r' c (skipn c l)
  end.

Fixpoint zipcons (row : list A) (m : list (list A)) : list (list A) :=
  match row, m with
  | x :: row', col :: m' => (x :: col) :: zipcons row' m'
  | _, _ => []
  end.

(* transpose of a matrix with c columns *)
Fixpoint tr (c : nat) (m : list (list A)) : list (list A) :=
  match m with
  | [] => repeat [] c
  | row :: m' => zipcons row (tr c m')
  end.

(* flat r x c matrix -> flat c x r matrix *)
Definition tflat (r c : nat) (l : list A) : list A := List.concat (tr c (chunk r c l)).

Definition rect (r c : nat) (m : list (list A)) : Prop :=
  length m = r /\ Forall (fun row => length row = c) m.

Definition nprod (l : list nat) : nat := fold_right Nat.mul 1%nat l.

(* (C, ..., Y, X) -> (..., Y, X, C): what write_meta_image / image_from_tensor do for C > 1 *)
Definition chan_last (C N : nat) (l : list A) : list A :=
  if Nat.eqb C 1 then l else tflat C N l.
(* (..., Y, X, C) -> (C, ..., Y, X): what read_meta_image / tensor_from_image do for C > 1 *)
Definition chan_first (C N : nat) (l : list A) : list A :=
  if Nat.eqb C 1 then l else tflat N C l.

(* gather: out[i] = l[idx[i]]  (compares the model with traced index permutations) *)
Definition gather (d : A) (idx : list nat) (l : list A) : list A := map (fun i => nth i l d) idx.
End Layout.

(* ---------------------------------------------------------------------------------------------- *)
(* table lookups                                                                                   *)
(* ---------------------------------------------------------------------------------------------- *)
Fixpoint assoc {X Y : Type} (eqb : X -> X -> bool) (k : X) (l : list (X * Y)) : option Y :=
  match l with
  | [] => None
  | (k', v) :: r => if eqb k k' then Some v else assoc eqb k r
  end.
Definition oflat {Y : Type} (o : option (option Y)) : option Y := match o with Some (Some y) => Some y | _ => None end.

Definition key3_eqb (a b : nat * nat * bool) : bool :=
  let '(a1, a2, a3) := a in let '(b1, b2, b3) := b in Nat.eqb a1 b1 && Nat.eqb a2 b2 && Bool.eqb a3 b3.
Definition key2_eqb (a b : nat * nat) : bool := Nat.eqb (fst a) (fst b) && Nat.eqb (snd a) (snd b).
Definition nlayout_eqb (a b : nlayout) : bool :=
  match a, b with LScalar, LScalar | LItkVector, LItkVector | LOwn, LOwn => true | _, _ => false end.
Definition keyL_eqb (a b : nlayout * nat * nat) : bool :=
  let '(a1, a2, a3) := a in let '(b1, b2, b3) := b in nlayout_eqb a1 b1 && Nat.eqb a2 b2 && Nat.eqb a3 b3.

(* the status tables are traced for C = 1, 2, 3; C > 3 is identified with C = 2 (the code only
   distinguishes C = 1 from C > 1; the tables' C = 3 rows are checked equal to the C = 2 rows) *)
Definition cclass (C : nat) : nat := if Nat.eqb C 1 then 1%nat else 2%nat.

Section Codec.
Context {K : fld} {A : Type}.

Record image := mkImage {
  i_size : list nat;            (* (X, ...) as Grid.size() *)
  i_chan : nat;
  i_type : npty;
  i_origin : list K;
  i_spacing : list K;
  i_dir : list (list K);        (* direction cosines, D x D, row-major *)
  i_data : list A }.            (* C-order flattening of the (C, ..., Y, X) tensor *)

Definition wf_image (D : nat) (x : image) : Prop :=
  length (i_size x) = D /\ length (i_origin x) = D /\ length (i_spacing x) = D /\
  length (i_dir x) = D /\ Forall (fun r => length r = D) (i_dir x) /\
  (1 <= i_chan x)%nat /\ length (i_data x) = (i_chan x * nprod (i_size x))%nat.

Definition sel {X : Type} (D : nat) (x2 x3 dflt : X) : X :=
  match D with 2%nat => x2 | 3%nat => x3 | _ => dflt end.

(* ---- MetaImage ------------------------------------------------------------------------------ *)
Record mfile := mkMfile {
  m_ndims : nat; m_dimsize : list nat; m_nchan : nat; m_etype : string;
  m_offset : list K; m_spacing : list K; m_tm : list K; m_compressed : bool;
  m_payload : list A }.

Definition meta_w_type (t : npty) : option string := oflat (assoc npty_eqb t gen_meta_w_type).
Definition meta_r_type (s : string) : option npty := oflat (assoc String.eqb s gen_meta_r_type).
Definition meta_r_status (D C : nat) (compressed : bool) : rstatus :=
  match assoc key3_eqb (D, cclass C, compressed) gen_meta_r_status with Some s => s | None => EOther end.

Definition write_meta (D : nat) (compress : bool) (x : image) : option mfile :=
  match meta_w_type (i_type x) with
  | None => None
  | Some et =>
      Some (mkMfile D
              (sel D (gen_meta_w_dimsize_2 (i_size x)) (gen_meta_w_dimsize_3 (i_size x)) [])
              (i_chan x) et
              (sel D (gen_meta_w_offset_2 (i_origin x)) (gen_meta_w_offset_3 (i_origin x)) [])
              (sel D (gen_meta_w_spacing_2 (i_spacing x)) (gen_meta_w_spacing_3 (i_spacing x)) [])
              (sel D (gen_meta_w_tm_2 (i_dir x)) (gen_meta_w_tm_3 (i_dir x)) [])
              compress
              (chan_last (i_chan x) (nprod (i_size x)) (i_data x)))
  end.

Definition read_meta (f : mfile) : option image :=
  let D := m_ndims f in
  if negb (rstatus_ok (meta_r_status D (m_nchan f) (m_compressed f))) then None else
  match meta_r_type (m_etype f),
        sel D (gen_meta_r_size_2 (m_dimsize f)) (gen_meta_r_size_3 (m_dimsize f)) None,
        sel D (gen_meta_r_origin_2 (m_offset f)) (gen_meta_r_origin_3 (m_offset f)) None,
        sel D (gen_meta_r_spacing_2 (m_spacing f)) (gen_meta_r_spacing_3 (m_spacing f)) None,
        sel D (gen_meta_r_direction_2 (m_tm f)) (gen_meta_r_direction_3 (m_tm f)) None with
  | Some t, Some n, Some o, Some s, Some d =>
      Some (mkImage n (m_nchan f) t o s d (chan_first (m_nchan f) (nprod n) (m_payload f)))
  | _, _, _, _, _ => None
  end.

(* ---- SimpleITK images (every SimpleITK-backed format: .mhd, .nrrd, ...) ------------------------ *)
Record sfile := mkSfile {
  s_size : list nat; s_ncomp : nat; s_type : npty;
  s_origin : list K; s_spacing : list K; s_dirflat : list K;
  s_buf : list A }.             (* C-order of GetArrayFromImage: (..., Y, X[, C]) *)

Definition write_sitk (D : nat) (x : image) : sfile :=
  mkSfile (sel D (gen_sitk_w_size_2 (i_size x)) (gen_sitk_w_size_3 (i_size x)) [])
          (i_chan x) (i_type x)
          (sel D (gen_sitk_w_origin_2 (i_origin x)) (gen_sitk_w_origin_3 (i_origin x)) [])
          (sel D (gen_sitk_w_spacing_2 (i_spacing x)) (gen_sitk_w_spacing_3 (i_spacing x)) [])
          (sel D (gen_sitk_w_direction_2 (i_dir x)) (gen_sitk_w_direction_3 (i_dir x)) [])
          (chan_last (i_chan x) (nprod (i_size x)) (i_data x)).

Definition sitk_r_type (t : npty) : option npty := oflat (assoc npty_eqb t gen_sitk_r_type).

Definition read_sitk (D : nat) (f : sfile) : option image :=
  match sitk_r_type (s_type f) with
  | None => None
  | Some t =>
      let n := sel D (gen_sitk_r_size_2 (s_size f)) (gen_sitk_r_size_3 (s_size f)) [] in
      Some (mkImage n (s_ncomp f) t
              (s_origin f)                      (* Grid.from_sitk passes GetOrigin() through *)
              (sel D (gen_sitk_r_spacing_2 (s_spacing f)) (gen_sitk_r_spacing_3 (s_spacing f)) [])
              (sel D (gen_sitk_r_direction_2 (s_dirflat f)) (gen_sitk_r_direction_3 (s_dirflat f)) [])
              (chan_first (s_ncomp f) (nprod n) (s_buf f)))
  end.

(* ---- ITK's MetaImage convention (specification; validated against SimpleITK by the correspondence) *)
Definition met_type_of (s : string) : option npty := assoc String.eqb s gen_meta_types.
Fixpoint met_name_of (t : npty) (l : list (string * npty)) : option string :=
  match l with
  | [] => None
  | (s, t') :: r => if npty_eqb t t' then Some s else met_name_of t r
  end.

(* TransformMatrix lists the direction matrix column by column *)
Definition colmajor (D : nat) (flat_rowmajor : list K) : list K :=
  List.concat (tr D (chunk D D flat_rowmajor)).

Definition itk_read_mha (f : mfile) : option sfile :=
  match met_type_of (m_etype f) with
  | None => None
  | Some t => Some (mkSfile (m_dimsize f) (m_nchan f) t (m_offset f) (m_spacing f)
                            (colmajor (m_ndims f) (m_tm f)) (m_payload f))
  end.

Definition itk_write_mha (D : nat) (compress : bool) (s : sfile) : option mfile :=
  match met_name_of (s_type s) gen_meta_types with
  | None => None
  | Some et => Some (mkMfile D (s_size s) (s_ncomp s) et (s_origin s) (s_spacing s)
                             (colmajor D (s_dirflat s)) compress (s_buf s))
  end.

(* ---- NIfTI ------------------------------------------------------------------------------------ *)
Record nfile := mkNfile {
  n_layout : nlayout; n_ndim : nat; n_sizes : list nat; n_chan : nat;
  n_pixdim : list K;            (* pixdim[1..] *)
  n_affine : list (list K);     (* 4 x 4, RAS *)
  n_type : npty;
  n_buf : list A }.             (* file order: first index fastest *)

Definition nifti_w_status (D C : nat) : rstatus :=
  match assoc key2_eqb (D, cclass C) gen_nifti_w_status with Some s => s | None => EOther end.
Definition nifti_w_layout (D C : nat) : option nlayout := oflat (assoc key2_eqb (D, cclass C) gen_nifti_w_layout).
Definition nifti_r_status (L : nlayout) (D C : nat) : rstatus :=
  match assoc keyL_eqb (L, D, if Nat.eqb C 1 then 1%nat else 2%nat) gen_nifti_r_status with Some s => s | None => EOther end.
Definition nifti_r_type (t : npty) : option npty := oflat (assoc npty_eqb t gen_nifti_r_type).

(* write_nifti_image hands nibabel the reversed array (X, ..., C) -- whose file order (first index fastest)
   is the C order of the (C, ..., X) tensor -- and the affine of gen_nifti_w_affine; nibabel derives pixdim
   from the affine's column norms (= spacing for unit direction columns: trusted) *)
Definition write_nifti (D : nat) (x : image) : option nfile :=
  if negb (rstatus_ok (nifti_w_status D (i_chan x))) then None else
  match sel D (gen_nifti_w_affine_2 (i_origin x) (i_spacing x) (i_dir x))
              (gen_nifti_w_affine_3 (i_origin x) (i_spacing x) (i_dir x)) None with
  | None => None
  | Some aff =>
      match nifti_w_layout D (i_chan x) with       (* dimensions + intent code handed to nibabel, as traced *)
      | Some L => Some (mkNfile L D (i_size x) (i_chan x) (i_spacing x ++ repeat 1 (3 - D)) aff (i_type x) (i_data x))
      | None => None
      end
  end.

Definition read_nifti (f : nfile) : option image :=
  let D := n_ndim f in
  if negb (rstatus_ok (nifti_r_status (n_layout f) D (n_chan f))) then None else
  match nifti_r_type (n_type f),
        sel D (gen_nifti_r_origin_2 (n_affine f) (n_pixdim f)) (gen_nifti_r_origin_3 (n_affine f) (n_pixdim f)) None,
        sel D (gen_nifti_r_spacing_2 (n_affine f) (n_pixdim f)) (gen_nifti_r_spacing_3 (n_affine f) (n_pixdim f)) None,
        sel D (gen_nifti_r_direction_2 (n_affine f) (n_pixdim f)) (gen_nifti_r_direction_3 (n_affine f) (n_pixdim f)) None with
  | Some t, Some o, Some s, Some d => Some (mkImage (n_sizes f) (n_chan f) t o s d (n_buf f))
  | _, _, _, _ => None
  end.

(* ITK's NIfTI writer (specification): RAS affine = LPS (direction * spacing | origin) with the first two
   rows negated; vector images use dim[0] = 5, dim[5] = C; buffer in file order = C order of (C, ..., X) *)
Definition lps_to_ras_affine (D : nat) (o s : list K) (d : list (list K)) : list (list K) :=
  match D, o, s, d with
  | 2%nat, [o0; o1], [s0; s1], [[d00; d01]; [d10; d11]] =>
      [[- (d00 * s0); - (d01 * s1); 0; - o0];
       [- (d10 * s0); - (d11 * s1); 0; - o1];
       [0; 0; 1; 0]; [0; 0; 0; 1]]
  | 3%nat, [o0; o1; o2], [s0; s1; s2], [[d00; d01; d02]; [d10; d11; d12]; [d20; d21; d22]] =>
      [[- (d00 * s0); - (d01 * s1); - (d02 * s2); - o0];
       [- (d10 * s0); - (d11 * s1); - (d12 * s2); - o1];
       [d20 * s0; d21 * s1; d22 * s2; o2];
       [0; 0; 0; 1]]
  | _, _, _, _ => []
  end.

Definition itk_write_nii (D : nat) (x : image) : nfile :=
  mkNfile (if Nat.eqb (i_chan x) 1 then LScalar else LItkVector) D (i_size x) (i_chan x)
          (i_spacing x ++ repeat 1 (3 - D))
          (lps_to_ras_affine D (i_origin x) (i_spacing x) (i_dir x)) (i_type x) (i_data x).

(* ---- flow fields -------------------------------------------------------------------------------- *)
(* FlowField.write converts the vectors to gen_flow_write_axes, FlowField.read labels what it finds with
   gen_flow_read_axes; converting back to the original axes is gen_flow_from_world *)
Definition flow_to_file (D : nat) (ax : axes) (n s : list K) (d : list (list K)) (u : list K) : list K :=
  sel D (gen_flow_to_world_2 ax n s d u) (gen_flow_to_world_3 ax n s d u) [].
Definition flow_from_file (D : nat) (ax : axes) (n s : list K) (d : list (list K)) (u : list K) : list K :=
  sel D (gen_flow_from_world_2 ax n s d u) (gen_flow_from_world_3 ax n s d u) [].

(* direction cosines with orthonormal columns (what inverse_affine's use of the transpose presumes) *)
Definition orthonormal (D : nat) (d : list (list K)) : Prop := mm D (mT D d) d = eye D.
End Codec.

Arguments image : clear implicits.
Arguments mfile : clear implicits.
Arguments sfile : clear implicits.
Arguments nfile : clear implicits.
