"""Tracer behind Gen/GradFlow.v (run as a subprocess by tr_units/gradflow.py with PYTHONPATH = <repo>/src : tools : tools/impl).

Every differentiable public operation of the C20 registry (tools/impl/c20_impl.py: transforms and inverses, sampling,
expv/compose, B-splines, spatial derivatives, all losses and loss classes) is executed once from the working tree under a
TorchFunctionMode that follows, through every torch call deepali makes,
  * value dependence: which leaves (parameters / inputs that require grad) a floating-point tensor was computed from, and
  * graph cuts: a floating-point result that was computed from such leaves but is NOT attached to the autograd graph
    (detach(), .data, anything under torch.no_grad()) marks those leaves as "cut" on every value derived from it.
Integer / boolean results (indices, masks, comparisons) drop all marks: the output depends on them piecewise constantly.
The skeleton emitted per operation: for every leaf, whether the output's value depends on it, and the deepali functions in
which a cut lies on a path from that leaf to the output.  This is a structural trace at one generic input per (operation, D);
Python numbers obtained through .item()/float() leave the trace (they are constants of the autograd graph as well)."""
import os
import sys
import traceback

import torch
from torch.overrides import TorchFunctionMode
from torch.utils._pytree import tree_flatten

import c20_impl as C

SRC = os.environ.get("DEEPALI_SRC", "")
# results whose VALUE does not depend on the values of their tensor arguments (only on shape / dtype / device)
VALUE_FREE = {"zeros_like", "ones_like", "empty_like", "full_like", "rand_like", "randn_like", "new_zeros", "new_ones",
              "new_empty", "new_full", "new_tensor"}
LIKE_FIRST = {"type_as", "to", "expand_as", "view_as", "reshape_as"}
# piecewise constant functions of their argument: the value still depends on the leaf, the derivative is zero almost everywhere,
# so for the gradient they act like a cut (coordinate rounding on a differentiable path)
STEP_FUNCTIONS = {"round", "round_", "floor", "floor_", "ceil", "ceil_", "trunc", "trunc_", "sign", "sign_", "sgn", "heaviside"}
# conversions of a tensor to Python numbers: the dependence leaves the autograd graph
ESCAPES = {"item", "tolist", "__float__", "__int__", "__bool__", "numpy"}


# deepali functions in which a leaf-dependent value is turned into a Python number BY DESIGN (not part of the differentiated map):
# consistency assertions and range / normalisation constants documented as such
ESCAPE_OK = set()


def site():
    """innermost deepali function on the Python stack"""
    f = sys._getframe(2)
    while f is not None:
        fn = f.f_code.co_filename
        if "/deepali/" in fn and (not SRC or fn.startswith(SRC)):
            mod = fn.split("/deepali/", 1)[1][:-3].replace("/", ".")
            return f"{mod}.{f.f_code.co_name}"
        f = f.f_back
    return "?"


class Flow(TorchFunctionMode):
    def __init__(self, leaves):
        super().__init__()
        self.keep = []                      # keep tensors alive: ids stay unique
        self.v = {}                         # id -> frozenset of leaf indices (value dependence)
        self.c = {}                         # id -> {leaf index: set(sites)} (dependence that crossed a cut)
        self.escapes = {}                   # leaf index -> sites where a float tensor depending on it became a Python number
        self.leaf_index = {}
        for i, t in enumerate(leaves):
            self.v[id(t)] = frozenset([i])
            self.leaf_index[id(t)] = i
            self.keep.append(t)

    def graph_leaves(self, t):
        seen, stack, found = set(), [t.grad_fn], set()
        while stack:
            n = stack.pop()
            if n is None or id(n) in seen:
                continue
            seen.add(id(n))
            var = getattr(n, "variable", None)
            if var is not None and id(var) in self.leaf_index:
                found.add(self.leaf_index[id(var)])
            for m, _ in getattr(n, "next_functions", ()):
                stack.append(m)
        return frozenset(found)

    def marks(self, args, kwargs):
        flat, _ = tree_flatten((args, kwargs or {}))
        v, c = set(), {}
        for a in flat:
            if isinstance(a, torch.Tensor):
                if id(a) not in self.v and a.requires_grad and a.grad_fn is not None and a.is_floating_point():
                    # produced outside the reach of __torch_function__ (e.g. Tensor.as_subclass): it is attached to the
                    # graph, so its leaves are those the autograd graph reaches
                    self.v[id(a)] = self.graph_leaves(a)
                    self.keep.append(a)
                v |= self.v.get(id(a), frozenset())
                for k, s in self.c.get(id(a), {}).items():
                    c.setdefault(k, set()).update(s)
        return v, c

    def __torch_function__(self, func, types, args=(), kwargs=None):
        out = func(*args, **(kwargs or {}))
        name = getattr(func, "__name__", "")
        if name in ESCAPES and args and isinstance(args[0], torch.Tensor) and args[0].is_floating_point():
            v0 = self.v.get(id(args[0]), frozenset())
            if v0:
                where0 = site() + ":" + name
                if where0.split(":")[0] not in ESCAPE_OK:
                    for k in v0:
                        self.escapes.setdefault(k, set()).add(where0)
        if name in LIKE_FIRST and args:
            v, c = self.marks(args[:1], None)      # x.type_as(y), x.to(y), x.expand_as(y): the value comes from x only
        else:
            v, c = self.marks(args, kwargs)
        if not v and not c:
            return out
        flat_in = [a for a in tree_flatten((args, kwargs or {}))[0] if isinstance(a, torch.Tensor)]
        outs, _ = tree_flatten(out)
        touched = [o for o in outs if isinstance(o, torch.Tensor)]
        if out is None and args and isinstance(args[0], torch.Tensor):
            touched = [args[0]]             # in-place write (__setitem__, copy_ ...): the destination takes the marks
        where = None
        if getattr(func, "__name__", "") in VALUE_FREE:
            return out
        for o in touched:
            if not (o.is_floating_point() or o.is_complex()):
                self.v.pop(id(o), None)
                self.c.pop(id(o), None)
                continue
            self.keep.append(o)
            cv = dict((k, set(s)) for k, s in c.items())
            if v and (not o.requires_grad or name in STEP_FUNCTIONS) and name not in VALUE_FREE:
                where = where or (site() + ":" + getattr(func, "__name__", "?"))
                for k in v:
                    cv.setdefault(k, set()).add(where)
            inplace = any(o is a for a in flat_in)
            old_v = self.v.get(id(o), frozenset()) if inplace else frozenset()
            self.v[id(o)] = frozenset(v) | old_v
            if cv:
                prev = self.c.get(id(o), {}) if old_v else {}
                for k, s in prev.items():
                    cv.setdefault(k, set()).update(s)
                self.c[id(o)] = cv
            else:
                self.c.pop(id(o), None)
        return out


def trace(op, D, seed):
    gen = torch.Generator().manual_seed(seed)
    f, leaves = op.build(D, gen)
    with Flow(leaves) as m:
        y = f()
    v = m.v.get(id(y), frozenset())
    c = m.c.get(id(y), {})
    rows = []
    for i, t in enumerate(leaves):
        rows.append((i, tuple(t.shape), i in v, sorted(set(c.get(i, [])) | set(m.escapes.get(i, [])))))
    return rows, bool(y.requires_grad)


def coq_str(s):
    return '"' + s.replace('"', "'") + '"%string'


def main():
    out = ["From Coq Require Import String List.", "Import ListNotations.", "",
           "(* (operation, D, output attached to the graph, [(leaf index, value depends on leaf, [deepali functions with a cut on a leaf -> output path])]) *)",
           "Definition gen_gradflow : list (string * nat * bool * list (nat * bool * list string)) :="]
    items = []
    for op in C.registry():
        for D in op.dims:
            seed = (20261001 * 1000003 + C.hash_str(op.key) * 31 + D * 7) % (2 ** 31)
            try:
                rows, attached = trace(op, D, seed)
            except Exception as e:  # fail closed: an operation that cannot be traced is reported as cut everywhere
                rows, attached = [(0, (), True, [f"TRACE-FAILED {type(e).__name__}: {str(e)[:80]}"])], False
            leaves = "; ".join(f"({i}%nat, {'true' if dep else 'false'}, [" + "; ".join(coq_str(s) for s in sites) + "])"
                               for i, shp, dep, sites in rows)
            items.append(f"  ({coq_str(op.key)}, {D}%nat, {'true' if attached else 'false'}, [{leaves}])")
    out.append("  [" + ";\n ".join(items) + "].")
    sys.stdout.write("\n##COQ##\n" + "\n".join(out) + "\n")


if __name__ == "__main__":
    try:
        main()
    except Exception as exc:
        sys.stdout.write("\n##FAILED##\n" + f"{type(exc).__name__}: {exc}\n" + traceback.format_exc(limit=8))
        sys.exit(3)
