#!/venv/bin/python
"""Assemble /verif/MANIFEST.json from the MANIFEST_ENTRY of every tools/props/cXX.py."""
import importlib
import json
import os
import sys

HERE = os.path.dirname(os.path.abspath(__file__))
VERIF = os.path.dirname(HERE)
sys.path.insert(0, HERE)

BASELINE = "cd /repo && env -u DEEPALI_VERIF /venv/bin/python -m pytest -ra -q -p no:cacheprovider --timeout=900 --continue-on-collection-errors"


def main():
    props = [json.loads(l) for l in open(os.path.join(VERIF, "properties.jsonl"))]
    checks, na = [], []
    claimed = set(open(os.path.join(HERE, "claimed.txt")).read().split())
    for p in props:
        pid = p["id"]
        path = os.path.join(HERE, "props", pid.lower() + ".py")
        entry = None
        if os.path.exists(path) and pid in claimed:
            mod = importlib.import_module("props." + pid.lower())
            entry = getattr(mod, "MANIFEST_ENTRY", None)
        if entry is None:
            na.append({"property_id": pid, "reason": "check not built yet in this development (no technique limitation claimed); see DESIGN.md section 4"})
            continue
        checks.append({
            "property_id": pid,
            "quick_cmd": f"./check {pid} --tier quick",
            "thorough_cmd": f"./check {pid} --tier thorough",
            "evidence_file": f"evidence/{pid}.json",
            "replay_cmd_template": f"./check {pid} --replay {{path}}",
            "engine": "coq-model+translator+correspondence",
            "level_claimed": {"category": "proof", "text": entry["text"], "design_ref": f"DESIGN.md section 4, {pid}"},
            "level_note": entry["note"],
            "technique": entry.get("technique", "machine-checked proof in Coq 8.16.1 about a model regenerated from the source by a fail-closed translator + model/implementation correspondence"),
        })
    man = {
        "version": 1,
        "setup_cmd": "./check --setup",
        "hooks": {"guard": "DEEPALI_VERIF", "enable": "checks export DEEPALI_VERIF=1 for every implementation run; no hook is currently compiled into /repo (all observation points are public API)",
                  "baseline_off_cmd": BASELINE, "source_commits": [], "add_only": True},
        "engines": [{"name": "coq-model+translator+correspondence", "path": "check",
                     "serves_properties": [c["property_id"] for c in checks],
                     "kind_free_text": "Coq 8.16.1 theorems over an abstract field (instances R, Qc) about a model partly regenerated from /repo by symbolic tracing (tools/symtorch.py) and partly hand-written and tied by a vm_compute correspondence against the implementation; implementation-side property evaluation as failing-input search"}],
        "checks": checks,
        "not_applicable": na,
        "notes": "See DESIGN.md. known_findings.txt lists repaired defects (fix: commits in /repo) and recorded findings.",
    }
    with open(os.path.join(VERIF, "MANIFEST.json"), "w") as f:
        json.dump(man, f, indent=1)
        f.write("\n")
    print(f"{len(checks)} checks, {len(na)} not yet claimed")


if __name__ == "__main__":
    main()
