(* Semantic instance: the real numbers. *)
From Coq Require Import Reals RealField Lra ZArith.
From DV Require Import Base.Field.

Definition RF : fld := mkFld R 0%R 1%R Rplus Rmult Rminus Ropp Rdiv Rinv.

Lemma RF_field : is_field RF.
Proof. exact Rfield. Qed.

Lemma R_of_pos_pos p : (0 < @of_pos RF p)%R.
Proof. induction p; cbn [of_pos]; cbn in *; lra. Qed.

Lemma RF_char0 : char0 RF.
Proof. intros p E. pose proof (R_of_pos_pos p) as H. rewrite E in H. cbn in H. lra. Qed.
