(* Facts about the executable field Qc shared by C04 and C05: floor bounds, the rational value of field operations. *)
From Coq Require Import ZArith QArith Qround Qabs Qcanon List Lia Lqa Bool.
From DV Require Import Base.Field Base.FieldFacts Base.QcInst Model.Grid.
Import ListNotations.
Local Open Scope Q_scope.

Lemma Qfloor_unique (y : Q) (z : Z) : inject_Z z <= y -> y < inject_Z z + 1 -> Qfloor y = z.
Proof.
  intros H1 H2. pose proof (Qfloor_le y) as A. pose proof (Qlt_floor y) as B.
  rewrite inject_Z_plus in B. change (inject_Z 1) with 1 in B.
  assert (L1 : inject_Z z < inject_Z (Qfloor y + 1)) by (rewrite inject_Z_plus; change (inject_Z 1) with 1; lra).
  assert (L2 : inject_Z (Qfloor y) < inject_Z (z + 1)) by (rewrite inject_Z_plus; change (inject_Z 1) with 1; lra).
  rewrite <- Zlt_Qlt in L1, L2. lia.
Qed.

Lemma Qfloor_nonneg (y : Q) : 0 <= y -> (0 <= Qfloor y)%Z.
Proof. intro H. change 0%Z with (Qfloor 0). apply Qfloor_resp_le. exact H. Qed.
Lemma Qfloor_le_Z (y : Q) (n : Z) : y <= inject_Z n -> (Qfloor y <= n)%Z.
Proof. intro H. rewrite <- (Qfloor_Z n). apply Qfloor_resp_le. exact H. Qed.
Lemma Qfloor_lt_Z (y : Q) (n : Z) : y < inject_Z n -> (Qfloor y < n)%Z.
Proof. intro H. pose proof (Qfloor_le y) as A. rewrite Zlt_Qlt. lra. Qed.

Lemma this_of_Z (i : Z) : this (of_Z (K:=QcF) i) == inject_Z i.
Proof.
  destruct i as [|p|p]; cbn [of_Z].
  - reflexivity.
  - rewrite Qc_of_pos. cbn -[Qred]. rewrite Qred_correct. reflexivity.
  - rewrite Qc_of_pos. cbn -[Qred Qopp]. rewrite !Qred_correct. reflexivity.
Qed.

Lemma this_add (a b : Qc) : this (fadd (K:=QcF) a b) == this a + this b.
Proof. change (this (Q2Qc (this a + this b)) == this a + this b). apply Qred_correct. Qed.
Lemma this_sub (a b : Qc) : this (fsub (K:=QcF) a b) == this a - this b.
Proof.
  change (this (Q2Qc (this a + this (Q2Qc (- this b)))) == this a - this b).
  change (Qred (this a + Qred (- this b)) == this a - this b). rewrite !Qred_correct. reflexivity.
Qed.
Lemma this_half : this (half (K:=QcF)) == 1 # 2.
Proof. vm_compute. reflexivity. Qed.

