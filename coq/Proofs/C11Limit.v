(* The closed form of scaling and squaring converges to the exponential as the number of steps grows: scalar case
   (1 + h / 2^k)^(2^k) -> exp h over the reals, hence every diagonal generator, axis by axis. *)
From Coq Require Import Reals Lra Lia.
From Coquelicot Require Import Coquelicot.
Local Open Scope R_scope.

Lemma pow2_pos k : 0 < 2 ^ k.
Proof. apply pow_lt. lra. Qed.

Lemma lim_half_pow (h : R) : is_lim_seq (fun k : nat => h / 2 ^ k) 0.
Proof.
  replace (Finite 0) with (Rbar_mult h 0) by (cbn; f_equal; ring).
  apply is_lim_seq_ext with (fun k => h * (/ 2) ^ k).
  - intro k. unfold Rdiv. f_equal. rewrite pow_inv. reflexivity.
  - apply is_lim_seq_scal_l. apply is_lim_seq_geom. rewrite Rabs_right; lra.
Qed.

(* difference quotient of ln at 1 *)
Definition dq (x : R) : R := (ln (1 + x) - ln 1) / x.
Lemma lim_dq : is_lim dq 0 1.
Proof.
  apply is_lim_spec. unfold is_lim'. intro eps.
  destruct (derivable_pt_lim_ln 1 Rlt_0_1 eps (cond_pos eps)) as [delta Hd].
  exists delta. intros y Hy Hne. unfold dq.
  assert (Hy0 : Rabs (y - 0) < delta) by exact Hy.
  assert (Hy' : Rabs y < delta) by (rewrite Rminus_0_r in Hy0; exact Hy0).
  specialize (Hd y Hne Hy'). replace (/ 1) with 1 in Hd by field. exact Hd.
Qed.

Theorem scalar_scaling_and_squaring_converges (h : R) :
  is_lim_seq (fun k : nat => (1 + h / 2 ^ k) ^ (2 ^ k)) (exp h).
Proof.
  destruct (Req_dec h 0) as [-> | Hh].
  - apply is_lim_seq_ext with (fun _ => 1).
    + intro k. unfold Rdiv. rewrite Rmult_0_l, Rplus_0_r, pow1. reflexivity.
    + rewrite exp_0. apply is_lim_seq_const.
  - (* h * dq (h / 2^k) -> h *)
    assert (L1 : is_lim_seq (fun k => dq (h / 2 ^ k)) 1).
    { apply (is_lim_comp_seq dq (fun k => h / 2 ^ k) 0 1 lim_dq); [|apply lim_half_pow].
      exists 0%nat. intros k _ E. injection E as E. apply Hh.
      pose proof (pow2_pos k). apply (Rmult_eq_compat_r (2 ^ k)) in E. unfold Rdiv in E. rewrite Rmult_assoc, Rinv_l in E; lra. }
    assert (L2 : is_lim_seq (fun k => h * dq (h / 2 ^ k)) h).
    { replace (Finite h) with (Rbar_mult h 1) by (cbn; f_equal; ring). now apply is_lim_seq_scal_l. }
    assert (L3 : is_lim_seq (fun k => exp (h * dq (h / 2 ^ k))) (exp h)).
    { apply (is_lim_seq_continuous exp _ h); [|exact L2]. apply derivable_continuous_pt. apply derivable_pt_exp. }
    (* eventually |h / 2^k| < 1 *)
    pose proof (lim_half_pow h) as L0. apply is_lim_seq_spec in L0. destruct (L0 (mkposreal 1 Rlt_0_1)) as [N HN].
    apply is_lim_seq_ext_loc with (fun k => exp (h * dq (h / 2 ^ k))); [|exact L3].
    exists N. intros k Hk. specialize (HN k Hk). cbn in HN. rewrite Rminus_0_r in HN.
    apply Rabs_def2 in HN. pose proof (pow2_pos k) as Hp.
    assert (Hpos : 0 < 1 + h / 2 ^ k) by lra.
    rewrite <- (exp_ln ((1 + h / 2 ^ k) ^ (2 ^ k))) by (apply pow_lt; exact Hpos).
    f_equal. rewrite ln_pow by exact Hpos. rewrite pow_INR. change (INR 2) with 2.
    unfold dq. rewrite ln_1. field. split; lra.
Qed.
