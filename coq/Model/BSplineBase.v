(* Specification side of cubic B-splines (hand-written, no proofs): pieces of the real line,
   coefficient-list polynomials with formal derivative, the analytic cubic B-spline basis. *)
From Coq Require Import ZArith List.
From DV Require Import Base.Field.
Import ListNotations.
Local Open Scope fld_scope.

(* x <= -2 | -2 < x <= -1 | -1 < x < 0 | 0 <= x < 1 | 1 <= x < 2 | 2 <= x *)
Inductive bpiece := PLo | PM2 | PM1 | PP0 | PP1 | PHi.
Definition all_pieces := [PLo; PM2; PM1; PP0; PP1; PHi].

(* piece of the rational z / s (s > 0), decided on integers *)
Definition piece_of_Z (z s : Z) : bpiece :=
  if (z <=? -2 * s)%Z then PLo
  else if (z <=? - s)%Z then PM2
  else if (z <? 0)%Z then PM1
  else if (z <? s)%Z then PP0
  else if (z <? 2 * s)%Z then PP1
  else PHi.

Section Poly.
Context {K : fld}.

Fixpoint of_nat (n : nat) : K := match n with O => 0 | S m => of_nat m + 1 end.

Fixpoint pow2 (d : nat) : K := match d with O => 1 | S e => (1 + 1) * pow2 e end.

(* a0 + a1 t + a2 t^2 + ... *)
Fixpoint peval (p : list K) (t : K) : K :=
  match p with [] => 0 | a :: r => a + t * peval r t end.

Fixpoint pd_from (n : nat) (p : list K) : list K :=
  match p with [] => [] | a :: r => of_nat n * a :: pd_from (S n) r end.
(* formal derivative [a0; a1; a2; ...] -> [a1; 2 a2; 3 a3; ...] *)
Definition pderiv (p : list K) : list K :=
  match p with [] => [] | _ :: r => pd_from 1 r end.
Fixpoint pderiv_n (d : nat) (p : list K) : list K :=
  match d with O => p | S e => pderiv (pderiv_n e p) end.

(* The cubic B-spline B(x) = 1/6 ((x+2)_+^3 - 4 (x+1)_+^3 + 6 x_+^3 - 4 (x-1)_+^3 + (x-2)_+^3), written out
   on each piece as a coefficient list in x:
     (x+2)^3/6 | 2/3 - x^2 - x^3/2 | 2/3 - x^2 + x^3/2 | (2-x)^3/6 *)
Definition Bcoef (p : bpiece) : list K :=
  match p with
  | PLo | PHi => []
  | PM2 => [of_Q 4 3; of_Z 2; 1; of_Q 1 6]
  | PM1 => [of_Q 2 3; 0; of_Z (-1); of_Q (-1) 2]
  | PP0 => [of_Q 2 3; 0; of_Z (-1); of_Q 1 2]
  | PP1 => [of_Q 4 3; of_Z (-2); 1; of_Q (-1) 6]
  end.
(* d-th derivative of the basis function on a piece = d-th formal derivative of its polynomial *)
Definition Bspec (d : nat) (p : bpiece) (x : K) : K := peval (pderiv_n d (Bcoef p)) x.

(* truncated-power form of the same function on a piece (k = number of active knots -2,-1,0,1,2) *)
Definition cube (x : K) : K := x * x * x.
Definition Btrunc (p : bpiece) (x : K) : K :=
  let two := of_Z 2 in
  match p with
  | PLo => 0
  | PM2 => cube (x + two) / of_Z 6
  | PM1 => (cube (x + two) - of_Z 4 * cube (x + 1)) / of_Z 6
  | PP0 => (cube (x + two) - of_Z 4 * cube (x + 1) + of_Z 6 * cube x) / of_Z 6
  | PP1 => (cube (x + two) - of_Z 4 * cube (x + 1) + of_Z 6 * cube x - of_Z 4 * cube (x - 1)) / of_Z 6
  | PHi => (cube (x + two) - of_Z 4 * cube (x + 1) + of_Z 6 * cube x - of_Z 4 * cube (x - 1) + cube (x - two)) / of_Z 6
  end.

(* the pieces met by x + 1, x, x - 1, x - 2 for 0 <= x < 1 *)
Definition basis4 (d : nat) (t : K) : list K :=
  [Bspec d PP1 (t + 1); Bspec d PP0 t; Bspec d PM1 (t - 1); Bspec d PM2 (t - of_Z 2)].

(* coefficient lists in t of the d-th derivative of the k-th weight  B(t + 1 - k), k = 0..3 *)
Definition wcoef (d k : nat) : list K :=
  pderiv_n d (match k with
              | 0%nat => [of_Q 1 6; of_Q (-1) 2; of_Q 1 2; of_Q (-1) 6]
              | 1%nat => [of_Q 2 3; 0; of_Z (-1); of_Q 1 2]
              | 2%nat => [of_Q 1 6; of_Q 1 2; of_Q 1 2; of_Q (-1) 2]
              | _ => [0; 0; 0; of_Q 1 6]
              end).

(* first moment of four weights about the cell: sum_k w_k (k - 1) *)
Definition moment1 (w : list K) : K :=
  match w with [w0; w1; w2; w3] => w0 * (of_Z (-1)) + w1 * 0 + w2 * 1 + w3 * of_Z 2 | _ => 0 end.
End Poly.
