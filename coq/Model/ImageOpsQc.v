(* Executable instance of the data-side image-operation model over canonical rationals, paired with the
   grid side (Model/GridDeriveQc.v) into one image state; operation language for chains (definitions only). *)
From Coq Require Import ZArith QArith Qround Qabs Qcanon List Bool.
From DV Require Import Base.Field Base.LinAlg Base.QcInst Base.QcCmp Model.Enums Model.Grid Model.Sampler Model.Lattice Model.SamplerQc
  Gen.GridT Model.GridDerive Model.GridDeriveQc Model.ImageOps.
Import ListNotations.

Definition qimg := nimg (K:=QcF).
(* image operations: the grid operations of C03 plus data-only parameters *)
Inductive iop :=
| IGrid (o : gop (K:=QcF)) (cv : Qc) (kern : list Qc)     (* cv: pad value (crop family); kern: Gaussian taps (downsample) *)
| IConv (w : list Qc)
| IConv2 (w : list (list Qc))
| IConv3 (w : list (list (list Qc))).

Definition flag_of (a : option bool) (g : dgrid (K:=QcF)) : bool := match a with Some b => b | None => acf g end.
Definition rev_dim (D : nat) (k : nat) : nat := (D - 1 - k)%nat.

(* data side of one operation; g = grid BEFORE the operation, g' = grid AFTER it (for resample: its size) *)
Definition apply_data (D : nat) (o : iop) (g g' : dgrid (K:=QcF)) (im : qimg) : qimg :=
  match o with
  | IConv w => d_conv (K:=QcF) D w im
  | IConv2 w => d_conv2 (K:=QcF) w im
  | IConv3 w => d_conv3 (K:=QcF) w im
  | IGrid op cv kern =>
    match op with
    | OResize size a => d_interp (K:=QcF) floorQ D (flag_of a g) size im
    | OReshape shape a => d_interp (K:=QcF) floorQ D (flag_of a g) (rev shape) im
    | ODown L dims ms a => d_downsample (K:=QcF) floorQ D L dims ms (flag_of a g) kern im
    | OUp L dims a =>
        (* ImageBatch.upsample: core.image.upsample doubles the tensor shape; when the upsampled GRID has another size (fractional
           size attribute) the data is resized to the grid's size instead *)
        if eqshape (up_size L dims (ishape im)) (nZ (K:=QcF) ceilQc g') then d_upsample (K:=QcF) floorQ D L dims (flag_of a g) im
        else d_interp (K:=QcF) floorQ D (flag_of a g) (nZ (K:=QcF) ceilQc g') im
    | OPyr L dims ms level => im     (* pyramid levels are compared through their own resize/downsample steps *)
    | OResample spacing ms => d_resample (K:=QcF) floorQ D (sp g) spacing (nZ (K:=QcF) ceilQc g') im
    | OCrop num => d_crop (K:=QcF) D cv num im
    | OPad num => d_pad (K:=QcF) D cv num im
    | OCenterCrop size => d_center_crop (K:=QcF) D size im
    | OCenterPad size => d_center_pad (K:=QcF) D cv size im
    | ONarrow dim start len => d_narrow (K:=QcF) dim start len im
    | ORoi start size => d_roi (K:=QcF) D cv start size im
    | OPool ks cm => d_pool (K:=QcF) D ks cm im
    end
  end.
Definition apply_grid (D : nat) (o : iop) (g : dgrid (K:=QcF)) : dgrid (K:=QcF) :=
  match o with
  | IConv w => g
  | IConv2 w => g
  | IConv3 w => g
  | IGrid op _ _ => apply_op (K:=QcF) ceilQc floorQc leQc D op g
  end.
(* all intermediate (grid, frozen data table) states of a chain *)
Fixpoint run_iops (D : nat) (ops : list iop) (g : dgrid (K:=QcF)) (im : qimg) : list (dgrid (K:=QcF) * list Z * list Qc) :=
  match ops with
  | [] => []
  | o :: r => let g' := apply_grid D o g in
              let im' := freeze (apply_data D o g g' im) in
              (g', ishape im', tabulate im') :: run_iops D r g' im'
  end.
(* comparison with the implementation: per stage (grid state as in C03, data shape, values; mask = compare only
   where the implementation's validity mask is 1, given as a list of booleans) *)
Fixpoint vclose_mask (tol : Q) (a b : list Qc) (m : list bool) : bool :=
  match a, b, m with
  | [], [], [] => true
  | x :: a', y :: b', k :: m' => (negb k || qcloser tol x y) && vclose_mask tol a' b' m'
  | _, _, _ => false
  end.
Definition stage_ok (tol : Q) (D : nat) (st : dgrid (K:=QcF) * list Z * list Qc)
  (e : (list Qc * list Z * list Qc * list Qc * list Qc * list Qc * bool) * list Z * list Qc * list bool) : bool :=
  let '(g, shp, vals) := st in let '(eg, eshape, evals, emask) := e in
  state_ok tol D g eg && eqshape shp eshape && vclose_mask tol vals evals emask.
Fixpoint stages_ok (tol : Q) (D : nat) sts es : bool :=
  match sts, es with
  | [], [] => true
  | s :: sts', e :: es' => stage_ok tol D s e && stages_ok tol D sts' es'
  | _, _ => false
  end.
