"""C12 -- spatial derivatives of flow fields are exact on polynomial fields."""
import vlib
from vlib import Violation, qc, coq_list

ID = "C12"
GEN_UNITS = ["BSpline", "FlowDeriv"]
PROPS_FILE = "Props/C12.v"
PROPS_MOD = "Props.C12"
COQ_TARGETS = ["Props/C12.vo"]
SOURCES = ["deepali/core/flow.py", "deepali/core/image.py", "deepali/core/enum.py", "deepali/core/bspline.py"]
TRUSTED = [
    "Coq 8.16.1 kernel + vm_compute",
    "translator: tools/symtorch.py semantics of the traced torch subset incl. F.pad / F.conv1d (validated against torch when written; "
    "the generated definitions and the N-D composition are run against the real functions by this run's correspondence)",
    "modelled not verified: string parsing of derivative keys (regular expressions of core/enum.py) -- keys enter the Coq model as lists "
    "of spatial dims; float32 conversion of the spacing argument and float rounding are outside the model",
]
ASSUMPTIONS = [
    "sigma = None (no Gaussian pre-smoothing), dilation = 1",
    "batch items and channels are independent (each item is compared with the model separately; checked symbolically by the translator)",
    "B-spline mode is the subject of C14 (analytic spline derivatives); here only its exactness on affine coefficients and its keys are evaluated",
]
MODES = {"forward": "Fwd", "backward": "Bwd", "central": "Cen", "forward_central_backward": "Fcb", "prewitt": "Prewitt", "sobel": "Sobel"}
TOL = "1 # 1000000000"

PREAMBLE = """From Coq Require Import ZArith QArith Qcanon List String Bool.
From DV Require Import Base.Field Base.LinAlg Base.QcInst Model.BSplineBase Gen.BSpline Model.BSpline Gen.FlowDeriv Model.FiniteDiff.
Import ListNotations.
Definition tol : Q := %s.
Fixpoint tclose (t : Q) (a b : list (list (list Qc))) : bool :=
  match a, b with
  | [], [] => true
  | x :: a', y :: b' => mclose t x y && tclose t a' b'
  | _, _ => false
  end.
Fixpoint qclose4 (t : Q) (a b : list (list (list (list Qc)))) : bool :=
  match a, b with
  | [], [] => true
  | x :: a', y :: b' => tclose t x y && qclose4 t a' b'
  | _, _ => false
  end.
""" % TOL
CLOSE = {2: "mclose", 3: "tclose"}


def dy(rng, bits=2, lo=-3, hi=3):
    return rng.randint(lo * 2 ** bits, hi * 2 ** bits) / 2 ** bits


def nest(x):
    if isinstance(x, (list, tuple)):
        return coq_list([nest(v) for v in x])
    return qc(float(x))


def rand_tensor(rng, shape):
    if not shape:
        return dy(rng)
    return [rand_tensor(rng, shape[1:]) for _ in range(shape[0])]


def spacing_form(rng, N, D, form):
    spv = [[rng.choice([0.5, 1.0, 2.0, 0.25, 1.5]) for _ in range(D)] for _ in range(N)]
    if form == "none":
        return None, [[1.0] * D] * N
    if form == "scalar":
        return spv[0][0], [[spv[0][0]] * D] * N
    if form == "axis":
        return list(spv[0]), [spv[0]] * N
    if form == "batch-iso":
        return [[r[0]] for r in spv], [[r[0]] * D for r in spv]
    return [list(r) for r in spv], spv


def gen_cases(ctx):
    rng = ctx.rng
    n = ctx.n(96, 720)
    cases = []
    forms = ["none", "scalar", "axis", "batch", "batch-iso"]
    modes = list(MODES)
    for i in range(n):
        kind = ["sderiv", "fd", "flowderiv", "formula" if ((i // 4) % 6 + i // 48) % 2 else "flowop"][i % 4]
        mode = modes[(i // 4) % 6]
        D = [2, 3][(i // 24) % 2]
        shape_t = [rng.randint(2 if rng.random() < 0.15 else 4, 6 if D == 2 else 5) for _ in range(D)]
        letters = "xyz"[:D]
        if kind == "fd":
            m = mode if mode in modes[:4] else "forward_central_backward"
            N = rng.choice([1, 2])
            h = [rng.choice([0.5, 1.0, 2.0, 0.25]) for _ in range(N)]
            cases.append({"kind": "fd", "D": D, "mode": m, "sdim": rng.randrange(D), "spacing": h[0] if N == 1 else h, "h": h,
                          "data": rand_tensor(rng, [N, 1] + shape_t)})
        elif kind == "sderiv":
            N = rng.choice([1, 2])
            spacing, spv = spacing_form(rng, N, D, forms[(i // 4) % 5])
            keys = list(letters) + [a + b for a in letters for b in letters]
            which = rng.sample(keys, rng.randint(1, 3))
            cases.append({"kind": "sderiv", "D": D, "mode": mode, "which": which, "spacing": spacing, "spv": spv,
                          "data": rand_tensor(rng, [N, 1] + shape_t)})
        elif kind == "flowderiv":
            N = rng.choice([1, 2])
            spacing, spv = spacing_form(rng, N, D, forms[1 + (i // 4) % 4])
            chans = "uvw"[:D]
            keys = list(letters) + [a + b for a in letters for b in letters]
            which = [f"d{rng.choice(chans)}/d{rng.choice(keys)}" for _ in range(rng.randint(1, 3))]
            if rng.random() < 0.4:
                which.append(rng.choice(keys))
            if rng.random() < 0.3:
                which.append(f"d{chans[:2]}/d{rng.choice(letters)}")
            cases.append({"kind": "flowderiv", "D": D, "mode": mode, "which": which, "spacing": spacing, "spv": spv,
                          "data": rand_tensor(rng, [N, D] + shape_t)})
        elif kind == "flowop":
            shape_t = [rng.randint(2, 5 if D == 2 else 3) for _ in range(D)]
            spacing, spv = spacing_form(rng, 1, D, forms[1 + (i // 8) % 2])
            cases.append({"kind": "flowop", "D": D, "mode": mode, "spacing": spacing, "spv": spv[0], "shape": shape_t,
                          "u": rand_tensor(rng, [1, D] + shape_t), "v": rand_tensor(rng, [1, D] + shape_t)})
        else:
            shape_t = [rng.randint(3, 4) for _ in range(D)]
            spacing, spv = spacing_form(rng, 1, D, forms[1 + (i // 4) % 2])
            cases.append({"kind": "formula", "D": D, "mode": mode, "spacing": spacing,
                          "u": rand_tensor(rng, [1, D] + shape_t), "v": rand_tensor(rng, [1, D] + shape_t),
                          "points": [[rng.randrange(k) for k in shape_t] for _ in range(3)]})
    return cases


def expand_keys(D, which):
    out = []
    for w in which:
        if w.startswith("d"):
            ch, der = w[1:].split("/d")
            out += [(f"d{c}/d{der}", "uvw".index(c), der) for c in ch]
        else:
            out += [(f"d{c}/d{w}", "uvw".index(c), w) for c in "uvw"[:D]]
    seen = {}
    for k, c, d in out:
        seen.setdefault(k, (c, d))
    return [(k, c, d) for k, (c, d) in seen.items()]


def deriv_term(D, mode, spv_b, code, data):
    key = sorted("xyz".index(ch) for ch in code)
    return (f"(deriv{D} (K:=QcF) {MODES[mode]} {coq_list([qc(v) for v in spv_b])} {coq_list([str(k) + '%nat' for k in key])} {nest(data)})")


def idx(t, p):
    for i in p:
        t = t[i]
    return t


def case_terms(c, r):
    k = c["kind"]
    D = c["D"]
    if k == "fd":
        out = []
        for b in range(len(c["data"])):
            ax = "xyz"[c["sdim"]]
            out.append(f"{CLOSE[D]} tol (along_{ax}{D} (fd1 (K:=QcF) {MODES[c['mode']]} {qc(c['h'][b])}) {nest(c['data'][b][0])}) {nest(r['val'][b][0])}")
        return out
    if k == "sderiv":
        if r["keys"] != list(dict.fromkeys(c["which"])):
            return [None]
        out = []
        for key in r["keys"]:
            for b in range(len(c["data"])):
                out.append(f"{CLOSE[D]} tol {deriv_term(D, c['mode'], c['spv'][b], key, c['data'][b][0])} {nest(r['val'][key][b][0])}")
        return out
    if k == "flowderiv":
        want = expand_keys(D, c["which"])
        if r["keys"] != [w[0] for w in want]:
            return [None]
        out = []
        for key, ch, code in want:
            for b in range(len(c["data"])):
                out.append(f"{CLOSE[D]} tol {deriv_term(D, c['mode'], c['spv'][b], code, c['data'][b][ch])} {nest(r['val'][key][b][0])}")
        return out
    if k == "flowop":
        sp = coq_list([qc(v) for v in c["spv"]])
        dims = " ".join(str(n) + "%nat" for n in c["shape"])  # (ny nx) / (nz ny nx): tensor order
        M = MODES[c["mode"]]
        U, V = nest(c["u"][0]), nest(c["v"][0])
        cl, cl1 = CLOSE[D], {2: "tclose", 3: "qclose4"}[D]
        return [f"{cl} tol (det{D}_field (K:=QcF) {M} {sp} false {U} {dims}) {nest(r['det'])}",
                f"{cl} tol (det{D}_field (K:=QcF) {M} {sp} true {U} {dims}) {nest(r['det_id'])}",
                f"{cl} tol (div{D}_field (K:=QcF) {M} {sp} {U} {dims}) {nest(r['div'])}",
                f"{cl1} tol (curl{D}_field (K:=QcF) {M} {sp} {U} {dims}) {nest(r['curl'])}",
                f"{cl1} tol (lie{D}_field (K:=QcF) {M} {sp} {V} {U} {dims}) {nest(r['lie'])}"]
    if k == "formula":
        out = []
        for p in c["points"]:
            ju = idx(r["ju"][0], p)
            jv = idx(r["jv"][0], p)
            fl = lambda m: " ".join(qc(float(x)) for row in m for x in row)
            uu = [idx(c["u"][0][i], p) for i in range(D)]
            vv = [idx(c["v"][0][i], p) for i in range(D)]
            out.append(f"qclose tol (gen_det{D} (K:=QcF) {fl(ju)}) {qc(idx(r['det'][0][0], p))}")
            out.append(f"qclose tol (gen_det{D}_id (K:=QcF) {fl(ju)}) {qc(idx(r['det_id'][0][0], p))}")
            out.append(f"qclose tol (gen_div{D} (K:=QcF) {fl(ju)}) {qc(idx(r['div'][0][0], p))}")
            out.append(f"vclose tol (gen_curl{D} (K:=QcF) {fl(ju)}) {coq_list([qc(idx(ch, p)) for ch in r['curl'][0]])}")
            out.append(f"vclose tol (gen_lie{D} (K:=QcF) {fl(jv)} {fl(ju)} {' '.join(qc(x) for x in vv)} {' '.join(qc(x) for x in uu)}) "
                       f"{coq_list([qc(idx(ch, p)) for ch in r['lie'][0]])}")
        return out
    raise ValueError(k)


def small(c):
    d = dict(c)
    for k in ("data", "u", "v"):
        if k in d:
            d[k] = "<%s>" % k
    return d


def correspondence(ctx):
    cases = gen_cases(ctx)
    res = vlib.run_impl("c12_impl", {"fn": "model_cases", "cases": cases})
    failures = []
    dist = {}
    terms = []
    for i, (c, r) in enumerate(zip(cases, res)):
        tag = f"{c['kind']}:{c['mode']}:D{c['D']}"
        dist[tag] = dist.get(tag, 0) + 1
        if "error" in r:
            failures.append({"case": small(c), "impl": r, "why": "implementation raised where the model is defined"})
            continue
        for t in case_terms(c, r):
            if t is None:
                failures.append({"case": small(c), "impl": {"keys": r.get("keys")}, "why": "keys returned by the implementation differ from the model"})
            else:
                terms.append((i, t))
    shard = 200
    n_eval = 0
    for a in range(0, len(terms), shard):
        part = terms[a:a + shard]
        lines = [PREAMBLE]
        for j, (_, t) in enumerate(part):
            lines.append(f"Definition c{j} : bool := {t}.")
        lines.append("Definition results : list bool := " + coq_list([f"c{j}" for j in range(len(part))]) + ".")
        lines.append('Eval vm_compute in ("FAIL"%string, failing results).')
        rc, out = vlib.coqc_text("\n".join(lines) + "\n", ctx.scratch, f"cases_c12_{a // shard}")
        bad = vlib.parse_nat_list(out, "FAIL")
        if rc != 0 or bad is None:
            failures.append({"why": "case file did not evaluate (generated definitions missing or ill-typed)", "coq": out[-800:]})
            continue
        n_eval += len(part)
        for j in bad:
            failures.append({"case": small(cases[part[j][0]]), "why": "model value differs from implementation", "term": part[j][1][:220]})
    samples = [{"case": small(cases[i]), "impl": str(res[i])[:300]} for i in (0, len(cases) // 2, len(cases) - 1)]
    return {"evaluations": n_eval, "distinct_nontrivial": len({str(c) for c in cases}),
            "rule": "every mode in {forward, backward, central, forward_central_backward, prewitt, sobel} x D in {2,3} x kinds "
                    "{finite_differences along a random axis; spatial_derivatives for random key subsets of order <= 2; flow_derivatives with "
                    "quotient / shorthand / multi-component keys; jacobian_det (+-identity), divergence, curl, lie_bracket against the traced "
                    "formulas at sampled points; the same four operators as whole fields against det/div/curl/lie{2,3}_field, i.e. the composition "
                    "derivative tensors -> formula that the theorems are about}; spacing forms none / scalar / per-axis / per-batch / per-batch isotropic; N in {1,2}; "
                    "shapes 2..6 per axis; random dyadic data. evaluations = boolean comparisons inside Coq (one per key x batch item / "
                    "formula x point); distinct by full input; all cases non-trivial (random non-constant data)",
            "samples": samples, "failures": failures, "distribution": dist,
            "tolerances": {"float64 outputs": "1e-9 absolute", "keys / shapes": "exact"}}


def search(ctx, broken, corr_failures):
    """two stages, so that a concrete failing input found by the short first stage is not lost when the long second stage
    times out on a loaded machine: (1) prewitt / sobel on affine fields at points interior w.r.t. the other axes including both
    ends of the differentiated axis (spatial_derivatives, flow_derivatives, jacobian_matrix, divergence, curl; D = 2, 3; all
    spacing forms), (2) everything else"""
    n = ctx.n(48, 480)
    out = []
    seen = set()
    counts = {}
    errors = []
    for stage in ("edge", "main"):
        try:
            r = vlib.run_impl("c12_impl", {"fn": "oracle", "seed": ctx.seed, "n": n, "stage": stage}, timeout=1500)
        except Exception as exc:  # noqa
            errors.append(f"stage {stage}: {str(exc)[:200]}")
            continue
        counts.update(r["counts"])
        for f in r["fails"]:
            if f["key"] in seen:
                continue
            seen.add(f["key"])
            out.append(Violation(key=f["key"], what=f["what"], replay={"oracle": "c12", "seed": ctx.seed, "n": n, "stage": stage, "failure": f}))
    ctx.notes.append(f"implementation-side property evaluation: {counts}")
    for e in errors:
        out.append(Violation(key="C12:search:incomplete", what="implementation-side exploration did not finish: " + e,
                             replay={"search_error": e}, found_input=False))
    return out


def explains(broken_item, found):
    """a concrete failing input explains a broken obligation when it is about the same source function; the lemma name
    (proof obligations read 'Proofs/File.v:line lemma: message') is matched first, the whole text otherwise"""
    import re
    known, _ = vlib.load_findings()  # a known finding never explains a newly broken obligation
    keys = " ".join(v.key for v in found if v.key not in known).lower()
    m = re.search(r"\.v:\d+ ([A-Za-z0-9_']+):", broken_item)
    if not m or "was not found in the current environment" in broken_item:
        # (a missing generated definition is a consequence of a translator unit that failed closed)
        # translator unit / correspondence / build items name no lemma: any new concrete failing input explains them
        return any(v.key not in known for v in found)
    b = m.group(1).lower()
    table = [(("det2", "det3", "gen_det", "jacobian_det"), ("jacobian_det",)),
             (("div_formula", "gen_div", "divergence"), ("divergence",)),
             (("curl",), ("curl",)),
             (("lie",), ("lie_bracket",)),
             (("key", "subset", "sderivs", "build", "visit", "rounds", "sort_code", "flowderiv"), ("keys", "subset", "mixed")),
             (("st_", "st2_", "fd1", "stencil", "gen_fd", "gen_fcb", "gen_avg", "affine", "quadratic", "smooth", "dstep", "sobel", "sderiv",
               "image.py", "translator unit", "correspondence"),
              ("affine", "second-derivative", "boundary", "reference", "jacobian_matrix", "raises", "subset", "jacobian_det", "divergence", "curl", "lie_bracket"))]
    for bs, ks in table:
        if any(x in b for x in bs):
            return any(x in keys for x in ks)
    return any(v.key not in known for v in found)


def replay(ctx, data):
    f = data.get("failure") or {}
    r = vlib.run_impl("c12_impl", {"fn": "oracle", "seed": data.get("seed", ctx.seed), "n": data.get("n", 48),
                                   "stage": data.get("stage", "all")}, timeout=1500)
    for g in r["fails"]:
        if g["key"] == f.get("key"):
            return g["what"]
    return None


MANIFEST_ENTRY = {
    "text": "Theorems (Coq, every field of characteristic 0, closed under the global context). 1-D: the stencils traced from "
            "finite_differences (forward, backward, central, forward_central_backward; replicate padding = clamped neighbours; division "
            "by the spacing included) return the slope of a i h + b at all points the scheme supports for every length and h <> 0, "
            "0 resp. a/2 at the padded ends, and 2a for repeated differences of quadratics two points from the ends; the prewitt / sobel "
            "smoothing (replicate padding) keeps affine data in the interior and shifts it by +-kb*slope*h at the two ends. N-D (D = 2 and D = 3, all six "
            "modes, all shapes and spacings): the composed operator (smooth the other axes, difference along the axis) gives the partial "
            "derivatives of affine fields at every point supported along the differentiated axis -- every grid point for "
            "forward_central_backward, prewitt and sobel; "
            "for affine vector fields A p + t the Jacobian, jacobian_det with and without identity, divergence, curl and Lie bracket "
            "assembled from the derivative tensors by the traced formulas equal A, det A, det(A+I), trace A, the rotation vector and "
            "B u - A v at every point of that region; second derivatives of quadratic fields (all cross terms, pure and mixed sorted "
            "keys, evaluated as spatial_derivatives does) are exact two points from the boundary; B-spline mode gives the slopes of "
            "affine coefficient fields at every sample, every stride (model bsd3_at; weights = analytic basis by C14); the traced "
            "determinant / divergence / curl / Lie formulas equal their definitions; the table-building loop over derivative keys gives "
            "every requested key the derivative along its sorted letters for arbitrary key lists (subset = all restricted), permuted "
            "keys share one value. Tie: Gen/FlowDeriv.v is regenerated from image.py / flow.py by symbolic tracing on every run, which "
            "also checks sample by sample, on symbolic 2-D / 3-D data, that spatial_derivatives equals the modelled composition for all "
            "six modes, keys up to order 2 and all spacing forms, that mode='gaussian' (symbolic kernels) divides d/dx_a by spacing[a], "
            "and that flow_derivatives' values do not depend on the other requested keys; the executable model (including the whole-field "
            "operators det/div/curl/lie{2,3}_field) is compared inside Coq with the implementation on generated inputs.",
    "note": "Partial: key strings are parsed by regular expressions outside the model (validated by the translator's checks and the "
            "exploration); mode='gaussian' is outside the property's mode list and has no exactness theorem (its spacing handling is "
            "traced and searched); float32 conversion of the spacing is outside the model. No known findings (the zero-padded prewitt / sobel smoothing was "
            "repaired in /repo 721acda; the oracle keys ...:boundary-not-exact and ...:derivative-axis-boundary stay as regression checks).",
}
