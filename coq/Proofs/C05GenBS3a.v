(* C05: ImageBatch.sample(grid), 3-D, source.align_corners=True (traced).
   The generated definitions are what the code hands to grid_sample for a concrete small target lattice (sizes
   substituted by the hypotheses tn i = ...) and symbolic everything else; they are the model's coordinates. *)
From Coq Require Import ZArith List Field Ring Lia Bool.
From DV Require Import Base.Field Base.FieldFacts Base.LinAlg Base.Tactics Model.Enums Model.Homog Model.Grid Model.ItkSpec
  Model.Sampler Gen.GridT Gen.SampleT Model.Resample Proofs.C01Grid.
Import ListNotations.
Local Open Scope fld_scope.
Section C05GenBS3a.
Variable K : fld.
Hypothesis Kf : is_field K.
Hypothesis Kc : char0 K.
Add Field KF_C05GenBS3a : Kf.
Let K1 := K1nz K Kf.
Let K2 := K2nz K Kf Kc.
Lemma K4nz : ((1 + 1) * (1 + 1) : K) <> 0.
Proof. intro E. apply K2. transitivity ((1 + 1) * (1 + 1) / (1 + 1) : K); [field; exact K2 | rewrite E; field; exact K2]. Qed.
Hint Resolve K1 K2 K4nz : core.
Ltac side := repeat split; auto.
Ltac comps H :=
  let Hs := fresh "Hs" in let Hn := fresh "Hn" in let Hn1 := fresh "Hn1" in let Ho := fresh "Ho" in
  destruct H as (Hs & Hn & Hn1 & Ho);
  pose proof (Hs 0%nat ltac:(lia)); pose proof (Hs 1%nat ltac:(lia)); try pose proof (Hs 2%nat ltac:(lia));
  pose proof (Hn 0%nat ltac:(lia)); pose proof (Hn 1%nat ltac:(lia)); try pose proof (Hn 2%nat ltac:(lia));
  pose proof (Hn1 0%nat ltac:(lia)); pose proof (Hn1 1%nat ltac:(lia)); try pose proof (Hn1 2%nat ltac:(lia)).
Notation G2 n s c d := (vtab 2 n) (only parsing).
Lemma bs_coords_a_3 (tn ts tc sn ss sc : nat -> K) (td sd : nat -> nat -> K) :
  wf 3 tn ts td -> wf 3 sn ss sd -> tn 0%nat = 1 + 1 + 1 -> tn 1%nat = 1 + 1 -> tn 2%nat = 1 + 1 ->
  gen_bs_coords_a_3 (vtab 3 tn) (vtab 3 ts) (vtab 3 tc) (tab 3 3 td) (vtab 3 sn) (vtab 3 ss) (vtab 3 sc) (tab 3 3 sd)
  = lat3 (dp_src_coords 3 true (vtab 3 tn) (vtab 3 ts) (vtab 3 tc) (tab 3 3 td) (vtab 3 sn) (vtab 3 ss) (vtab 3 sc) (tab 3 3 sd)) 3 2 2.
Proof. intros Ht Hs E0 E1 E2. comps Ht. comps Hs. fcbv. list_eq; try (field [E0 E1 E2]; side). Qed.
End C05GenBS3a.
