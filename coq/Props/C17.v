(* C17 -- Deformation regularisers have the right null space, sign, scaling and units.
   Statements only.  A scalar image is a function of the multi-index (x, y, ...) on the lattice
   0 <= i_d < n_d (any D, any shape); a vector field is the list of its components.  The stencil
   model (Model/RegStencil.v: forward_central_backward scheme, replicate-padded [1,w,1] cross smoothing of
   'sobel'/'prewitt') is tied to core/image.py by the correspondence check; the coefficient structure
   of every loss, the lame_parameters table and the denormalize_flow factors are traced from the
   source (Gen/Regs.v, theorems C17_gen_...). *)
From Coq Require Import ZArith QArith List Reals Bool Lia.
From DV Require Import Base.Field Base.LinAlg Base.RInst Base.QcInst Model.Losses Model.LossesR Model.RegStencil
  Model.Regularisers Gen.Regs Proofs.C16Lists Proofs.C17Stencil Proofs.C17Sobel Proofs.C17Loss Proofs.C17Lame
  Proofs.C17Gen Proofs.C17Real Proofs.C17BSpline.
From DV Require Import Gen.BSpline Gen.FlowDeriv.
Import ListNotations.
Local Open Scope fld_scope.

(* ================= 1. null space of bending and curvature ============================================ *)
(* every derivative mode of the model (forward_central_backward; 'sobel' and 'prewitt' with their replicate-padded
   cross smoothing) differentiates affine functions exactly at EVERY lattice point, any dimension and shape *)
Theorem C17_exact_on_affine :
  forall (K : fld), is_field K -> char0 K ->
  forall m sh (sp : list K) d e c (a : list K) (i : idx),
  (hs sp d <> 0 -> (d < length i)%nat -> d1 m sh sp d (aff c a) i = nth d a 0 / hs sp d) /\
  (hs sp (Nat.min d e) <> 0 -> (Nat.min d e < length i)%nat -> d2 m sh sp d e (aff c a) i = 0).
Proof. intros K Kf Kc m sh sp d e c a i. split; [exact (d1_aff K Kf Kc m sh sp d c a i) | exact (d2_aff K Kf Kc m sh sp d e c a i)]. Qed.
Print Assumptions C17_exact_on_affine.

(* bending and curvature vanish on affine fields and are unchanged by adding one: at every point where
   the second derivatives of the affine field vanish (flat_at) ... *)
Theorem C17_bending_curvature_null_and_invariant :
  forall (K : fld), is_field K ->
  forall m sh (sp : list K) (v u w : list (idx -> K)) (i : idx),
  flat_at K m sh sp v i ->
  bending_pt m sh sp v i = 0 /\ curvature_pt m sh sp v i = 0 /\
  (field_sum K w u v -> bending_pt m sh sp w i = bending_pt m sh sp u i /\
                        curvature_pt m sh sp w i = curvature_pt m sh sp u i).
Proof.
  intros K Kf m sh sp v u w i H.
  exact (conj (bending_null K Kf m sh sp v i H) (conj (curvature_null K Kf m sh sp v i H)
        (fun Hs => conj (bending_invariant K Kf m sh sp v i u w Hs H) (curvature_invariant K Kf m sh sp v i u w Hs H)))).
Qed.
Print Assumptions C17_bending_curvature_null_and_invariant.

(* ... which is every lattice point, for every derivative mode (including the default 'sobel'), any D and shape *)
Theorem C17_affine_flat_everywhere :
  forall (K : fld), is_field K -> char0 K ->
  forall m sh (sp : list K) (v : list (idx -> K)) t A (i : idx),
  is_affine_field K v t A -> spacing_ok K sh sp -> length i = length sh -> flat_at K m sh sp v i.
Proof. exact affine_flat. Qed.
Print Assumptions C17_affine_flat_everywhere.

(* ================= 2. first-order terms: translations and analytic values on affine fields =========== *)
Theorem C17_gradient_terms_on_affine :
  forall (K : fld), is_field K -> char0 K ->
  forall m sh (sp : list K) (v : list (idx -> K)) t A (i : idx) (fabs : K -> K) lambda mu,
  is_affine_field K v t A -> spacing_ok K sh sp -> length i = length sh ->
  let Jm := J K sp A in
  diffusion_pt m sh sp v i = sumf (dims sh) (fun d => sumf (dims sh) (fun c => sq (Jm c d))) / (1 + 1) /\
  tv_pt m sh sp v i fabs = sumf (dims sh) (fun d => sumf (dims sh) (fun c => fabs (Jm c d))) /\
  div_pt m sh sp v i = sq (sumf (dims sh) (fun c => Jm c c)) / (1 + 1) /\
  elasticity_pt m sh sp v i lambda mu
  = sq (sumf (dims sh) (fun c => Jm c c)) * (lambda / (1 + 1))
    + sumf (dims sh) (fun j => sumf (dims sh) (fun k => sq (Jm j k + Jm k j) * (mu / ((1 + 1) * (1 + 1))))).
Proof.
  intros K Kf Kc m sh sp v t A i fabs lambda mu Hv Hsp Hl.
  exact (conj (diffusion_affine K Kf Kc m sh sp v t A i Hv Hsp Hl) (conj (tv_affine K Kf Kc m sh sp v t A i Hv Hsp Hl fabs)
        (conj (divergence_affine K Kf Kc m sh sp v t A i Hv Hsp Hl) (elasticity_affine K Kf Kc m sh sp v t A i Hv Hsp Hl lambda mu)))).
Qed.
Print Assumptions C17_gradient_terms_on_affine.

Theorem C17_gradient_terms_vanish_on_translations :
  forall (K : fld), is_field K -> char0 K ->
  forall m sh (sp : list K) (v : list (idx -> K)) t (i : idx) (fabs : K -> K) lambda mu,
  is_affine_field K v t (fun _ => []) -> spacing_ok K sh sp -> length i = length sh -> fabs 0 = 0 ->
  diffusion_pt m sh sp v i = 0 /\ tv_pt m sh sp v i fabs = 0 /\ div_pt m sh sp v i = 0 /\
  elasticity_pt m sh sp v i lambda mu = 0.
Proof. exact translation_zero. Qed.
Print Assumptions C17_gradient_terms_vanish_on_translations.

(* the same values follow in any derivative mode from exact first differences alone (used for non-affine fields) *)
Theorem C17_gradient_terms_from_exact_differences :
  forall (K : fld), is_field K ->
  forall m sh (sp : list K) (v : list (idx -> K)) (Jm : nat -> nat -> K) (i : idx) (fabs : K -> K) lambda mu,
  (forall c d, In c (dims sh) -> In d (dims sh) -> d1 m sh sp d (comp v c) i = Jm c d) ->
  diffusion_pt m sh sp v i = sumf (dims sh) (fun d => sumf (dims sh) (fun c => sq (Jm c d))) / (1 + 1) /\
  tv_pt m sh sp v i fabs = sumf (dims sh) (fun d => sumf (dims sh) (fun c => fabs (Jm c d))) /\
  div_pt m sh sp v i = sq (sumf (dims sh) (fun c => Jm c c)) / (1 + 1) /\
  elasticity_pt m sh sp v i lambda mu
  = sq (sumf (dims sh) (fun c => Jm c c)) * (lambda / (1 + 1))
    + sumf (dims sh) (fun j => sumf (dims sh) (fun k => sq (Jm j k + Jm k j) * (mu / ((1 + 1) * (1 + 1))))).
Proof. intros K Kf m sh sp v Jm i fabs lambda mu H. exact (gradient_terms_exact K m sh sp v Jm i H fabs lambda mu). Qed.
Print Assumptions C17_gradient_terms_from_exact_differences.

(* ================= 3. sign, homogeneity, spacing, reductions ========================================= *)
Theorem C17_nonnegative :
  forall m sh (sp : list RF) (u : list (idx -> RF)) (i : idx) (lambda mu : RF),
  (0 <= bending_pt m sh sp u i)%R /\ (0 <= curvature_pt m sh sp u i)%R /\ (0 <= diffusion_pt m sh sp u i)%R /\
  (0 <= div_pt m sh sp u i)%R /\ (0 <= tv_pt m sh sp u i Rabs')%R /\
  ((0 <= lambda)%R -> (0 <= mu)%R -> (0 <= elasticity_pt m sh sp u i lambda mu)%R).
Proof.
  intros m sh sp u i lambda mu.
  exact (conj (bending_nonneg m sh sp u i) (conj (curvature_nonneg m sh sp u i) (conj (diffusion_nonneg m sh sp u i)
        (conj (divergence_nonneg m sh sp u i) (conj (tv_nonneg m sh sp u i) (elasticity_nonneg m sh sp u i lambda mu)))))).
Qed.
Print Assumptions C17_nonnegative.

(* quadratic terms scale with the square of the field (every derivative mode); total variation with |s| *)
Theorem C17_quadratic_homogeneity :
  forall (K : fld), is_field K ->
  forall m sh (sp : list K) (u w : list (idx -> K)) (s : K) (i : idx) lambda mu,
  field_mul K w s u ->
  bending_pt m sh sp w i = s * s * bending_pt m sh sp u i /\
  curvature_pt m sh sp w i = s * s * curvature_pt m sh sp u i /\
  diffusion_pt m sh sp w i = s * s * diffusion_pt m sh sp u i /\
  div_pt m sh sp w i = s * s * div_pt m sh sp u i /\
  elasticity_pt m sh sp w i lambda mu = s * s * elasticity_pt m sh sp u i lambda mu.
Proof.
  intros K Kf m sh sp u w s i lambda mu Hw.
  exact (conj (bending_quadratic K Kf m sh sp u w s i Hw) (conj (curvature_quadratic K Kf m sh sp u w s i Hw)
        (conj (diffusion_quadratic K Kf m sh sp u w s i Hw) (conj (divergence_quadratic K Kf m sh sp u w s i Hw)
              (elasticity_quadratic K Kf m sh sp u w s i Hw lambda mu))))).
Qed.
Print Assumptions C17_quadratic_homogeneity.

Theorem C17_tv_homogeneity :
  forall m sh (sp : list RF) (u w : list (idx -> RF)) (s : RF) i,
  field_mul RF w s u -> tv_pt m sh sp w i Rabs' = (Rabs s * tv_pt m sh sp u i Rabs')%R.
Proof. exact tv_homogeneous. Qed.
Print Assumptions C17_tv_homogeneity.

(* multiplying every spacing by k divides first derivatives by k and second derivatives by k^2:
   diffusion scales with k^-2, bending with k^-4 *)
Theorem C17_spacing_powers :
  forall (K : fld), is_field K -> char0 K ->
  forall m sh (sp : list K) (k : K), k <> 0 -> (forall d, hs sp d <> 0) -> length sp = length sh ->
  let sp' := map (fun h => h * k) sp in
  forall (u : list (idx -> K)) (f : idx -> K) d e i, (d < length sp)%nat -> (e < length sp)%nat ->
  d1 m sh sp' d f i = d1 m sh sp d f i / k /\
  d2 m sh sp' d e f i = d2 m sh sp d e f i / (k * k) /\
  diffusion_pt m sh sp' u i = diffusion_pt m sh sp u i / (k * k) /\
  bending_pt m sh sp' u i = bending_pt m sh sp u i / (k * k * (k * k)).
Proof.
  intros K Kf Kc m sh sp k Hk Hsp HL sp' u f d e i Hd He.
  exact (conj (d1_spacing K Kf Kc m sh sp k Hk Hsp d f i Hd) (conj (d2_spacing K Kf Kc m sh sp k Hk Hsp d e f i Hd He)
        (conj (diffusion_spacing K Kf Kc m sh sp k Hk Hsp u i HL) (bending_spacing K Kf Kc m sh sp k Hk Hsp u i HL)))).
Qed.
Print Assumptions C17_spacing_powers.

(* the spacing divisor of d/dx_a is spacing_a, of d2/dx_a dx_b spacing_a * spacing_b, in EVERY derivative mode
   of spatial_derivatives (anisotropic spacing; traced with the data operators as the identity) *)
Theorem C17_spacing_divisor_every_mode :
  forall (K : fld), is_field K -> forall h0 h1 h2 x : K, h0 <> 0 -> h1 <> 0 -> h2 <> 0 ->
  gen_sd_forward h0 h1 h2 x = sd_spec h0 h1 h2 x /\ gen_sd_backward h0 h1 h2 x = sd_spec h0 h1 h2 x /\
  gen_sd_central h0 h1 h2 x = sd_spec h0 h1 h2 x /\ gen_sd_forward_central_backward h0 h1 h2 x = sd_spec h0 h1 h2 x /\
  gen_sd_prewitt h0 h1 h2 x = sd_spec h0 h1 h2 x /\ gen_sd_sobel h0 h1 h2 x = sd_spec h0 h1 h2 x /\
  gen_sd_gaussian h0 h1 h2 x = sd_spec h0 h1 h2 x /\ gen_sd_bspline h0 h1 h2 x = sd_spec h0 h1 h2 x.
Proof. exact spacing_divisors_ok. Qed.
Print Assumptions C17_spacing_divisor_every_mode.

(* 'sum' / 'mean' are the sum / mean over the lattice of 'none'; a loss constant on the lattice has that mean *)
Theorem C17_reductions :
  forall (K : fld), is_field K -> char0 K -> forall sh (f : idx -> K),
  (reg_loss RNone sh f = over_box sh f /\ reg_loss RSum sh f = [vsum (over_box sh f)] /\
   reg_loss RMean sh f = [vsum (over_box sh f) / of_nat (length (over_box sh f))]) /\
  (forall v, (forall i, In i (box sh) -> f i = v) -> box sh <> [] -> reg_loss RMean sh f = [v]).
Proof. intros K Kf Kc sh f. split; [exact (reg_reductions K sh f) | exact (reg_mean_const K Kf Kc sh f)]. Qed.
Print Assumptions C17_reductions.

(* ================= 4. elastic constants ================================================================ *)
From Coq Require Import String.
(* every pair of elastic constants the table accepts (all pairs of distinct keywords; second_parameter and
   shear_modulus are the same quantity and mutually exclusive) returns (lambda, mu) that satisfy the defining
   relations of the constants it was given *)
Theorem C17_lame_table :
  forall (K : fld), is_field K -> char0 K ->
  gen_lame_table = [("first_second", "Ok"); ("first_shear", "Ok"); ("first_poisson", "Ok"); ("first_young", "Ok");
                    ("second_shear", "ValueError"); ("second_poisson", "Ok"); ("second_young", "Ok");
                    ("shear_poisson", "Ok"); ("shear_young", "Ok"); ("poisson_young", "Ok");
                    ("material_steel", "ValueError"); ("material_none", "ValueError")]%string /\
  (forall lam mu : K, gen_lame_first_second lam mu = (lam, mu) /\ gen_lame_first_shear lam mu = (lam, mu)) /\
  (forall lam nu : K, lam <> 0 -> nu <> 0 ->
     let '(l, m) := gen_lame_first_poisson lam nu in l = lam /\ poisson_of l m = nu) /\
  (forall r lam ym : K, r * r = gen_lame_first_young_radicand lam ym -> lam + snd (gen_lame_first_young r lam ym) <> 0 ->
     fst (gen_lame_first_young r lam ym) = lam /\
     youngs_of (fst (gen_lame_first_young r lam ym)) (snd (gen_lame_first_young r lam ym)) = ym) /\
  (forall g nu : K, g <> 0 -> 1 - (1 + 1) * nu <> 0 ->
     (let '(l, m) := gen_lame_shear_poisson g nu in m = g /\ poisson_of l m = nu) /\
     gen_lame_second_poisson g nu = gen_lame_shear_poisson g nu) /\
  (forall g ym : K, g <> 0 -> (1 + 1 + 1) * g - ym <> 0 ->
     (let '(l, m) := gen_lame_shear_young g ym in m = g /\ youngs_of l m = ym) /\
     gen_lame_second_young g ym = gen_lame_shear_young g ym) /\
  (forall nu ym : K, ym <> 0 -> 1 + nu <> 0 -> 1 - (1 + 1) * nu <> 0 ->
     youngs_of (fst (gen_lame_poisson_young nu ym)) (snd (gen_lame_poisson_young nu ym)) = ym /\
     poisson_of (fst (gen_lame_poisson_young nu ym)) (snd (gen_lame_poisson_young nu ym)) = nu).
Proof.
  intros K Kf Kc.
  exact (conj lame_table_ok (conj (lame_direct K) (conj (lame_first_poisson K Kf Kc) (conj (lame_first_young K Kf Kc)
        (conj (lame_shear_poisson K Kf Kc) (conj (lame_shear_young K Kf) (lame_poisson_young K Kf Kc))))))).
Qed.
Print Assumptions C17_lame_table.

Theorem C17_lame_rubber :
  qeqb (snd (gen_lame_rubber (K:=QcF))) (q 3 5000) = true /\
  qclose (1 # 1000000000) (poisson_of (fst (gen_lame_rubber (K:=QcF))) (snd (gen_lame_rubber (K:=QcF)))) (q 4999 10000) = true.
Proof. exact lame_rubber_ok. Qed.
Print Assumptions C17_lame_rubber.

(* module wrappers (traced): forward() hands every constructor option (mode, sigma, spacing, stride, reduction, p, q,
   elastic constants) to the functional form -- GradLoss incl. q = 0 and q = None -> 1/p, Bending, Curvature, Diffusion,
   Divergence, TotalVariation, Elasticity (three ways of giving the material), BSplineBending *)
Theorem C17_module_options :
  forallb row_ok gen_flow_module_options = true /\ (13 <= List.length gen_flow_module_options)%nat /\
  existsb (fun p => String.eqb (fst p) "GradLoss(p=4, q=0)") gen_flow_module_options = true /\
  existsb (fun p => String.prefix "Elasticity" (fst p)) gen_flow_module_options = true.
Proof. exact flow_module_options_ok. Qed.
Print Assumptions C17_module_options.

(* ================= 5. inverse consistency: units ====================================================== *)
(* an exact inverse pair (zero error) reports zero in every unit; denormalize_flow applies (n-1)/2 with
   align_corners and n/2 without *)
Theorem C17_inverse_consistency_units :
  forall (K : fld), is_field K -> char0 K ->
  (forall un ac (n : list Z) (s e : list K), Forall (fun v => v = 0) e -> Forall (fun v => v = 0) (ic_convert_spec un ac n s e)) /\
  (forall e0 e1 e2 : K,
     gen_denormalize_ac [e0; e1; e2] = ic_convert_spec UVoxel true [5; 7; 9]%Z [] [e0; e1; e2] /\
     gen_denormalize_nac [e0; e1; e2] = ic_convert_spec UVoxel false [5; 7; 9]%Z [] [e0; e1; e2]).
Proof. intros K Kf Kc. split; [exact (ic_zero K Kf) | exact (denormalize_ok K Kf Kc)]. Qed.
Print Assumptions C17_inverse_consistency_units.

(* inverse_consistency_loss reports the Euclidean norm of the cube-unit error converted with the grid's own
   align_corners flag, in every unit (traced on a stand-in grid of size (5, 7, 9) with symbolic spacing) *)
Theorem C17_inverse_consistency_uses_grid_flag :
  forall (K : fld), is_field K -> char0 K -> forall (s0 s1 s2 e0 e1 e2 : K),
  let n := [5; 7; 9]%Z in let s := [s0; s1; s2] in let e := [e0; e1; e2] in
  gen_ic_sq_cube_ac s0 s1 s2 e0 e1 e2 = sq_sum K (ic_convert_spec UCube true n s e) /\
  gen_ic_sq_voxel_ac s0 s1 s2 e0 e1 e2 = sq_sum K (ic_convert_spec UVoxel true n s e) /\
  gen_ic_sq_world_ac s0 s1 s2 e0 e1 e2 = sq_sum K (ic_convert_spec UWorld true n s e) /\
  gen_ic_sq_cube_nac s0 s1 s2 e0 e1 e2 = sq_sum K (ic_convert_spec UCube false n s e) /\
  gen_ic_sq_voxel_nac s0 s1 s2 e0 e1 e2 = sq_sum K (ic_convert_spec UVoxel false n s e) /\
  gen_ic_sq_world_nac s0 s1 s2 e0 e1 e2 = sq_sum K (ic_convert_spec UWorld false n s e).
Proof. exact ic_units_ok. Qed.
Print Assumptions C17_inverse_consistency_uses_grid_flag.

(* ================= 6. the loss formulas are the source's (translator tie) ============================== *)
(* the stencil model is the stencils traced from core/image.py (Gen/FlowDeriv.v; that translator unit also checks,
   fail-closed, that every position uses the clamped = replicate-padded neighbours) *)
Theorem C17_stencil_is_traced :
  forall (K : fld), is_field K -> char0 K -> forall sh (h : K) d (f : idx -> K) (q : idx),
  smooth sh (1 + 1) d f q = gen_avg_sobel (f (cshift sh d q (-1))) (f q) (f (cshift sh d q 1)) /\
  smooth sh 1 d f q = gen_avg_prewitt (f (cshift sh d q (-1))) (f q) (f (cshift sh d q 1)) /\
  (h <> 0 ->
   (RegStencil.get d q = 0%Z -> fd sh h d f q = gen_fcb_first (f q) (f (shift d q 1)) h) /\
   (RegStencil.get d q <> 0%Z -> RegStencil.get d q = (nth d sh 0 - 1)%Z -> fd sh h d f q = gen_fcb_last (f (shift d q (-1))) (f q) h) /\
   (RegStencil.get d q <> 0%Z -> RegStencil.get d q <> (nth d sh 0 - 1)%Z ->
    fd sh h d f q = gen_fcb_mid (f (shift d q (-1))) (f (shift d q 1)) h)).
Proof. exact stencil_tie. Qed.
Print Assumptions C17_stencil_is_traced.

Theorem C17_gen_coefficients_2d :
  forall (K : fld), is_field K -> char0 K ->
  forall m (sp : list K) (i : idx) (fabs : K -> K) (lam mu : K) (nx ny : Z) (u v : idx -> K),
  let sh := [nx; ny] in let U := [u; v] in
  let s2 c d e := d2 m sh sp d e c i in let s1 c d := d1 m sh sp d c i in
  bending_pt m sh sp U i = gen_bending2 (s2 u 0%nat 0%nat) (s2 u 0%nat 1%nat) (s2 u 1%nat 1%nat) (s2 v 0%nat 0%nat) (s2 v 0%nat 1%nat) (s2 v 1%nat 1%nat) /\
  curvature_pt m sh sp U i = gen_curvature2 (s2 u 0%nat 0%nat) (s2 u 1%nat 1%nat) (s2 v 0%nat 0%nat) (s2 v 1%nat 1%nat) /\
  diffusion_pt m sh sp U i = gen_diffusion2 (s1 u 0%nat) (s1 v 0%nat) (s1 u 1%nat) (s1 v 1%nat) /\
  tv_pt m sh sp U i fabs = gen_tv2 fabs (s1 u 0%nat) (s1 v 0%nat) (s1 u 1%nat) (s1 v 1%nat) /\
  div_pt m sh sp U i = gen_divergence2 (s1 u 0%nat) (s1 v 1%nat) /\
  elasticity_pt m sh sp U i lam mu = gen_elasticity2 lam mu (s1 u 0%nat) (s1 u 1%nat) (s1 v 0%nat) (s1 v 1%nat).
Proof. exact gen2_ok. Qed.
Print Assumptions C17_gen_coefficients_2d.

Theorem C17_gen_coefficients_3d :
  forall (K : fld), is_field K -> char0 K ->
  forall m (sp : list K) (i : idx) (fabs : K -> K) (lam mu : K) (nx ny nz : Z) (u v w : idx -> K),
  let sh := [nx; ny; nz] in let U := [u; v; w] in
  let s2 c d e := d2 m sh sp d e c i in let s1 c d := d1 m sh sp d c i in
  bending_pt m sh sp U i
    = gen_bending3 (s2 u 0%nat 0%nat) (s2 u 0%nat 1%nat) (s2 u 0%nat 2%nat) (s2 u 1%nat 1%nat) (s2 u 1%nat 2%nat) (s2 u 2%nat 2%nat)
                   (s2 v 0%nat 0%nat) (s2 v 0%nat 1%nat) (s2 v 0%nat 2%nat) (s2 v 1%nat 1%nat) (s2 v 1%nat 2%nat) (s2 v 2%nat 2%nat)
                   (s2 w 0%nat 0%nat) (s2 w 0%nat 1%nat) (s2 w 0%nat 2%nat) (s2 w 1%nat 1%nat) (s2 w 1%nat 2%nat) (s2 w 2%nat 2%nat) /\
  curvature_pt m sh sp U i
    = gen_curvature3 (s2 u 0%nat 0%nat) (s2 u 1%nat 1%nat) (s2 u 2%nat 2%nat) (s2 v 0%nat 0%nat) (s2 v 1%nat 1%nat) (s2 v 2%nat 2%nat) (s2 w 0%nat 0%nat) (s2 w 1%nat 1%nat) (s2 w 2%nat 2%nat) /\
  diffusion_pt m sh sp U i
    = gen_diffusion3 (s1 u 0%nat) (s1 v 0%nat) (s1 w 0%nat) (s1 u 1%nat) (s1 v 1%nat) (s1 w 1%nat) (s1 u 2%nat) (s1 v 2%nat) (s1 w 2%nat) /\
  tv_pt m sh sp U i fabs
    = gen_tv3 fabs (s1 u 0%nat) (s1 v 0%nat) (s1 w 0%nat) (s1 u 1%nat) (s1 v 1%nat) (s1 w 1%nat) (s1 u 2%nat) (s1 v 2%nat) (s1 w 2%nat) /\
  div_pt m sh sp U i = gen_divergence3 (s1 u 0%nat) (s1 v 1%nat) (s1 w 2%nat) /\
  elasticity_pt m sh sp U i lam mu
    = gen_elasticity3 lam mu (s1 u 0%nat) (s1 u 1%nat) (s1 u 2%nat) (s1 v 0%nat) (s1 v 1%nat) (s1 v 2%nat) (s1 w 0%nat) (s1 w 1%nat) (s1 w 2%nat).
Proof. exact gen3_ok. Qed.
Print Assumptions C17_gen_coefficients_3d.

(* ================= 7. mode 'bspline' ================================================================= *)
(* the generated derivative weights (cubic_bspline_interpolation_weights, Gen/BSpline.v) act on four consecutive
   samples of a quadratic q as the analytic derivatives of the spline q(y) + a/3 at y = x + 1 + t *)
Theorem C17_bspline_weights_on_quadratic :
  forall (K : fld), is_field K -> char0 K -> forall a b c x t : K,
  let s := [quad1 K a b c x; quad1 K a b c (x + 1); quad1 K a b c (x + 1 + 1); quad1 K a b c (x + 1 + 1 + 1)] in
  dot (gen_w 0 t) s = quad1 K a b c (x + 1 + t) + a / (1 + 1 + 1) /\
  dot (gen_w 1 t) s = (1 + 1) * a * (x + 1 + t) + b /\
  dot (gen_w 2 t) s = (1 + 1) * a /\
  dot (gen_w 3 t) s = 0.
Proof. exact weights_on_quadratic. Qed.
Print Assumptions C17_bspline_weights_on_quadratic.

(* bending_loss(mode='bspline') (model bs_bending_pt: tensor-product evaluation of the coefficient window with
   the generated weights, divided by the spacing powers; tied by the correspondence) of a 2-D field whose
   components are sampled from quadratic polynomials equals the energy of the analytic second derivatives, at
   every evaluated point, for every stride and spacing -- in particular zero for affine coefficient fields *)
Theorem C17_bspline_bending_is_analytic_energy_partial :
  forall (K : fld), is_field K -> char0 K ->
  forall (a1 b1 d1 e1 g1 h1 a2 b2 d2 e2 g2 h2 hx hy : K) (stride : list Z) (p : idx),
  hx <> 0 -> hy <> 0 -> List.length stride = 2%nat -> List.length p = 2%nat ->
  bs_bending_pt (@gen_w K) 2 stride [hx; hy] [quad2 K a1 b1 d1 e1 g1 h1; quad2 K a2 b2 d2 e2 g2 h2] p
  = sq ((1 + 1) * a1 / (hx * hx)) + (1 + 1) * sq (b1 / (hx * hy)) + sq ((1 + 1) * d1 / (hy * hy))
  + (sq ((1 + 1) * a2 / (hx * hx)) + (1 + 1) * sq (b2 / (hx * hy)) + sq ((1 + 1) * d2 / (hy * hy))).
Proof. exact bs_bending_quadratic. Qed.
Print Assumptions C17_bspline_bending_is_analytic_energy_partial.
(* PARTIAL: proved for quadratic coefficient fields in 2-D. For general coefficients the statement is C14's
   (the weights of derivative order d are the d-th derivatives of the value weights) composed with the
   coefficient structure C17_gen_coefficients_*; 3-D and general splines are covered by the correspondence
   (bs_bending_pt vs bending_loss(mode='bspline'), D = 2, 3, strides 1, 2) and the implementation-side
   evaluation.  Gaussian smoothing (sigma) and the modes forward / backward / central / gaussian have no stencil
   model here: their spacing divisors are proved (C17_spacing_divisor_every_mode), the rest is evaluated on the
   implementation; module wrappers likewise. *)

(* non-vacuity *)
Example C17_nonvacuous :
  let sh := [5; 6]%Z in
  let sp : list QcF := [q 1 2; q 2 1] in
  let A : list (idx -> QcF) := [aff (K:=QcF) (q 1 1) [q 2 1; q 3 1]; aff (K:=QcF) (q 0 1) [q 1 2; q 1 1]] in
  let U : list (idx -> QcF) := [fun i => of_Z (K:=QcF) (RegStencil.get 0 i * RegStencil.get 0 i + RegStencil.get 1 i); fun i => of_Z (K:=QcF) (RegStencil.get 0 i * RegStencil.get 1 i)] in
  (* a non-affine field has non-zero bending energy; the affine one has a non-zero diffusion value *)
  qeqb (bending_pt MFcb sh sp U [2; 3]%Z) (q 0 1) = false /\
  qeqb (bending_pt MSobel sh sp A [0; 5]%Z) (q 0 1) = true /\
  qeqb (diffusion_pt MFcb sh sp A [0; 5]%Z) (q 0 1) = false /\
  List.length (box sh) = 30%nat /\
  (* lame: a valid (G, nu) pair *)
  qeqb (poisson_of (fst (gen_lame_shear_poisson (K:=QcF) (q 3 1) (q 1 4))) (snd (gen_lame_shear_poisson (K:=QcF) (q 3 1) (q 1 4)))) (q 1 4) = true.
Proof. vm_compute. repeat split. Qed.
