"""Implementation-side runner for C04 (image operations move data and grid in lock-step)."""
import itertools
import json
import math
import os
import random
import sys

import torch

sys.path.insert(0, os.path.dirname(os.path.abspath(__file__)))
from vlib import emit_json  # noqa: E402

from deepali.core.grid import Axes, Grid  # noqa: E402
from deepali.core import image as CI  # noqa: E402
from deepali.core.kernels import gaussian1d  # noqa: E402
from deepali.data.image import Image, ImageBatch  # noqa: E402
from deepali.data.flow import FlowFields  # noqa: E402

from c05_impl import rand_dir  # noqa: E402


def mk(g):
    return Grid(size=g["size"], spacing=g["spacing"], center=g["center"],
                direction=[v for r in g["direction"] for v in r], align_corners=g["align_corners"])


def state(g):
    return {"fs": [float(v) for v in g._size], "n": [int(v) for v in g.size()], "s": [float(v) for v in g.spacing()],
            "c": [float(v) for v in g.center()], "d": [[float(v) for v in r] for r in g.direction()],
            "o": [float(v) for v in g.origin()], "cube": [float(v) for v in g.cube_extent()], "ac": bool(g.align_corners())}


def apply_img(b, op, mask=False):
    """apply one operation to an ImageBatch (mask=True: the validity-mask copy, padded with zeros)"""
    k = op["op"]
    val = 0 if mask else op.get("value", 0)
    if k == "resize":
        return b.resize(op["size"], align_corners=op.get("ac"))
    if k == "down":
        return b.downsample(op["levels"], dims=op.get("dims"), sigma=op.get("sigma", 0), min_size=op.get("min_size", 0), align_corners=op.get("ac"))
    if k == "up":
        return b.upsample(op["levels"], dims=op.get("dims"), align_corners=op.get("ac"))
    if k == "pyr":
        return b.pyramid(op["levels"], dims=op.get("dims"), sigma=op.get("sigma", 0), min_size=op.get("min_size", 0))[op["level"]]
    if k == "resample":
        return b.resample(op["spacing"])
    if k == "crop":
        return b.crop(num=op["num"], value=val) if "num" in op else b.crop(margin=op["margin"], value=val)
    if k == "pad":
        return b.pad(num=op["num"], value=val) if "num" in op else b.pad(margin=op["margin"], value=val)
    if k == "center_crop":
        return b.center_crop(op["size"])
    if k == "center_pad":
        return b.center_pad(op["size"], value=val)
    if k == "narrow":  # dim = grid axis
        return b.narrow(b.ndim - 1 - op["dim"], op["start"], op["length"])
    if k == "roi":
        return b.region_of_interest(tuple(op["start"]), tuple(op["size"]), value=val)
    if k == "pool":
        ks = op["ks"]
        return b.avg_pool(ks if isinstance(ks, int) else tuple(ks))
    if k == "conv":
        return b.conv(torch.tensor(op["kernel"] if "kernel" in op else op["kernel_nd"], dtype=torch.float64))
    if k == "sample":
        return b.sample(mk(op["grid"]), padding="zeros")
    raise KeyError(k)


def rand_grid(rng, D, lo=3, hi=6):
    return dict(size=[rng.randint(lo, hi) for _ in range(D)],
                spacing=[rng.choice([0.5, 0.75, 1.0, 1.5, 2.0]) for _ in range(D)],
                center=[rng.randint(-40, 40) / 4 for _ in range(D)], direction=rand_dir(rng, D),
                align_corners=rng.random() < .5)


def rand_op(rng, g, D, corr, nimg=1):
    """random valid operation for the implementation grid g.  corr=True: only what the executable model covers and
    outside the known defects (those are probed separately by the oracle)"""
    n = [int(v) for v in g.size()]
    frac = any(abs(float(v) - round(float(v))) > 1e-6 for v in g._size)
    kinds = ["resize", "down", "down", "down_neg", "up", "resample", "crop", "pad", "center_crop", "center_pad", "narrow", "pool", "conv", "crop", "pad"]
    kinds += ["roi", "conv_nd"]
    if not corr:
        kinds += ["pyr", "sample", "sample"]
    k = rng.choice(kinds)
    ac = rng.choice([None, True, False])
    if k == "resize":
        return {"op": k, "size": [rng.randint(2, 7) for _ in range(D)], "ac": ac}
    if k == "down":
        if min(n) < 4:
            return {"op": "resize", "size": [rng.randint(2, 7) for _ in range(D)], "ac": ac}
        return {"op": k, "levels": 1, "min_size": 0, "ac": ac, "sigma": rng.choice([0, 0, None]),
                "dims": None if rng.random() < .7 else sorted(rng.sample(range(D), rng.randint(1, D)))}
    if k == "down_neg":   # downsample(levels < 0) is upsampling: redirected to ImageBatch.upsample
        if max(n) > 6:
            return {"op": "resize", "size": [rng.randint(2, 7) for _ in range(D)], "ac": ac}
        return {"op": "down", "levels": -1, "min_size": 0, "ac": ac, "sigma": rng.choice([0, None]),
                "dims": None if rng.random() < .6 else sorted(rng.sample(range(D), rng.randint(1, D)))}
    if k == "up":
        if max(n) > 6:
            return {"op": "resize", "size": [rng.randint(2, 7) for _ in range(D)], "ac": ac}
        return {"op": k, "levels": 1, "ac": ac, "dims": None if rng.random() < .6 else sorted(rng.sample(range(D), rng.randint(1, D)))}
    if k == "pyr":
        if min(n) < 4:
            return {"op": "resize", "size": [rng.randint(2, 7) for _ in range(D)], "ac": ac}
        return {"op": k, "levels": 2, "level": rng.randint(0, 1), "min_size": 0, "sigma": 0, "dims": None}
    if k == "resample":
        ext = [float(a) for a in g.extent()]
        cur = [float(v) for v in g.spacing()]
        if rng.random() < .4:
            # a new spacing that leaves the rounded shape unchanged (formerly returned unresampled data)
            cand = [[sp_ for sp_ in (0.5, 0.625, 0.75, 0.875, 1.0, 1.125, 1.25, 1.5, 1.75, 2.0, 2.25, 2.5)
                     if math.ceil(e / sp_ - 1e-9) == n_ and abs(e / sp_ - round(e / sp_)) > 1e-3 and abs(sp_ - c_) > 1e-6]
                    for e, n_, c_ in zip(ext, n, cur)]
            if not frac and any(cand):
                sp = [rng.choice(c_) if c_ and rng.random() < .8 else cu for c_, cu in zip(cand, cur)]
                # axes that keep their spacing must have an exactly representable one (the exact model divides the exact
                # extent by the float value: a float32-rounded 10/3 would flip the ceiling)
                if sp != cur and all(s_ != c_ or abs(c_ * 16 - round(c_ * 16)) < 1e-9 for s_, c_ in zip(sp, cur)):
                    return {"op": k, "spacing": sp}
        for _ in range(20):
            sp = [rng.choice([0.5, 0.75, 1.0, 1.25, 1.5, 2.0]) for _ in range(D)]
            ext = [float(a) for a in g.extent()]
            new = [math.ceil(e / s - 1e-9) for e, s in zip(ext, sp)]
            if (new != n or rng.random() < .5) and sp != [float(v) for v in g.spacing()] and min(new) >= 2 and max(new) <= 9 and all(abs(e / s - round(e / s)) > 1e-3 or abs(e / s - round(e / s)) < 1e-9 for e, s in zip(ext, sp)):
                return {"op": k, "spacing": sp}
        return {"op": "resize", "size": [rng.randint(2, 7) for _ in range(D)], "ac": ac}
    if k in ("crop", "pad"):
        num = []
        for i in range(D):
            for _ in range(2):
                m = rng.randint(-2, 2)
                if k == "crop" and m > 0:
                    m = min(m, max((n[i] - 2) // 2, 0))
                if k == "pad" and m < 0:
                    m = -min(-m, max((n[i] - 2) // 2, 0))
                num.append(m)
        if rng.random() < .3:   # the symmetric per-axis form margin=(mx, my[, mz])
            return {"op": k, "margin": [num[2 * i] for i in range(D)], "value": rng.choice([0, 0, 2.5, -1.0])}
        return {"op": k, "num": num, "value": rng.choice([0, 0, 2.5, -1.0])}
    if k == "center_crop":
        return {"op": k, "size": [rng.randint(2, n[i] + 2) for i in range(D)]}
    if k == "center_pad":
        return {"op": k, "size": [rng.randint(2, n[i] + 3) for i in range(D)], "value": rng.choice([0, 2.5])}
    if k == "narrow":
        d = rng.randrange(D)
        st = rng.randint(0, max(n[d] - 2, 0))
        return {"op": k, "dim": d, "start": st, "length": rng.randint(2, max(n[d] - st, 2))}
    if k == "roi":
        st = [rng.randint(-1, max(n[i] - 3, 0)) for i in range(D)]
        return {"op": k, "start": st, "size": [rng.randint(2, max(n[i] - st[i], 2) + 1) for i in range(D)], "value": rng.choice([0, 2.5])}
    if k == "pool":
        if rng.random() < .4:   # tuple kernel_size in grid order (X, Y[, Z]), different windows per axis
            ks = [rng.choice([1, 2, 3]) for _ in range(D)]
            ks = [kk if n[i] // kk >= 2 else 1 for i, kk in enumerate(ks)]
            return {"op": k, "ks": ks}
        kk = rng.choice([1, 2, 2, 3])
        if min(n) // kk < 2:
            kk = 1
        return {"op": k, "ks": kk}
    if k == "conv":
        return {"op": k, "kernel": rng.choice([[0.25, 0.5, 0.25], [0.125, 0.75, 0.125], [0.0625, 0.25, 0.375, 0.25, 0.0625]])}
    if k == "conv_nd":
        def taps(dims):
            if not dims:
                return rng.randint(-4, 4) / 8
            return [taps(dims[1:]) for _ in range(dims[0])]
        if corr:
            return {"op": "conv", "kernel_nd": taps([rng.choice([1, 3]) for _ in range(D)])}
        # the property speaks about normalised symmetric stencils: outer product of such 1-D kernels
        ks1 = [rng.choice([[1.0], [0.25, 0.5, 0.25], [0.125, 0.75, 0.125]]) for _ in range(D)]

        def outer(ks):
            if len(ks) == 1:
                return list(ks[0])
            return [[a * x for x in row] if not isinstance(row, list) or not isinstance(row[0], list) else [[a * y for y in r2] for r2 in row]
                    for a in ks[0] for row in [outer(ks[1:])]]
        t = torch.tensor(ks1[0])
        for k1 in ks1[1:]:
            t = t.unsqueeze(-1) * torch.tensor(k1)
        return {"op": "conv", "kernel_nd": t.tolist()}
    if k == "sample":
        gd = rand_grid(rng, D)
        gd["center"] = [float(v) + rng.choice([-0.5, 0.0, 0.25]) for v in g.center()]
        return {"op": k, "grid": gd}
    raise KeyError(k)


def make_batch(rng, D, nimg, ramp, near=False):
    gds = [rand_grid(rng, D)]
    for _ in range(nimg - 1):
        gd = rand_grid(rng, D)
        gd["size"], gd["spacing"], gd["align_corners"] = gds[0]["size"], gds[0]["spacing"], gds[0]["align_corners"]
        if near:  # different orientation / position, but overlapping domains (a shared target grid lies inside every image)
            gd["center"] = [c + rng.choice([-0.75, -0.25, 0.5, 1.0]) for c in gds[0]["center"]]
        gds.append(gd)
    grids = [mk(gd) for gd in gds]
    A = [rng.randint(-8, 8) / 4 for _ in range(D)]
    b0 = rng.randint(-8, 8) / 2
    datas = []
    for g in grids:
        if ramp:
            w = g.index_to_world(g.coords(normalize=False).double(), decimals=None).double()
            datas.append((w * torch.tensor(A, dtype=torch.float64)).sum(-1) + b0)
        else:
            datas.append(torch.tensor([rng.randint(-32, 32) / 4 for _ in range(int(torch.tensor(g.shape).prod()))],
                                      dtype=torch.float64).reshape(tuple(g.shape)))
    data = torch.stack(datas, 0).unsqueeze(1)
    return gds, grids, data, A, b0


def gen_chains(p):
    rng = random.Random(p["seed"])
    cases = []
    for i in range(p["n"]):
        D = 2 if rng.random() < .65 else 3
        nimg = 1 if rng.random() < .7 else 2
        ramp = rng.random() < .5
        gds, grids, data, A, b0 = make_batch(rng, D, nimg, ramp)
        b = ImageBatch(data, grids)
        ops = []
        for _ in range(rng.randint(1, p["maxlen"])):
            op = rand_op(rng, b.grid(0), D, True, nimg)
            try:
                b2 = apply_img(b, op)
            except Exception:
                break
            n2 = [int(v) for v in b2.grid(0).size()]
            if min(n2) < 2 or max(n2) > 9:
                break
            if op["op"] in ("resize", "down", "up") and b2.grid(0).align_corners() and min(n2) < 2:
                break
            ops.append(op)
            b = b2
        if ops:
            cases.append({"grids": gds, "data": data[:, 0].tolist(), "ops": ops, "ramp": ramp})
    return cases


def kernel_of(op):
    """taps of the Gaussian used by downsample with the default sigma (oracle values for the model)"""
    if op["op"] == "down" and op["levels"] > 0 and op.get("sigma", 0) is None:
        return [float(v) for v in gaussian1d(0.7355, dtype=torch.float)]
    return []


def run_chains(p):
    out = []
    for c in p["cases"]:
        try:
            grids = [mk(g) for g in c["grids"]]
            data = torch.tensor(c["data"], dtype=torch.float64).unsqueeze(1)
            b = ImageBatch(data, grids)
            r = {"init": [state(g) for g in grids], "stages": []}
            for op in c["ops"]:
                try:
                    b = apply_img(b, op)
                    r["stages"].append({"grids": [state(g) for g in b.grids()], "shape": list(reversed(b.shape[2:])),
                                        "values": [b.tensor().double()[k, 0].reshape(-1).tolist() for k in range(b.shape[0])],
                                        "kernel": kernel_of(op), "ngrids": len(b.grids()), "nitems": int(b.shape[0])})
                except Exception as e:  # noqa
                    r["stages"].append({"error": type(e).__name__, "msg": str(e)[:160]})
                    break
            out.append(r)
        except Exception as e:  # noqa
            out.append({"error": type(e).__name__, "msg": str(e)[:200]})
    return out


# ------------------------------------------------------------------------------------------------
# the property itself on the implementation
# ------------------------------------------------------------------------------------------------
INDEX_OPS = ("crop", "pad", "center_crop", "center_pad", "narrow", "roi")


def check_stage(fail, key, b, m, A, b0, ctx, tol):
    """returned grid has the data's shape; where the validity mask is 1 the data is the ramp on the returned grid"""
    ok = True
    if len(b.grids()) != b.shape[0]:
        fail(f"C04:{key}:grid-count", f"{b.shape[0]} items but {len(b.grids())} grids", **ctx)
        return False
    for k, g in enumerate(b.grids()):
        if tuple(g.shape) != tuple(b.shape[2:]):
            fail(f"C04:{key}:shape", f"grid shape {tuple(g.shape)} != data shape {tuple(b.shape[2:])}", **ctx)
            return False
        w = g.index_to_world(g.coords(normalize=False).double(), decimals=None).double()
        want = (w * torch.tensor(A, dtype=torch.float64)).sum(-1) + b0
        got = b.tensor().double()[k, 0]
        valid = m.tensor().double()[k, 0] >= 1 - 1e-9
        d = (got - want).abs()
        if bool((d[valid] > tol).any()):
            j = torch.nonzero((d > tol) & valid)[0].tolist()
            fail(f"C04:{key}:ramp", f"ramp not preserved at index {j[::-1]} (x,..) of image {k}: got {float(got[tuple(j)]):.6g}, "
                 f"ramp on the returned grid {float(want[tuple(j)]):.6g}", **ctx)
            ok = False
    return ok


def oracle(p):
    rng = random.Random(p["seed"])
    fails = []
    counts = {"chains": 0, "stages": 0, "valid_samples": 0, "index_exact": 0, "flow": 0, "probes": 0}

    def fail(key, what, **kw):
        if not any(f["key"] == key for f in fails):
            fails.append(dict(key=key, what=what, **kw))

    for it in range(p["n"]):
        D = 2 if rng.random() < .6 else 3
        nimg = 1 if rng.random() < .6 else 2
        gds, grids, data, A, b0 = make_batch(rng, D, nimg, True, near=rng.random() < .7)
        rnd = torch.tensor([rng.randint(-32, 32) / 4 for _ in range(data.numel())], dtype=torch.float64).reshape(data.shape)
        b = ImageBatch(data, grids)
        m = ImageBatch(torch.ones_like(data), grids)
        r = ImageBatch(rnd, grids)
        counts["chains"] += 1
        tol = 1e-4 * (float(data.abs().max()) + 1)
        chain = []
        for _ in range(rng.randint(1, p.get("maxlen", 3))):
            g0 = b.grid(0)
            op = rand_op(rng, g0, D, False)
            chain.append(op)
            ctx = dict(grids=gds, ops=list(chain), A=A, b=b0)
            kname = {"down": "downsample", "up": "upsample", "pyr": "pyramid", "pool": "avg_pool", "roi": "region_of_interest"}.get(op["op"], op["op"])
            try:
                prev_r, prev_grids = r, b.grids()
                b2, m2, r2 = apply_img(b, op), apply_img(m, op, True), apply_img(r, op)
            except Exception as e:  # noqa
                n_ = [float(v) for v in g0._size]
                if op["op"] == "up" and any(abs(v - round(v)) > 1e-6 for v in n_):
                    fail("C04:ImageBatch.upsample:fractional-size:shape-mismatch", f"raises {type(e).__name__} on a grid with fractional size {n_}", **ctx)
                else:
                    fail(f"C04:ImageBatch.{kname}:raises:{type(e).__name__}", f"raises {type(e).__name__}: {str(e)[:120]}", **ctx)
                break
            counts["stages"] += 1
            # "inside the original field of view": the hull of the previous stage's sample centres; samples whose source index
            # lies outside it (extrapolated by clamping) are marked invalid, and the mark propagates through the chain
            try:
                inds = []
                for g_old, g_new in zip(b.grids() if len(b.grids()) == len(b2.grids()) else [b.grid(0)] * len(b2.grids()), b2.grids()):
                    src = g_old.world_to_index(g_new.index_to_world(g_new.coords(normalize=False).double(), decimals=None), decimals=None).double()
                    n_old = torch.tensor([float(v) for v in g_old.size()], dtype=torch.float64)
                    inds.append(((src >= -1e-6) & (src <= n_old - 1 + 1e-6)).all(-1).double())
                if len(inds) == m2.shape[0] and tuple(inds[0].shape) == tuple(m2.shape[2:]):
                    m2 = ImageBatch(m2.tensor().double() * torch.stack(inds, 0).unsqueeze(1), m2.grids())
            except Exception:  # noqa
                pass
            key = f"ImageBatch.{kname}"
            if op["op"] == "narrow" and nimg > 1:
                key = "ImageBatch.narrow:per-image-grids"
            if op["op"] == "resample" and tuple(b2.shape) == tuple(b.shape) and \
                    not torch.allclose(b2.grid(0).spacing(), b.grid(0).spacing()):
                key = "ImageBatch.resample:same-shape"
            if not check_stage(fail, key, b2, m2, A, b0, ctx, tol):
                break
            counts["valid_samples"] += int((m2.tensor() >= 1 - 1e-9).sum())
            # index-only operations: exactly the original values at the original world positions
            if op["op"] in INDEX_OPS:
                counts["index_exact"] += 1
                for k, (g_old, g_new) in enumerate(zip(prev_grids, r2.grids())):
                    idx = g_new.coords(normalize=False).double()
                    src = g_old.world_to_index(g_new.index_to_world(idx, decimals=None), decimals=None).double()
                    si = src.round()
                    if bool(((src - si).abs() > 1e-3).any()):
                        fail(f"C04:{key}:index-offset", "new grid does not put samples on old sample positions", **ctx)
                        break
                    n_old = torch.tensor([float(v) for v in g_old.size()])
                    inside = ((si >= 0) & (si <= n_old - 1)).all(-1)
                    got = r2.tensor().double()[k, 0]
                    old = prev_r.tensor().double()[k, 0]
                    sel = si[inside].long()
                    vals = old[tuple(sel[:, d_] for d_ in reversed(range(D)))]
                    if not bool(torch.equal(got[inside], vals)):
                        fail(f"C04:{key}:index-values", "retained samples are not the original values at the original world positions", **ctx)
                    padv = op.get("value", 0)
                    if bool((~inside).any()) and not bool(((got[~inside] - padv).abs() < 1e-12).all()):
                        fail(f"C04:{key}:pad-value", "samples outside the original image are not the pad value", **ctx)
            b, m, r = b2, m2, r2
            if min(int(v) for v in b.grid(0).size()) < 2 or max(int(v) for v in b.grid(0).size()) > 14:
                break
        # flow fields: index-only operations keep vectors; sampling on another grid keeps world vectors
        if it % 4 == 0:
            counts["flow"] += 1
            try:
                g = grids[0]
                vec = torch.tensor([rng.randint(-8, 8) / 8 for _ in range(D * int(torch.tensor(g.shape).prod()))],
                                   dtype=torch.float64).reshape((1, D) + tuple(g.shape))
                ff = FlowFields(vec, g, Axes.WORLD)
                op = rand_op(rng, g, D, True)
                while op["op"] not in ("crop", "pad", "center_crop", "narrow"):
                    op = rand_op(rng, g, D, True)
                f2 = apply_img(ff, op)
                if tuple(f2.grid(0).shape) != tuple(f2.shape[2:]) or not isinstance(f2, FlowFields) or f2.axes() != Axes.WORLD:
                    fail(f"C04:FlowFields.{op['op']}:shape", "flow field operation loses grid / type / axes", grids=gds, ops=[op])
                # same constant world vector field sampled on another grid stays the same world vector
                cst = torch.tensor([0.5, -0.25, 1.0][:D], dtype=torch.float64).reshape((1, D) + (1,) * D).expand((1, D) + tuple(g.shape)).clone()
                fc = FlowFields(cst, g, Axes.CUBE_CORNERS if g.align_corners() else Axes.CUBE)
                tg = mk(dict(rand_grid(rng, D), center=[float(v) for v in g.center()], align_corners=g.align_corners()))
                fs_ = fc.sample(tg, padding="border")
                w1 = fc.axes(Axes.WORLD).tensor().double()[0, :, (0,) * D] if False else None
                a = fc.axes(Axes.WORLD).tensor().double().reshape(D, -1)[:, 0]
                bb = fs_.axes(Axes.WORLD).tensor().double().reshape(D, -1)
                if not bool(((bb - a.unsqueeze(1)).abs() <= 1e-4 * (1 + float(a.abs().max()))).all()):
                    fail("C04:FlowFields.sample:vector-rescaling", "a constant world displacement sampled on another grid changes its world vector",
                         grids=gds, target=state(tg))
            except Exception as e:  # noqa
                fail(f"C04:FlowFields:raises:{type(e).__name__}", f"raises {type(e).__name__}: {str(e)[:140]}", grids=gds)

    # resizing operations reached through a NEGATIVE level count (downsample(-k) = upsample(k) and vice versa), for every
    # combination of the grid's flag and the align_corners argument: data and grid must use the same effective flag
    for D in (2, 3):
        for flag in (True, False):
            for ac in (None, True, False):
                for meth, op in (("downsample", {"op": "down", "levels": -1, "min_size": 0, "ac": ac, "sigma": None, "dims": None}),
                                 ("upsample", {"op": "up", "levels": -1, "ac": ac, "dims": None})):
                    try:
                        gd = dict(size=[4, 6, 4][:D], spacing=[1.0, 1.5, 0.5][:D], center=[2.0, -1.0, 0.5][:D],
                                  direction=rand_dir(rng, D), align_corners=flag)
                        g = mk(gd)
                        A = [0.75, -1.25, 0.5][:D]
                        w = g.index_to_world(g.coords(normalize=False).double(), decimals=None).double()
                        dat = ((w * torch.tensor(A, dtype=torch.float64)).sum(-1) + 1.5).unsqueeze(0).unsqueeze(0)
                        b = ImageBatch(dat, g)
                        m = ImageBatch(torch.ones_like(dat), g)
                        if meth == "upsample":   # upsample(-1) = downsample(1): no smoothing so that the ramp is exact
                            b2, m2 = b.upsample(-1, sigma=0, align_corners=ac), m.upsample(-1, sigma=0, align_corners=ac)
                        else:
                            b2, m2 = apply_img(b, op), apply_img(m, op, True)
                        g_new = b2.grid(0)
                        src = g.world_to_index(g_new.index_to_world(g_new.coords(normalize=False).double(), decimals=None), decimals=None).double()
                        n_old = torch.tensor([float(v) for v in g.size()], dtype=torch.float64)
                        ind = ((src >= -1e-6) & (src <= n_old - 1 + 1e-6)).all(-1).double()
                        m2 = ImageBatch(m2.tensor().double() * ind.unsqueeze(0).unsqueeze(0), m2.grids())
                        counts["probes"] += 1
                        eff = flag if ac is None else ac
                        check_stage(fail, f"ImageBatch.{meth}:negative-levels:effective-align_corners-{eff}", b2, m2, A, 1.5,
                                    dict(grids=[gd], ops=[dict(op, method=meth)], A=A, b=1.5), 1e-4 * (float(dat.abs().max()) + 1))
                    except Exception as e:  # noqa
                        fail(f"C04:ImageBatch.{meth}:negative-levels:raises:{type(e).__name__}", f"raises {type(e).__name__}: {str(e)[:140]}",
                             grid_flag=flag, ac=ac, D=D)
    # a flow field created from an image batch keeps the grid of every image (regression check)
    try:
        ga, gb = Grid(size=(4, 3), center=(0.0, 0.0)), Grid(size=(4, 3), center=(5.0, 7.0), spacing=(0.5, 2.0))
        ff = FlowFields(ImageBatch(torch.zeros(2, 2, 3, 4), [ga, gb]))
        counts["probes"] += 1
        if len(ff.grids()) != 2 or not (ff.grids()[0] == ga and ff.grids()[1] == gb):
            fail("C04:FlowFields:from-ImageBatch:per-image-grids", "FlowFields(ImageBatch) does not keep the sampling grid of each image: centres "
                 f"{[g_.center().tolist() for g_ in ff.grids()]} instead of [[0, 0], [5, 7]]")
    except Exception as e:  # noqa
        fail(f"C04:FlowFields:from-ImageBatch:raises:{type(e).__name__}", f"raises {type(e).__name__}: {str(e)[:140]}")
    # pyramid with a given finest-level spacing (regression check of the repaired else-branch): level 0 is the ramp on its grid
    # inside the hull of the original samples
    for D in (2, 3):
        for flag, sp, xac in [(f_, s_, x_) for f_ in (True, False) for s_ in (0.5, 1.5, None) for x_ in (None, True, False)
                              if not (s_ is None and (x_ is None or x_ == f_))]:
                try:
                    gd = dict(size=[8, 6, 5][:D], spacing=[1.0, 1.0, 1.0][:D], center=[1.0, -2.0, 0.5][:D], direction=rand_dir(rng, D), align_corners=flag)
                    g = mk(gd)
                    A = [2.0, 3.0, -1.0][:D]
                    w = g.index_to_world(g.coords(normalize=False).double(), decimals=None).double()
                    dat = ((w * torch.tensor(A, dtype=torch.float64)).sum(-1) + 1.0).unsqueeze(0).unsqueeze(0)
                    b = ImageBatch(dat, g)
                    kw_ = {} if xac is None else {"align_corners": xac}
                    lv = b.pyramid(2, spacing=sp, sigma=0, **kw_)[0]
                    g_new = lv.grid(0)
                    src = g.world_to_index(g_new.index_to_world(g_new.coords(normalize=False).double(), decimals=None), decimals=None).double()
                    n_old = torch.tensor([float(v) for v in g.size()], dtype=torch.float64)
                    ind = ((src >= -1e-6) & (src <= n_old - 1 + 1e-6)).all(-1).double()
                    m2 = ImageBatch(ind.unsqueeze(0).unsqueeze(0), lv.grids())
                    counts["probes"] += 1
                    nm_ = "ImageBatch.pyramid:spacing" if xac is None or xac == flag else "ImageBatch.pyramid:explicit-align_corners"
                    check_stage(fail, nm_, lv, m2, A, 1.0,
                                dict(grids=[gd], ops=[{"op": "pyr", "levels": 2, "spacing": sp, "level": 0, "align_corners": xac}], A=A, b=1.0),
                                1e-4 * (float(dat.abs().max()) + 1))
                except Exception as e:  # noqa
                    fail(f"C04:ImageBatch.pyramid:spacing:raises:{type(e).__name__}", f"raises {type(e).__name__}: {str(e)[:140]}", flag=flag, spacing=sp,
                         align_corners=xac, D=D)
    # flow fields whose vectors are expressed in grid / cube units: after an operation that changes the grid the SAME world
    # displacement must be described (a constant world displacement stays that constant)
    for D in (2, 3):
        for axn in ("GRID", "CUBE", "CUBE_CORNERS", "WORLD"):
            gd = dict(size=[8, 6, 4][:D], spacing=[1.0, 2.0, 1.5][:D], center=[1.0, -2.0, 0.5][:D], direction=rand_dir(rng, D), align_corners=True)
            g = mk(gd)
            vec = torch.tensor([1.0, 0.5, -0.75][:D], dtype=torch.float64)
            vw = vec.reshape((1, D) + (1,) * D).expand((1, D) + tuple(g.shape)).clone()
            f0 = FlowFields(vw, g, Axes.WORLD).axes(getattr(Axes, axn))
            # FlowFields.sample(grid) converts the vectors to the units of the grid sampled on (implemented; always evaluated)
            for tname, td_ in (("finer", dict(gd, size=[12, 9, 6][:D], spacing=[0.5, 1.0, 1.0][:D])),
                               ("coarser-flag", dict(gd, size=[4, 4, 3][:D], spacing=[2.0, 2.5, 2.0][:D], align_corners=False))):
                try:
                    r_ = f0.sample(mk(td_))
                    counts["probes"] += 1
                    back = r_.axes(Axes.WORLD).tensor().double()
                    sl = (0, slice(None)) + tuple(slice(n_ // 2, n_ // 2 + 1) for n_ in back.shape[2:])
                    inner = back[sl].reshape(D, -1)
                    if r_.axes() != getattr(Axes, axn) or not bool(((inner - vec.unsqueeze(1)).abs() <= 1e-4).all()):
                        fail(f"C04:FlowFields.sample:vector-rescaling:{axn}",
                             f"a constant world displacement {vec.tolist()} given w.r.t. {axn} axes describes {[round(float(v), 4) for v in inner[:, 0]]} "
                             f"(axes {r_.axes()}) after sample() on another grid ({tname}): vectors are not converted to the units of the new grid",
                             grids=[gd], target=td_)
                except Exception as e:  # noqa
                    fail(f"C04:FlowFields.sample:{axn}:raises:{type(e).__name__}", f"raises {type(e).__name__}: {str(e)[:140]}", grids=[gd], target=td_)
            # inherited grid-changing operations (recorded finding: vectors w.r.t. GRID / CUBE / CUBE_CORNERS axes are not rescaled)
            ops = [("crop", lambda x: x.crop(num=[2, 2] + [0] * (2 * D - 2))), ("pad", lambda x: x.pad(num=[2, 0] + [0] * (2 * D - 2))),
                   ("resize", lambda x: x.resize([4, 3, 2][:D])), ("downsample", lambda x: x.downsample(1, sigma=0)),
                   ("avg_pool", lambda x: x.avg_pool(2)), ("narrow", lambda x: x.narrow(x.ndim - 1, 1, 4)),
                   ("center_crop", lambda x: x.center_crop([4, 4, 2][:D]))]
            for oname, fn in ops:
                try:
                    r_ = fn(f0)
                    counts["probes"] += 1
                    back = r_.axes(Axes.WORLD).tensor().double()
                    # the central sample (away from padded / extrapolated borders)
                    sl = (0, slice(None)) + tuple(slice(n_ // 2, n_ // 2 + 1) for n_ in back.shape[2:])
                    inner = back[sl].reshape(D, -1)
                    if not bool(((inner - vec.unsqueeze(1)).abs() <= 1e-4).all()):
                        fail(f"C04:FlowFields:vector-rescaling:{axn}",
                             f"a constant world displacement {vec.tolist()} given w.r.t. {axn} axes describes {[round(float(v), 4) for v in inner[:, 0]]} after {oname} "
                             "(vectors are not converted to the units of the new grid)", grids=[gd], op=oname)
                except Exception as e:  # noqa
                    fail(f"C04:FlowFields.{oname}:{axn}:raises:{type(e).__name__}", f"raises {type(e).__name__}: {str(e)[:140]}", grids=[gd])
    # sampling a batch whose images lie on DIFFERENT grids on one shared target grid (also a target equal to the grid of
    # image 0): every entry must be that image sampled alone on the target
    for it in range(max(6, p["n"] // 10)):
        D = 2 if it % 3 else 3
        try:
            gds, grids, data, A, b0 = make_batch(rng, D, 2 + it % 2, True, near=True)
            b = ImageBatch(data, grids)
            tgs = [("shared-target", mk(dict(rand_grid(rng, D), center=[float(v) + 0.25 for v in grids[0].center()]))),
                   ("target-is-grid-of-image-0", grids[0])]
            for tname, tg in tgs:
                out = b.sample(tg, padding="zeros")
                counts["probes"] += 1
                if not isinstance(out, ImageBatch) or out.shape[0] != b.shape[0] or len(out.grids()) != b.shape[0] or \
                        not all(g_ == tg for g_ in out.grids()) or tuple(out.shape[2:]) != tuple(tg.shape):
                    fail(f"C04:ImageBatch.sample:{tname}:per-image-grids:result", "result is not a batch of N images on the target grid",
                         grids=gds, target=state(tg))
                    continue
                for k in range(b.shape[0]):
                    one = Image(data[k], grids[k]).sample(tg, padding="zeros")
                    one_t = one.tensor().double() if isinstance(one, Image) else one.double()
                    if not bool(((out.tensor().double()[k] - one_t).abs() <= 1e-4 * (1 + float(data.abs().max()))).all()):
                        fail(f"C04:ImageBatch.sample:{tname}:per-image-grids", f"batch entry {k} is not image {k} sampled on the target grid "
                             f"(max difference {float((out.tensor().double()[k] - one_t).abs().max()):.4g})", grids=gds, target=state(tg))
                        break
                # and it is the ramp on the target grid where the target lies inside image k
                mk_ = ImageBatch(torch.ones_like(data), grids).sample(tg, padding="zeros")
                check_stage(fail, f"ImageBatch.sample:{tname}", out, mk_, A, b0, dict(grids=gds, target=state(tg)), 1e-4 * (float(data.abs().max()) + 1))
        except Exception as e:  # noqa
            fail(f"C04:ImageBatch.sample:per-image-grids:raises:{type(e).__name__}", f"raises {type(e).__name__}: {str(e)[:140]}")
    # dedicated probes of argument forms the random stream avoids
    counts["probes"] += 1
    g2 = Grid(size=(6, 4), spacing=(1.0, 1.0), center=(0.0, 0.0))
    w = g2.index_to_world(g2.coords(normalize=False).double()).double()
    im = Image((2 * w[..., 0] + 3 * w[..., 1] + 1).unsqueeze(0), g2)
    try:
        r_ = im.region_of_interest((1, 1), (2, 2))
        if tuple(r_.shape[1:]) != (2, 2):
            fail("C04:core.image.region_of_interest:2d:shape", "wrong shape")
    except Exception as e:  # noqa
        fail("C04:core.image.region_of_interest:2d-sequence-rejected", f"2-D start/size sequences raise {type(e).__name__}: {str(e)[:100]}")
    try:
        r_ = im.avg_pool((2, 1))
        gsz = tuple(r_.grid().shape)
        if gsz != tuple(r_.shape[1:]):
            fail("C04:ImageBatch.avg_pool:kernel-tuple-order", f"grid shape {gsz} != data shape {tuple(r_.shape[1:])}")
        else:
            mm = Image(torch.ones_like(im.tensor()), g2).avg_pool((2, 1))
            check_stage(fail, "ImageBatch.avg_pool:kernel-tuple", r_.batch(), mm.batch(), [2.0, 3.0], 1.0, {}, 1e-4 * 30)
    except Exception as e:  # noqa
        fail("C04:ImageBatch.avg_pool:kernel-tuple-order", f"kernel_size=(2, 1) on a 6 x 4 image raises {type(e).__name__}: {str(e)[:100]} "
             "(tuple read in tensor order by the data path, in grid order by Grid.pool)")
    try:
        kern = torch.tensor([[0.0, 0.25, 0.0], [0.25, 0.0, 0.25], [0.0, 0.25, 0.0]], dtype=torch.float64)
        r_ = im.conv(kern)
        mm = Image(torch.ones_like(im.tensor()), g2).conv(kern)
        check_stage(fail, "ImageBatch.conv:nd-kernel", r_.batch(), mm.batch(), [2.0, 3.0], 1.0, {}, 1e-4 * 30)
    except Exception as e:  # noqa
        fail("C04:core.image.conv:nd-kernel:TypeError", f"conv with a 2-D kernel tensor raises {type(e).__name__}: {str(e)[:100]}")
    try:
        g5 = Grid(size=(5, 4), spacing=(1.0, 1.0), center=(0.0, 0.0))
        w5 = g5.index_to_world(g5.coords(normalize=False).double()).double()
        i5 = Image((2 * w5[..., 0] + 3 * w5[..., 1] + 1).unsqueeze(0), g5)
        d5 = i5.downsample(sigma=0)
        u5 = d5.upsample()
        if tuple(u5.grid().shape) != tuple(u5.shape[1:]):
            fail("C04:ImageBatch.upsample:fractional-size:shape-mismatch", "grid / data shapes differ")
    except Exception as e:  # noqa
        fail("C04:ImageBatch.upsample:fractional-size:shape-mismatch",
             f"Image(5 x 4).downsample().upsample() raises {type(e).__name__}: the grid returns to 5 samples, the data is doubled to 6")
    try:
        g4 = Grid(size=(4, 3), spacing=(1.0, 1.0), center=(0.0, 0.0))
        w4 = g4.index_to_world(g4.coords(normalize=False).double()).double()
        i4 = Image((2 * w4[..., 0] + 3 * w4[..., 1] + 1).unsqueeze(0), g4)
        r4 = i4.resample((1.2, 1.0))
        m4 = Image(torch.ones_like(i4.tensor()), g4).resample((1.2, 1.0))
        check_stage(fail, "ImageBatch.resample:same-shape", r4.batch(), m4.batch(), [2.0, 3.0], 1.0,
                    dict(note="4 x 3 unit grid resampled to spacing (1.2, 1): rounded shape unchanged, data returned unresampled"), 1e-4 * 20)
    except Exception as e:  # noqa
        fail(f"C04:ImageBatch.resample:same-shape:raises:{type(e).__name__}", str(e)[:100])
    return {"fails": fails, "counts": counts}


if __name__ == "__main__":
    payload = json.load(sys.stdin)
    fn = {"gen_chains": gen_chains, "run_chains": run_chains, "oracle": oracle}[payload["fn"]]
    emit_json(fn(payload))
