"""Gen/MutSkeleton.v -- effect skeletons of the public functions of deepali.core.functional and
deepali.losses.functional (and of every deepali function they call).

Fail-closed Python-`ast` analysis: a function body is abstracted to a list of
  IAssign strong v [sources]   v = expr, where expr may refer to the tensors of the listed variables
                               (SVar: certainly, SMaybe _ bit: only on some branch, e.g. `.to()`, `.reshape()`,
                               `as_tensor(x)`, an unknown call that may return its argument)
  IInplace v                   trailing-underscore method / function on v, `v += ..`, `v[..] = ..`, `out=v`
and anything outside the vocabulary (global / nonlocal, exec, star-assignment to attributes of parameters,
`setattr`, ...) aborts the translation of that function (it is then listed as refused and covered only by
the runtime sweep).  One path-sensitive idiom is understood: after `x = y.type_as(..)` (SAME_OR_COPY_METHODS: the receiver itself
or a complete fresh copy) the branch of `if x.data_ptr() == y.data_ptr()` on which the pointers differ starts with
`IAssign true x []` (x is the fresh copy there).  Model/Heap.v gives the skeletons their meaning; Props/C15.v proves no_arg_mutation
for every translated function over all branch vectors.
"""
import ast
import os

NAMESPACES = ["deepali/core/functional.py", "deepali/losses/functional.py"]
# methods whose result may share storage with the receiver
VIEW_METHODS = {"view", "view_as", "reshape", "reshape_as", "expand", "expand_as", "permute", "transpose", "squeeze", "unsqueeze",
                "flatten", "unflatten", "narrow", "select", "t", "contiguous", "to", "type", "type_as", "float", "double", "half",
                "int", "long", "bool", "detach", "as_subclass", "tensor", "unbind", "split", "chunk", "movedim", "moveaxis",
                "swapaxes", "swapdims", "unfold", "diagonal", "cpu", "cuda", "requires_grad_", "index_select_view", "T", "mT",
                "real", "imag", "data", "values", "indices", "rename", "align_to", "refine_names", "batch", "items", "get",
                "pop", "copy", "tolist", "__getitem__"}
# methods that certainly return new storage (or no tensor at all)
FRESH_METHODS = {"clone", "new_tensor", "new_zeros", "new_ones", "new_empty", "new_full", "sum", "mean", "prod", "min", "max", "amin",
                 "amax", "abs", "neg", "add", "sub", "mul", "div", "pow", "sqrt", "exp", "log", "sin", "cos", "tanh", "sigmoid",
                 "floor", "ceil", "round", "clamp", "clip", "eq", "ne", "lt", "le", "gt", "ge", "any", "all", "norm", "dot",
                 "matmul", "mm", "bmm", "item", "size", "dim", "numel", "shape", "stride", "dtype", "device", "is_floating_point",
                 "argmax", "argmin", "sort", "topk", "cumsum", "cumprod", "var", "std", "where", "masked_fill", "repeat", "tile",
                 "flip", "roll", "logical_not", "logical_and", "logical_or", "nonzero", "square", "reciprocal", "rsqrt", "sign",
                 "inverse", "det", "softmax", "log_softmax", "float_power", "index_select", "gather", "masked_select", "take",
                 "lower", "upper", "format", "join", "startswith", "endswith", "split_", "keys", "append", "extend", "insert",
                 "update", "setdefault", "remove", "sort_", "count", "index", "isdigit", "strip", "replace", "numpy", "fmod",
                 "remainder", "atan2", "acos", "asin", "atan", "cross", "outer", "trace", "addmm", "lerp", "erf", "logsumexp",
                 "unique", "bincount", "histc", "median", "isnan", "isinf", "isfinite", "nan_to_num", "fill_diagonal", "tril", "triu",
                 "sub_", "from_grid", "from_arg", "from_align_corners"}
# methods that return the receiver ITSELF or a complete fresh copy (never a partial view): after `x = y.type_as(z)` the test
# `x.data_ptr() == y.data_ptr()` decides which of the two it was, so x is fresh storage on the branch where the pointers differ
SAME_OR_COPY_METHODS = {"type_as", "type", "to", "float", "double", "half", "int", "long", "contiguous"}
BITS = 4
FRESH_ATTRS = {"shape", "dtype", "device", "ndim", "is_cuda", "requires_grad", "layout", "names", "is_sparse", "is_quantized",
               "is_floating_point", "itemsize", "nbytes", "value", "name"}
# module-level torch / numpy functions whose result may share storage with an argument
TORCH_ALIAS_FUNCS = {"as_tensor", "asarray", "from_numpy", "reshape", "squeeze", "unsqueeze", "transpose", "permute", "flatten", "narrow",
                     "select", "view_as_real", "view_as_complex", "movedim", "moveaxis", "swapaxes", "swapdims", "atleast_1d", "atleast_2d",
                     "atleast_3d", "broadcast_to", "broadcast_tensors", "contiguous", "detach", "chunk", "split", "unbind", "tensor_split",
                     "split_with_sizes", "t", "diagonal", "real", "imag", "expand_as", "unflatten", "ravel", "as_strided", "index_put_",
                     "squeeze_", "unsqueeze_", "checkpoint", "meshgrid"}
PURE_MODULES = {"torch", "F", "np", "numpy", "math", "nn", "functional", "init", "itertools", "warnings", "re", "operator", "functools", "os"}


class Refuse(Exception):
    pass


IMMUTABLE_NAMES = {"int", "float", "bool", "str", "None", "Optional", "Union", "Scalar", "DType", "Device", "Sampling", "PaddingMode",
                   "SpatialDim", "SpatialDimArg", "Axes", "Size", "ScalarOrTuple", "ScalarOrTuple2d", "ScalarOrTuple3d", "Tuple", "tuple",
                   "torch", "dtype", "device", "Generator", "FlowChannelIndex", "SpatialDerivativeKeys", "Literal", "type", "Type",
                   "ElasticMaterialName", "PathStr", "PathUri", "EllipsisType", "complex", "bytes"}


def immutable_annotation(a):
    """parameters that can only hold immutable values: rebinding (`n += 1`) cannot reach the caller"""
    if a is None:
        return False
    names = [n.id for n in ast.walk(a) if isinstance(n, ast.Name)] + [n.attr for n in ast.walk(a) if isinstance(n, ast.Attribute)]
    consts = [n.value for n in ast.walk(a) if isinstance(n, ast.Constant)]
    if any(isinstance(c, str) and not c.replace("_", "").isalnum() for c in consts):
        return False
    return bool(names) and all(n in IMMUTABLE_NAMES for n in names)


class Analyzer:
    def __init__(self, fn, resolver=None):
        self.fn = fn
        self.resolver = resolver or (lambda name: None)
        self.vars = {}
        self.code = []
        self.nbits = 0
        self.calls = set()
        self.depth = 0
        self.nested = {}
        self.pure_fns = set()
        self.nested_stack = []
        self.ret_stack = []
        self.ver = {}            # name -> number of (textual) rebindings seen so far
        self.blk = [0]           # stack of ids of the enclosing conditional / loop bodies
        self.blk_next = 1
        self.same_or_copy = {}   # x -> (y, ver[x], ver[y], block stack) after `x = y.<SAME_OR_COPY_METHODS>(..)`
        a = fn.args
        params = [x.arg for x in a.posonlyargs + a.args] + ([a.vararg.arg] if a.vararg else []) + [x.arg for x in a.kwonlyargs] \
            + ([a.kwarg.arg] if a.kwarg else [])
        self.params = params
        self.new_containers = self.find_new_containers(fn, set(params))
        for p in params:
            self.var(p)
        self.nargs = len(params)
        self.npos = len(a.posonlyargs) + len(a.args)
        self.vararg_idx = self.npos if a.vararg else None
        self.kwarg_idx = len(params) - 1 if a.kwarg else None
        self.retvar = self.var("<return>")
        ann = {x.arg: x.annotation for x in a.posonlyargs + a.args + a.kwonlyargs}
        # (a parameter called 'out' is an explicit output argument: writing it is the documented behaviour)
        self.targs = [i for i, p in enumerate(params) if not immutable_annotation(ann.get(p)) and p != "out"]

    def var(self, name):
        if name not in self.vars:
            self.vars[name] = len(self.vars)
        return self.vars[name]

    def bit(self):
        b = self.nbits % BITS
        self.nbits += 1
        return b

    # -- expressions: which variables' tensors may the value refer to --
    def root(self, e):
        while isinstance(e, (ast.Attribute, ast.Subscript, ast.Starred)):
            e = e.value
        if isinstance(e, ast.Call):
            return self.root(e.func) if isinstance(e.func, ast.Attribute) else None
        return e.id if isinstance(e, ast.Name) else None

    def sources(self, e):
        """list of (var name, certain: bool)"""
        if e is None or isinstance(e, ast.Constant):
            return []
        if isinstance(e, ast.Name):
            if e.id in self.nested:
                raise Refuse(f"nested function {e.id} used as a value")
            return [(e.id, True)] if e.id in self.vars else []
        if isinstance(e, (ast.BinOp, ast.UnaryOp, ast.Compare, ast.BoolOp)):
            self.scan_children(e)
            if isinstance(e, ast.BoolOp):       # `a or b` returns one of its operands
                out = []
                for v in e.values:
                    out += [(n, False) for n, _ in self.sources(v)]
                return out
            return []
        if isinstance(e, ast.IfExp):
            self.sources(e.test)
            return [(n, False) for n, _ in self.sources(e.body) + self.sources(e.orelse)]
        if isinstance(e, (ast.Tuple, ast.List, ast.Set)):
            out = []
            for x in e.elts:
                out += self.sources(x)
            return out
        if isinstance(e, ast.Dict):
            out = []
            for x in list(e.keys) + list(e.values):
                out += self.sources(x)
            return out
        if isinstance(e, ast.Starred):
            return self.sources(e.value)
        if isinstance(e, ast.Subscript):
            self.sources(e.slice)
            return [(n, False) for n, _ in self.sources(e.value)]
        if isinstance(e, ast.Attribute):
            if e.attr in FRESH_ATTRS:
                self.sources(e.value)
                return []        # immutable meta data of a tensor
            return [(n, False) for n, _ in self.sources(e.value)]
        if isinstance(e, (ast.ListComp, ast.GeneratorExp, ast.SetComp, ast.DictComp)):
            out = []
            for g in e.generators:
                src = self.sources(g.iter)
                self.assign_target(g.target, [(n, False) for n, _ in src], weak=True)
                for c in g.ifs:
                    self.sources(c)
            elts = [e.key, e.value] if isinstance(e, ast.DictComp) else [e.elt]
            for x in elts:
                out += [(n, False) for n, _ in self.sources(x)]
            return out
        if isinstance(e, ast.JoinedStr) or isinstance(e, ast.FormattedValue):
            return []
        if isinstance(e, ast.Lambda):
            return [(n, False) for n, _ in self.sources(e.body)]
        if isinstance(e, ast.Slice):
            for x in (e.lower, e.upper, e.step):
                self.sources(x)
            return []
        if isinstance(e, ast.NamedExpr):
            src = self.sources(e.value)
            self.assign_target(e.target, src, weak=True)
            return src
        if isinstance(e, ast.Call):
            return self.call(e)
        if isinstance(e, ast.Await) or isinstance(e, ast.Yield) or isinstance(e, ast.YieldFrom):
            raise Refuse("generator / coroutine")
        raise Refuse(f"expression {type(e).__name__}")

    def scan_children(self, e):
        for c in ast.iter_child_nodes(e):
            if isinstance(c, ast.expr):
                self.sources(c)

    def inplace(self, name):
        if name is None:
            return
        if name in self.vars:
            self.code.append(("inplace", self.var(name)))

    def inplace_src(self, src):
        """in-place write of whatever an expression may refer to"""
        if not src:
            return
        self.ntmp = getattr(self, "ntmp", 0) + 1
        tmp = self.var(f"<tmp{self.ntmp}>")
        self.code.append(("assign", False, tmp, [(self.var(n), c) for n, c in src]))
        self.code.append(("inplace", tmp))

    @staticmethod
    def find_new_containers(fn, params):
        """names that are only ever bound to newly built containers (list(...), [...], {...}, comprehensions): assigning to
        an item of such a container cannot reach an object of the caller"""
        def builds(e):
            if isinstance(e, (ast.List, ast.Dict, ast.Set, ast.ListComp, ast.DictComp, ast.SetComp)):
                return True
            if isinstance(e, ast.Call) and isinstance(e.func, ast.Name) and e.func.id in ("list", "dict", "set", "sorted", "OrderedDict"):
                return True
            if isinstance(e, ast.BinOp) and isinstance(e.op, (ast.Add, ast.Mult)):
                return builds(e.left) or builds(e.right)
            return False
        ok, bad = set(), set(params)
        for n in ast.walk(fn):
            targets, value = [], None
            if isinstance(n, ast.Assign):
                targets, value = n.targets, n.value
            elif isinstance(n, ast.AnnAssign) and n.value is not None:
                targets, value = [n.target], n.value
            elif isinstance(n, (ast.For, ast.comprehension)):
                for t in ast.walk(n.target):
                    if isinstance(t, ast.Name):
                        bad.add(t.id)
            elif isinstance(n, ast.NamedExpr):
                bad.add(n.target.id)
            elif isinstance(n, (ast.With,)):
                for it in n.items:
                    if it.optional_vars is not None:
                        for t in ast.walk(it.optional_vars):
                            if isinstance(t, ast.Name):
                                bad.add(t.id)
            for t in targets:
                if isinstance(t, ast.Name):
                    (ok if builds(value) else bad).add(t.id)
                elif isinstance(t, (ast.Tuple, ast.List)):
                    for x in ast.walk(t):
                        if isinstance(x, ast.Name):
                            bad.add(x.id)
        return ok - bad

    def is_pure_function_expr(self, e):
        if isinstance(e, ast.IfExp):
            return self.is_pure_function_expr(e.body) and self.is_pure_function_expr(e.orelse)
        if isinstance(e, ast.Attribute):
            return self.root(e) in PURE_MODULES and self.root(e) not in self.vars and e.attr not in TORCH_ALIAS_FUNCS and not e.attr.endswith("_")
        return False

    def tmp(self, src, strong=True):
        self.ntmp = getattr(self, "ntmp", 0) + 1
        name = f"<tmp{self.ntmp}>"
        self.code.append(("assign", strong and self.depth == 0, self.var(name), [(self.var(n), c) for n, c in src]))
        return name

    def package_call(self, e, name, per_arg, kw_src, via=None):
        """call of a function of the package: use its summary (result may refer to / function may write which parameters)"""
        info = self.resolver(name, via) if via is not None else self.resolver(name)
        if info is None:
            return None
        gkey, params, npos, vararg_idx, kwarg_idx = info
        self.calls.add((via, name))
        binds = []          # (callee parameter index, sources)
        for i, (a, src) in enumerate(zip(e.args, per_arg)):
            if isinstance(a, ast.Starred):
                binds += [(p, src) for p in range(len(params))]
            elif i < npos:
                binds.append((i, src))
            elif vararg_idx is not None:
                binds.append((vararg_idx, src))
            else:
                raise Refuse(f"too many positional arguments for {name}")
        for k, src in kw_src:
            if k is None:
                binds += [(p, src) for p in range(len(params))]
            elif k in params:
                binds.append((params.index(k), src))
            elif kwarg_idx is not None:
                binds.append((kwarg_idx, src))
            else:
                raise Refuse(f"unknown keyword {k} for {name}")
        res = []
        for pidx, src in binds:
            if not src:
                continue
            t = self.tmp(src)
            self.code.append(("callw", gkey, pidx, self.var(t)))
            res.append((t, ("ret", gkey, pidx)))
        r = self.tmp(res)
        return [(r, True)]

    def call(self, e):
        per_arg = [self.sources(a) for a in e.args]
        kw_src = [(k.arg, self.sources(k.value)) for k in e.keywords]
        arg_src = [x for src in per_arg for x in src] + [x for _, src in kw_src for x in src]
        for k in e.keywords:
            if k.arg == "out":
                self.inplace(self.root(k.value))
        f = e.func
        if isinstance(f, ast.Attribute):
            base_src = self.sources(f.value)
            m = f.attr
            if m.endswith("_") and not m.startswith("__") and m not in ("requires_grad_",):
                # in-place method: writes whatever the receiver expression may refer to; for module-level functions such as
                # torch.nn.init.constant_(t, v) the first argument
                base = self.root(f.value)
                if base_src or base in self.vars:
                    self.inplace_src(base_src)
                    return list(base_src)
                if e.args:
                    a0 = self.sources(e.args[0])
                    self.inplace_src(a0)
                    return a0
                return []
            if m in ("setattr", "__setattr__", "__setitem__", "__delitem__", "set_", "resize_", "copy_"):
                raise Refuse(f"call of {m}")
            if base_src:
                if m in FRESH_METHODS:
                    return []
                # view-like or unknown method on a tracked value: may share storage with the receiver or an argument
                return [(n, False) for n, _ in base_src + arg_src]
            # function from a module (torch.xxx, F.xxx, U.xxx, np.xxx, math.xxx)
            mod = self.root(f.value)
            if mod in PURE_MODULES:
                if m not in TORCH_ALIAS_FUNCS:
                    return []               # trusted: returns new storage and writes none of its arguments
                return [(n, False) for n, _ in arg_src]
            if isinstance(f.value, ast.Name):
                r = self.package_call(e, m, per_arg, kw_src, via=f.value.id)      # A.transform_points(...): module alias
                if r is not None:
                    return r
            return [(n, False) for n, _ in arg_src]
        if isinstance(f, ast.Name) and f.id in self.nested:
            params, body, ret = self.nested[f.id]
            if e.keywords and any(k.arg is None for k in e.keywords):
                raise Refuse("nested function called with **kwargs")
            bound = list(zip(params, per_arg)) + [(k, src) for k, src in kw_src if k in params]
            for prm, src in bound:
                self.code.append(("assign", False, self.var(prm), [(self.var(n), c) for n, c in src]))
            self.code.extend(body)
            return [(f"<return of {f.id}>", False)]
        if isinstance(f, ast.Name):
            if f.id in ("setattr", "exec", "eval", "globals", "locals", "vars", "delattr"):
                raise Refuse(f"call of {f.id}")
            if f.id.endswith("_") and e.args:
                self.inplace(self.root(e.args[0]))
            if f.id in ("len", "int", "float", "bool", "str", "isinstance", "range", "enumerate_", "type", "repr", "print",
                        "abs", "sum", "any", "all", "hasattr", "callable", "id", "round", "ValueError", "TypeError", "RuntimeError",
                        "AssertionError", "NotImplementedError", "IndexError", "KeyError", "DeprecationWarning"):
                return []
            if f.id in self.pure_fns and f.id not in self.vars:
                return []
            if f.id not in self.vars:
                r = self.package_call(e, f.id, per_arg, kw_src)
                if r is not None:
                    return r
            return [(n, False) for n, _ in arg_src]
        # call of a call result etc.
        self.sources(f)
        return [(n, False) for n, _ in arg_src]

    # -- statements --
    def assign_target(self, t, src, weak):
        if isinstance(t, ast.Name):
            v = self.var(t.id)
            self.ver[t.id] = self.ver.get(t.id, 0) + 1
            self.same_or_copy.pop(t.id, None)
            strong = (self.depth == 0) and not weak
            self.code.append(("assign", strong, v, [(self.var(n), c) for n, c in src]))
        elif isinstance(t, (ast.Tuple, ast.List)):
            for x in t.elts:
                self.assign_target(x.value if isinstance(x, ast.Starred) else x, [(n, False) for n, _ in src], weak)
        elif isinstance(t, ast.Subscript):
            # x[i] = value: writes x in place; x may now also hold a reference to value (containers)
            r = self.root(t)
            self.sources(t.slice)
            if r in self.vars:
                if not (isinstance(t.value, ast.Name) and t.value.id in self.new_containers):
                    self.inplace(r)      # (an item of a container built in this function is only re-bound)
                self.code.append(("assign", False, self.var(r), [(self.var(n), False) for n, _ in src]))
        elif isinstance(t, ast.Attribute):
            r = self.root(t)
            if r in self.params:
                raise Refuse("assignment to an attribute of a parameter")
            if r in self.vars:
                self.code.append(("assign", False, self.var(r), [(self.var(n), False) for n, _ in src]))
        else:
            raise Refuse(f"assignment target {type(t).__name__}")

    def block(self, stmts, nested=True, scope=False):
        if nested:
            self.depth += 1
        if scope:
            self.blk.append(self.blk_next)
            self.blk_next += 1
        for s in stmts:
            self.stmt(s)
        if scope:
            self.blk.pop()
        if nested:
            self.depth -= 1

    def ptr_test(self, test):
        """`x.data_ptr() == y.data_ptr()` (or !=) where x was bound by `x = y.type_as(..)` (a SAME_OR_COPY method) on every path
        reaching the test and neither name was rebound since: returns (x, True if the pointers DIFFER on the else branch)"""
        if not (isinstance(test, ast.Compare) and len(test.ops) == 1 and isinstance(test.ops[0], (ast.Eq, ast.NotEq))):
            return None
        names = []
        for c in (test.left, test.comparators[0]):
            if not (isinstance(c, ast.Call) and not c.args and not c.keywords and isinstance(c.func, ast.Attribute)
                    and c.func.attr == "data_ptr" and isinstance(c.func.value, ast.Name)):
                return None
            names.append(c.func.value.id)
        for x, y in (names, names[::-1]):
            rec = self.same_or_copy.get(x)
            if rec and rec[0] == y and rec[1] == self.ver.get(x, 0) and rec[2] == self.ver.get(y, 0) \
                    and tuple(self.blk[:len(rec[3])]) == rec[3]:
                return x, isinstance(test.ops[0], ast.Eq)
        return None

    def const_flag(self, test):
        """`if inplace:` / `if not inplace:` on an explicit in-place flag parameter (analysed for flag = False)"""
        neg = False
        if isinstance(test, ast.UnaryOp) and isinstance(test.op, ast.Not):
            neg, test = True, test.operand
        if isinstance(test, ast.Name) and test.id in ("inplace",) and test.id in self.params:
            return (not neg, )       # tuple: value of the test when inplace is True
        return None

    def stmt(self, s):
        if isinstance(s, ast.Expr):
            self.sources(s.value)
        elif isinstance(s, ast.Assign):
            if len(s.targets) == 1 and isinstance(s.targets[0], ast.Name) and self.is_pure_function_expr(s.value):
                self.pure_fns.add(s.targets[0].id)      # conv_fn = F.conv_transpose1d if transpose else F.conv1d
                return
            src = self.sources(s.value)
            for t in s.targets:
                self.assign_target(t, src, weak=False)
            v = s.value
            if len(s.targets) == 1 and isinstance(s.targets[0], ast.Name) and isinstance(v, ast.Call) \
                    and isinstance(v.func, ast.Attribute) and v.func.attr in SAME_OR_COPY_METHODS \
                    and isinstance(v.func.value, ast.Name) and v.func.value.id in self.vars \
                    and v.func.value.id != s.targets[0].id and not self.nested_stack:
                x, y = s.targets[0].id, v.func.value.id
                self.same_or_copy[x] = (y, self.ver.get(x, 0), self.ver.get(y, 0), tuple(self.blk))
        elif isinstance(s, ast.AnnAssign):
            if s.value is not None:
                self.assign_target(s.target, self.sources(s.value), weak=False)
        elif isinstance(s, ast.AugAssign):
            src = self.sources(s.value)
            r = self.root(s.target)
            self.inplace(r)          # tensor.__iadd__ writes in place
        elif isinstance(s, ast.Return):
            src = self.sources(s.value)
            ret = self.ret_stack[-1] if self.ret_stack else self.retvar
            self.code.append(("assign", False, ret, [(self.var(n), c) for n, c in src]))
        elif isinstance(s, ast.If):
            fl = self.const_flag(s.test)
            if fl is not None:
                # explicit in-place flag: the branch taken for inplace=False
                self.block(s.orelse if fl[0] else s.body, nested=False)
                return
            pt = self.ptr_test(s.test)
            self.sources(s.test)
            outer = self.code
            self.code = []
            if pt is not None and not pt[1]:
                self.code.append(("assign", True, self.var(pt[0]), []))      # pointers differ: x is the fresh copy
            self.block(s.body, nested=False, scope=True)
            a, self.code = self.code, []
            if pt is not None and pt[1]:
                self.code.append(("assign", True, self.var(pt[0]), []))
            self.block(s.orelse, nested=False, scope=True)
            b, self.code = self.code, outer
            self.code.append(("if", a, b))
        elif isinstance(s, (ast.For, ast.AsyncFor)):
            src = self.sources(s.iter)
            outer = self.code
            self.code = []
            self.assign_target(s.target, [(n, False) for n, _ in src], weak=False)
            self.block(s.body, nested=False, scope=True)
            body, self.code = self.code, outer
            self.code.append(("loop", body))
            self.block(s.orelse, nested=False, scope=True)
        elif isinstance(s, ast.While):
            outer = self.code
            self.code = []
            self.sources(s.test)
            self.block(s.body, nested=False, scope=True)
            body, self.code = self.code, outer
            self.code.append(("loop", body))
            self.block(s.orelse, nested=False, scope=True)
        elif isinstance(s, (ast.With, ast.AsyncWith)):
            for it in s.items:
                src = self.sources(it.context_expr)
                if it.optional_vars is not None:
                    self.assign_target(it.optional_vars, src, weak=True)
            self.block(s.body, nested=False)
        elif isinstance(s, ast.Try):
            self.block(s.body, scope=True)
            for h in s.handlers:
                if h.name:
                    self.var(h.name)
                self.block(h.body, scope=True)
            self.block(s.orelse, scope=True)
            self.block(s.finalbody, scope=True)
        elif isinstance(s, (ast.Raise, ast.Assert)):
            for c in ast.iter_child_nodes(s):
                if isinstance(c, ast.expr):
                    self.sources(c)
        elif isinstance(s, (ast.Pass, ast.Break, ast.Continue, ast.Import, ast.ImportFrom)):
            pass
        elif isinstance(s, ast.Delete):
            for t in s.targets:
                if isinstance(t, ast.Subscript) and self.root(t) in self.vars:
                    self.inplace(self.root(t))
        elif isinstance(s, ast.FunctionDef):
            # nested helper: its body is analysed on its own (same variable space: closure variables keep their names) and
            # inlined at every direct call; any other use of its name is refused
            if s.args.vararg or s.args.kwarg or s.name in self.nested_stack:
                raise Refuse("nested function with *args / recursion")
            params = [a.arg for a in s.args.posonlyargs + s.args.args + s.args.kwonlyargs]
            for a in params:
                self.var(a)
            ret = self.var(f"<return of {s.name}>")
            outer, self.code = self.code, []
            self.nested_stack.append(s.name)
            self.ret_stack.append(ret)
            self.block(s.body, nested=False)
            self.ret_stack.pop()
            self.nested_stack.pop()
            body, self.code = self.code, outer
            self.nested[s.name] = (params, body, ret)
        elif isinstance(s, (ast.Global, ast.Nonlocal, ast.ClassDef)):
            raise Refuse(type(s).__name__)
        else:
            raise Refuse(f"statement {type(s).__name__}")

    def run(self):
        body = self.fn.body
        self.block(body, nested=False)
        return self


def module_functions(path):
    with open(path) as f:
        tree = ast.parse(f.read())
    fns = {}
    aliases = {}
    imports = {}
    for n in tree.body:
        if isinstance(n, ast.FunctionDef):
            fns[n.name] = n       # the last definition wins (overloads first)
        elif isinstance(n, ast.Assign) and len(n.targets) == 1 and isinstance(n.targets[0], ast.Name) and isinstance(n.value, ast.Name):
            aliases[n.targets[0].id] = n.value.id
        elif isinstance(n, ast.ImportFrom) and (n.level >= 1 or (n.module or "").split(".")[0] == "deepali"):
            for a in n.names:
                imports[a.asname or a.name] = (n.level, n.module, a.name)
        elif isinstance(n, ast.Import):
            for a in n.names:
                if a.name.split(".")[0] == "deepali" and a.asname:
                    imports[a.asname] = (0, a.name, None)
    return tree, fns, aliases, imports


def module_path(root, rel, level, module, name):
    """file (relative to root) of the module an import statement refers to; name is tried as a sub-module"""
    if level == 0:
        base = ""
        parts = (module or "").split(".")
    else:
        base = os.path.dirname(rel)
        for _ in range(level - 1):
            base = os.path.dirname(base)
        parts = module.split(".") if module else []
    cands = []
    if name is not None:
        cands.append((os.path.join(base, *parts, name), None))      # from pkg import module
    cands.append((os.path.join(base, *parts), name))                # from module import function
    for cand, orig in cands:
        for c in (cand + ".py", os.path.join(cand, "__init__.py")):
            if os.path.exists(os.path.join(root, c)):
                return c, orig
    return None, None


def resolve(root, rel, name, cache, depth=0, via=None):
    """-> (file rel path, FunctionDef) or None.  via: name of a module alias (`A.transform_points`)"""
    if depth > 6:
        return None
    if rel not in cache:
        p = os.path.join(root, rel)
        if not os.path.exists(p):
            return None
        cache[rel] = module_functions(p)
    tree, fns, aliases, imports = cache[rel]
    if via is not None:
        if via not in imports:
            return None
        level, module, orig = imports[via]
        c, o = module_path(root, rel, level, module, orig)
        if c is None or o is not None:
            return None          # the alias is not a module
        return resolve(root, c, name, cache, depth + 1)
    if name in fns:
        return rel, fns[name]
    if name in aliases:
        return resolve(root, rel, aliases[name], cache, depth + 1)
    if name in imports:
        level, module, orig = imports[name]
        c, o = module_path(root, rel, level, module, orig)
        if c is None or o is None:
            return None           # a module, not a function
        return resolve(root, c, o, cache, depth + 1)
    return None


def public_names(root, rel):
    tree = ast.parse(open(os.path.join(root, rel)).read())
    for n in tree.body:
        if isinstance(n, ast.Assign) and any(isinstance(t, ast.Name) and t.id == "__all__" for t in n.targets):
            return [ast.literal_eval(e) for e in n.value.elts]
    # no __all__: public top-level functions and imported names
    out = []
    for n in tree.body:
        if isinstance(n, ast.FunctionDef) and not n.name.startswith("_"):
            out.append(n.name)
        elif isinstance(n, ast.ImportFrom) and n.level >= 1:
            out += [a.asname or a.name for a in n.names if not (a.asname or a.name).startswith("_")]
    return sorted(set(out))


def cstr(s):
    return '"' + s.replace('"', '""') + '"%string'


def analyse_all(root):
    cache = {}
    todo = []
    for ns in NAMESPACES:
        for name in public_names(root, ns):
            r = resolve(root, ns, name, cache)
            todo.append((ns, name, r))
    done = {}
    refused = []
    queue = [(ns, name, r, True) for ns, name, r in todo]
    seen = set()
    while queue:
        ns, name, r, public = queue.pop(0)
        if r is None:
            if public:
                refused.append((f"{ns}:{name}", "not a plain function of the package (class, constant or external)"))
            continue
        rel, fn = r
        key = f"{rel}:{fn.name}"
        label = f"{ns}:{name}" if public else key
        if key in seen:
            if public and key in done:
                done[label] = done[key]
            continue
        seen.add(key)
        def resolver(nm, via=None, rel=rel):
            rr = resolve(root, rel, nm, cache, via=via)
            if rr is None:
                return None
            rel2, fn2 = rr
            ar = fn2.args
            prm = [x.arg for x in ar.posonlyargs + ar.args] + ([ar.vararg.arg] if ar.vararg else []) + [x.arg for x in ar.kwonlyargs] \
                + ([ar.kwarg.arg] if ar.kwarg else [])
            npos = len(ar.posonlyargs) + len(ar.args)
            return (f"{rel2}:{fn2.name}", prm, npos, npos if ar.vararg else None, len(prm) - 1 if ar.kwarg else None)
        try:
            a = Analyzer(fn, resolver).run()
        except Refuse as e:
            refused.append((label, str(e)))
            continue
        done[key] = a
        if public:
            done[label] = a
        # callees inside the package are analysed too (their cleanliness is what makes calling them harmless)
        for via, c in sorted(a.calls, key=str):
            rr = resolve(root, rel, c, cache, via=via)
            if rr is not None:
                queue.append((rel, c, rr, False))
    return done, refused


COPY_FILES = {"Grid": "deepali/core/grid.py", "Cube": "deepali/core/cube.py", "SpatialTransform": "deepali/spatial/base.py",
              "ParametricTransform": "deepali/spatial/parametric.py", "DataTensor": "deepali/data/tensor.py"}
COPY_PINS = {"Grid": ["clone", "__deepcopy__", "align_corners", "align_corners_", "center", "center_", "origin", "origin_", "spacing",
                      "spacing_", "direction", "direction_"],
             "Cube": ["clone", "__deepcopy__", "center", "center_", "origin", "origin_", "direction", "direction_", "extent", "extent_"],
             "SpatialTransform": ["__copy__", "condition", "condition_", "grid"],
             "ParametricTransform": ["data", "data_", "link", "unlink", "unlink_"],
             "DataTensor": ["__copy__", "__deepcopy__"]}


def copy_tables(root):
    import hashlib
    out = []
    rows, accs = [], []
    for cls, rel in COPY_FILES.items():
        tree = ast.parse(open(os.path.join(root, rel)).read())
        cdef = [n for n in tree.body if isinstance(n, ast.ClassDef) and n.name == cls]
        if len(cdef) != 1:
            raise Refuse(f"class {cls} not found")
        methods = {}
        for n in cdef[0].body:
            if isinstance(n, ast.FunctionDef):
                methods[n.name] = n
        for m in COPY_PINS[cls]:
            if m not in methods:
                raise Refuse(f"{cls}.{m} not found")
            fn = methods[m]
            body = fn.body[1:] if (fn.body and isinstance(fn.body[0], ast.Expr) and isinstance(getattr(fn.body[0], "value", None), ast.Constant)) else fn.body
            txt = "\n".join(ast.unparse(b) for b in body)
            rows.append(f"  ({cstr(cls + '.' + m)}, {cstr(hashlib.sha256(txt.encode()).hexdigest()[:20])})")
        # with-argument accessors: methods whose body contains  shallow_copy(self).<setter>_(...)
        for name, fn in sorted(methods.items()):
            if name.endswith("_") or name.startswith("_"):
                continue
            for node in ast.walk(fn):
                if isinstance(node, ast.Call) and isinstance(node.func, ast.Attribute) and isinstance(node.func.value, ast.Call) \
                        and ast.unparse(node.func.value) == "shallow_copy(self)":
                    accs.append(f"  ({cstr(cls + '.' + name)}, {cstr(node.func.attr)})")
            # second form:  copy = shallow_copy(self); copy._parameters = copy._parameters.copy(); return copy.<setter>_(...)
            stm = [ast.unparse(b) for b in ast.walk(fn) if isinstance(b, (ast.Assign, ast.Return))]
            if "copy = shallow_copy(self)" in stm and "copy._parameters = copy._parameters.copy()" in stm:
                for node in ast.walk(fn):
                    if isinstance(node, ast.Return) and isinstance(node.value, ast.Call) and isinstance(node.value.func, ast.Attribute) \
                            and isinstance(node.value.func.value, ast.Name) and node.value.func.value.id == "copy":
                        accs.append(f"  ({cstr(cls + '.' + name)}, {cstr('own _parameters; ' + node.value.func.attr)})")
        if cls == "SpatialTransform":
            cp = methods["__copy__"]
            loops = [n for n in ast.walk(cp) if isinstance(n, ast.For)]
            if len(loops) != 1 or not isinstance(loops[0].iter, (ast.Tuple, ast.List)):
                raise Refuse("SpatialTransform.__copy__: expected one loop over a tuple of container names")
            names = [ast.literal_eval(e) for e in loops[0].iter.elts]
            out.append("(* SpatialTransform.__copy__: the __dict__ entries that are copied (every other container is shared) *)")
            out.append("Definition gen_copied_containers : list string := [" + "; ".join(cstr(n) for n in names) + "].\n")
    out.append("(* with-argument accessors implemented as shallow_copy(self).<setter>(...) *)")
    out.append("Definition gen_copy_accessors : list (string * string) := [\n" + ";\n".join(accs) + "].\n")
    out.append("Definition gen_copy_fingerprints : list (string * string) := [\n" + ";\n".join(rows) + "].\n")
    return out


def lower(instrs, index, bitgen):
    """instruction tuples -> nested python structure with callee indices; calls of refused callees become conservative"""
    out = []
    for ins in instrs:
        if ins[0] == "inplace":
            out.append(("inplace", ins[1]))
        elif ins[0] == "loop":
            out.append(("loop", lower(ins[1], index, bitgen)))
        elif ins[0] == "if":
            out.append(("if", lower(ins[1], index, bitgen), lower(ins[2], index, bitgen)))
        elif ins[0] == "callw":
            _, gkey, pidx, v = ins
            out.append(("callw", index[gkey], pidx, v) if gkey in index else ("inplace", v))
        else:
            _, strong, v, src = ins
            ss = []
            for sv, c in src:
                if isinstance(c, tuple):
                    ss.append(("ret", index[c[1]], c[2], sv) if c[1] in index else ("maybe", sv, bitgen()))
                elif c:
                    ss.append(("var", sv))
                else:
                    ss.append(("maybe", sv, bitgen()))
            out.append(("assign", strong, v, ss))
    return out


def union(a, b):
    return a + [x for x in b if x not in a]


def evaluate(sk, summ):
    """mirror of Model/Heap.v step with the all-true branch vector: (returned, written)"""
    nv = sk["nvars"]
    st = ([[k] if k in sk["targs"] else [] for k in range(nv)], [])
    bound = (nv + 1) * (len(sk["targs"]) + 1)

    def run(code, st):
        for ins in code:
            st = step(ins, st)
        return st

    def join(a, b):
        return ([union(x, y) for x, y in zip(a[0], b[0])], union(a[1], b[1]))

    def step(ins, st):
        p, w = st
        if ins[0] == "assign":
            _, strong, v, srcs = ins
            new = []
            for s_ in srcs:
                if s_[0] == "var" or s_[0] == "maybe":
                    new = union(new, p[s_[1]])
                elif s_[0] == "ret" and s_[2] in summ[s_[1]][0]:
                    new = union(new, p[s_[3]])
            p = list(p)
            p[v] = new if strong else union(new, p[v])
            return (p, w)
        if ins[0] == "inplace":
            return (p, union(w, p[ins[1]]))
        if ins[0] == "callw":
            return (p, union(w, p[ins[3]])) if ins[2] in summ[ins[1]][1] else st
        if ins[0] == "if":
            return join(run(ins[1], st), run(ins[2], st))
        if ins[0] == "loop":
            for _ in range(bound):
                new = join(st, run(ins[1], st))
                if [sorted(x) for x in new[0]] == [sorted(x) for x in st[0]] and sorted(new[1]) == sorted(st[1]):
                    break
                st = new
            return st
        raise ValueError(ins[0])
    p, w = run(sk["code"], st)
    return sorted(p[sk["retvar"]]), sorted(w)


def coq_code(code):
    out = []
    for ins in code:
        if ins[0] == "inplace":
            out.append(f"IInplace {ins[1]}")
        elif ins[0] == "loop":
            out.append("ILoop [" + "; ".join(coq_code(ins[1])) + "]")
        elif ins[0] == "if":
            out.append("IIf [" + "; ".join(coq_code(ins[1])) + "] [" + "; ".join(coq_code(ins[2])) + "]")
        elif ins[0] == "callw":
            out.append(f"ICallW {ins[1]} {ins[2]} {ins[3]}")
        else:
            _, strong, v, ss = ins
            items = []
            for x in ss:
                items.append(f"SVar {x[1]}" if x[0] == "var" else (f"SMaybe {x[1]} {x[2]}" if x[0] == "maybe" else f"SRet {x[1]} {x[2]} {x[3]}"))
            out.append(f"IAssign {'true' if strong else 'false'} {v} [" + "; ".join(items) + "]")
    return out


def generate(loader):
    done, refused = analyse_all(loader.root)
    labels = sorted(done)
    index = {}
    for i, label in enumerate(labels):
        # calls refer to the defining module's key  "<file>:<function>"
        if ":" in label and label not in index:
            index[label] = i
    sks = []
    for label in labels:
        a = done[label]
        cnt = [0]

        def bitgen(cnt=cnt):
            cnt[0] += 1
            return (cnt[0] - 1) % BITS
        code = lower(a.code, index, bitgen)
        sks.append({"name": label, "targs": a.targs, "nvars": len(a.vars), "nbits": min(cnt[0], BITS), "retvar": a.retvar, "code": code})
    # summaries: least fixpoint (the Coq side re-checks every one of them)
    summ = [([], []) for _ in sks]
    for _ in range(50):
        new = [evaluate(sk, summ) for sk in sks]
        new = [(sorted(set(a) | set(c)), sorted(set(b) | set(d))) for (a, b), (c, d) in zip(summ, new)]
        if new == summ:
            break
        summ = new
    else:
        raise Refuse("summaries did not stabilise")
    out = ["From Coq Require Import String.", "From DV Require Import Model.Heap.", "Local Close Scope fld_scope.", "Local Open Scope nat_scope.", ""]
    rows = []
    for sk in sks:
        targs = "[" + "; ".join(str(i) for i in sk["targs"]) + "]"
        rows.append(f"  mkSkel {cstr(sk['name'])} {targs} {sk['nvars']} {sk['nbits']} {sk['retvar']} [" + "; ".join(coq_code(sk["code"])) + "]")
    out.append("Definition gen_skeletons : list skel := [\n" + ";\n".join(rows) + "].\n")
    out.append("(* claimed summaries (result may refer to parameters, parameters possibly written): least fixpoint computed by the\n"
               "   translator, re-checked skeleton by skeleton in Props/C15.v *)")
    out.append("Definition gen_summaries : list summary := [\n" + ";\n".join(
        "  ([" + "; ".join(map(str, r)) + "], [" + "; ".join(map(str, w)) + "])" for r, w in summ) + "].\n")
    out.append("Definition gen_refused : list (string * string) := [\n"
               + ";\n".join(f"  ({cstr(a)}, {cstr(b)})" for a, b in sorted(refused)) + "].\n")
    out += copy_tables(loader.root)
    return "\n".join(out)
