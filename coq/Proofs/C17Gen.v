(* C17: the coefficient structure of the regulariser model IS the formula traced from
   losses/functional.py (derivatives as symbols), D = 2 and 3; denormalize_flow factors. *)
From Coq Require Import ZArith QArith List Field Ring Lia Bool.
From DV Require Import Base.Field Base.FieldFacts Base.LinAlg Base.Tactics Base.QcInst Model.Losses Model.RegStencil Model.Regularisers
  Gen.Regs Gen.FlowDeriv Proofs.C16Lists.
Import ListNotations.
Local Open Scope fld_scope.

Section G.
Variable K : fld.
Hypothesis Kf : is_field K.
Hypothesis Kc : char0 K.
Add Field KF : Kf.
Let two_nz := two_nz K Kf Kc.
Variables (m : dmode) (sp : list K) (i : idx) (fabs : K -> K) (lam mu : K).

Ltac nz := repeat split; repeat (first [assumption | exact two_nz | exact (one_nz K Kc) | apply (mul_nz K Kf)]).
Ltac open_pt := unfold bending_pt, curvature_pt, diffusion_pt, tv_pt, div_pt, elasticity_pt, sumf, dims;
  cbn [length seq map vsum Nat.ltb Nat.leb Nat.eqb comp nth]; unfold sq;
  unfold gen_bending2, gen_bending3, gen_curvature2, gen_curvature3, gen_diffusion2, gen_diffusion3, gen_tv2, gen_tv3,
    gen_divergence2, gen_divergence3, gen_elasticity2, gen_elasticity3, of_Q; cbn [of_Z of_pos].

Section D2.
Variables (nx ny : Z) (u v : idx -> K).
Let sh := [nx; ny].
Let U := [u; v].
Let s2 c d e := d2 m sh sp d e c i.
Let s1 c d := d1 m sh sp d c i.

Lemma gen2_ok :
  bending_pt m sh sp U i = gen_bending2 (s2 u 0 0) (s2 u 0 1) (s2 u 1 1) (s2 v 0 0) (s2 v 0 1) (s2 v 1 1) /\
  curvature_pt m sh sp U i = gen_curvature2 (s2 u 0 0) (s2 u 1 1) (s2 v 0 0) (s2 v 1 1) /\
  diffusion_pt m sh sp U i = gen_diffusion2 (s1 u 0) (s1 v 0) (s1 u 1) (s1 v 1) /\
  tv_pt m sh sp U i fabs = gen_tv2 fabs (s1 u 0) (s1 v 0) (s1 u 1) (s1 v 1) /\
  div_pt m sh sp U i = gen_divergence2 (s1 u 0) (s1 v 1) /\
  elasticity_pt m sh sp U i lam mu = gen_elasticity2 lam mu (s1 u 0) (s1 u 1) (s1 v 0) (s1 v 1).
Proof.
  unfold s2, s1, U, sh. repeat split; open_pt; try ring; field; nz.
Qed.
End D2.

Section D3.
Variables (nx ny nz : Z) (u v w : idx -> K).
Let sh := [nx; ny; nz].
Let U := [u; v; w].
Let s2 c d e := d2 m sh sp d e c i.
Let s1 c d := d1 m sh sp d c i.

Lemma gen3_ok :
  bending_pt m sh sp U i
    = gen_bending3 (s2 u 0 0) (s2 u 0 1) (s2 u 0 2) (s2 u 1 1) (s2 u 1 2) (s2 u 2 2)
                   (s2 v 0 0) (s2 v 0 1) (s2 v 0 2) (s2 v 1 1) (s2 v 1 2) (s2 v 2 2)
                   (s2 w 0 0) (s2 w 0 1) (s2 w 0 2) (s2 w 1 1) (s2 w 1 2) (s2 w 2 2) /\
  curvature_pt m sh sp U i
    = gen_curvature3 (s2 u 0 0) (s2 u 1 1) (s2 u 2 2) (s2 v 0 0) (s2 v 1 1) (s2 v 2 2) (s2 w 0 0) (s2 w 1 1) (s2 w 2 2) /\
  diffusion_pt m sh sp U i
    = gen_diffusion3 (s1 u 0) (s1 v 0) (s1 w 0) (s1 u 1) (s1 v 1) (s1 w 1) (s1 u 2) (s1 v 2) (s1 w 2) /\
  tv_pt m sh sp U i fabs
    = gen_tv3 fabs (s1 u 0) (s1 v 0) (s1 w 0) (s1 u 1) (s1 v 1) (s1 w 1) (s1 u 2) (s1 v 2) (s1 w 2) /\
  div_pt m sh sp U i = gen_divergence3 (s1 u 0) (s1 v 1) (s1 w 2) /\
  elasticity_pt m sh sp U i lam mu
    = gen_elasticity3 lam mu (s1 u 0) (s1 u 1) (s1 u 2) (s1 v 0) (s1 v 1) (s1 v 2) (s1 w 0) (s1 w 1) (s1 w 2).
Proof.
  unfold s2, s1, U, sh. repeat split; open_pt; try ring; field; nz.
Qed.
End D3.

(* ---- inverse consistency: unit conversion ------------------------------------------------------------ *)
(* denormalize_flow does what the flag says ... *)
Lemma denormalize_ok (e0 e1 e2 : K) :
  gen_denormalize_ac [e0; e1; e2] = ic_convert_spec UVoxel true [5; 7; 9]%Z [] [e0; e1; e2] /\
  gen_denormalize_nac [e0; e1; e2] = ic_convert_spec UVoxel false [5; 7; 9]%Z [] [e0; e1; e2].
Proof.
  split; fcbv; list_eq; field; nz.
Qed.

(* the zero error (an exact inverse pair) is zero in every unit *)
Lemma ic_zero un ac (n : list Z) (s : list K) (e : list K) :
  Forall (fun v => v = 0) e -> Forall (fun v => v = 0) (ic_convert_spec un ac n s e).
Proof.
  intro H. destruct un; cbn [ic_convert_spec]; [exact H| |].
  - revert n. induction H as [|x e Hx _ IH]; intros [|k n]; cbn [combine map]; constructor.
    + cbn [fst snd]. subst x. ring.
    + apply IH.
  - revert n s. induction H as [|x e Hx _ IH]; intros [|k n] s; cbn [combine map]; try constructor.
    destruct s as [|h s]; cbn [combine map]; constructor.
    + cbn [fst snd]. subst x. ring.
    + apply IH.
Qed.
(* the hand-written stencil model IS the stencils traced from core/image.py by the FlowDeriv unit (which also checks,
   fail-closed, that every position uses the clamped = replicate-padded neighbours): the cross smoothing of 'sobel' /
   'prewitt' and the three cases of the forward / central / backward scheme *)
Lemma stencil_tie sh (h : K) d (f : idx -> K) (q : idx) :
  smooth sh (1 + 1) d f q = gen_avg_sobel (f (cshift sh d q (-1))) (f q) (f (cshift sh d q 1)) /\
  smooth sh 1 d f q = gen_avg_prewitt (f (cshift sh d q (-1))) (f q) (f (cshift sh d q 1)) /\
  (h <> 0 ->
   (get d q = 0%Z -> fd sh h d f q = gen_fcb_first (f q) (f (shift d q 1)) h) /\
   (get d q <> 0%Z -> get d q = (nth d sh 0 - 1)%Z -> fd sh h d f q = gen_fcb_last (f (shift d q (-1))) (f q) h) /\
   (get d q <> 0%Z -> get d q <> (nth d sh 0 - 1)%Z -> fd sh h d f q = gen_fcb_mid (f (shift d q (-1))) (f (shift d q 1)) h)).
Proof.
  assert (H3 : (1 + (1 + 1) : K) <> 0) by (replace (1 + (1 + 1) : K) with (@of_pos K 3) by (cbn [of_pos]; ring); apply Kc).
  assert (H4 : (1 + 1 + (1 + 1) : K) <> 0) by (replace (1 + 1 + (1 + 1) : K) with (@of_pos K 4) by (cbn [of_pos]; ring); apply Kc).
  split; [|split].
  - unfold smooth, gen_avg_sobel, of_Q. cbn [of_Z of_pos]. field. nz.
  - unfold smooth, gen_avg_prewitt, of_Q. cbn [of_Z of_pos]. field. nz.
  - intro Hh. unfold fd, gen_fcb_first, gen_fcb_last, gen_fcb_mid. cbv zeta. cbn [of_Z of_pos]. repeat split.
    + intro E. rewrite E. cbn [Z.eqb]. reflexivity.
    + intros N0 E. apply Z.eqb_neq in N0. rewrite N0. rewrite E, Z.eqb_refl. reflexivity.
    + intros N0 N1. apply Z.eqb_neq in N0. apply Z.eqb_neq in N1. rewrite N0, N1. field. nz.
Qed.

(* every derivative mode of spatial_derivatives divides d/dx_a by the spacing of axis a and the second
   derivatives by the product of the two spacings (all linear operators on the data traced as the identity) *)
Lemma spacing_divisors_ok (h0 h1 h2 x : K) : h0 <> 0 -> h1 <> 0 -> h2 <> 0 ->
  gen_sd_forward h0 h1 h2 x = sd_spec h0 h1 h2 x /\ gen_sd_backward h0 h1 h2 x = sd_spec h0 h1 h2 x /\
  gen_sd_central h0 h1 h2 x = sd_spec h0 h1 h2 x /\ gen_sd_forward_central_backward h0 h1 h2 x = sd_spec h0 h1 h2 x /\
  gen_sd_prewitt h0 h1 h2 x = sd_spec h0 h1 h2 x /\ gen_sd_sobel h0 h1 h2 x = sd_spec h0 h1 h2 x /\
  gen_sd_gaussian h0 h1 h2 x = sd_spec h0 h1 h2 x /\ gen_sd_bspline h0 h1 h2 x = sd_spec h0 h1 h2 x.
Proof.
  intros H0 H1 H2.
  repeat split;
    unfold gen_sd_forward, gen_sd_backward, gen_sd_central, gen_sd_forward_central_backward, gen_sd_prewitt, gen_sd_sobel,
      gen_sd_gaussian, gen_sd_bspline, sd_spec; list_eq; field; auto.
Qed.

(* inverse_consistency_loss (traced with a stand-in grid of size (5, 7, 9), symbolic spacing and a symbolic
   cube-unit error e at every point): the reported value is the Euclidean norm of the error converted with
   the GRID's align_corners flag, for every unit *)
Definition sq_sum (l : list K) : K := vsum (map (fun a => a * a) l).
Lemma ic_units_ok (s0 s1 s2 e0 e1 e2 : K) :
  let n := [5; 7; 9]%Z in let s := [s0; s1; s2] in let e := [e0; e1; e2] in
  gen_ic_sq_cube_ac s0 s1 s2 e0 e1 e2 = sq_sum (ic_convert_spec UCube true n s e) /\
  gen_ic_sq_voxel_ac s0 s1 s2 e0 e1 e2 = sq_sum (ic_convert_spec UVoxel true n s e) /\
  gen_ic_sq_world_ac s0 s1 s2 e0 e1 e2 = sq_sum (ic_convert_spec UWorld true n s e) /\
  gen_ic_sq_cube_nac s0 s1 s2 e0 e1 e2 = sq_sum (ic_convert_spec UCube false n s e) /\
  gen_ic_sq_voxel_nac s0 s1 s2 e0 e1 e2 = sq_sum (ic_convert_spec UVoxel false n s e) /\
  gen_ic_sq_world_nac s0 s1 s2 e0 e1 e2 = sq_sum (ic_convert_spec UWorld false n s e).
Proof. repeat split; fcbv; field; nz. Qed.
End G.
