(* C06, clause 4 (continued): the ImageTransformer pipeline composed with C01's two-grid maps. *)
From Coq Require Import ZArith List Field Ring Lia Bool.
From DV Require Import Base.Field Base.FieldFacts Base.LinAlg Base.Tactics Model.Enums Model.Homog
  Model.Grid Model.Sampler Model.Transform Gen.Hmm Gen.GridT Gen.Transform
  Proofs.C01Grid Proofs.C01Laws Proofs.C01TwoA Proofs.C01TwoGrids Proofs.C08Hmm Proofs.SamplerFacts
  Proofs.C06Views Proofs.C06Warp.
Import ListNotations.
Local Open Scope fld_scope.

Section Pullback.
Variable K : fld.
Hypothesis Kf : is_field K.
Hypothesis Kc : char0 K.
Add Field KF_C06Pull : Kf.
Variable floorK : K -> Z.

Let K2 : (1 + 1 : K) <> 0 := two_nz K Kf Kc.
Let K1 : (1 : K) <> 0 := one_nz K Kc.
Hint Resolve K1 K2 : core.
Ltac side := repeat split; auto.
Ltac len2 X H := destruct X as [|?x0 [|?x1 [|? ?]]]; try discriminate H; clear H.
Ltac len3 X H := destruct X as [|?x0 [|?x1 [|?x2 [|? ?]]]]; try discriminate H; clear H.

(* zero fields *)
Lemma sample1_zero (pad : padmode) (n : nat) (p : K) : sample1 floorK pad (repeat (0 : K) n) p = 0.
Proof. unfold sample1, cell, interp1, lerp. rewrite !(getp_zero1 K). ring. Qed.
Theorem fresh_field_is_identity1 (ac : bool) (n : nat) (x : K) :
  warp_points1 floorK ac (repeat (0 : K) n) x = x.
Proof. unfold warp_points1, grid_sample1. rewrite sample1_zero. ring. Qed.

Lemma getp_zero2 (pad : padmode) (nx ny : nat) (ix iy : Z) :
  getp pad 0 (getp pad [] (repeat (repeat (0 : K) nx) ny) iy) ix = 0.
Proof.
  assert (H : getp pad [] (repeat (repeat (0 : K) nx) ny) iy = repeat 0 nx \/ getp pad [] (repeat (repeat (0 : K) nx) ny) iy = []).
  { unfold getp. destruct pad; [destruct (inb iy _); [|now right]|];
      (destruct (nth_in_or_default (Z.to_nat iy) (repeat (repeat (0:K) nx) ny) []) as [Hi | Hi];
       [left; apply repeat_spec in Hi; exact Hi | right; exact Hi]) ||
      (destruct (nth_in_or_default (Z.to_nat (clampz iy (zlen (repeat (repeat (0:K) nx) ny)))) (repeat (repeat (0:K) nx) ny) []) as [Hi | Hi];
       [left; apply repeat_spec in Hi; exact Hi | right; exact Hi]). }
  destruct H as [-> | ->]; [apply (getp_zero1 K) | apply (getp_zero1 K pad 0%nat)].
Qed.
Theorem fresh_field_is_identity2 (ac : bool) (nx ny mx my : nat) (x y : K) :
  warp_points2 floorK ac (repeat (repeat (0 : K) nx) ny) (repeat (repeat (0 : K) mx) my) [x; y] = [x; y].
Proof.
  unfold warp_points2, grid_sample2, sample2, cell, interp2, interp1, lerp. rewrite !getp_zero2. list_eq; ring.
Qed.

Variable D : nat.
Hypothesis HD : D = 2%nat \/ D = 3%nat.

Lemma cubeax_not_world (ac : bool) (B : axes) : not_WW (cubeax ac) B /\ not_WW B (cubeax ac).
Proof. destruct ac; split; intros [E1 E2]; discriminate. Qed.

(* the normalised sampling coordinates are the source-cube coordinates of T(world position of target sample j) *)
Lemma warp_coords_world (f : form) (a : nat -> nat -> K) (ac : bool) (tg g src : gridf) (J : list K) :
  gwf D tg -> gwf D g -> gwf D src -> length J = D ->
  warp_coords D f ac (tab D (fcols D f) a) tg g src (target_coord D ac tg J)
  = g_from_world D (cubeax ac) src (world_map D f (tab D (fcols D f) a) ac g (g_to_world D GRID tg J)).
Proof.
  intros Htg Hg Hsrc HJ. unfold warp_coords, target_coord, world_map, g_from_world, g_to_world, gN, gS, gC, gD.
  assert (NW : not_WW GRID (cubeax ac)) by (apply cubeax_not_world).
  rewrite (pts_is_T_map K Kf Kc D GRID (cubeax ac) _ _ _ _ J HD Htg NW HJ).
  assert (L0 : length (T_map D GRID (cubeax ac) (vtab D (fn_ tg)) (vtab D (fs_ tg)) (vtab D (fc_ tg)) (tab D D (fd_ tg)) J) = D).
  { unfold T_map. apply from_index_length; auto using to_index_length. }
  rewrite (pts2_is_T2_map K Kf Kc D HD (cubeax ac) (cubeax ac) (fn_ tg) (fs_ tg) (fc_ tg) (fd_ tg) (fn_ g) (fs_ g) (fc_ g) (fd_ g) _ Htg Hg L0).
  assert (L1 : length (T2_map D (cubeax ac) (cubeax ac) (vtab D (fn_ tg)) (vtab D (fs_ tg)) (vtab D (fc_ tg)) (tab D D (fd_ tg))
                          (vtab D (fn_ g)) (vtab D (fs_ g)) (vtab D (fc_ g)) (tab D D (fd_ g))
                          (T_map D GRID (cubeax ac) (vtab D (fn_ tg)) (vtab D (fs_ tg)) (vtab D (fc_ tg)) (tab D D (fd_ tg)) J)) = D)
    by (apply (T2_map_length K D HD); exact L0).
  rewrite (forward_is_map_l K Kf D HD) by exact L1.
  rewrite (pts2_is_T2_map K Kf Kc D HD (cubeax ac) (cubeax ac))
    by (auto; rewrite <- (forward_is_map_l K Kf D HD) by exact L1; apply (forward_length K D HD); exact L1).
  unfold T2_map, T_map.
  (* to_world (cube) tg (from_index cube (to_index GRID J)) = to_world GRID tg J *)
  assert (E : to_world D (cubeax ac) (vtab D (fn_ tg)) (vtab D (fs_ tg)) (vtab D (fc_ tg)) (tab D D (fd_ tg))
                (from_index D (cubeax ac) (vtab D (fn_ tg)) (vtab D (fs_ tg)) (vtab D (fc_ tg)) (tab D D (fd_ tg))
                   (to_index D GRID (vtab D (fn_ tg)) (vtab D (fs_ tg)) (vtab D (fc_ tg)) (tab D D (fd_ tg)) J))
              = to_world D GRID (vtab D (fn_ tg)) (vtab D (fs_ tg)) (vtab D (fc_ tg)) (tab D D (fd_ tg)) J).
  { destruct ac; cbn [cubeax to_world]; rewrite (to_from_index K Kf Kc) by (auto; apply to_index_length; auto); reflexivity. }
  rewrite E. reflexivity.
Qed.

(* ... and the position grid_sample reads is the continuous source index of that world point *)
Lemma from_world_cube_is_from_index (ac : bool) (src : gridf) (W : list K) :
  g_from_world D (cubeax ac) src W
  = from_index D (cubeax ac) (gN D src) (gS D src) (gC D src) (gD D src)
      (to_index D WORLD (gN D src) (gS D src) (gC D src) (gD D src) W).
Proof. destruct ac; reflexivity. Qed.
End Pullback.

Section Pullback23.
Variable K : fld.
Hypothesis Kf : is_field K.
Hypothesis Kc : char0 K.
Add Field KF_C06Pull23 : Kf.
Variable floorK : K -> Z.
Let K2 : (1 + 1 : K) <> 0 := two_nz K Kf Kc.
Let K1 : (1 : K) <> 0 := one_nz K Kc.
Hint Resolve K1 K2 : core.
Ltac side := repeat split; auto.

(* the traced 2-D sampling coordinates are the model's composition *)
Lemma gen_warp_coords2_is_model (f : form) (ac : bool) (a : nat -> nat -> K) (tg g src : gridf) (x : nat -> K) :
  gen_warp_coords2 f ac (gN 2 tg) (gS 2 tg) (gC 2 tg) (gD 2 tg) (gN 2 g) (gS 2 g) (gC 2 g) (gD 2 g)
     (gN 2 src) (gS 2 src) (gC 2 src) (gD 2 src) (tab 2 (fcols 2 f) a) (vtab 2 x)
  = warp_coords 2 f ac (tab 2 (fcols 2 f) a) tg g src (vtab 2 x).
Proof. destruct f, ac; reflexivity. Qed.

(* the traced flip_coords = True coordinates are: pre-map (x, y order), flip, transform, flip back, source map *)
Lemma gen_warp_coords_flip2_is_model (f : form) (ac : bool) (a : nat -> nat -> K) (tg g src : gridf) (x : nat -> K) :
  gen_warp_coords_flip2 f ac (gN 2 tg) (gS 2 tg) (gC 2 tg) (gD 2 tg) (gN 2 g) (gS 2 g) (gC 2 g) (gD 2 g)
     (gN 2 src) (gS 2 src) (gC 2 src) (gD 2 src) (tab 2 (fcols 2 f) a) (vtab 2 x)
  = warp_coords_flip 2 f ac (tab 2 (fcols 2 f) a) tg g src (vtab 2 x).
Proof. destruct f, ac; reflexivity. Qed.

(* a transform that does not care about the component order (the identity, in particular every fresh transform) gives the
   same sampling coordinates with and without flip_coords, for ANY target / transform / source grids *)
Lemma warp_coords_flip_identity (D : nat) (f : form) (ac : bool) (M : list (list K)) (tg g src : gridf) (xc : list K) :
  (forall y, gen_forward D f M y = y) ->
  warp_coords_flip D f ac M tg g src xc = warp_coords D f ac M tg g src xc.
Proof. intro H. unfold warp_coords_flip, warp_coords. rewrite !H, rev_involutive. reflexivity. Qed.

Theorem warp_is_pullback2 (pad : padmode) (f : form) (a : nat -> nat -> K) (ac : bool) (tg g src : gridf)
    (img : list (list K)) (j : nat -> K) (px py ax ay b : K) :
  gwf 2 tg -> gwf 2 g -> gwf 2 src ->
  gN 2 src = [of_Z (zlen (hd [] img)); of_Z (zlen img)] ->
  pullback_index 2 f ac (tab 2 (fcols 2 f) a) tg g src (vtab 2 j) = [px; py] ->
  (forall dx dy : Z, (dx = 0 \/ dx = 1)%Z -> (dy = 0 \/ dy = 1)%Z ->
     getp pad 0 (getp pad [] img (floorK py + dy)) (floorK px + dx)
     = ax * (of_Z (floorK px) + of_Z dx) + ay * (of_Z (floorK py) + of_Z dy) + b) ->
  warp_out2 floorK pad f ac (tab 2 (fcols 2 f) a) tg g src img (vtab 2 j) = ax * px + ay * py + b.
Proof.
  intros Htg Hg Hsrc Hn Hp Hramp. unfold warp_out2.
  rewrite (warp_coords_world K Kf Kc 2 (or_introl eq_refl)) by (auto; reflexivity).
  rewrite from_world_cube_is_from_index. unfold pullback_index in Hp. rewrite Hp.
  destruct Hsrc as (_ & Hnz & Hn1 & _).
  pose proof (Hnz 0%nat ltac:(lia)) as N0. pose proof (Hnz 1%nat ltac:(lia)) as N1.
  pose proof (Hn1 0%nat ltac:(lia)) as M0. pose proof (Hn1 1%nat ltac:(lia)) as M1.
  unfold gN in *. cbn [vtab map seq] in Hn. injection Hn as E0 E1.
  rewrite E0 in N0, M0. rewrite E1 in N1, M1.
  assert (EC : from_index 2 (cubeax ac) (vtab 2 (fn_ src)) (gS 2 src) (gC 2 src) (gD 2 src) [px; py]
               = [ (if ac then (1 + 1) * px / (of_Z (zlen (hd [] img)) - 1) - 1 else ((1 + 1) * px + 1) / of_Z (zlen (hd [] img)) - 1);
                   (if ac then (1 + 1) * py / (of_Z (zlen img) - 1) - 1 else ((1 + 1) * py + 1) / of_Z (zlen img) - 1) ]).
  { cbn [vtab map seq]. rewrite E0, E1. destruct ac; fcbv; list_eq; field; side. }
  rewrite EC. unfold grid_sample2. rewrite !(unnorm_from_index K Kf Kc) by auto.
  apply (sample2_affine K Kf floorK). exact Hramp.
Qed.

Theorem warp_is_pullback3 (pad : padmode) (f : form) (a : nat -> nat -> K) (ac : bool) (tg g src : gridf)
    (img : list (list (list K))) (j : nat -> K) (px py pz ax ay az b : K) :
  gwf 3 tg -> gwf 3 g -> gwf 3 src ->
  gN 3 src = [of_Z (zlen (hd [] (hd [] img))); of_Z (zlen (hd [] img)); of_Z (zlen img)] ->
  pullback_index 3 f ac (tab 3 (fcols 3 f) a) tg g src (vtab 3 j) = [px; py; pz] ->
  (forall dx dy dz : Z, (dx = 0 \/ dx = 1)%Z -> (dy = 0 \/ dy = 1)%Z -> (dz = 0 \/ dz = 1)%Z ->
     getp pad 0 (getp pad [] (getp pad [] img (floorK pz + dz)) (floorK py + dy)) (floorK px + dx)
     = ax * (of_Z (floorK px) + of_Z dx) + ay * (of_Z (floorK py) + of_Z dy) + az * (of_Z (floorK pz) + of_Z dz) + b) ->
  warp_out3 floorK pad f ac (tab 3 (fcols 3 f) a) tg g src img (vtab 3 j) = ax * px + ay * py + az * pz + b.
Proof.
  intros Htg Hg Hsrc Hn Hp Hramp. unfold warp_out3.
  rewrite (warp_coords_world K Kf Kc 3 (or_intror eq_refl)) by (auto; reflexivity).
  rewrite from_world_cube_is_from_index. unfold pullback_index in Hp. rewrite Hp.
  destruct Hsrc as (_ & Hnz & Hn1 & _).
  pose proof (Hnz 0%nat ltac:(lia)) as N0. pose proof (Hnz 1%nat ltac:(lia)) as N1. pose proof (Hnz 2%nat ltac:(lia)) as N2.
  pose proof (Hn1 0%nat ltac:(lia)) as M0. pose proof (Hn1 1%nat ltac:(lia)) as M1. pose proof (Hn1 2%nat ltac:(lia)) as M2.
  unfold gN in *. cbn [vtab map seq] in Hn. injection Hn as E0 E1 E2.
  rewrite E0 in N0, M0. rewrite E1 in N1, M1. rewrite E2 in N2, M2.
  assert (EC : from_index 3 (cubeax ac) (vtab 3 (fn_ src)) (gS 3 src) (gC 3 src) (gD 3 src) [px; py; pz]
               = [ (if ac then (1 + 1) * px / (of_Z (zlen (hd [] (hd [] img))) - 1) - 1 else ((1 + 1) * px + 1) / of_Z (zlen (hd [] (hd [] img))) - 1);
                   (if ac then (1 + 1) * py / (of_Z (zlen (hd [] img)) - 1) - 1 else ((1 + 1) * py + 1) / of_Z (zlen (hd [] img)) - 1);
                   (if ac then (1 + 1) * pz / (of_Z (zlen img) - 1) - 1 else ((1 + 1) * pz + 1) / of_Z (zlen img) - 1) ]).
  { cbn [vtab map seq]. rewrite E0, E1, E2. destruct ac; fcbv; list_eq; field; side. }
  rewrite EC. unfold grid_sample3. rewrite !(unnorm_from_index K Kf Kc) by auto.
  apply (sample3_affine K Kf floorK). exact Hramp.
Qed.
End Pullback23.
