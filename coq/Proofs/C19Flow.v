(* C19 -- the generic (shape based) branch of FlowFields.__torch_function__ on one batch of flow fields: the result is a
   plain tensor, an ImageBatch or a FlowFields with one grid per entry, aligned with the data, and the axes of the operand. *)
From Coq Require Import List ZArith Bool Arith Lia.
From DV Require Import Model.Enums Model.Batch Model.BatchSpec Proofs.C19Base Proofs.C19Generic Proofs.C19Aligned.
Import ListNotations.

Section Flow.
Variable gshape : gid -> shape.
Variable gaxes : gid -> axes.

Lemma res_flow_typed sh gs ax fl gs' :
  res_flow gshape sh (Some gs) (Some ax) = KOk (TBatch fl gs') ->
  (fl = None \/ fl = Some ax) /\ gs' = gs /\ length gs = nent sh /\ 4 <= ndim sh
  /\ Forall (fun g => gshape g = skipn 2 sh) gs
  /\ (forall g0 r, gs = g0 :: r -> ndim sh = length (gshape g0) + 2).
Proof.
  unfold res_flow. destruct gs as [|g0 r].
  - destruct ((4 <=? ndim sh) && (nent sh =? 0) && (nth 1 sh 0 =? ndim sh - 2)) eqn:E.
    + apply andb_true_iff in E. destruct E as [E _]. apply andb_true_iff in E. destruct E as [_ E0]. apply Nat.eqb_eq in E0.
      intros H. apply mk_batch_ok in H. destruct H as (H1 & H2 & H3 & _). inversion H1; subst.
      repeat split; auto. discriminate.
    + intros H. apply res_batch_typed in H. destruct H as (-> & -> & A & B & C). repeat split; auto. discriminate.
  - destruct ((ndim sh =? length (gshape g0) + 2) && (nent sh =? length (g0 :: r)) && (nth 1 sh 0 =? length (gshape g0))
              && shape_eqb (skipn 2 sh) (gshape g0)) eqn:E.
    + apply andb_true_iff in E. destruct E as [E _]. apply andb_true_iff in E. destruct E as [E _].
      apply andb_true_iff in E. destruct E as [End EN]. apply Nat.eqb_eq in End, EN.
      intros H. apply mk_batch_ok in H. destruct H as (H1 & H2 & H3 & _). inversion H1; subst.
      repeat split; auto. intros g1 r1 Heq. injection Heq as <- <-. exact End.
    + intros H. pose proof H as H'. apply res_batch_typed in H. destruct H as (-> & -> & A & B & C).
      repeat split; auto. intros g1 r1 Heq. injection Heq as <- <-. eapply res_batch_typed_ndim; eauto.
Qed.

Lemma res_flow_not_single sh g ax fl g' : res_flow gshape sh g ax = KOk (TSingle fl g') -> False.
Proof.
  unfold res_flow. destruct g as [[|g0 r]|]; destruct ax as [a|];
    repeat match goal with |- context [if ?c then _ else _] => destruct c end;
    intros H; try (apply mk_batch_ok in H; destruct H as (H1 & _); discriminate H1);
    try (eapply res_batch_not_single; eauto).
Qed.

Definition generic_result_flow (o : op) (s : shape) (ax : axes) (gs : list gid) : ores :=
  match data_sem o [s] with
  | DErr e => OErr e
  | DOne d => one_kind d (res_flow gshape (d_shape d) (Some gs) (Some ax))
  | DTuple ds => OTuple (map plain_out ds)
  end.

Lemma run_generic_flow o s ax gs :
  generic_op o = true ->
  run_op gshape gaxes o [mkT s (TBatch (Some ax) gs)] = generic_result_flow o s ax gs.
Proof.
  intros H. assert (Hax : axes_eqb ax ax = true) by (destruct ax; reflexivity).
  destruct o as [[|]| | | | | | | | | | | | | | | | | | | | | | | | | | | | | | | | ]; try discriminate H;
    unfold run_op, generic_result_flow;
    cbn [nth t_shape t_kind map choose_disp fold_left disp_of existsb insert_disp hd];
    unfold dispatch_batch; cbn [map t_kind t_shape];
    match goal with |- context [data_sem ?o ?l] => destruct (data_sem o l) eqn:ED end;
    try reflexivity;
    cbv [tf_axes kind_axes]; cbn [flat_map app forallb];
    cbv [tf_grid_batch kw_of class_of is_split_class dim_kw]; cbn [flat_map app flat_of];
    repeat match goal with
           | |- context [if ?c then _ else _] => destruct c
           end; try reflexivity.
Qed.

Theorem generic_flow_sound o s ax gs :
  generic_op o = true ->
  wf_val gshape (mkT s (TBatch (Some ax) gs)) ->
  aligned o s ->
  res_sound gshape [mkT s (TBatch (Some ax) gs)] (run_op gshape gaxes o [mkT s (TBatch (Some ax) gs)]).
Proof.
  intros Hg Hwf Hal. rewrite run_generic_flow by exact Hg. unfold generic_result_flow.
  destruct (data_sem o [s]) as [e|d|ds] eqn:ED; [exact I| |].
  - unfold one_kind. destruct (res_flow gshape (d_shape d) (Some gs) (Some ax)) as [e|k] eqn:ER; [exact I|].
    destruct k as [|fl gs'|fl g]; unfold res_sound, out_sound; cbn [v_kind v_shape v_src]; auto.
    + apply res_flow_typed in ER. destruct ER as (Hfl & -> & HN & H4 & HF & Hnd0).
      assert (Hnd : 0 < length gs -> ndim (d_shape d) = ndim s).
      { destruct gs as [|g0 r]; [simpl; lia|]. intros _.
        specialize (Hnd0 g0 r eq_refl). destruct Hwf as (_ & Hs4 & HFs). cbn [t_shape] in *.
        inversion HFs as [|? ? Hg0 _]; subst. rewrite Hg0, skipn_length in Hnd0. unfold ndim in *. lia. }
      destruct Hwf as (HL & _ & _). cbn [t_kind t_shape] in HL.
      split; [unfold wf_val, val_of; cbn [t_kind t_shape v_shape v_kind]; repeat split; auto|].
      intros i Hi. rewrite (Hal d ED) by (try apply Hnd; try congruence; lia).
      split; [apply coherent_single|]. split.
      * exists (0, i). split; [left; reflexivity|]. unfold entry_grid; cbn. apply nth_error_nth'. exact Hi.
      * intros ax' Hax'. exists (0, i). split; [left; reflexivity|]. unfold arg_axes; cbn.
        destruct Hfl as [-> | ->]; [discriminate Hax'|exact Hax'].
    + exfalso. eapply res_flow_not_single; eauto.
  - cbn [res_sound]. apply Forall_forall. intros x Hx. apply in_map_iff in Hx. destruct Hx as (d & <- & _).
    unfold out_sound; cbn. exact I.
Qed.

(* the typed result of a flow field operation keeps the axes of the operand or is an ImageBatch, never other axes *)
Theorem generic_flow_axes o s ax gs d fl gs' :
  generic_op o = true -> data_sem o [s] = DOne d ->
  run_op gshape gaxes o [mkT s (TBatch (Some ax) gs)] = OOne (mkO (d_shape d) (TBatch fl gs') (d_src d)) ->
  fl = None \/ fl = Some ax.
Proof.
  intros Hg Hd. rewrite run_generic_flow by exact Hg. unfold generic_result_flow. rewrite Hd. unfold one_kind.
  destruct (res_flow gshape (d_shape d) (Some gs) (Some ax)) as [e|k] eqn:ER; [discriminate|].
  intros H. injection H as ->. apply res_flow_typed in ER. tauto.
Qed.
End Flow.
