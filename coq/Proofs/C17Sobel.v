(* C17: every derivative mode of the stencil model (forward_central_backward, and 'sobel' / 'prewitt' with their
   replicate-padded cross smoothing) is exact on affine functions at every lattice point, in any dimension. *)
From Coq Require Import ZArith List Field Ring Lia Bool.
From DV Require Import Base.Field Base.FieldFacts Base.LinAlg Model.Losses Model.RegStencil
  Proofs.C16Lists Proofs.C17Stencil.
Import ListNotations.
Local Open Scope fld_scope.

Section Sobel.
Variable K : fld.
Hypothesis Kf : is_field K.
Hypothesis Kc : char0 K.
Add Field KF : Kf.

Definition smooth_weight (m : dmode) : K := match m with MPrewitt => 1 | _ => 1 + 1 end.

Lemma weight_nz m : smooth_weight m + (1 + 1) <> 0.
Proof.
  destruct m; cbn [smooth_weight].
  - replace (1 + 1 + (1 + 1) : K) with (@of_pos K 4) by (cbn [of_pos]; ring). apply Kc.
  - replace (1 + 1 + (1 + 1) : K) with (@of_pos K 4) by (cbn [of_pos]; ring). apply Kc.
  - replace (1 + (1 + 1) : K) with (@of_pos K 3) by (cbn [of_pos]; ring). apply Kc.
Qed.

Definition dstep_weight_form (m : dmode) sh h d (f : idx -> K) :
  m <> MFcb -> dstep m sh h d f = fd sh h d (smooth_others sh (smooth_weight m) d f).
Proof. intro Hm. destruct m; try contradiction; reflexivity. Qed.

(* every derivative mode differentiates affine functions exactly, at EVERY point of a lattice of any dimension *)
Lemma dstep_aff m sh (h : K) d c (a : list K) (i : idx) :
  h <> 0 -> (d < length i)%nat -> dstep m sh h d (aff c a) i = nth d a 0 / h.
Proof.
  intros Hh Hd. destruct m; cbn [dstep]; [apply (fd_aff K Kf Kc); assumption| |];
    apply (fd_slope K Kf Kc); try assumption; unfold smooth_others;
    apply (fold_smooth_slope K Kf); [exact (weight_nz MSobel) | apply (aff_slope K Kf) | exact (weight_nz MPrewitt) | apply (aff_slope K Kf)].
Qed.

(* ... and maps a function that is constant on the points of one length to zero *)
Lemma dstep_const m sh (h : K) d (g : idx -> K) v (i : idx) :
  (forall j, length j = length i -> g j = v) -> dstep m sh h d g i = 0.
Proof.
  intro Hg. destruct m; cbn [dstep].
  - apply (fd_const K Kf) with (v := v); apply Hg; rewrite ?shift_length; reflexivity.
  - apply (fd_const K Kf) with (v := v); unfold smooth_others;
      apply (fold_smooth_const K Kf sh _ d _ g v (length i) (weight_nz MSobel) Hg); rewrite ?shift_length; reflexivity.
  - apply (fd_const K Kf) with (v := v); unfold smooth_others;
      apply (fold_smooth_const K Kf sh _ d _ g v (length i) (weight_nz MPrewitt) Hg); rewrite ?shift_length; reflexivity.
Qed.

Lemma d1_aff m sh (sp : list K) d c (a : list K) (i : idx) :
  hs sp d <> 0 -> (d < length i)%nat -> d1 m sh sp d (aff c a) i = nth d a 0 / hs sp d.
Proof. intros. unfold d1. apply dstep_aff; assumption. Qed.

Lemma d2_aff m sh (sp : list K) d e c (a : list K) (i : idx) :
  hs sp (Nat.min d e) <> 0 -> (Nat.min d e < length i)%nat -> d2 m sh sp d e (aff c a) i = 0.
Proof.
  intros Hh Hd. unfold d2.
  apply dstep_const with (v := nth (Nat.min d e) a 0 / hs sp (Nat.min d e)).
  intros j Hj. apply dstep_aff; [exact Hh | rewrite Hj; exact Hd].
Qed.
End Sobel.
