(* Hand-written model of the deformation regularisers of losses/functional.py on top of the stencil
   model: value at a lattice point ('none'), reductions over the box, elastic constants, unit
   conversion of the inverse-consistency error.  Definitions only. *)
From Coq Require Import ZArith List Bool.
From DV Require Import Base.Field Base.LinAlg Model.Losses Model.RegStencil.
Import ListNotations.
Local Open Scope fld_scope.

Section Reg.
Context {K : fld}.
Notation img := (idx -> K).
Notation field := (list (idx -> K)).   (* components u_x, u_y, ... *)

Definition sq (a : K) : K := a * a.
Definition dims (sh : list Z) : list nat := seq 0 (length sh).
Definition sumf (l : list nat) (f : nat -> K) : K := vsum (map f l).
Definition comp (u : field) (c : nat) : img := nth c u (fun _ => 0).

Section Point.
Variable m : dmode.
Variable sh : list Z.
Variable sp : list K.
Variable u : field.
Variable i : idx.

(* bending_loss: sum over components and unordered pairs d <= e of (2 if d <> e) * (d^2 u_c / dd de)^2 *)
Definition bending_pt : K :=
  sumf (dims sh) (fun c => sumf (dims sh) (fun d => sumf (dims sh) (fun e =>
    if Nat.ltb e d then 0
    else (if Nat.eqb d e then 1 else 1 + 1) * sq (d2 m sh sp d e (comp u c) i)))).

(* curvature_loss: 1/2 sum_c (sum_j d^2 u_c / dj dj)^2 *)
Definition curvature_pt : K :=
  sumf (dims sh) (fun c => sq (sumf (dims sh) (fun j => d2 m sh sp j j (comp u c) i))) / (1 + 1).

(* diffusion_loss = 1/2 grad_loss(p=2, q=1): 1/2 sum_{c,d} (d u_c / dd)^2 *)
Definition diffusion_pt : K :=
  sumf (dims sh) (fun d => sumf (dims sh) (fun c => sq (d1 m sh sp d (comp u c) i))) / (1 + 1).

(* total_variation_loss = grad_loss(p=1, q=1) *)
Definition tv_pt (fabs : K -> K) : K :=
  sumf (dims sh) (fun d => sumf (dims sh) (fun c => fabs (d1 m sh sp d (comp u c) i))).

(* divergence_loss: 1/2 (sum_c d u_c / dc)^2 *)
Definition div_pt : K := sq (sumf (dims sh) (fun c => d1 m sh sp c (comp u c) i)) / (1 + 1).

(* elasticity_loss: lambda/2 (tr J)^2 + mu/4 sum_{j,k} (J_jk + J_kj)^2,  J_jk = d u_j / dk *)
Definition elasticity_pt (lambda mu : K) : K :=
  sq (sumf (dims sh) (fun c => d1 m sh sp c (comp u c) i)) * (lambda / (1 + 1))
  + sumf (dims sh) (fun j => sumf (dims sh) (fun k =>
      sq (d1 m sh sp k (comp u j) i + d1 m sh sp j (comp u k) i) * (mu / ((1 + 1) * (1 + 1))))).
End Point.

(* 'none' output = values over the box (x fastest); reductions as in Model/Losses.v *)
Definition over_box (sh : list Z) (f : idx -> K) : list K := map f (box sh).
Definition reg_loss (r : reduction) (sh : list Z) (f : idx -> K) : list K :=
  reduce_loss r (over_box sh f) None.

(* vector fields *)
Definition affine_field (c : list K) (A : list (list K)) : field :=
  map (fun p => aff (fst p) (snd p)) (combine c A).
Definition field_plus (u v : field) : field := map (fun p => fplus (fst p) (snd p)) (combine u v).
Definition field_scale (s : K) (u : field) : field := map (fscale s) u.
Definition field_of_flat (sh : list Z) (data : list (list K)) : field := map (of_flat sh) data.

(* ---- elastic constants: defining relations of (lambda, mu) ------------------------------------- *)
(* Young's modulus E and Poisson's ratio nu of a material with Lame parameters (lambda, mu) *)
Definition youngs_of (lambda mu : K) : K := mu * ((1 + 1 + 1) * lambda + (1 + 1) * mu) / (lambda + mu).
Definition poisson_of (lambda mu : K) : K := lambda / ((1 + 1) * (lambda + mu)).

(* ---- inverse consistency: conversion of a cube-unit error vector ---------------------------------- *)
Inductive units := UCube | UVoxel | UWorld.
(* what the report should be on a grid with sizes n, spacing s and the given align_corners flag:
   one voxel is 2/(n-1) cube units with align_corners, 2/n without *)
Definition cube_to_voxel (ac : bool) (n : Z) : K :=
  (if ac then of_Z (n - 1) else of_Z n) / (1 + 1).
Definition ic_convert_spec (un : units) (ac : bool) (n : list Z) (s : list K) (e : list K) : list K :=
  match un with
  | UCube => e
  | UVoxel => map (fun p => snd p * cube_to_voxel ac (fst p)) (combine n e)
  | UWorld => map (fun p => snd (fst p) * cube_to_voxel ac (fst (fst p)) * snd p) (combine (combine n e) s)
  end.

(* what every derivative mode must divide by: d/dx_a by spacing_a, d2/dx_a dx_b by spacing_a * spacing_b
   (keys x, y, z, xx, xy, xz, yy, yz, zz of a 3-D image with spacing (h0, h1, h2)) *)
Definition sd_spec (h0 h1 h2 x : K) : list K :=
  [x / h0; x / h1; x / h2; x / (h0 * h0); x / (h0 * h1); x / (h0 * h2); x / (h1 * h1); x / (h1 * h2); x / (h2 * h2)].
End Reg.

(* ---- mode 'bspline': the field is read as cubic B-spline coefficients ------------------------------------ *)
Section BSplineMode.
Context {K : fld}.
(* wf o t: the four interpolation weights of derivative order o at offset t in [0, 1) between control points
   (cubic_bspline_interpolation_weights; instantiated with the generated gen_w) *)
Variable wf : nat -> K -> list K.

(* evaluate_cubic_bspline with per-axis derivative orders: tensor product over the 4^D coefficients that start
   at the multi-index base; ts = offsets per axis; x first *)
Fixpoint bsev (ords : list nat) (ts : list K) (base : idx) (f : idx -> K) (acc : idx) : K :=
  match ords, ts, base with
  | o :: ords', t :: ts', b :: base' =>
      dot (wf o t) (map (fun m => bsev ords' ts' base' f (acc ++ [(b + m)%Z])) [0; 1; 2; 3]%Z)
  | _, _, _ => f acc
  end.

(* spatial_derivatives(mode='bspline') at output point p (stride s per axis: control point p / s, offset
   (p mod s) / s), divided by spacing^order per axis *)
Definition bs_base (stride : list Z) (p : idx) : idx := map (fun q => (fst q / snd q)%Z) (combine p stride).
Definition bs_offs (stride : list Z) (p : idx) : list K :=
  map (fun q => of_Z (fst q mod snd q)%Z / of_Z (snd q)) (combine p stride).
Fixpoint fpown (x : K) (n : nat) : K := match n with O => 1 | S n' => x * fpown x n' end.
Definition bs_denom (sp : list K) (ords : list nat) : K :=
  fold_right (fun q acc => fpown (fst q) (snd q) * acc) 1 (combine sp ords).
Definition bs_deriv (stride : list Z) (sp : list K) (ords : list nat) (f : idx -> K) (p : idx) : K :=
  bsev ords (bs_offs stride p) (bs_base stride p) f [] / bs_denom sp ords.

(* order vector of the derivative along axes d and e *)
Definition ord2 (D d e : nat) : list nat :=
  map (fun a => ((if Nat.eqb a d then 1 else 0) + (if Nat.eqb a e then 1 else 0))%nat) (seq 0 D).
(* bending_loss(mode='bspline') at an output point *)
Definition bs_bending_pt (D : nat) (stride : list Z) (sp : list K) (u : list (idx -> K)) (p : idx) : K :=
  sumf (seq 0 D) (fun c => sumf (seq 0 D) (fun d => sumf (seq 0 D) (fun e =>
    if Nat.ltb e d then 0
    else (if Nat.eqb d e then 1 else 1 + 1) * sq (bs_deriv stride sp (ord2 D d e) (comp u c) p)))).
(* output lattice: (n - 3) * stride points per axis *)
Definition bs_out_shape (sh stride : list Z) : list Z := map (fun q => ((fst q - 3) * snd q)%Z) (combine sh stride).
End BSplineMode.
