(* C09 -- direct access to a composite (forward / tensor / disp WITHOUT __call__, hence without the
   update hook): when every non-rigid member's buffered field is absent or up to date -- in
   particular right after clear_buffers() on the composite, which forwards the invalidation to the
   members -- the composite evaluates exactly what its members hold. *)
From Coq Require Import List Bool Arith Lia.
From DV Require Import Model.TransformState Proofs.C09Fresh Proofs.C09Replace Proofs.C09Wf Proofs.C09Seq.
Import ListNotations.

Section Direct.
Context {P G C : Type}.
Variable p0 : P.
Variable emptyP : kind -> G -> P.
Variable zeroP : P -> P.
Variable fillP : P -> P -> P.
Variable regrid : kind -> P -> G -> G -> P.
Variable callP : nat -> option C -> P.
Variable fits : kind -> P -> G -> bool.
Variable geq same_dom : G -> G -> bool.
Variable spline_ok : G -> bool.
Variable ffd_sub : G -> G -> option bool.
Variable cf : cfg.
Hypothesis Hcf : cfg_all cf = true.

Notation state := (state P G C).
Notation obj := (obj P G C).
Notation tval := (tval P G C p0).
Notation get_obj := (get_obj P G C).
Notation set_obj := (set_obj P G C).
Notation get_params := (get_params P G C).
Notation update1 := (update1 P G C p0 callP fits spline_ok cf).
Notation tensor1 := (tensor1 P G C p0 callP fits spline_ok cf).
Notation tensor_all := (tensor_all P G C p0 callP fits spline_ok cf).
Notation forward := (forward P G C p0 callP fits spline_ok cf).
Notation held := (held P G C p0 callP).
Notation tag_of := (tag_of P G C p0).
Notation wf := (@wf P G C).
Notation plain := (plain (P:=P) (G:=G) (C:=C)).
Notation ext := (ext (P:=P) (G:=G) (C:=C)).
Notation frame := (frame (P:=P) (G:=G) (C:=C)).
Notation clear_buffers := (clear_buffers P G C cf).
Notation tlen s := (length (tens P G C s)).

(* member m can be read directly in state s and yields what it held in s0 *)
Definition ready (s0 s : state) (m : nat) : Prop :=
  exists ob, get_obj s m = Some ob /\ o_kind P G C ob <> KSeq /\
    ((is_nonrigid (o_kind P G C ob) = true /\ o_u P G C ob = None) \/
     (is_nonrigid (o_kind P G C ob) = true /\ exists ub, o_u P G C ob = Some ub /\ held s0 m = Some (tag_of s ub)) \/
     (o_kind P G C ob = KLin /\ exists r ip, get_params s ob = Some (VTen r ip))).

Record inv (s0 s : state) (ms : list nat) : Prop := {
  i_wf0 : wf s0; i_wf : wf s; i_ext : ext s0 s;
  i_plain : Forall (plain s0) ms; i_ready : Forall (ready s0 s) ms }.

Lemma tag_of_prefix s s1 ub n :
  u_ok n (Some ub) -> n = tlen s -> prefix (P:=P) (G:=G) (C:=C) s s1 -> tag_of s1 ub = tag_of s ub.
Proof.
  intros Hu -> Hp. unfold TransformState.tag_of. destruct (u_src P G ub) eqn:Es; auto.
  f_equal. f_equal. apply (prefix_tval p0 s s1 _ Hp). eapply Hu; eauto.
Qed.

Lemma ready_frame s0 s s1 m : wf s -> frame m s s1 -> ready s0 s m -> ready s0 s1 m.
Proof.
  intros Hw (Hp & Ep & Ho) (ob & Hg & Hk & Hc). exists ob. rewrite Ho. split; auto. split; auto.
  pose proof (wf_get _ _ _ Hw Hg) as Hob.
  destruct Hc as [Hc | [(Hn & ub & Eu & Hh) | (Hl & r & ip & Egp)]]; auto.
  - right. left. split; auto. exists ub. split; auto. rewrite Hh. f_equal.
    symmetry. eapply tag_of_prefix; eauto. rewrite <- Eu. apply (ok_u _ _ Hob).
  - right. right. split; auto. exists r, ip. rewrite (get_params_pds s s1 ob Ep). exact Egp.
Qed.

(* one direct read *)
Lemma read_step s0 s ms m t s' :
  inv s0 s ms -> In m ms -> tensor1 s m = Ok t s' -> held s0 m = Some t /\ inv s0 s' ms.
Proof.
  destruct (cfg_all_fields _ Hcf) as (_ & _ & _ & _ & _ & _ & Htu & _).
  intros [Hw0 Hw He Hpl Hrd] Hin Ht.
  pose proof Hrd as Hrd'. rewrite Forall_forall in Hrd'. destruct (Hrd' m Hin) as (ob & Hg & Hk & Hc).
  pose proof Hpl as Hpl'. rewrite Forall_forall in Hpl'. pose proof (Hpl' m Hin) as Hpm.
  destruct Hc as [(Hn & Eu) | [(Hn & ub & Eu & Hh) | (Hl & r & ip & Egp)]].
  - (* recomputed now *)
    assert (Hcl : cleared s m) by (exists ob; auto).
    pose proof (tensor_when_cleared p0 callP fits spline_ok cf Hcf s m t s' Hcl Ht) as Hhs.
    assert (Hh0 : held s0 m = Some t) by (rewrite <- Hhs; symmetry; apply held_ext; auto).
    split; auto.
    (* the read is update1 followed by reading the new u *)
    unfold TransformState.tensor1, with_obj in Ht. fold (get_obj s m) in Ht. rewrite Hg, Eu, Htu in Ht.
    assert (Hx : exists s1, update1 s m = Ok tt s1 /\ exists ob1 ub, get_obj s1 m = Some ob1 /\ o_u P G C ob1 = Some ub
                          /\ t = tag_of s1 ub /\ s' = s1).
    { destruct (o_kind P G C ob) eqn:Ek; cbn in Hn; try discriminate.
      all: unfold bind in Ht; destruct (update1 s m) as [[] s1|] eqn:Eu1; try discriminate;
        exists s1; split; auto; fold (get_obj s1 m) in Ht;
        destruct (get_obj s1 m) as [ob1|] eqn:Hg1; try discriminate;
        destruct (o_u P G C ob1) as [ub|] eqn:Eub; try discriminate;
        injection Ht as <- <-; exists ob1, ub; auto. }
    destruct Hx as (s1 & Eu1 & ob1 & ub & Hg1 & Eub & -> & ->).
    pose proof (update1_touches p0 callP fits spline_ok cf Hcf s m s1 ob Hg Eu1) as Htch.
    assert (Hw1 : wf s1).
    { pose proof (update1_post p0 emptyP zeroP fillP regrid callP fits geq same_dom spline_ok ffd_sub cf s m Hw) as [Hx _].
      rewrite Eu1 in Hx. exact Hx. }
    constructor; auto.
    + eapply ext_trans; [exact He | eapply touches_ext; eauto].
    + rewrite Forall_forall. intros m' Hin'. destruct (Nat.eq_dec m m') as [<-|Hne].
      * exists ob1. split; auto.
        assert (Hk1 : o_kind P G C ob1 = o_kind P G C ob).
        { destruct Htch as (extra & obx & oby & _ & _ & Hgx & Eo & Hss & _).
          rewrite Hg in Hgx. injection Hgx as <-.
          unfold TransformState.get_obj in Hg1. rewrite Eo in Hg1.
          erewrite nth_error_replace_same in Hg1 by exact Hg. injection Hg1 as <-. apply Hss. }
        split; [congruence|]. right. left. split; [congruence|]. exists ub. auto.
      * eapply ready_frame; [exact Hw | eapply touches_frame; eauto | auto].
  - (* buffered and up to date *)
    unfold TransformState.tensor1, with_obj in Ht. fold (get_obj s m) in Ht. rewrite Hg, Eu in Ht.
    assert (Hx : t = tag_of s ub /\ s' = s).
    { destruct (o_kind P G C ob); cbn in Hn; try discriminate; injection Ht as <- <-; auto. }
    destruct Hx as [-> ->]. split; auto. constructor; auto.
  - (* linear transform holding a tensor *)
    unfold TransformState.tensor1, with_obj in Ht. fold (get_obj s m) in Ht. rewrite Hg, Hl in Ht.
    unfold bind, data_ref in Ht. rewrite Egp in Ht. injection Ht as <- <-.
    split; [|constructor; auto].
    rewrite <- (held_ext p0 callP s0 s m Hw0 He Hpm).
    unfold TransformState.held. fold (get_obj s m). rewrite Hg, Egp. unfold sign_of. rewrite Hl. reflexivity.
Qed.

Lemma read_all s0 ms : forall sub s l s',
  incl sub ms -> inv s0 s ms -> tensor_all s sub = Ok l s' ->
  Forall2 (fun t m => held s0 m = Some t) l sub.
Proof.
  induction sub as [|m sub IH]; intros s l s' Hi Hinv H; cbn in H.
  - injection H as <- _. constructor.
  - unfold bind in H. destruct (tensor1 s m) as [t s1|] eqn:Et; try discriminate.
    destruct (read_step s0 s ms m t s1 Hinv (Hi m (or_introl eq_refl)) Et) as [Hh Hinv1].
    destruct (tensor_all s1 sub) as [ts s2|] eqn:Ea; try discriminate. injection H as <- _.
    constructor; auto. eapply IH; eauto. intros x Hx. apply Hi. right. exact Hx.
Qed.

(* general form: any state in which the members are ready *)
Theorem composite_direct_fresh s o ob l s' :
  wf s -> get_obj s o = Some ob -> o_kind P G C ob = KSeq ->
  Forall (plain s) (o_members P G C ob) -> Forall (ready s s) (o_members P G C ob) ->
  forward s o = Ok l s' ->
  Forall2 (fun t m => held s m = Some t) l (o_members P G C ob).
Proof.
  intros Hw Hg Hk Hpl Hrd Hf.
  unfold TransformState.forward, with_obj in Hf. fold (get_obj s o) in Hf. rewrite Hg, Hk in Hf.
  eapply (read_all s (o_members P G C ob)); [apply incl_refl | | exact Hf].
  constructor; auto. apply ext_refl.
Qed.

(* ---------- after clear_buffers() on the composite ---------- *)
Lemma clear_obj_idem (ob : obj) : clear_obj P G C cf (clear_obj P G C cf ob) = clear_obj P G C cf ob.
Proof.
  unfold clear_obj. destruct (is_nonrigid (o_kind P G C ob)) eqn:E; [|rewrite E; reflexivity].
  rewrite kind_set_uv, E. destruct (c_clear_u cf), (c_clear_v cf); destruct ob; reflexivity.
Qed.

Lemma fold_clear_get l : forall s n,
  get_obj (fold_left (clear1 P G C cf) l s) n =
  if in_dec Nat.eq_dec n l then option_map (clear_obj P G C cf) (get_obj s n) else get_obj s n.
Proof.
  induction l as [|m l IH]; intros s n; cbn [fold_left]; [reflexivity|].
  rewrite IH.
  assert (Hc : get_obj (clear1 P G C cf s m) n =
               if Nat.eq_dec m n then option_map (clear_obj P G C cf) (get_obj s n) else get_obj s n).
  { unfold clear1. destruct (Nat.eq_dec m n) as [<-|Hne].
    - fold (get_obj s m). destruct (get_obj s m) as [ob|] eqn:E; cbn; [|rewrite E; reflexivity].
      apply (get_set_same' _ _ _ _ E).
    - fold (get_obj s m). destruct (get_obj s m) as [ob|]; auto.
      unfold TransformState.get_obj, TransformState.set_obj; cbn. apply nth_error_replace_other; exact Hne. }
  rewrite Hc.
  destruct (in_dec Nat.eq_dec n l) as [Hl|Hl]; destruct (in_dec Nat.eq_dec n (m :: l)) as [Hm|Hm];
    destruct (Nat.eq_dec m n) as [E|E]; try reflexivity;
    try solve [exfalso; cbn in Hm; intuition congruence].
  destruct (get_obj s n); cbn; [rewrite clear_obj_idem|]; reflexivity.
Qed.

Lemma fold_clear_frame l : forall s, pds P G C (fold_left (clear1 P G C cf) l s) = pds P G C s /\
                                     tens P G C (fold_left (clear1 P G C cf) l s) = tens P G C s.
Proof.
  induction l as [|m l IH]; intro s; cbn [fold_left]; auto.
  destruct (IH (clear1 P G C cf s m)) as [-> ->]. unfold clear1. destruct (TransformState.get_obj P G C s m); auto.
Qed.

(* members a composite can be read through directly once their buffers are invalidated *)
Definition direct_member (s : state) (m : nat) : Prop :=
  plain s m /\ exists ob, get_obj s m = Some ob /\
    (is_nonrigid (o_kind P G C ob) = true \/ (o_kind P G C ob = KLin /\ exists r ip, get_params s ob = Some (VTen r ip))).

Theorem composite_direct_after_clear s o ob l s' :
  wf s -> get_obj s o = Some ob -> o_kind P G C ob = KSeq ->
  Forall (direct_member s) (o_members P G C ob) ->
  forward (clear_buffers s o) o = Ok l s' ->
  Forall2 (fun t m => held (clear_buffers s o) m = Some t) l (o_members P G C ob).
Proof.
  destruct (cfg_all_fields _ Hcf) as (_ & _ & _ & _ & Hcu & _ & _ & _ & _ & _ & _ & _ & _ & Hsc & _).
  intros Hw Hg Hk Hdm Hf.
  set (ms := o_members P G C ob) in *.
  assert (Es : clear_buffers s o = fold_left (clear1 P G C cf) ms s).
  { unfold TransformState.clear_buffers. fold (get_obj s o). rewrite Hg, Hk, Hsc. reflexivity. }
  rewrite Es in *. set (s1 := fold_left (clear1 P G C cf) ms s) in *.
  destruct (fold_clear_frame ms s) as [Epd Ete]. fold s1 in Epd, Ete.
  assert (Hno : ~ In o ms).
  { intro Hin. rewrite Forall_forall in Hdm. destruct (Hdm o Hin) as ((ob' & Hg' & Hk' & _) & _). congruence. }
  assert (Hgo : get_obj s1 o = Some ob).
  { subst s1. rewrite fold_clear_get. destruct (in_dec Nat.eq_dec o ms); [contradiction | exact Hg]. }
  assert (Hw1 : wf s1).
  { subst s1. apply (wf_fold_clear p0 emptyP zeroP fillP regrid callP fits geq same_dom spline_ok ffd_sub cf); auto. }
  assert (Hgp : forall a, get_params s1 (clear_obj P G C cf a) = get_params s a).
  { intro a. unfold TransformState.get_params, get_pd. rewrite Epd. unfold clear_obj.
    destruct (is_nonrigid (o_kind P G C a)); destruct a; reflexivity. }
  assert (Hkc : forall a, o_kind P G C (clear_obj P G C cf a) = o_kind P G C a).
  { intro a. unfold clear_obj. destruct (is_nonrigid (o_kind P G C a)); destruct a; reflexivity. }
  eapply composite_direct_fresh; eauto.
  - rewrite Forall_forall in *. intros m Hin. destruct (Hdm m Hin) as ((obm & Hgm & Hkm & Hnl) & _).
    exists (clear_obj P G C cf obm). split; [|split].
    + subst s1. rewrite fold_clear_get. destruct (in_dec Nat.eq_dec m ms); [|contradiction]. rewrite Hgm. reflexivity.
    + rewrite Hkc. exact Hkm.
    + intro o'. rewrite Hgp. apply Hnl.
  - rewrite Forall_forall in *. intros m Hin. destruct (Hdm m Hin) as (_ & obm & Hgm & Hc).
    exists (clear_obj P G C cf obm). split; [|split].
    + subst s1. rewrite fold_clear_get. destruct (in_dec Nat.eq_dec m ms); [|contradiction]. rewrite Hgm. reflexivity.
    + rewrite Hkc. destruct Hc as [Hn | [Hl _]]; [destruct (o_kind P G C obm); cbn in Hn; congruence | congruence].
    + destruct Hc as [Hn | (Hl & r & ip & Egp)].
      * left. rewrite Hkc. split; auto. unfold clear_obj. rewrite Hn, Hcu. destruct obm; reflexivity.
      * right. right. rewrite Hkc. split; auto. exists r, ip. rewrite Hgp. exact Egp.
Qed.

End Direct.
