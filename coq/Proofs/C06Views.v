(* C06, clause 2 for linear models: transform(points), disp(grid), matrix()/tensor(), points(..., axes) and
   PointSetTransformer describe one world-space map. *)
From Coq Require Import ZArith List Field Ring Lia.
From DV Require Import Base.Field Base.FieldFacts Base.LinAlg Base.Tactics Model.Enums Model.Homog
  Model.Grid Model.Transform Gen.Hmm Gen.GridT Gen.Transform
  Proofs.C01Grid Proofs.C01Laws Proofs.C01TwoA Proofs.C01TwoGrids Proofs.C08Hmm.
Import ListNotations.
Local Open Scope fld_scope.

Section Views.
Variable K : fld.
Hypothesis Kf : is_field K.
Hypothesis Kc : char0 K.
Add Field KF_C06Views : Kf.

Ltac len2 X H := destruct X as [|?x0 [|?x1 [|? ?]]]; try discriminate H; clear H.
Ltac len3 X H := destruct X as [|?x0 [|?x1 [|?x2 [|? ?]]]]; try discriminate H; clear H.

Variable D : nat.
Hypothesis HD : D = 2%nat \/ D = 3%nat.

(* the traced __call__ / transform_points / transform_grid of a linear transform is the affine map its
   tensor denotes, for each operand form *)
Lemma forward_is_map (f : form) (a : nat -> nat -> K) (x : nat -> K) :
  view_forward D f (tab D (fcols D f) a) (vtab D x) = form_apply D f (tab D (fcols D f) a) (vtab D x).
Proof. destruct HD as [-> | ->]; destruct f; fcbv; list_eq; ring. Qed.

Lemma forward_length (f : form) (a : nat -> nat -> K) (X : list K) : length X = D ->
  length (view_forward D f (tab D (fcols D f) a) X) = D.
Proof.
  intro HX. destruct HD as [-> | ->]; [len2 X HX | len3 X HX]; destruct f; reflexivity.
Qed.

(* matrix() is the homogeneous matrix of the same map *)
Lemma matrix_is_map (f : form) (a : nat -> nat -> K) (x : nat -> K) :
  happly D (view_matrix D f (tab D (fcols D f) a)) (vtab D x) = form_apply D f (tab D (fcols D f) a) (vtab D x)
  /\ view_matrix D f (tab D (fcols D f) a) = gen_ashom D f (tab D (fcols D f) a).
Proof. destruct HD as [-> | ->]; destruct f; split; fcbv; list_eq; try reflexivity; ring. Qed.

(* the dense field: value at a point with cube coordinates x is T(x) - x, i.e. x + disp(x) = transform(x) *)
Lemma disp_is_displacement (f : form) (a : nat -> nat -> K) (x : nat -> K) :
  view_disp D f (tab D (fcols D f) a) (vtab D x) = vsub (form_apply D f (tab D (fcols D f) a) (vtab D x)) (vtab D x)
  /\ vadd (vtab D x) (view_disp D f (tab D (fcols D f) a) (vtab D x)) = view_forward D f (tab D (fcols D f) a) (vtab D x).
Proof. destruct HD as [-> | ->]; destruct f; split; fcbv; list_eq; ring. Qed.

(* vtab enumerates the vectors of length D *)
Lemma vtab_all (X : list K) : length X = D -> X = vtab D (fun i => nth i X 0).
Proof. intro HX. destruct HD as [-> | ->]; [len2 X HX | len3 X HX]; reflexivity. Qed.

Lemma forward_is_map_l (f : form) (a : nat -> nat -> K) (X : list K) : length X = D ->
  view_forward D f (tab D (fcols D f) a) X = form_apply D f (tab D (fcols D f) a) X.
Proof. intro HX. rewrite (vtab_all X HX). apply forward_is_map. Qed.

(* points(x, grid=g1, axes=A, to_grid=g2, to_axes=B) and PointSetTransformer: the world map, re-expressed *)
Lemma points2_is_world_map (f : form) (a : nat -> nat -> K) (ac : bool) (g g1 g2 : gridf) (A B : axes) (X : list K) :
  gwf D g -> gwf D g1 -> gwf D g2 -> length X = D ->
  view_points2 D f (tab D (fcols D f) a) ac g A g1 B g2 X
  = g_from_world D B g2 (world_map D f (tab D (fcols D f) a) ac g (g_to_world D A g1 X)).
Proof.
  intros Hg Hg1 Hg2 HX. unfold view_points2, world_map, g_from_world, g_to_world, gN, gS, gC, gD.
  rewrite (pts2_is_T2_map K Kf Kc D HD A (cubeax ac)) by auto.
  assert (L1 : length (T2_map D A (cubeax ac) (vtab D (fn_ g1)) (vtab D (fs_ g1)) (vtab D (fc_ g1)) (tab D D (fd_ g1))
                          (vtab D (fn_ g)) (vtab D (fs_ g)) (vtab D (fc_ g)) (tab D D (fd_ g)) X) = D)
    by (apply (T2_map_length K D HD); auto).
  rewrite forward_is_map_l by exact L1.
  rewrite (pts2_is_T2_map K Kf Kc D HD (cubeax ac) B) by (auto; rewrite <- forward_is_map_l by exact L1; apply forward_length; exact L1).
  unfold T2_map. reflexivity.
Qed.

(* the same for ANY transform acting as a map T of its own cube coordinates (non-rigid models, composites) *)
Lemma points2_gen_is_world_map (T : list K -> list K) (ac : bool) (g g1 g2 : gridf) (A B : axes) (X : list K) :
  (forall Y, length Y = D -> length (T Y) = D) ->
  gwf D g -> gwf D g1 -> gwf D g2 -> length X = D ->
  view_points2_gen D T ac g A g1 B g2 X = g_from_world D B g2 (world_map_gen D T ac g (g_to_world D A g1 X)).
Proof.
  intros HT Hg Hg1 Hg2 HX. unfold view_points2_gen, world_map_gen, g_from_world, g_to_world, gN, gS, gC, gD.
  rewrite (pts2_is_T2_map K Kf Kc D HD A (cubeax ac)) by auto.
  assert (L1 : length (T2_map D A (cubeax ac) (vtab D (fn_ g1)) (vtab D (fs_ g1)) (vtab D (fc_ g1)) (tab D D (fd_ g1))
                          (vtab D (fn_ g)) (vtab D (fs_ g)) (vtab D (fc_ g)) (tab D D (fd_ g)) X) = D)
    by (apply (T2_map_length K D HD); auto).
  rewrite (pts2_is_T2_map K Kf Kc D HD (cubeax ac) B) by auto.
  unfold T2_map. reflexivity.
Qed.

(* the dense field on ANY grid h, when the matrix is re-expressed in h's cube, describes the world map *)
Lemma disp_reexpressed_describes_world_map (f : form) (a : nat -> nat -> K) (ac ac' : bool) (g h : gridf) (X : list K) :
  gwf D g -> gwf D h -> length X = D ->
  disp_reexpressed D f (tab D (fcols D f) a) ac g ac' h X
  = field_of_world_map D (world_map D f (tab D (fcols D f) a) ac g) ac' h X.
Proof.
  intros Hg Hh HX. unfold disp_reexpressed, field_of_world_map. f_equal.
  change (view_points2 D f (tab D (fcols D f) a) ac g (cubeax ac') h (cubeax ac') h X
          = g_from_world D (cubeax ac') h (world_map D f (tab D (fcols D f) a) ac g (g_to_world D (cubeax ac') h X))).
  apply points2_is_world_map; auto.
Qed.

(* own grid on both sides (same-grid branch of Grid.transform_points), e.g. points(x, axes=WORLD) *)
Lemma points_is_world_map (f : form) (a : nat -> nat -> K) (ac : bool) (g : gridf) (A B : axes) (X : list K) :
  gwf D g -> length X = D ->
  view_points D f (tab D (fcols D f) a) ac g A B X
  = g_from_world D B g (world_map D f (tab D (fcols D f) a) ac g (g_to_world D A g X)).
Proof.
  intros Hg HX. unfold view_points, world_map, g_from_world, g_to_world, gN, gS, gC, gD.
  rewrite <- (pts2_same_grid K Kf Kc D HD A (cubeax ac)) by auto.
  assert (L1 : length (T2_map D A (cubeax ac) (vtab D (fn_ g)) (vtab D (fs_ g)) (vtab D (fc_ g)) (tab D D (fd_ g))
                          (vtab D (fn_ g)) (vtab D (fs_ g)) (vtab D (fc_ g)) (tab D D (fd_ g)) X) = D)
    by (apply (T2_map_length K D HD); auto).
  rewrite forward_is_map_l by exact L1.
  rewrite <- (pts2_same_grid K Kf Kc D HD (cubeax ac) B) by (auto; rewrite <- forward_is_map_l by exact L1; apply forward_length; exact L1).
  unfold T2_map. reflexivity.
Qed.

(* the traced points(x, axes=WORLD) is that composition *)
Lemma gen_points_world_is_view (f : form) (a : nat -> nat -> K) (ac : bool) (g : gridf) (x : nat -> K) :
  gen_points_world D f ac (gN D g) (gS D g) (gC D g) (gD D g) (tab D (fcols D f) a) (vtab D x)
  = view_points D f (tab D (fcols D f) a) ac g WORLD WORLD (vtab D x).
Proof. destruct HD as [-> | ->]; destruct f, ac; reflexivity. Qed.

(* ... hence: world points in, the world map, world points out *)
Lemma points_world (f : form) (a : nat -> nat -> K) (ac : bool) (g : gridf) (x : nat -> K) : gwf D g ->
  gen_points_world D f ac (gN D g) (gS D g) (gC D g) (gD D g) (tab D (fcols D f) a) (vtab D x)
  = world_map D f (tab D (fcols D f) a) ac g (vtab D x).
Proof.
  intro Hg. rewrite gen_points_world_is_view, points_is_world_map; auto.
  destruct HD as [-> | ->]; reflexivity.
Qed.

(* the dense field on the OWN grid (or any grid with the same cube frame) describes the world map *)
Lemma disp_own_describes_world_map (f : form) (a : nat -> nat -> K) (ac : bool) (g : gridf) (x : nat -> K) : gwf D g ->
  view_disp D f (tab D (fcols D f) a) (vtab D x)
  = field_of_world_map D (world_map D f (tab D (fcols D f) a) ac g) ac g (vtab D x).
Proof.
  intro Hg. unfold field_of_world_map, world_map, g_from_world, g_to_world, gN, gS, gC, gD.
  assert (Lx : length (vtab D x) = D) by (destruct HD as [-> | ->]; reflexivity).
  rewrite (from_to_world K Kf Kc D HD (cubeax ac) _ _ _ _ (vtab D x)) by auto.
  rewrite (from_to_world K Kf Kc D HD).
  - apply disp_is_displacement.
  - exact Hg.
  - rewrite <- forward_is_map. apply forward_length. exact Lx.
Qed.

(* ... and so does the field on ANY other grid h whose cube frame coincides with the own one (same domain and
   same align_corners flag, any size ratio that keeps the cube) *)
Lemma disp_same_frame_describes_world_map (f : form) (a : nat -> nat -> K) (ac ac' : bool) (g h : gridf) (x : nat -> K) :
  gwf D g -> gwf D h ->
  (forall X, length X = D -> g_to_world D (cubeax ac') h X = g_to_world D (cubeax ac) g X) ->
  view_disp D f (tab D (fcols D f) a) (vtab D x)
  = field_of_world_map D (world_map D f (tab D (fcols D f) a) ac g) ac' h (vtab D x).
Proof.
  intros Hg Hh Hfr. unfold field_of_world_map, world_map.
  assert (Lx : length (vtab D x) = D) by (destruct HD as [-> | ->]; reflexivity).
  rewrite (Hfr _ Lx). unfold g_from_world at 2. unfold g_to_world at 2. unfold gN, gS, gC, gD.
  rewrite (from_to_world K Kf Kc D HD (cubeax ac) _ _ _ _ (vtab D x)) by auto.
  assert (Ly : length (form_apply D f (tab D (fcols D f) a) (vtab D x)) = D)
    by (rewrite <- forward_is_map; apply forward_length; exact Lx).
  rewrite <- (Hfr _ Ly). unfold g_from_world, g_to_world, gN, gS, gC, gD.
  rewrite (from_to_world K Kf Kc D HD) by auto.
  apply disp_is_displacement.
Qed.
End Views.
