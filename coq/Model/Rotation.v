(* Specification side of the rotation algebra (hand-written): elementary rotations, the product an
   Euler order string denotes, what "proper rotation" means, the order-string notation. *)
From Coq Require Import ZArith List String Ascii Bool.
From DV Require Import Base.Field Base.LinAlg Model.Enums.
Import ListNotations.
Local Open Scope fld_scope.

Section Rotation.
Context {K : fld}.
Notation mat := (list (list K)).

Definition rot (a : axis) (c s : K) : mat :=
  match a with
  | AX => [[1; 0; 0]; [0; c; - s]; [0; s; c]]
  | AY => [[c; 0; s]; [0; 1; 0]; [- s; 0; c]]
  | AZ => [[c; - s; 0]; [s; c; 0]; [0; 0; 1]]
  end.

(* "the first angle corresponds to the left-most rotation, which is applied last" *)
Definition euler_spec (o : order) (c0 c1 c2 s0 s1 s2 : K) : mat :=
  let '(a, b, d) := o in mm 3 (rot a c0 s0) (mm 3 (rot b c1 s1) (rot d c2 s2)).

Definition rot2 (c s : K) : mat := [[c; - s]; [s; c]].

Definition is_rotation (D : nat) (M : mat) : Prop :=
  mm D (mT D M) M = eye D /\ mm D M (mT D M) = eye D /\
  (match D with 2%nat => det2 M | _ => det3 M end) = 1.

(* what an angle-extraction routine must hand to atan2 / acos so that it recovers angle i of a
   proper Euler sequence (first and last axis equal): the pair (rho * sin a_i, rho * cos a_i) with
   rho = sin a_1 (positive for a_1 in (0, pi)), and cos a_1 itself for the middle angle.
   Entries are (is_acos, first argument, second argument). *)
Definition angles_spec (c0 c1 c2 s0 s1 s2 : K) : list (bool * K * K) :=
  [(false, s1 * s0, s1 * c0); (true, c1, 0); (false, s1 * s2, s1 * c2)].
Definition angle2d_spec (c s : K) : bool * K * K := (false, s, c).
End Rotation.

(* order-string notation: "ZXZ", "zxz", "Rz o Rx o Rz", "Z o X o Z" all denote (Z, X, Z):
   the axis letters in reading order, ignoring the rotation prefix R, blanks and the composition
   sign o. *)
Definition axis_of_ascii (ch : ascii) : option axis :=
  match ch with
  | "X"%char | "x"%char => Some AX
  | "Y"%char | "y"%char => Some AY
  | "Z"%char | "z"%char => Some AZ
  | _ => None
  end.
Fixpoint letters (s : string) : list axis :=
  match s with
  | EmptyString => []
  | String ch r => match axis_of_ascii ch with Some a => a :: letters r | None => letters r end
  end.
Definition parse_order (s : string) : option order :=
  match letters s with [a; b; c] => Some (a, b, c) | _ => None end.

Definition order_eqb (a b : order) : bool :=
  let '(a0, a1, a2) := a in let '(b0, b1, b2) := b in
  axis_eqb a0 b0 && axis_eqb a1 b1 && axis_eqb a2 b2.

(* the four notations the documentation promises *)
Definition up (a : axis) : string := match a with AX => "X" | AY => "Y" | AZ => "Z" end.
Definition lo (a : axis) : string := match a with AX => "x" | AY => "y" | AZ => "z" end.
Definition notations (o : order) : list string :=
  let '(a, b, c) := o in
  [ up a ++ up b ++ up c; lo a ++ lo b ++ lo c;
    "R" ++ lo a ++ " o R" ++ lo b ++ " o R" ++ lo c;
    up a ++ " o " ++ up b ++ " o " ++ up c ]%string.
Definition table_lookup (t : list (string * option order)) (s : string) : option (option order) :=
  match find (fun p => String.eqb (fst p) s) t with Some p => Some (snd p) | None => None end.
Definition order_table_complete (t : list (string * option order)) : bool :=
  forallb (fun o => forallb (fun s =>
     match table_lookup t s with Some (Some o') => order_eqb o o' | _ => false end) (notations o))
   all_orders.
