(* Every real 2 x 2 matrix is similar to a diagonal matrix, a Jordan block or a rotation-scaling (real canonical form), so
   the closed form of scaling and squaring converges entrywise for EVERY linear 2-D generator, to P exp(J) P^-1.
   The matrices called exp(J) are characterised intrinsically: t -> exp(t J) starts at I and solves X' = J X. *)
From Coq Require Import Reals Lra Lia List.
From Coquelicot Require Import Coquelicot.
From DV Require Import Base.Field Base.LinAlg Base.RInst Base.Tactics Model.Sampler Model.Flow Proofs.C11Compose
  Proofs.C11Limit Proofs.C11LimitModel Proofs.C11LimitConj2 Proofs.C11LimitAnalysis Proofs.C11LimitForms2.
Import ListNotations.
Local Open Scope R_scope.

Lemma L2_inj a b c d a' b' c' d' : L2 a b c d = L2 a' b' c' d' -> a = a' /\ b = b' /\ c = c' /\ d = d'.
Proof. unfold L2, H2. intro E. injection E as E1 E2 E3 E4. auto. Qed.

(* M P = P J with det P <> 0 means M = P J P^-1 *)
Lemma conj2_char p q r s a b c d a' b' c' d' : p * s - q * r <> 0 ->
  a * p + b * r = p * a' + q * c' -> a * q + b * s = p * b' + q * d' ->
  c * p + d * r = r * a' + s * c' -> c * q + d * s = r * b' + s * d' ->
  L2 a b c d = conj2 p q r s a' b' c' d'.
Proof.
  intros Hd E1 E2 E3 E4. unfold conj2, L2, H2.
  assert (Ea : a = ((a * p + b * r) * s - (a * q + b * s) * r) / (p * s - q * r)) by (field; exact Hd).
  assert (Eb : b = ((a * q + b * s) * p - (a * p + b * r) * q) / (p * s - q * r)) by (field; exact Hd).
  assert (Ec : c = ((c * p + d * r) * s - (c * q + d * s) * r) / (p * s - q * r)) by (field; exact Hd).
  assert (Ed : d = ((c * q + d * s) * p - (c * p + d * r) * q) / (p * s - q * r)) by (field; exact Hd).
  rewrite E1, E2 in Ea, Eb. rewrite E3, E4 in Ec, Ed.
  list_eq.
  - rewrite Ea at 1. field. exact Hd.
  - rewrite Eb at 1. field. exact Hd.
  - rewrite Ec at 1. field. exact Hd.
  - rewrite Ed at 1. field. exact Hd.
Qed.

Definition charpoly (a b c d l : R) : R := l * l - (a + d) * l + (a * d - b * c).

Ltac by_char H :=
  apply Rminus_diag_uniq;
  match goal with |- ?L = 0 => match type of H with ?P = ?R => replace L with (- (P - R)) by ring end end;
  rewrite H; ring.

(* two distinct real eigenvalues *)
Lemma diag_case_b a b c d l1 l2 : b <> 0 -> l1 <> l2 -> charpoly a b c d l1 = 0 -> charpoly a b c d l2 = 0 ->
  b * (l2 - a) - b * (l1 - a) <> 0 /\ L2 a b c d = conj2 b b (l1 - a) (l2 - a) l1 0 0 l2.
Proof.
  unfold charpoly. intros Hb Hl H1 H2.
  assert (Hd : b * (l2 - a) - b * (l1 - a) <> 0).
  { replace (b * (l2 - a) - b * (l1 - a)) with (b * (l2 - l1)) by ring. apply Rmult_integral_contrapositive_currified; lra. }
  split; [exact Hd|]. apply conj2_char; [exact Hd| | | |]; try ring.
  - by_char H1.
  - by_char H2.
Qed.
Lemma diag_case_c a b c d l1 l2 : c <> 0 -> l1 <> l2 -> charpoly a b c d l1 = 0 -> charpoly a b c d l2 = 0 ->
  (l1 - d) * c - (l2 - d) * c <> 0 /\ L2 a b c d = conj2 (l1 - d) (l2 - d) c c l1 0 0 l2.
Proof.
  unfold charpoly. intros Hc Hl H1 H2.
  assert (Hd : (l1 - d) * c - (l2 - d) * c <> 0).
  { replace ((l1 - d) * c - (l2 - d) * c) with (c * (l1 - l2)) by ring. apply Rmult_integral_contrapositive_currified; lra. }
  split; [exact Hd|]. apply conj2_char; [exact Hd| | | |]; try ring.
  - by_char H1.
  - by_char H2.
Qed.
(* double eigenvalue, not a multiple of the identity *)
Lemma jordan_case_b a b c d l : b <> 0 -> 2 * l = a + d -> charpoly a b c d l = 0 ->
  b * 1 - 0 * (l - a) <> 0 /\ L2 a b c d = conj2 b 0 (l - a) 1 l 1 0 l.
Proof.
  unfold charpoly. intros Hb Hl H1.
  assert (Hd : b * 1 - 0 * (l - a) <> 0) by (replace (b * 1 - 0 * (l - a)) with b by ring; exact Hb).
  split; [exact Hd|]. apply conj2_char; [exact Hd| | | |]; try ring.
  - by_char H1.
  - apply Rminus_diag_uniq. replace d with (2 * l - a) by lra. ring.
Qed.
Lemma jordan_case_c a b c d l : c <> 0 -> 2 * l = a + d -> charpoly a b c d l = 0 ->
  (l - d) * 0 - 1 * c <> 0 /\ L2 a b c d = conj2 (l - d) 1 c 0 l 1 0 l.
Proof.
  unfold charpoly. intros Hc Hl H1.
  assert (Hd : (l - d) * 0 - 1 * c <> 0) by (replace ((l - d) * 0 - 1 * c) with (- c) by ring; lra).
  split; [exact Hd|]. apply conj2_char; [exact Hd| | | |]; try ring.
  - by_char H1.
  - apply Rminus_diag_uniq. replace a with (2 * l - d) by lra. ring.
Qed.
(* complex eigenvalues u +- i v *)
Lemma rot_case a b c d u v : b <> 0 -> v <> 0 -> 2 * u = a + d -> charpoly a b c d u = v * v ->
  b * (- v) - 0 * (u - a) <> 0 /\ L2 a b c d = conj2 b 0 (u - a) (- v) u (- v) v u.
Proof.
  unfold charpoly. intros Hb Hv Hu H1.
  assert (Hd : b * (- v) - 0 * (u - a) <> 0).
  { replace (b * (- v) - 0 * (u - a)) with (- (b * v)) by ring. apply Ropp_neq_0_compat.
    apply Rmult_integral_contrapositive_currified; assumption. }
  split; [exact Hd|]. apply conj2_char; [exact Hd| | | |]; try ring.
  - by_char H1.
  - apply Rminus_diag_uniq. replace d with (2 * u - a) by lra. ring.
Qed.

(* canonical forms with their exponentials *)
Inductive canonical : list (list R) -> list (list R) -> Prop :=
| can_diag l1 l2 : canonical (L2 l1 0 0 l2) (L2 (exp l1) 0 0 (exp l2))
| can_jordan l : canonical (L2 l 1 0 l) (L2 (exp l) (exp l) 0 (exp l))
| can_rot u v : canonical (L2 u (- v) v u) (L2 (exp u * cos v) (- (exp u * sin v)) (exp u * sin v) (exp u * cos v)).

Theorem real_canonical_form (a b c d : R) :
  exists p q r s J EJ, p * s - q * r <> 0 /\ canonical J EJ /\ L2 a b c d = conj2m p q r s J.
Proof.
  set (Delta := (a - d) * (a - d) + 4 * b * c).
  destruct (Req_dec b 0) as [Hb | Hb]; [destruct (Req_dec c 0) as [Hc | Hc]|].
  - (* already diagonal *)
    exists 1, 0, 0, 1, (L2 a 0 0 d), (L2 (exp a) 0 0 (exp d)). split; [lra|]. split; [constructor|].
    rewrite conj2m_L2. subst b c. apply conj2_char; [lra| | | |]; ring.
  - (* b = 0, c <> 0 *)
    destruct (Req_dec a d) as [Had | Had].
    + destruct (jordan_case_c a b c d a Hc ltac:(lra) ltac:(unfold charpoly; subst b d; ring)) as [Hd E].
      exists (a - d), 1, c, 0, (L2 a 1 0 a), (L2 (exp a) (exp a) 0 (exp a)). split; [exact Hd|]. split; [constructor|].
      rewrite conj2m_L2. exact E.
    + destruct (diag_case_c a b c d a d Hc Had ltac:(unfold charpoly; subst b; ring) ltac:(unfold charpoly; subst b; ring)) as [Hd E].
      exists (a - d), (d - d), c, c, (L2 a 0 0 d), (L2 (exp a) 0 0 (exp d)). split; [exact Hd|]. split; [constructor|].
      rewrite conj2m_L2. exact E.
  - (* b <> 0 *)
    destruct (Rtotal_order Delta 0) as [Hneg | [Hzero | Hpos]].
    + (* complex eigenvalues *)
      set (v := sqrt (- Delta) / 2). set (u := (a + d) / 2).
      assert (Hsq : sqrt (- Delta) * sqrt (- Delta) = - Delta) by (apply sqrt_sqrt; lra).
      assert (Hv : v <> 0). { unfold v. pose proof (sqrt_lt_R0 (- Delta) ltac:(lra)). lra. }
      assert (Hvv : charpoly a b c d u = v * v).
      { unfold charpoly, u, v. replace (sqrt (- Delta) / 2 * (sqrt (- Delta) / 2)) with (sqrt (- Delta) * sqrt (- Delta) / 4) by field.
        rewrite Hsq. unfold Delta. field. }
      destruct (rot_case a b c d u v Hb Hv ltac:(unfold u; field) Hvv) as [Hd E].
      exists b, 0, (u - a), (- v), (L2 u (- v) v u), (L2 (exp u * cos v) (- (exp u * sin v)) (exp u * sin v) (exp u * cos v)).
      split; [exact Hd|]. split; [constructor|]. rewrite conj2m_L2. exact E.
    + (* double eigenvalue *)
      set (l := (a + d) / 2).
      assert (Hl : charpoly a b c d l = 0).
      { unfold charpoly, l. replace ((a + d) / 2 * ((a + d) / 2) - (a + d) * ((a + d) / 2) + (a * d - b * c)) with (- Delta / 4) by (unfold Delta; field).
        rewrite Hzero. field. }
      destruct (jordan_case_b a b c d l Hb ltac:(unfold l; field) Hl) as [Hd E].
      exists b, 0, (l - a), 1, (L2 l 1 0 l), (L2 (exp l) (exp l) 0 (exp l)). split; [exact Hd|]. split; [constructor|].
      rewrite conj2m_L2. exact E.
    + (* two distinct real eigenvalues *)
      set (sq := sqrt Delta). set (l1 := (a + d + sq) / 2). set (l2 := (a + d - sq) / 2).
      assert (Hsq : sq * sq = Delta) by (apply sqrt_sqrt; lra).
      assert (Hsp : 0 < sq) by (apply sqrt_lt_R0; exact Hpos).
      assert (H1 : charpoly a b c d l1 = 0).
      { unfold charpoly, l1. replace ((a + d + sq) / 2 * ((a + d + sq) / 2) - (a + d) * ((a + d + sq) / 2) + (a * d - b * c))
          with ((sq * sq - Delta) / 4) by (unfold Delta; field). rewrite Hsq. field. }
      assert (H2 : charpoly a b c d l2 = 0).
      { unfold charpoly, l2. replace ((a + d - sq) / 2 * ((a + d - sq) / 2) - (a + d) * ((a + d - sq) / 2) + (a * d - b * c))
          with ((sq * sq - Delta) / 4) by (unfold Delta; field). rewrite Hsq. field. }
      destruct (diag_case_b a b c d l1 l2 Hb ltac:(unfold l1, l2; lra) H1 H2) as [Hd E].
      exists b, b, (l1 - a), (l2 - a), (L2 l1 0 0 l2), (L2 (exp l1) 0 0 (exp l2)). split; [exact Hd|]. split; [constructor|].
      rewrite conj2m_L2. exact E.
Qed.

Lemma canonical_converges J EJ : canonical J EJ ->
  conv2 (fun k : nat => hpow (K:=RF) 2 (hone_plus (K:=RF) 2 (/ 2 ^ k) J) (2 ^ k)) EJ.
Proof. intros [l1 l2 | l | u v]; [apply conv2_diagonal | apply conv2_jordan | apply conv2_rotation_scaling]. Qed.

Lemma canonical_L2 J EJ : canonical J EJ -> exists a b c d, J = L2 a b c d.
Proof. intros [l1 l2 | l | u v]; eauto. Qed.

(* EVERY linear 2-D generator: the closed form converges entrywise, to P exp(J) P^-1 for its real canonical form J *)
Theorem every_linear_generator_converges2 (a b c d : R) :
  exists p q r s J EJ, p * s - q * r <> 0 /\ canonical J EJ /\ L2 a b c d = conj2m p q r s J /\
  conv2 (fun k : nat => hpow (K:=RF) 2 (hone_plus (K:=RF) 2 (/ 2 ^ k) (L2 a b c d)) (2 ^ k)) (conj2m p q r s EJ).
Proof.
  destruct (real_canonical_form a b c d) as [p [q [r [s [J [EJ [Hd [Hc E]]]]]]]].
  exists p, q, r, s, J, EJ. split; [exact Hd|]. split; [exact Hc|]. split; [exact E|].
  destruct (canonical_L2 J EJ Hc) as [a' [b' [c' [d' EJ']]]]. rewrite E. subst J. rewrite conj2m_L2.
  apply convergence_similarity_invariant2; [exact Hd|]. apply canonical_converges. exact Hc.
Qed.

(* the limit matrices are the exponentials: X(t) = "exp(t J)" satisfies X(0) = I, X'(t) = J X(t), X(1) = EJ *)
Definition expt_diag (l1 l2 t : R) := L2 (exp (l1 * t)) 0 0 (exp (l2 * t)).
Definition expt_jordan (l t : R) := L2 (exp (l * t)) (t * exp (l * t)) 0 (exp (l * t)).
Definition expt_rot (u v t : R) :=
  L2 (exp (u * t) * cos (v * t)) (- (exp (u * t) * sin (v * t))) (exp (u * t) * sin (v * t)) (exp (u * t) * cos (v * t)).

Definition solves_ode (J : list (list R)) (X : R -> list (list R)) : Prop :=
  X 0 = L2 1 0 0 1 /\
  forall (t : R) i j, (i < 2)%nat -> (j < 2)%nat -> is_derive (fun t : R => hentry (X t) i j) t (hentry (hcomp (K:=RF) 2 J (X t)) i j).

Lemma hentry_L2 a b c d :
  hentry (L2 a b c d) 0 0 = a /\ hentry (L2 a b c d) 0 1 = b /\ hentry (L2 a b c d) 1 0 = c /\ hentry (L2 a b c d) 1 1 = d.
Proof. repeat split; reflexivity. Qed.

Ltac ode_entries :=
  intros t i j Hi Hj; rewrite hcomp_L2;
  destruct i as [|[|i]]; [| |lia]; (destruct j as [|[|j]]; [| |lia]);
  match goal with |- is_derive _ _ (hentry (L2 ?a ?b ?c ?d) _ _) =>
    destruct (hentry_L2 a b c d) as [E00 [E01 [E10 E11]]]; rewrite ?E00, ?E01, ?E10, ?E11; clear E00 E01 E10 E11 end;
  cbv beta; unfold hentry, L2, H2; cbn [nth]; auto_derive; try exact I; ring.

Theorem expt_diag_ode l1 l2 : solves_ode (L2 l1 0 0 l2) (expt_diag l1 l2) /\ expt_diag l1 l2 1 = L2 (exp l1) 0 0 (exp l2).
Proof.
  split; [split|].
  - unfold expt_diag. rewrite !Rmult_0_r, exp_0. reflexivity.
  - unfold expt_diag. ode_entries.
  - unfold expt_diag. now rewrite !Rmult_1_r.
Qed.
Theorem expt_jordan_ode l : solves_ode (L2 l 1 0 l) (expt_jordan l) /\ expt_jordan l 1 = L2 (exp l) (exp l) 0 (exp l).
Proof.
  split; [split|].
  - unfold expt_jordan. rewrite !Rmult_0_r, exp_0, Rmult_0_l. reflexivity.
  - unfold expt_jordan. ode_entries.
  - unfold expt_jordan. now rewrite !Rmult_1_r, Rmult_1_l.
Qed.
Theorem expt_rot_ode u v : solves_ode (L2 u (- v) v u) (expt_rot u v) /\
  expt_rot u v 1 = L2 (exp u * cos v) (- (exp u * sin v)) (exp u * sin v) (exp u * cos v).
Proof.
  split; [split|].
  - unfold expt_rot. rewrite !Rmult_0_r, exp_0, cos_0, sin_0. unfold L2, H2. list_eq; ring.
  - unfold expt_rot. ode_entries.
  - unfold expt_rot. now rewrite !Rmult_1_r.
Qed.
