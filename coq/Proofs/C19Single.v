(* C19 -- Image.__torch_function__ / FlowField.__torch_function__ on one image: a typed result carries the grid of the
   operand, the grid has the data's spatial shape, a flow field result has the operand's axes. *)
From Coq Require Import List ZArith Bool Arith Lia.
From DV Require Import Model.Enums Model.Batch Model.BatchSpec Proofs.C19Base Proofs.C19Generic.
Import ListNotations.

Section Single.
Variable gshape : gid -> shape.
Variable gaxes : gid -> axes.

Lemma res_image_typed sh g k :
  res_image gshape sh (Some g) = KOk k ->
  k = TPlain \/ (k = TSingle None g /\ 3 <= ndim sh /\ gshape g = skipn 1 sh).
Proof.
  unfold res_image. destruct ((ndim sh =? length (gshape g) + 1) && shape_eqb (skipn 1 sh) (gshape g)).
  - intros H. apply mk_single_ok in H. destruct H as (-> & A & B). right. auto.
  - intros H. injection H as <-. left. reflexivity.
Qed.
Lemma res_flowfield_typed sh g ax k :
  res_flowfield gshape sh (Some g) (Some ax) = KOk k ->
  k = TPlain \/ (exists fl, k = TSingle fl g /\ (fl = None \/ fl = Some ax) /\ 3 <= ndim sh /\ gshape g = skipn 1 sh).
Proof.
  unfold res_flowfield.
  destruct ((ndim sh =? length (gshape g) + 1) && (nth 0 sh 0 =? length (gshape g)) && shape_eqb (skipn 1 sh) (gshape g)).
  - intros H. apply mk_single_ok in H. destruct H as (-> & A & B). right. exists (Some ax). auto.
  - intros H. apply res_image_typed in H. destruct H as [->|(-> & A & B)]; [left; reflexivity|right; exists None; auto].
Qed.

(* one typed output of an operation on a single image *)
Definition single_out_ok (fl : option axes) (g : gid) (o : oval) : Prop :=
  match v_kind o with
  | TPlain => True
  | TSingle fl' g' => g' = g /\ (fl' = None \/ fl' = fl) /\ wf_val gshape (val_of o)
  | TBatch _ _ => False
  end.
Definition single_res_ok (fl : option axes) (g : gid) (r : ores) : Prop :=
  match r with OErr _ => True | OOne o => single_out_ok fl g o | OTuple os => Forall (single_out_ok fl g) os end.

Theorem single_generic_ok o s fl g :
  generic_op o = true ->
  single_res_ok fl g (run_op gshape gaxes o [mkT s (TSingle fl g)]).
Proof.
  intros Hg.
  assert (Hrun : run_op gshape gaxes o [mkT s (TSingle fl g)] = dispatch_single gshape (is_flow (TSingle fl g)) o [mkT s (TSingle fl g)]).
  { destruct o; try discriminate Hg; unfold run_op; destruct fl; reflexivity. }
  rewrite Hrun. unfold dispatch_single.
  destruct o as [[|]| | | | | | | | | | | | | | | | | | | | | | | | | | | | | | | | ]; try discriminate Hg;
    cbv [class_of is_split_class]; try exact I;
    cbn [map t_kind t_shape existsb is_batch first_grid flat_map app hd orb];
    match goal with |- context [data_sem ?oo ?l] => destruct (data_sem oo l) as [e|dd|ds] eqn:ED end; try exact I;
    destruct fl as [ax|]; cbn [is_flow tf_axes kind_axes flat_map app forallb].
  all: try (cbn [single_res_ok]; apply Forall_forall; intros x Hx; apply in_map_iff in Hx; destruct Hx as (d1 & <- & _);
            unfold single_out_ok; cbn; exact I).
  all: unfold one_kind, single_res_ok.
  all: try (destruct (res_flowfield gshape (d_shape dd) (Some g) (Some ax)) as [e|k] eqn:ER; [exact I|];
            apply res_flowfield_typed in ER; destruct ER as [->|(fl' & -> & Hfl & H3 & Hsh)];
            unfold single_out_ok; cbn [v_kind]; [exact I|];
            split; [reflexivity|]; split; [exact Hfl|]; unfold wf_val, val_of; cbn; auto).
  all: try (destruct (res_image gshape (d_shape dd) (Some g)) as [e|k] eqn:ER; [exact I|];
            apply res_image_typed in ER; destruct ER as [->|(-> & H3 & Hsh)];
            unfold single_out_ok; cbn [v_kind]; [exact I|];
            split; [reflexivity|]; split; [left; reflexivity|]; unfold wf_val, val_of; cbn; auto).
Qed.
End Single.
