(* C19 -- which operations of the family keep the data aligned with the operand's batch entries
   whenever the dispatcher can type the result (same batch size, same number of dimensions). *)
From Coq Require Import List ZArith Bool Arith Lia.
From DV Require Import Model.Enums Model.Batch Model.BatchSpec Proofs.C19Base Proofs.C19Generic.
Import ListNotations.
Local Arguments ndim : simpl never.

(* sufficient condition, decidable from the operation and the operand's shape *)
Definition nd_nonzero (s : shape) (z : Z) : bool :=
  match norm_dim (ndim s) z with Some nd => negb (nd =? 0) | None => true end.
Definition dims_avoid0 (s : shape) (zs : list Z) : bool :=
  match norm_dims (ndim s) zs with Some ds => negb (mem 0 ds) | None => true end.

Definition batch_aligned (o : op) (s : shape) : bool :=
  match o with
  | OScan z | OIndexSelect z _ | ORoll _ z => nd_nonzero s z
  | OFlip dims => dims_avoid0 s dims
  | OPermute p => hd 0 p =? 0
  | OExpand sizes => length sizes =? ndim s
  | ORepeat reps => length reps =? ndim s
  | _ => true
  end.

Lemma aligned_of_ident o s :
  (forall d, data_sem o [s] = DOne d -> d_src d = ident_src 0 (nent s)) -> aligned o s.
Proof. intros H d Hd _ _ i Hi. rewrite (H d Hd). now apply nth_ident_src. Qed.

Lemma nent_set_nth_S s k x : nent (set_nth s (S k) x) = nent s \/ s = [].
Proof. destruct s; [right; auto|left; reflexivity]. Qed.

Lemma filter_len_le {A} (f : A -> bool) l : length (filter f l) <= length l.
Proof. induction l as [|a l IH]; simpl; [lia|]. destruct (f a); simpl; lia. Qed.

Lemma filter_length_lt {A} (f : A -> bool) l x : In x l -> f x = false -> length (filter f l) < length l.
Proof.
  induction l as [|a l IH]; simpl; [tauto|]. intros [->|Hin] Hf.
  - rewrite Hf. pose proof (filter_len_le f l). lia.
  - specialize (IH Hin Hf). destruct (f a); simpl; lia.
Qed.

Lemma ndim_del_nth s k : k < ndim s -> ndim (del_nth s k) < ndim s.
Proof.
  unfold ndim, del_nth. intros H. rewrite app_length, firstn_length, skipn_length. lia.
Qed.

Lemma norm_dim_lt n z d : norm_dim n z = Some d -> d < n.
Proof.
  unfold norm_dim.
  destruct ((0 <=? z)%Z && (z <? Z.of_nat n)%Z) eqn:E1.
  - apply andb_true_iff in E1. destruct E1 as [A B]. apply Z.leb_le in A. apply Z.ltb_lt in B.
    intros H; inversion H; subst. lia.
  - destruct ((- Z.of_nat n <=? z)%Z && (z <? 0)%Z) eqn:E2; [|discriminate].
    apply andb_true_iff in E2. destruct E2 as [A B]. apply Z.leb_le in A. apply Z.ltb_lt in B.
    intros H; inversion H; subst. lia.
Qed.

Theorem batch_aligned_ok o s : generic_op o = true -> batch_aligned o s = true -> aligned o s.
Proof.
  intros Hg Hb.
  destruct o; try discriminate Hg; cbn [batch_aligned] in Hb.
  - (* OUnary *) apply aligned_of_ident. cbn. intros d H. injection H as <-. reflexivity.
  - (* OReduce *)
    intros d Hd HN HD i Hi. cbn in Hd.
    destruct (norm_dims (ndim s) dims) as [ds|] eqn:En; [|discriminate]. injection Hd as <-.
    cbn [d_shape d_src] in *.
    destruct (mem 0 ds) eqn:Em.
    + destruct s as [|n0 s']; [simpl in Hi; lia|].
      destruct keep.
      * unfold ndim in HN |- *. cbn [length seq map nent] in HN, Hi |- *. rewrite Em in HN |- *.
        subst n0. assert (i = 0) by lia. subst i. reflexivity.
      * exfalso. unfold ndim in HD. rewrite map_length in HD.
        assert (Hlt : length (filter (fun k => negb (mem k ds)) (seq 0 (length (n0 :: s')))) < length (seq 0 (length (n0 :: s')))).
        { apply filter_length_lt with (x := 0); [simpl; auto|]. now rewrite Em. }
        rewrite seq_length in Hlt. lia.
    + now apply nth_ident_src.
  - (* OReduceAll *) intros d Hd HN HD i Hi. cbn in Hd. injection Hd as <-. cbn in HN. lia.
  - (* OScan *)
    apply aligned_of_ident. intros d Hd. cbn in Hd. unfold nd_nonzero in Hb.
    destruct (norm_dim (ndim s) dim) as [nd|]; [|discriminate]. injection Hd as <-. cbn.
    destruct (nd =? 0); [discriminate|reflexivity].
  - (* ONarrow *)
    intros d Hd HN HD i Hi. cbn in Hd.
    destruct (norm_dim (ndim s) dim) as [nd|] eqn:En; [|discriminate].
    destruct (start + len <=? nth nd s 0) eqn:El; [|discriminate]. apply Nat.leb_le in El.
    injection Hd as <-. cbn [d_shape d_src] in *.
    destruct nd as [|nd].
    + destruct s as [|n0 s']; [simpl in Hi; lia|]. cbn in HN, El, Hi |- *. subst len.
      assert (start = 0) by lia. subst start. rewrite nth_map_seq by exact Hi. reflexivity.
    + cbn [Nat.eqb]. now apply nth_ident_src.
  - (* OSelect *)
    intros d Hd HN HD i Hi. cbn in Hd.
    destruct (norm_dim (ndim s) dim) as [nd|] eqn:En; [|discriminate].
    destruct (norm_idx (nth nd s 0) idx); [|discriminate]. injection Hd as <-.
    cbn [d_shape] in HD. apply norm_dim_lt in En. apply ndim_del_nth in En. lia.
  - (* OIndexSelect *)
    apply aligned_of_ident. intros d Hd. cbn in Hd. unfold nd_nonzero in Hb.
    destruct (norm_dim (ndim s) dim) as [nd|]; [|discriminate].
    match type of Hd with context [if ?c then _ else _] => destruct c; [|discriminate] end. injection Hd as <-. cbn.
    destruct (nd =? 0); [discriminate|reflexivity].
  - (* OChunk *)
    intros x Hd. exfalso. cbn in Hd.
    repeat match type of Hd with context [match ?c with _ => _ end] => destruct c end; discriminate Hd.
  - (* OUnbind *)
    intros x Hd. exfalso. cbn in Hd.
    repeat match type of Hd with context [match ?c with _ => _ end] => destruct c end; discriminate Hd.
  - (* OFlip *)
    apply aligned_of_ident. intros d Hd. cbn in Hd. unfold dims_avoid0 in Hb.
    destruct (norm_dims (ndim s) dims) as [ds|]; [|discriminate]. injection Hd as <-. cbn.
    destruct (mem 0 ds); [discriminate|reflexivity].
  - (* ORoll *)
    apply aligned_of_ident. intros d Hd. cbn in Hd. unfold nd_nonzero in Hb.
    destruct (norm_dim (ndim s) dim) as [nd|]; [|discriminate]. injection Hd as <-. cbn.
    destruct (nd =? 0); [discriminate|reflexivity].
  - (* OPermute *)
    apply aligned_of_ident. intros d Hd. cbn in Hd.
    destruct (is_perm (ndim s) perm); [|discriminate]. injection Hd as <-. cbn. now rewrite Hb.
  - (* OExpand *)
    intros d Hd HN HD i Hi. cbn -[Nat.ltb Nat.sub] in Hd. apply Nat.eqb_eq in Hb. rewrite Hb, Nat.sub_diag, Nat.ltb_irrefl in Hd.
    cbn [firstn existsb skipn map app] in Hd.
    destruct (zip_expand s sizes) as [r|]; [|discriminate]. injection Hd as <-.
    cbn [d_shape d_src Nat.eqb] in *. rewrite nth_map_seq by lia. cbn.
    destruct (nent s =? 1) eqn:E1; [apply Nat.eqb_eq in E1; f_equal; f_equal; lia|reflexivity].
  - (* ORepeat *)
    intros d Hd HN HD i Hi. cbn -[Nat.ltb Nat.sub] in Hd. apply Nat.eqb_eq in Hb. rewrite Hb, Nat.sub_diag, Nat.ltb_irrefl in Hd.
    injection Hd as <-. cbn [d_shape d_src Nat.eqb repeat app] in *.
    rewrite nth_map_seq by lia. cbn. now rewrite Nat.mod_small.
  - (* OReshape *)
    intros d Hd HN HD i Hi. cbn -[prod Nat.eqb] in Hd. destruct (prod newshape =? prod s); [|discriminate].
    injection Hd as <-. cbn [d_shape d_src] in *.
    destruct newshape as [|m ns]; [cbn in HN; lia|]. destruct s as [|n0 s']; [cbn in Hi; lia|].
    cbn in HN. subst m. unfold reshape_src. cbn [nent]. rewrite Nat.eqb_refl. now apply nth_ident_src.
  - (* OSpatial *)
    apply aligned_of_ident. intros d Hd. cbn -[Nat.leb] in Hd. destruct (3 <=? ndim s); [|discriminate]. injection Hd as <-; reflexivity.
  - (* OGridSample *)
    apply aligned_of_ident. intros d Hd. cbn -[Nat.leb] in Hd. destruct (4 <=? ndim s); [|discriminate]. injection Hd as <-; reflexivity.
Qed.
