(* Tactics for field identities with numeric denominators over the abstract field. *)
From Coq Require Import ZArith List Field Ring.
From DV Require Import Base.Field Base.Tactics.
Local Open Scope fld_scope.

(* `field` prints its side conditions with the record projections unfolded; fold them back *)
Ltac refold K :=
  try (let m := eval cbv beta delta [fmul T] in (@fmul K) in change m with (@fmul K));
  try (let m := eval cbv beta delta [fadd T] in (@fadd K) in change m with (@fadd K));
  try (let m := eval cbv beta delta [fsub T] in (@fsub K) in change m with (@fsub K));
  try (let m := eval cbv beta delta [fopp T] in (@fopp K) in change m with (@fopp K));
  try (let m := eval cbv beta delta [f1 T] in (@f1 K) in change m with (@f1 K));
  try (let m := eval cbv beta delta [f0 T] in (@f0 K) in change m with (@f0 K));
  try (let m := eval cbv beta delta [T] in (T K) in change m with (T K)).

(* closed numeral <> 0 in characteristic 0: it is of_pos p for one of the candidates *)
Ltac nzc Kc p :=
  let H := fresh in intro H; apply (Kc p); etransitivity; [|exact H]; cbn [of_pos]; ring.
Ltac nz Kc :=
  first [nzc Kc 2%positive | nzc Kc 3%positive | nzc Kc 6%positive | nzc Kc 4%positive | nzc Kc 8%positive
        | nzc Kc 12%positive | nzc Kc 24%positive | nzc Kc 48%positive | nzc Kc 16%positive | nzc Kc 36%positive
        | nzc Kc 18%positive | nzc Kc 9%positive | nzc Kc 32%positive | nzc Kc 64%positive | nzc Kc 96%positive
        | nzc Kc 72%positive | nzc Kc 144%positive | nzc Kc 5%positive | nzc Kc 10%positive ].
