(* C07 -- a transform linked to another one (inverse(link=True), .inv) applies the tanh / exp
   re-parameterisation of angles() / scales() exactly when the transform it is linked to does: the
   table of ParametricTransform.has_parameters() is traced from the source for every class and every
   way `params` can be held. *)
From Coq Require Import List Bool String.
From DV Require Import Gen.LinInv.
Import ListNotations.
Open Scope string_scope.

Definition hp_lookup (c k : string) : option bool :=
  match find (fun row => String.eqb (fst (fst row)) c && String.eqb (snd (fst row)) k) gen_has_parameters with
  | Some row => Some (snd row)
  | None => None
  end.
Definition hp_classes := ["EulerRotation"; "IsotropicScaling"; "AnisotropicScaling"; "Shearing"; "Translation"].
Definition hp_kinds := ["Parameter"; "tensor"; "callable"; "none"].
Definition opt_eqb (a b : option bool) : bool :=
  match a, b with Some x, Some y => Bool.eqb x y | _, _ => false end.

(* linked = same as the transform linked to; only an nn.Parameter is re-parameterised *)
Definition link_follows_reparam : bool :=
  forallb (fun c =>
    forallb (fun k => opt_eqb (hp_lookup c ("link:" ++ k)) (hp_lookup c k)
                      && opt_eqb (hp_lookup c k) (Some (String.eqb k "Parameter"))) hp_kinds) hp_classes.

Lemma link_follows_reparam_ok : link_follows_reparam = true.
Proof. vm_compute. reflexivity. Qed.
