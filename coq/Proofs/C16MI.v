(* C16: mutual information -- structural symmetry only (Parzen window and logarithm abstract). *)
From Coq Require Import ZArith List Field Ring Lia.
From DV Require Import Base.Field Base.FieldFacts Base.LinAlg Model.Losses Proofs.C16Lists.
Import ListNotations.
Local Open Scope fld_scope.

Section MI.
Variable K : fld.
Hypothesis Kf : is_field K.
Add Field KF : Kf.
Notation vec := (list K).
Variable pw : K -> nat -> K.
Variable lg : K -> K.
Variable nbins : nat.

Lemma sumn_ext n (f g : nat -> K) : (forall a, f a = g a) -> sumn n f = sumn n g.
Proof. intro H. unfold sumn. f_equal. apply map_ext. exact H. Qed.

Lemma vsum_map_zero {A : Type} (l : list A) : vsum (map (fun _ => (0 : K)) l) = 0.
Proof. induction l; cbn [map vsum]; [reflexivity | rewrite IHl; ring]. Qed.

Lemma vsum_map_add' {A : Type} (f g : A -> K) (l : list A) :
  vsum (map (fun a => f a + g a) l) = vsum (map f l) + vsum (map g l).
Proof. induction l as [|x l IH]; cbn [vsum map]; [ring | rewrite IH; ring]. Qed.

Lemma vsum_swap {A B : Type} (g : A -> B -> K) (la : list A) (lb : list B) :
  vsum (map (fun a => vsum (map (g a) lb)) la) = vsum (map (fun b => vsum (map (fun a => g a b) la)) lb).
Proof.
  induction la as [|x la IH]; cbn [map vsum].
  - rewrite vsum_map_zero. reflexivity.
  - rewrite IH, <- vsum_map_add'. reflexivity.
Qed.

Lemma sumn_swap n m (g : nat -> nat -> K) :
  sumn n (fun a => sumn m (fun b => g a b)) = sumn m (fun b => sumn n (fun a => g a b)).
Proof. unfold sumn. apply (vsum_swap g). Qed.

Lemma hist_joint_T (x y : vec) a b : hist_joint pw y x a b = hist_joint pw x y b a.
Proof. unfold hist_joint. apply (dot_comm K Kf). Qed.

Lemma hist_norm_sym (x y : vec) c : hist_norm pw nbins y x c = hist_norm pw nbins x y c.
Proof.
  unfold hist_norm. f_equal. rewrite sumn_swap. apply sumn_ext. intro a. apply sumn_ext. intro b.
  apply hist_joint_T.
Qed.

(* the joint distribution of (y, x) is the transpose of that of (x, y) *)
Lemma p_joint_T (x y : vec) c a b : p_joint pw nbins y x c a b = p_joint pw nbins x y c b a.
Proof. unfold p_joint. rewrite hist_joint_T, hist_norm_sym. reflexivity. Qed.

Lemma ent_in_tg (x y : vec) c : ent_in pw lg nbins y x c = ent_tg pw lg nbins x y c.
Proof.
  unfold ent_in, ent_tg, ent. f_equal. apply sumn_ext. intro a.
  rewrite (sumn_ext nbins (fun b => p_joint pw nbins y x c a b) (fun b => p_joint pw nbins x y c b a))
    by (intro; apply p_joint_T). reflexivity.
Qed.

Lemma ent_tg_in (x y : vec) c : ent_tg pw lg nbins y x c = ent_in pw lg nbins x y c.
Proof.
  unfold ent_in, ent_tg, ent. f_equal. apply sumn_ext. intro a.
  rewrite (sumn_ext nbins (fun b => p_joint pw nbins y x c b a) (fun b => p_joint pw nbins x y c a b))
    by (intro; apply p_joint_T). reflexivity.
Qed.

Lemma ent_joint_sym (x y : vec) c : ent_joint pw lg nbins y x c = ent_joint pw lg nbins x y c.
Proof.
  unfold ent_joint. f_equal. rewrite sumn_swap. apply sumn_ext. intro a. apply sumn_ext. intro b.
  rewrite p_joint_T. reflexivity.
Qed.

Lemma mi_symmetric (x y : vec) c :
  mi_one pw lg nbins y x c = mi_one pw lg nbins x y c /\ nmi_one pw lg nbins y x c = nmi_one pw lg nbins x y c.
Proof.
  unfold mi_one, nmi_one. rewrite (ent_in_tg x y), (ent_tg_in x y), (ent_joint_sym x y). split; [ring|].
  f_equal. ring.
Qed.
End MI.
