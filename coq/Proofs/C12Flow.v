(* C12: determinant / divergence / curl / Lie bracket formulas traced from core/flow.py equal their definitions. *)
From Coq Require Import ZArith List Field Ring Lia.
From DV Require Import Base.Field Base.FieldFacts Base.LinAlg Base.Tactics Gen.FlowDeriv Model.FiniteDiff.
Import ListNotations.
Local Open Scope fld_scope.

Section Proofs.
Variable K : fld.
Hypothesis Kf : is_field K.
Add Field KF : Kf.

Lemma det2_formula (j00 j01 j10 j11 : K) :
  gen_det2 j00 j01 j10 j11 = det2 [[j00; j01]; [j10; j11]] /\
  gen_det2_id j00 j01 j10 j11 = det2 (plus_id 2 [[j00; j01]; [j10; j11]]).
Proof. split; fcbv; ring. Qed.

Lemma det3_formula (j00 j01 j02 j10 j11 j12 j20 j21 j22 : K) :
  let J := [[j00; j01; j02]; [j10; j11; j12]; [j20; j21; j22]] in
  gen_det3 j00 j01 j02 j10 j11 j12 j20 j21 j22 = det3 J /\
  gen_det3_id j00 j01 j02 j10 j11 j12 j20 j21 j22 = det3 (plus_id 3 J).
Proof. split; fcbv; ring. Qed.

Lemma div_formula (j00 j01 j02 j10 j11 j12 j20 j21 j22 : K) :
  gen_div2 j00 j01 j10 j11 = trace_spec 2 [[j00; j01]; [j10; j11]] /\
  gen_div3 j00 j01 j02 j10 j11 j12 j20 j21 j22 = trace_spec 3 [[j00; j01; j02]; [j10; j11; j12]; [j20; j21; j22]].
Proof. split; fcbv; ring. Qed.

Lemma curl_formula (j00 j01 j02 j10 j11 j12 j20 j21 j22 : K) :
  gen_curl2 j00 j01 j10 j11 = curl2_spec [[j00; j01]; [j10; j11]] /\
  gen_curl3 j00 j01 j02 j10 j11 j12 j20 j21 j22 = curl3_spec [[j00; j01; j02]; [j10; j11; j12]; [j20; j21; j22]].
Proof. split; fcbv; list_eq; ring. Qed.

Lemma lie2_formula (jv00 jv01 jv10 jv11 ju00 ju01 ju10 ju11 v0 v1 u0 u1 : K) :
  gen_lie2 jv00 jv01 jv10 jv11 ju00 ju01 ju10 ju11 v0 v1 u0 u1
  = lie_spec [[jv00; jv01]; [jv10; jv11]] [[ju00; ju01]; [ju10; ju11]] [v0; v1] [u0; u1].
Proof. fcbv; list_eq; ring. Qed.

Lemma lie3_formula (jv00 jv01 jv02 jv10 jv11 jv12 jv20 jv21 jv22 ju00 ju01 ju02 ju10 ju11 ju12 ju20 ju21 ju22
                    v0 v1 v2 u0 u1 u2 : K) :
  gen_lie3 jv00 jv01 jv02 jv10 jv11 jv12 jv20 jv21 jv22 ju00 ju01 ju02 ju10 ju11 ju12 ju20 ju21 ju22 v0 v1 v2 u0 u1 u2
  = lie_spec [[jv00; jv01; jv02]; [jv10; jv11; jv12]; [jv20; jv21; jv22]]
             [[ju00; ju01; ju02]; [ju10; ju11; ju12]; [ju20; ju21; ju22]] [v0; v1; v2] [u0; u1; u2].
Proof. fcbv; list_eq; ring. Qed.

(* the bracket is antisymmetric and vanishes on equal arguments; affine fields u = A x + s, v = B x + t with
   exact Jacobians A, B give [v, u] = B u - A v *)
Lemma lie_antisym2 (a b c d e f g h v0 v1 u0 u1 : K) :
  gen_lie2 a b c d e f g h v0 v1 u0 u1 = vopp (gen_lie2 e f g h a b c d u0 u1 v0 v1).
Proof. fcbv; list_eq; ring. Qed.
End Proofs.
