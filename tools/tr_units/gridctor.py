"""Gen/GridCtor.v -- core/grid.py constructor routes: Grid(size, origin=..., spacing, direction)
and Grid(size, center=...), direction given as matrix or as flat row-major sequence (the form
SimpleITK headers use), Grid.origin(), Grid.origin_().  Used by C02 (ITK convention) and C03."""
import numpy as np

import symtorch as st
import trlib
from symtorch import E, TraceError


def sym_attrs(D, p=""):
    n = st.Tensor(np.array([E.var(f"{p}n{i}", integer=True, positive=True) for i in range(D)], dtype=object), dtype=st.int64)
    s = st.symvec(p + "s", D, positive=True)
    d = st.symmat(p + "d", D, D)
    return n, s, d


class _unit_det:
    """Grid.direction_ checks |det(direction)| = 1 numerically; the model's hypothesis is an
    orthonormal direction, so the check is taken to pass"""

    def __enter__(self):
        self.orig = st.Tensor.det
        st.Tensor.det = lambda self_: st.Tensor(np.array(E.const(1), dtype=object))
        return self

    def __exit__(self, *a):
        st.Tensor.det = self.orig


def generate(loader):
    G = loader.load("deepali.core.grid")
    Grid = G.Grid
    out = ["Section Gen.", "Context {K : fld}.", ""]
    for D in (2, 3):
        n, s, d = sym_attrs(D)
        o = st.symvec("o", D)
        c = st.symvec("c", D)
        with _unit_det():
            g1 = Grid(size=n, origin=o, spacing=s, direction=d)
            g2 = Grid(size=n, center=c, spacing=s, direction=d)
            flat = st.Tensor(d.a.reshape(-1))
            g3 = Grid(size=n, origin=o, spacing=s, direction=flat)
            g4 = Grid(size=n, origin=o, spacing=s, direction=tuple(flat.a.tolist()))
            # shape= route must equal size= reversed
            g5 = Grid(shape=st.Tensor(n.a[::-1].copy(), dtype=st.int64), origin=o, spacing=s, direction=d)
        ins = [("n", n), ("s", s), ("d", d)]
        for g in (g1, g3, g4, g5):
            if not (trlib.same_tensor(g._size.a, n.a) and trlib.same_tensor(g._spacing.a, s.a)
                    and trlib.same_tensor(g._direction.a, d.a) and trlib.same_tensor(g._center.a, g1._center.a)):
                raise TraceError("constructor routes (matrix / flat direction / shape=) disagree")
        if not (trlib.same_tensor(g2._center.a, c.a) and trlib.same_tensor(g2._direction.a, d.a)):
            raise TraceError("center route does not store the given center")
        out.append(trlib.emit_match_def(f"gen_center_of_origin_{D}", ins + [("o", o)], [], g1._center,
                                        comment=f"Grid(size, origin=o, spacing, direction)._center, D = {D}"))
        out.append(trlib.emit_match_def(f"gen_origin_of_center_{D}", ins + [("c", c)], [], g2.origin(),
                                        comment=f"Grid(size, center=c, ...).origin(), D = {D}"))
        # origin_ / origin / center_ on an existing grid
        g6 = g2.origin(o)
        if not trlib.same_tensor(g6._center.a, g1._center.a):
            raise TraceError("origin(o) accessor differs from the constructor route")
        # header routes: Grid.from_sitk(image) / Grid.from_reader(reader) with a stand-in header object whose
        # accessors return the symbolic attributes in SimpleITK's form (tuples, flat row-major direction) must be
        # exactly the constructor route, for both align_corners flags
        class _Header:
            def GetSize(self_):
                return tuple(n.a.tolist())

            def GetOrigin(self_):
                return tuple(o.a.tolist())

            def GetSpacing(self_):
                return tuple(s.a.tolist())

            def GetDirection(self_):
                return tuple(d.a.reshape(-1).tolist())
        for ac in (True, False):
            with _unit_det():
                gh = [("from_sitk", Grid.from_sitk(_Header(), align_corners=ac)), ("from_reader", Grid.from_reader(_Header(), align_corners=ac)),
                      ("Grid(...)", Grid(size=n, origin=o, spacing=s, direction=d, align_corners=ac))]
            for nm, g in gh:
                if not (trlib.same_tensor(g._size.a, n.a) and trlib.same_tensor(g._spacing.a, s.a)
                        and trlib.same_tensor(g._direction.a, d.a) and trlib.same_tensor(g._center.a, g1._center.a)):
                    raise TraceError(f"Grid.{nm}(align_corners={ac}) does not store the attributes of Grid(size, origin, spacing, direction)")
                if g.align_corners() is not ac:
                    raise TraceError(f"Grid.{nm}(align_corners={ac}) does not keep the flag")
                if not trlib.same_tensor(g.origin().a, g1.origin().a):
                    raise TraceError(f"Grid.{nm}(align_corners={ac}).origin() depends on the align_corners flag")
        # flat attribute sequences: from_seq / from_numpy with origin=True are the origin route, without it the center route
        seq_o = n.a.tolist() + s.a.tolist() + o.a.tolist() + d.a.reshape(-1).tolist()
        seq_c = n.a.tolist() + s.a.tolist() + c.a.tolist() + d.a.reshape(-1).tolist()
        with _unit_det():
            alts = [("from_seq(origin=True)", Grid.from_seq(seq_o, origin=True), g1), ("from_numpy(origin=True)", Grid.from_numpy(seq_o, origin=True), g1),
                    ("from_seq()", Grid.from_seq(seq_c), g2), ("from_numpy()", Grid.from_numpy(seq_c), g2)]
        for nm, ga, ref in alts:
            if not (trlib.same_tensor(ga._size.a, ref._size.a) and trlib.same_tensor(ga._spacing.a, ref._spacing.a)
                    and trlib.same_tensor(ga._direction.a, ref._direction.a) and trlib.same_tensor(ga._center.a, ref._center.a)):
                raise TraceError(f"Grid.{nm} is not the grid of the corresponding constructor route")
        # both given: consistency check happens in the constructor (allclose) -- not traced
        # default spacing / direction
        with _unit_det():
            g7 = Grid(size=n)
        if not all(v.is_const() and v.value() == 1 for v in g7._spacing.a) or \
                not trlib.same_tensor(g7._direction.a, st.eye(D).a) or \
                not all(v.is_const() and v.value() == 0 for v in g7._center.a):
            raise TraceError("default grid is not unit spacing, identity direction, zero center")
    out.append("Definition gen_center_of_origin (D : nat) (n s : list K) (d : list (list K)) (o : list K) : list K :=\n"
               "  match D with 2%nat => gen_center_of_origin_2 n s d o | 3%nat => gen_center_of_origin_3 n s d o | _ => [] end.\n")
    out.append("Definition gen_origin_of_center (D : nat) (n s : list K) (d : list (list K)) (c : list K) : list K :=\n"
               "  match D with 2%nat => gen_origin_of_center_2 n s d c | 3%nat => gen_origin_of_center_3 n s d c | _ => [] end.\n")
    out.append("End Gen.\n")
    return "\n".join(out)
