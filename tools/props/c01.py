"""C01 -- grid coordinate systems map consistently."""
import itertools

import vlib
from vlib import Violation, qc, qc_mat, qc_vec, coq_list, qlit

ID = "C01"
GEN_UNITS = ["GridT", "GridCoords", "GridCtor"]
PROPS_FILE = "Props/C01.v"
PROPS_MOD = "Props.C01"
COQ_TARGETS = ["Props/C01.vo", "Base/QcCmp.vo"]
SOURCES = ["deepali/core/grid.py", "deepali/core/cube.py", "deepali/core/linalg.py", "deepali/core/math.py"]
TRUSTED = [
    "Coq 8.16.1 kernel + vm_compute",
    "translator (tools/symtorch.py, tools/tr_units/grid.py, gridcoords.py): Grid attributes as symbols, sizes assumed integral and positive",
    "modelled not verified: torch.arange (ceil((stop-start)/step) elements start+i*step, exact arithmetic), torch.round (half to even), "
    "F.grid_sample un-normalisation formula; float32 storage of grid attributes and float rounding are outside the model",
]
ASSUMPTIONS = ["two grids that compare equal (allclose) take the one-grid branch; the two-grid model covers grids that are not allclose"]
AXN = ["GRID", "CUBE", "CUBE_CORNERS", "WORLD"]


def _rand_grid(rng, D):
    import math
    size = [rng.randint(2, 24) for _ in range(D)]
    spacing = [rng.choice([0.25, 0.5, 0.75, 1.0, 1.5, 2.0, 3.0]) for _ in range(D)]
    center = [rng.randint(-200, 200) / 4 for _ in range(D)]
    if D == 2:
        a, b = rng.choice([(1, 0), (0, 1), (3, 4), (5, 12), (8, 15), (-4, 3)])
        h = math.hypot(a, b)
        d = [[a / h, -b / h], [b / h, a / h]]
    else:
        q = [rng.randint(-3, 3) for _ in range(4)]
        if not any(q):
            q = [1, 0, 0, 0]
        w, x, y, z = q
        n = w * w + x * x + y * y + z * z
        d = [[(w * w + x * x - y * y - z * z) / n, 2 * (x * y - w * z) / n, 2 * (x * z + w * y) / n],
             [2 * (x * y + w * z) / n, (w * w - x * x + y * y - z * z) / n, 2 * (y * z - w * x) / n],
             [2 * (x * z - w * y) / n, 2 * (y * z + w * x) / n, (w * w - x * x - y * y + z * z) / n]]
    return dict(size=size, spacing=spacing, center=center, direction=d, align_corners=rng.random() < .5)


def _gargs(st):
    return f"{qc_vec(st['n'])} {qc_vec(st['s'])} {qc_vec(st['c'])} {qc_mat(st['d'])}"


def correspondence(ctx):
    rng = ctx.rng
    n = ctx.n(160, 4800)
    cases, dist = [], {}
    for i in range(n):
        D = rng.choice([2, 3])
        a, b = AXN[(i // 4) % 4], AXN[i % 4]
        kind = ["T", "pts", "vecs", "T", "pts", "origin"][(i // 16) % 6]
        two = (i // 3) % 2 == 1 and kind != "origin"
        c = {"kind": kind, "D": D, "a": a, "b": b, "grid": _rand_grid(rng, D), "grid2": _rand_grid(rng, D) if two else None,
             "vectors": rng.random() < .4}
        if kind in ("pts", "vecs"):
            c["x"] = [rng.randint(-64, 64) / 8 for _ in range(D)]
        cases.append(c)
        tag = f"{kind}:{a}->{b}:{'two' if two else 'one'}:D{D}"
        dist[tag] = dist.get(tag, 0) + 1
    res = vlib.run_impl("c01_impl", {"fn": "model_cases", "cases": cases})
    failures, names = [], []
    lines = ["From Coq Require Import ZArith QArith List String.",
             "From DV Require Import Base.Field Base.LinAlg Base.QcInst Base.QcCmp Model.Enums Gen.GridT.",
             "Import ListNotations.", "Definition tol : Q := 1 # 5000."]
    for i, (c, r) in enumerate(zip(cases, res)):
        if "error" in r:
            failures.append({"case": c, "impl": r, "why": "implementation raised where the model is defined"})
            continue
        D, a, b = c["D"], c["a"], c["b"]
        g = _gargs(r["stored"])
        h = _gargs(r["stored2"]) if c["grid2"] else ""
        k = c["kind"]
        if k == "T":
            fn = ("gen_T2v" if c["vectors"] else "gen_T2") if c["grid2"] else ("gen_Tv" if c["vectors"] else "gen_T")
            term = f"mcloser tol ({fn} (K:=QcF) {D} {a} {b} {g} {h}) {qc_mat(r['val'])}"
        elif k == "pts":
            fn = "gen_pts2" if c["grid2"] else "gen_pts"
            term = f"vcloser tol ({fn} (K:=QcF) {D} {a} {b} {g} {h} {qc_vec(c['x'])}) {qc_vec(r['val'])}"
        elif k == "vecs":
            fn = "gen_vecs2" if c["grid2"] else "gen_vecs"
            term = f"vcloser tol ({fn} (K:=QcF) {D} {a} {b} {g} {h} {qc_vec(c['x'])}) {qc_vec(r['val'])}"
        else:
            term = f"vcloser tol (gen_origin (K:=QcF) {D} {g}) {qc_vec(r['val'])}"
        names.append((i, term))
    # lattice: model arange vs implementation for sampled n (values), both flags
    lat = []
    ns = sorted(set([2, 3, 4, 5, 8, 9, 16, 17, 31, 32, 33, 64] + [rng.randint(2, 200) for _ in range(ctx.n(6, 40))]))
    for nn in ns:
        for ac in (True, False):
            lat.append({"n": nn, "ac": ac, "dtype": "float64", "values": True})
    lres = vlib.run_impl("c01_impl", {"fn": "lattice_cases", "cases": lat})
    lines.insert(2, "From DV Require Import Model.Lattice Gen.GridCoords.")
    lines.append("Definition ltol : Q := 1 # 1000000000000.")
    for j, (c, r) in enumerate(zip(lat, lres)):
        if "error" in r:
            failures.append({"case": c, "impl": r, "why": "coords raised"})
            continue
        sfx = "ac" if c["ac"] else "nac"
        nq = f"(inject_Z {c['n']})"
        vals = coq_list([qlit(v) for v in r["val"]])
        names.append((("lattice", j), f"vclose_q ltol (arange (gen_coords_start_{sfx} {nq}) (gen_coords_stop_{sfx} {nq}) "
                                      f"(gen_coords_step_{sfx} {nq})) {vals}"))
        dist[f"lattice:{sfx}"] = dist.get(f"lattice:{sfx}", 0) + 1
    # rounding model vs round_decimals (incl. exact ties)
    rc_cases = []
    for _ in range(ctx.n(40, 300)):
        d = rng.choice([0, 1, 2, 3, 6])
        if rng.random() < .4:
            x = (rng.randint(-2000, 2000) + 0.5) / 2 ** d if d <= 3 else rng.randint(-2000, 2000) / 16
        else:
            x = rng.randint(-10 ** 6, 10 ** 6) / 1024
        rc_cases.append({"x": x, "d": d})
    rres = vlib.run_impl("c01_impl", {"fn": "round_cases", "cases": rc_cases})
    for j, (c, r) in enumerate(zip(rc_cases, rres)):
        if "error" in r:
            failures.append({"case": c, "impl": r, "why": "round_decimals raised"})
            continue
        names.append((("round", j), f"qclose_q (1 # 100000000) (round_decimals {c['d']} {qlit(c['x'])}) {qlit(r['val'])}"))
    dist["round"] = len(rc_cases)
    bad, errs = vlib.run_cases(ctx.scratch, lines, names, name="cases_c01")
    for e in errs:
        failures.append({"why": "case file did not evaluate (generated definitions missing or ill-typed)", "coq": e[-800:]})
    for i in bad:
        if isinstance(i, tuple):
            src = lat if i[0] == "lattice" else rc_cases
            failures.append({"case": src[i[1]], "why": f"{i[0]} model value differs from implementation"})
        else:
            failures.append({"case": cases[i], "impl": {k: v for k, v in res[i].items() if k != 'stored'},
                             "why": "model value differs from implementation"})
    total = len(cases) + len(lat) + len(rc_cases)
    return {"evaluations": total, "distinct_nontrivial": len({str(c) for c in cases}) + len(lat) + len({str(c) for c in rc_cases}),
            "rule": "seeded random oriented anisotropic grids (dyadic spacing/center, rational rotations incl. 90-degree ones), all 16 axes pairs "
                    "cycled x {matrix, points, vectors, origin} x {one grid, two grids}; model fed the float32 attributes the implementation stores; "
                    "lattice: arange model vs coords() values for sampled n, both flags; rounding: model vs round_decimals incl. exact ties. "
                    "every case non-trivial (no identity grid unless drawn); distinct by full input",
            "samples": [{"case": {k: v for k, v in cases[i].items()}, "impl_val": res[i].get("val")} for i in range(2)],
            "failures": failures, "distribution": dist,
            "tolerances": {"grid maps": "2e-4 * (1 + |model|) (implementation computes in float32)", "lattice": "1e-12", "rounding": "1e-8"}}


def search(ctx, broken, corr_failures):
    n = ctx.n(10, 400)
    r = vlib.run_impl("c01_impl", {"fn": "oracle", "seed": ctx.seed, "n": n}, timeout=1500)
    ns = list(range(1, 4097)) if ctx.thorough() else sorted(set(list(range(1, 130)) + [ctx.rng.randint(130, 4096) for _ in range(150)] + [4096]))
    l = vlib.run_impl("c01_impl", {"fn": "lattice_sweep", "ns": ns})
    ctx.notes.append(f"implementation-side property evaluation: {r['counts']}; lattice sweep over {len(ns)} sizes x 2 flags x 2 dtypes"
                     + (" (exhaustive n in [1,4096])" if ctx.thorough() else ""))
    out, seen = [], set()
    for f in r["fails"] + l["fails"]:
        if f["key"] in seen:
            continue
        seen.add(f["key"])
        out.append(Violation(key=f["key"], what=f["what"], replay={"oracle": "c01", "seed": ctx.seed, "n": n, "failure": f}))
    return out


def explains(broken_item, found):
    b = broken_item.lower()
    keys = " ".join(v.key for v in found).lower()
    if b.startswith("translator unit gridt") or "case file did not evaluate" in b:
        # the whole unit failed closed (it reads grid.py and cube.py): any new concrete failing input of the maps explains it
        return bool(found)
    if "lattice" in b or "coords" in b or "gridcoords" in b:
        return "lattice" in keys or "coords" in keys
    if "round" in b:
        return "round" in keys
    if "cube" in b:
        return "cube" in keys
    # anything else (GridT translator unit, theorems about the generated closed forms, case files that no longer
    # evaluate) is explained by any NEW concrete failing input of the grid maps
    return any(k in keys for k in ("inverse", "compose", "vectors", "matrix", "anchor", "transform", "helper", "points", "functional", "origin"))


def replay(ctx, data):
    f = data.get("failure") or {}
    if "lattice" in f.get("key", ""):
        l = vlib.run_impl("c01_impl", {"fn": "lattice_sweep", "ns": [f.get("n", 2)]})
        for g in l["fails"]:
            if g["key"] == f["key"]:
                return g["what"]
        return None
    r = vlib.run_impl("c01_impl", {"fn": "oracle", "seed": data.get("seed", ctx.seed), "n": data.get("n", 10)}, timeout=1500)
    for g in r["fails"]:
        if g["key"] == f.get("key"):
            return g["what"]
    return None


MANIFEST_ENTRY = {
    "text": "Theorems over every field of characteristic 0 (R, Qc): for D in {2,3}, every well-formed grid (non-zero spacing, n, n-1; "
            "orthonormal direction), all 16 axes pairs / 64 triples, one, two and three grids: B->A after A->B is the identity, A->C = A->B->C, "
            "the Grid.transform matrix is the map transform_points applies, vectors transform by exactly the linear part (closed-form path = "
            "vectors matrix = linear part of the points matrix), anchors (origin, center, cube-corner and cube extrema), Cube maps = three-point "
            "grid maps. Over Q: for EVERY n >= 2 the arange literals of Grid.coords give exactly n coordinates, the j-th equal to the grid map of "
            "index j, all within [-1,1], un-normalising to sample j; round_decimals error bound and rounded round-trip bound. The model "
            "(coq/Gen/GridT.v: 2x(16x7+..) closed forms; GridCoords.v) is regenerated from grid.py/cube.py on every run by symbolic tracing.",
    "note": "Partial: float rounding (float32 attributes, arange in floating point) is outside the exact model; covered by the implementation-side "
            "sweep (all n in [1,4096] x 2 flags x 2 dtypes in the thorough tier). 'Sampling at own coords returns the image' is proved as "
            "un-normalisation hitting integer sample positions (interpolation at integer positions: see C05) and checked on the implementation. "
            "Known finding: float64 align_corners lattice exceeds 1 by one ulp for some n. Trusted: Coq kernel, vm_compute, translator, "
            "torch.arange/round/grid_sample documented semantics.",
}
