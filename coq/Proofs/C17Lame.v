(* C17: lame_parameters -- every branch the source can execute returns (lambda, mu) that satisfy the
   defining relations of the elastic constants it was given (or not: the (lambda, E) branch). *)
From Coq Require Import ZArith QArith List Field Ring Lia Bool String.
From DV Require Import Base.Field Base.FieldFacts Base.LinAlg Base.QcInst Model.Losses Model.RegStencil Model.Regularisers
  Gen.Regs Proofs.C16Lists.
Import ListNotations.
Local Open Scope fld_scope.

Section Lame.
Variable K : fld.
Hypothesis Kf : is_field K.
Hypothesis Kc : char0 K.
Add Field KF : Kf.
Let two_nz := two_nz K Kf Kc.
Ltac refold E := fold (@fadd K) (@fmul K) (@fsub K) (@fopp K) (@f1 K) (@f0 K) in E.

Lemma three_nz : (1 + 1 + 1 : K) <> 0.
Proof. replace (1 + 1 + 1 : K) with (@of_pos K 3) by (cbn [of_pos]; ring). apply Kc. Qed.

Lemma lame_direct (lam mu : K) :
  gen_lame_first_second lam mu = (lam, mu) /\ gen_lame_first_shear lam mu = (lam, mu).
Proof. split; reflexivity. Qed.

Lemma div_intro (a b c : K) : b <> 0 -> a = c * b -> a / b = c.
Proof. intros Hb ->. field. exact Hb. Qed.
Lemma div_mul (a b : K) : b <> 0 -> a / b * b = a.
Proof. intro Hb. field. exact Hb. Qed.
Lemma mul_cancel_r (x y d : K) : d <> 0 -> x * d = y * d -> x = y.
Proof. intros Hd H. transitivity (x * d / d); [field; exact Hd | rewrite H; field; exact Hd]. Qed.
Lemma nz_of_mul (x y : K) : x * y <> 0 -> x <> 0.
Proof. intros H E. apply H. rewrite E. ring. Qed.

Lemma lame_first_poisson (lam nu : K) : lam <> 0 -> nu <> 0 ->
  let '(l, m) := gen_lame_first_poisson lam nu in l = lam /\ poisson_of l m = nu.
Proof.
  intros Hl Hn. unfold gen_lame_first_poisson, poisson_of. cbn [of_Z of_pos]. split; [reflexivity|].
  assert (Hd : (1 + 1) * 1 * nu <> 0) by (apply (mul_nz K Kf); [apply (mul_nz K Kf); [exact two_nz | apply (one_nz K Kc)] | exact Hn]).
  pose proof (div_mul (lam * (1 - (1 + 1) * 1 * nu)) ((1 + 1) * 1 * nu) Hd) as Hm.
  set (mu := lam * (1 - (1 + 1) * 1 * nu) / ((1 + 1) * 1 * nu)) in *.
  assert (Eq : lam = nu * ((1 + 1) * (lam + mu))).
  { transitivity (lam * ((1 + 1) * 1 * nu) + mu * ((1 + 1) * 1 * nu)); [rewrite Hm; ring | ring]. }
  apply div_intro; [|exact Eq].
  intro E. apply Hl. rewrite Eq, E. ring.
Qed.

Lemma lame_shear_poisson (g nu : K) : g <> 0 -> 1 - (1 + 1) * nu <> 0 ->
  (let '(l, m) := gen_lame_shear_poisson g nu in m = g /\ poisson_of l m = nu) /\
  gen_lame_second_poisson g nu = gen_lame_shear_poisson g nu.
Proof.
  intros Hg Hn. split; [|reflexivity].
  unfold gen_lame_shear_poisson, poisson_of. cbn [of_Z of_pos]. split; [reflexivity|].
  assert (Hd : 1 - (1 + 1) * 1 * nu <> 0) by (intro E; apply Hn; rewrite <- E; ring).
  pose proof (div_mul ((1 + 1) * 1 * g * nu) (1 - (1 + 1) * 1 * nu) Hd) as Hm.
  set (d := 1 - (1 + 1) * 1 * nu) in *.
  set (lam := (1 + 1) * 1 * g * nu / d) in *.
  assert (Hs : (lam + g) * d = g) by (transitivity (lam * d + g * d); [ring | rewrite Hm; unfold d; ring]).
  assert (Eq : lam = nu * ((1 + 1) * (lam + g))).
  { apply (mul_cancel_r _ _ d Hd). transitivity (nu * (1 + 1) * ((lam + g) * d)); [rewrite Hs, Hm; ring | ring]. }
  apply div_intro; [|exact Eq].
  apply (mul_nz K Kf); [exact two_nz|]. apply (nz_of_mul _ d). rewrite Hs. exact Hg.
Qed.

Lemma lame_shear_young (g ym : K) : g <> 0 -> (1 + 1 + 1) * g - ym <> 0 ->
  (let '(l, m) := gen_lame_shear_young g ym in m = g /\ youngs_of l m = ym) /\
  gen_lame_second_young g ym = gen_lame_shear_young g ym.
Proof.
  intros Hg Hd0. split; [|reflexivity].
  unfold gen_lame_shear_young, youngs_of. cbn [of_Z of_pos]. split; [reflexivity|].
  assert (Hd : (1 + (1 + 1) * 1) * g - ym <> 0) by (intro E; apply Hd0; rewrite <- E; ring).
  pose proof (div_mul (g * (ym - (1 + 1) * 1 * g)) ((1 + (1 + 1) * 1) * g - ym) Hd) as Hm.
  set (d := (1 + (1 + 1) * 1) * g - ym) in *.
  set (lam := g * (ym - (1 + 1) * 1 * g) / d) in *.
  assert (Hs : (lam + g) * d = g * g) by (transitivity (lam * d + g * d); [ring | rewrite Hm; unfold d; ring]).
  assert (Eq : g * ((1 + 1 + 1) * lam + (1 + 1) * g) = ym * (lam + g)).
  { apply (mul_cancel_r _ _ d Hd).
    transitivity (g * ((1 + 1 + 1) * (lam * d) + (1 + 1) * g * d)); [ring|].
    transitivity (ym * ((lam + g) * d)); [rewrite Hs, Hm; unfold d; ring | ring]. }
  apply div_intro; [|exact Eq].
  apply (nz_of_mul _ d). rewrite Hs. apply (mul_nz K Kf); exact Hg.
Qed.

(* (lambda, E): the closed form that satisfies the relation is mu = (E - 3 lambda + r) / 4 with
   r^2 = E^2 + 9 lambda^2 + 2 E lambda (the radicand the source computes) *)
Definition lame_first_young_spec (r lam ym : K) : K * K :=
  (lam, (ym - (1 + 1 + 1) * lam + r) / ((1 + 1) * (1 + 1))).

Lemma lame_first_young_spec_ok (r lam ym : K) :
  r * r = gen_lame_first_young_radicand lam ym ->
  lam + snd (lame_first_young_spec r lam ym) <> 0 ->
  youngs_of (fst (lame_first_young_spec r lam ym)) (snd (lame_first_young_spec r lam ym)) = ym.
Proof.
  unfold gen_lame_first_young_radicand, lame_first_young_spec, youngs_of. cbn [fst snd of_Z of_pos].
  intros Hr Hd.
  assert (Hrr : r * r = ym * ym + (1 + (1 + 1) * ((1 + 1) * ((1 + 1) * 1))) * (lam * lam) + (1 + 1) * 1 * ym * lam)
    by (rewrite Hr; ring).
  assert (H4 : (1 + 1) * (1 + 1) <> (0 : K)) by (apply (mul_nz K Kf); exact two_nz).
  set (mu := (ym - (1 + 1 + 1) * lam + r) / ((1 + 1) * (1 + 1))) in *.
  pose proof (div_mul (ym - (1 + 1 + 1) * lam + r) ((1 + 1) * (1 + 1)) H4) as Hm. fold mu in Hm.
  set (four := (1 + 1) * (1 + 1)) in *.
  assert (Hq : (1 + 1) * (mu * mu) + ((1 + 1 + 1) * lam - ym) * mu - ym * lam = 0).
  { apply (mul_cancel_r _ _ (four * four) (mul_nz K Kf _ _ H4 H4)).
    transitivity ((1 + 1) * ((mu * four) * (mu * four)) + ((1 + 1 + 1) * lam - ym) * (mu * four) * four - ym * lam * (four * four));
      [ring|]. rewrite Hm. unfold four. ring [Hrr]. }
  transitivity ((mu * ((1 + 1 + 1) * lam + (1 + 1) * mu) - ((1 + 1) * (mu * mu) + ((1 + 1 + 1) * lam - ym) * mu - ym * lam)) / (lam + mu)).
  - rewrite Hq. f_equal. ring.
  - field. exact Hd.
Qed.
(* the source's (lambda, E) branch is that closed form *)
Lemma lame_first_young_is_spec (r lam ym : K) : gen_lame_first_young r lam ym = lame_first_young_spec r lam ym.
Proof.
  unfold gen_lame_first_young, lame_first_young_spec. cbn [of_Z of_pos]. f_equal.
  assert (H4 : (1 + 1) * (1 + 1) <> (0 : K)) by (apply (mul_nz K Kf); exact two_nz).
  assert (H4' : (1 + 1) * ((1 + 1) * 1) <> (0 : K)) by (intro E; apply H4; rewrite <- E; ring).
  apply div_intro; [exact H4'|].
  transitivity ((ym - (1 + 1 + 1) * lam + r) / ((1 + 1) * (1 + 1)) * ((1 + 1) * (1 + 1))); [|ring].
  rewrite (div_mul _ _ H4). ring.
Qed.

Lemma lame_first_young (r lam ym : K) :
  r * r = gen_lame_first_young_radicand lam ym -> lam + snd (gen_lame_first_young r lam ym) <> 0 ->
  fst (gen_lame_first_young r lam ym) = lam /\
  youngs_of (fst (gen_lame_first_young r lam ym)) (snd (gen_lame_first_young r lam ym)) = ym.
Proof.
  rewrite lame_first_young_is_spec. intros Hr Hd. split; [reflexivity | apply lame_first_young_spec_ok; assumption].
Qed.

(* (nu, E) *)
Lemma lame_poisson_young (nu ym : K) : ym <> 0 -> 1 + nu <> 0 -> 1 - (1 + 1) * nu <> 0 ->
  youngs_of (fst (gen_lame_poisson_young nu ym)) (snd (gen_lame_poisson_young nu ym)) = ym /\
  poisson_of (fst (gen_lame_poisson_young nu ym)) (snd (gen_lame_poisson_young nu ym)) = nu.
Proof.
  intros Hy Ha Hb0. unfold gen_lame_poisson_young, youngs_of, poisson_of. cbn [fst snd of_Z of_pos].
  assert (Hb : 1 - (1 + 1) * 1 * nu <> 0) by (intro E; apply Hb0; rewrite <- E; ring).
  set (a := 1 + nu) in *. set (b := 1 - (1 + 1) * 1 * nu) in *.
  assert (Hab : a * b <> 0) by (apply (mul_nz K Kf); assumption).
  assert (H2a : (1 + 1) * 1 * a <> 0) by (apply (mul_nz K Kf); [apply (mul_nz K Kf); [exact two_nz | apply (one_nz K Kc)] | exact Ha]).
  pose proof (div_mul (nu * ym) (a * b) Hab) as Hl. pose proof (div_mul ym ((1 + 1) * 1 * a) H2a) as Hm.
  set (lam := nu * ym / (a * b)) in *. set (mu := ym / ((1 + 1) * 1 * a)) in *.
  assert (Hs : (lam + mu) * ((1 + 1) * (a * b)) = ym).
  { transitivity ((1 + 1) * (lam * (a * b)) + (mu * ((1 + 1) * 1 * a)) * b); [ring|]. rewrite Hl, Hm. unfold b. ring. }
  assert (H2ab : (1 + 1) * (a * b) <> 0) by (apply (mul_nz K Kf); [exact two_nz | exact Hab]).
  assert (HS : lam + mu <> 0) by (apply (nz_of_mul _ ((1 + 1) * (a * b))); rewrite Hs; exact Hy).
  split.
  - apply div_intro; [exact HS|].
    apply (mul_cancel_r _ _ (((1 + 1) * 1 * a) * (a * b)) (mul_nz K Kf _ _ H2a Hab)).
    transitivity ((mu * ((1 + 1) * 1 * a)) * ((1 + 1 + 1) * (lam * (a * b)) + (mu * ((1 + 1) * 1 * a)) * b)); [ring|].
    transitivity (ym * ((lam + mu) * ((1 + 1) * (a * b))) * a); [rewrite Hl, Hm, Hs; unfold a, b; ring | ring].
  - apply div_intro; [apply (mul_nz K Kf); [exact two_nz | exact HS]|].
    apply (mul_cancel_r _ _ (a * b) Hab).
    transitivity (nu * ((lam + mu) * ((1 + 1) * (a * b)))); [rewrite Hl, Hs; ring | ring].
Qed.
End Lame.

(* the whole generated table: every pair of distinct keywords is executable except the mutually
   exclusive (second_parameter, shear_modulus); unknown / missing material names are rejected *)
Lemma lame_table_ok :
  gen_lame_table = [("first_second", "Ok"); ("first_shear", "Ok"); ("first_poisson", "Ok"); ("first_young", "Ok");
                    ("second_shear", "ValueError"); ("second_poisson", "Ok"); ("second_young", "Ok");
                    ("shear_poisson", "Ok"); ("shear_young", "Ok"); ("poisson_young", "Ok");
                    ("material_steel", "ValueError"); ("material_none", "ValueError")]%string.
Proof. reflexivity. Qed.

(* rubber preset: mu = 0.0006 and Poisson's ratio 0.4999 up to the float evaluation of lambda *)
Lemma lame_rubber_ok :
  qeqb (snd (gen_lame_rubber (K:=QcF))) (q 3 5000) = true /\
  qclose (1 # 1000000000) (poisson_of (fst (gen_lame_rubber (K:=QcF))) (snd (gen_lame_rubber (K:=QcF)))) (q 4999 10000) = true.
Proof. vm_compute. split; reflexivity. Qed.

(* module wrappers of losses/flow.py and losses/bspline.py (traced: constructor options vs the keyword arguments
   forward() hands to the functional form): every option is passed on, for every class *)
Definition row_ok (p : string * string) : bool := String.eqb (snd p) "ok".
Lemma flow_module_options_ok :
  forallb row_ok gen_flow_module_options = true /\ (13 <= List.length gen_flow_module_options)%nat /\
  existsb (fun p => String.eqb (fst p) "GradLoss(p=4, q=0)") gen_flow_module_options = true /\
  existsb (fun p => String.prefix "Elasticity" (fst p)) gen_flow_module_options = true.
Proof. vm_compute. repeat split; lia. Qed.
