(* The vector re-scaling of FlowFields.sample (vectors w.r.t. axes A of grid g -> axes A of grid g') commutes with changing
   the representation: re-gridding then converting = converting then re-gridding = the two-grid vector map A@g -> B@g'. *)
From Coq Require Import ZArith List Field Ring Lia Bool.
From DV Require Import Base.Field Base.FieldFacts Base.LinAlg Base.Tactics Model.Enums Model.Homog Model.Grid Model.Sampler
  Model.Flow Model.FlowRepr Gen.GridT Proofs.C01Grid Proofs.C01Laws Proofs.C01TwoGrids Proofs.C01TwoA Proofs.C01TwoC Proofs.C10Axes.
Import ListNotations.
Local Open Scope fld_scope.

Section Sample.
Variable K : fld.
Hypothesis Kf : is_field K.
Hypothesis Kc : char0 K.
Variable D : nat.
Hypothesis HD : D = 2%nat \/ D = 3%nat.

Lemma gpts2_lin (g g' : @gridf K) A B X V : gwf D g -> gwf D g' -> length X = D -> length V = D ->
  vsub (gpts2 D A B g g' (vadd X V)) (gpts2 D A B g g' X) = gvecs2 D A B g g' V.
Proof.
  destruct g as [[[n s] c] d], g' as [[[n' s'] c'] d']. intros Hw Hw' HX HV.
  exact (proj1 (vecs2_linear_part K Kf Kc D HD A B n s c d n' s' c' d' X V Hw Hw' HX HV)).
Qed.
Lemma gpts2_len (g g' : @gridf K) A B X : gwf D g -> gwf D g' -> length X = D -> length (gpts2 D A B g g' X) = D.
Proof.
  destruct g as [[[n s] c] d], g' as [[[n' s'] c'] d']. intros Hw Hw' HX. cbn [gpts2].
  rewrite (pts2_is_T2_map K Kf Kc D HD) by auto. now apply T2_map_length.
Qed.
Lemma gpts2_same (g : @gridf K) A B X : gwf D g -> length X = D -> gpts2 D A B g g X = gpts D A B g X.
Proof.
  destruct g as [[[n s] c] d]. intros Hw HX. cbn [gpts2 gpts].
  rewrite (pts2_is_T2_map K Kf Kc D HD) by auto. now apply (pts2_same_grid K Kf Kc D HD).
Qed.
Lemma gpts2_comp (g g' g'' : @gridf K) A B C' X : gwf D g -> gwf D g' -> gwf D g'' -> length X = D ->
  gpts2 D B C' g' g'' (gpts2 D A B g g' X) = gpts2 D A C' g g'' X.
Proof.
  destruct g as [[[n s] c] d], g' as [[[n' s'] c'] d'], g'' as [[[n'' s''] c''] d'']. intros Hw Hw' Hw'' HX.
  now apply (pts2_compose K Kf Kc D HD).
Qed.

Theorem regrid_then_convert (g g' : @gridf K) A B V : gwf D g -> gwf D g' -> length V = D ->
  gvecs D A B g' (gvecs2 D A A g g' V) = gvecs2 D A B g g' V.
Proof.
  intros Hw Hw' HV.
  apply (linpart_compose K Kf D (gpts2 D A A g g') (gpts D A B g') (gpts2 D A B g g')
           (gvecs2 D A A g g') (gvecs D A B g') (gvecs2 D A B g g')); auto.
  - intros. now apply gpts2_lin.
  - intros. now apply (gpts_lin K Kf Kc D HD).
  - intros. now apply gpts2_lin.
  - intros. now apply gpts2_len.
  - intros X HX. rewrite <- (gpts2_same g' A B) by (auto; now apply gpts2_len). now apply gpts2_comp.
Qed.
Theorem convert_then_regrid (g g' : @gridf K) A B V : gwf D g -> gwf D g' -> length V = D ->
  gvecs2 D B B g g' (gvecs D A B g V) = gvecs2 D A B g g' V.
Proof.
  intros Hw Hw' HV.
  apply (linpart_compose K Kf D (gpts D A B g) (gpts2 D B B g g') (gpts2 D A B g g')
           (gvecs D A B g) (gvecs2 D B B g g') (gvecs2 D A B g g')); auto.
  - intros. now apply (gpts_lin K Kf Kc D HD).
  - intros. now apply gpts2_lin.
  - intros. now apply gpts2_lin.
  - intros. now apply (gpts_len K Kf Kc D HD).
  - intros X HX. rewrite <- (gpts2_same g A B) by auto. now apply gpts2_comp.
Qed.
Theorem regrid_commutes_with_axes (g g' : @gridf K) A B V : gwf D g -> gwf D g' -> length V = D ->
  gvecs D A B g' (gvecs2 D A A g g' V) = gvecs2 D B B g g' (gvecs D A B g V).
Proof. intros. now rewrite regrid_then_convert, convert_then_regrid. Qed.
(* re-gridding is invertible and the identity on the same grid *)
Theorem regrid_same (g : @gridf K) A V : gwf D g -> length V = D -> gvecs2 D A A g g V = V.
Proof.
  intros Hw HV. rewrite <- (gpts2_lin g g A A (vzero D) V Hw Hw (length_vzero K D) HV).
  rewrite !gpts2_same by (auto using length_vzero; rewrite length_vadd; rewrite length_vzero; congruence).
  rewrite (gpts_lin K Kf Kc D HD) by auto using length_vzero. now apply (gvecs_same K Kf Kc D HD).
Qed.
End Sample.
