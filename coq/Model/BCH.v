(* Model of the algebra of velocity fields in core/flow.py (definitions only):
   - compose_svfs = a linear combination, with rational coefficients, of u, v and nested Lie brackets of them (the
     coefficients and the nesting per bch_terms are regenerated from the source: Gen/FlowAlg.v gen_bch_terms);
   - lie_bracket: Model/Lie.v *)
From Coq Require Import ZArith List Bool.
From DV Require Import Base.Field Base.LinAlg.
Import ListNotations.
Local Open Scope fld_scope.

(* nested bracket terms over the two operands of compose_svfs(u, v) *)
Inductive bterm := TU | TV | TB (a b : bterm).
Fixpoint bterm_eqb (a b : bterm) : bool :=
  match a, b with
  | TU, TU | TV, TV => true
  | TB a1 a2, TB b1 b2 => bterm_eqb a1 b1 && bterm_eqb a2 b2
  | _, _ => false
  end.
Definition bcoef := (Z * positive * bterm)%type.     (* (n, d, t) stands for (n/d) * t *)
(* which of the derivative options (mode, sigma, spacing, stride) of the caller reach a flow_derivatives call *)
Definition lopts := (bool * bool * bool * bool)%type.

Section BCH.
Context {K : fld}.
Variable F : Type.
Variable zero : F.
Variable add : F -> F -> F.
Variable smul : K -> F -> F.
Variable lb : F -> F -> F.

Fixpoint beval (u v : F) (t : bterm) : F :=
  match t with TU => u | TV => v | TB a b => lb (beval u v a) (beval u v b) end.
Definition bch_lin (env : bterm -> F) (l : list bcoef) : F :=
  fold_left (fun acc p => add acc (smul (of_Q (fst (fst p)) (snd (fst p))) (env (snd p)))) l zero.
Definition bch_eval (u v : F) (l : list bcoef) : F := bch_lin (beval u v) l.
End BCH.

(* the documented Baker-Campbell-Hausdorff table of compose_svfs:  w = log(exp(v) o exp(u))
     v + u + 1/2 [v,u] + 1/12 [v,[v,u]] - 1/12 [u,[v,u]] - 1/24 [u,[v,[v,u]]]
   (bch_terms = 4 takes one of the two equal fourth-order terms, i.e. -1/48) *)
Definition VU := TB TV TU.
Definition bch_table (terms : nat) : list bcoef :=
  [(1%Z, 1%positive, TV); (1%Z, 1%positive, TU)] ++
  (if (1 <=? terms)%nat then [(1%Z, 2%positive, VU)] else []) ++
  (if (2 <=? terms)%nat then [(1%Z, 12%positive, TB TV VU)] else []) ++
  (if (3 <=? terms)%nat then [((-1)%Z, 12%positive, TB TU VU)] else []) ++
  (if (4 <=? terms)%nat then [(if (terms =? 4)%nat then ((-1)%Z, 48%positive, TB TU (TB TV VU))
                               else ((-1)%Z, 24%positive, TB TU (TB TV VU)))] else []).

