(* C18 -- static tie of the hand-written payload model to the traced code: on every traced sample
   configuration (D in {2,3} x C in {1,2,3}, compressed or not; position-coded data pushed through
   deepali's own writer / reader functions by the translator) the index permutation the code performed is
   the one chan_last / chan_first / identity predict.  Re-checked against the regenerated samples on every run. *)
From Coq Require Import String ZArith List Bool Arith.
From DV Require Import Base.Field Model.Enums Model.CodecTypes Gen.Codec Model.Codec.
Import ListNotations.

Fixpoint nat_list_eqb (a b : list nat) : bool :=
  match a, b with
  | [], [] => true
  | x :: a', y :: b' => Nat.eqb x y && nat_list_eqb a' b'
  | _, _ => false
  end.

Definition coded (C N : nat) : list nat := seq 0 (C * N).

Definition tie_meta_w : bool :=
  forallb (fun e => match e with ((D, C, size), perm) =>
                      nat_list_eqb (chan_last C (nprod size) (coded C (nprod size))) perm end) gen_meta_w_payload_samples.
Definition tie_meta_r : bool :=
  forallb (fun e => match e with
                    | ((D, C, size), Some perm) => nat_list_eqb (chan_first C (nprod size) (coded C (nprod size))) perm
                    | (_, None) => true end) gen_meta_r_payload_samples.
Definition tie_sitk_w : bool :=
  forallb (fun e => match e with ((D, C, size), (ssize, ncomp, buf)) =>
                      nat_list_eqb (chan_last C (nprod size) (coded C (nprod size))) buf
                      && nat_list_eqb ssize size && Nat.eqb ncomp C end) gen_sitk_w_payload_samples.
Definition tie_sitk_r : bool :=
  forallb (fun e => match e with ((D, C, size), (shape, perm)) =>
                      nat_list_eqb (chan_first C (nprod size) (coded C (nprod size))) perm
                      && nat_list_eqb shape (C :: rev size) end) gen_sitk_r_payload_samples.
(* NIfTI: the model hands the file-order payload through unchanged wherever the reader accepts the layout *)
Definition tie_nifti_r : bool :=
  forallb (fun e => match e with
                    | ((L, D, C, size), Some (shape, perm)) =>
                        negb (rstatus_ok (@nifti_r_status L D C))
                        || (nat_list_eqb perm (coded C (nprod size)) && nat_list_eqb shape (C :: rev size))
                    | (_, None) => true end) gen_nifti_r_payload_samples.
Definition tie_nifti_w : bool :=
  forallb (fun e => match e with
                    | ((D, C, size), Some (L, shape, perm)) =>
                        nat_list_eqb perm (coded C (nprod size)) &&
                        nat_list_eqb shape (match L with
                                            | LScalar => size
                                            | LOwn => size ++ [C]
                                            | LItkVector => size ++ repeat 1%nat (4 - D) ++ [C]
                                            end)
                    | (_, None) => true end) gen_nifti_w_payload_samples.

Definition count_some {X Y} (l : list (X * option Y)) : nat :=
  length (filter (fun e => match snd e with Some _ => true | None => false end) l).

Lemma payload_model_matches_traces :
  tie_meta_w = true /\ tie_meta_r = true /\ tie_sitk_w = true /\ tie_sitk_r = true /\ tie_nifti_r = true /\ tie_nifti_w = true.
Proof. vm_compute. repeat split. Qed.

Lemma payload_samples_present :
  length gen_meta_w_payload_samples = 36%nat /\ length gen_sitk_w_payload_samples = 18%nat /\
  length gen_sitk_r_payload_samples = 6%nat /\ (1 <= count_some gen_meta_r_payload_samples)%nat /\
  (1 <= count_some gen_nifti_r_payload_samples)%nat.
Proof. vm_compute. repeat split; repeat constructor. Qed.

(* the align_corners flag asked of FlowField.read / Image.read / Grid.from_reader (Grid.from_file) is the flag of the grid
   that comes back (traced for both values): reading back a flow from an align_corners=False grid keeps the meaning of
   Axes.from_grid *)
Definition align_corners_passthrough_ok : bool :=
  forallb (fun e => match e with (_, asked, Some got) => Bool.eqb asked got | (_, _, None) => false end) gen_align_corners_passthrough
  && Nat.eqb (length gen_align_corners_passthrough) 6.
Lemma align_corners_passthrough_holds : align_corners_passthrough_ok = true.
Proof. vm_compute. reflexivity. Qed.

(* suffix dispatch: every file name suffix is written and read by the same backend (so a file goes back through the
   reader that mirrors its writer), no suffix falls through, and the five formats of the property go where the model
   puts them (.mha native MetaImage; .nii / .nii.gz native NIfTI; .mhd / .nrrd SimpleITK), case-insensitively *)
Definition dispatch_ok : bool :=
  forallb (fun e => match e with (_, (w, r)) =>
                      backend_eqb w r && negb (backend_eqb w BNone) && negb (backend_eqb w BError) end) gen_dispatch
  && forallb (fun e => match e with (s, b) =>
                match assoc String.eqb s gen_dispatch with Some (w, _) => backend_eqb w b | None => false end end)
       [(".mha", BMeta); (".MHA", BMeta); (".mhd", BSitk); (".Mhd", BSitk); (".nii", BNifti); (".nii.gz", BNifti);
        (".NII.GZ", BNifti); (".nrrd", BSitk)]%string.
Lemma dispatch_holds : dispatch_ok = true.
Proof. vm_compute. reflexivity. Qed.

(* capabilities pinned once the source has them: big-endian MetaImage files are read in order (raw and compressed), and the
   SimpleITK-routed writer treats data without channel dimension like the native writers do *)
Definition msb_and_nochannel_ok : bool := forallb (fun e => snd e) gen_meta_r_msb && Nat.eqb (length gen_meta_r_msb) 8 && gen_sitk_w_nochannel_same_as_c1.
Lemma msb_and_nochannel_hold : msb_and_nochannel_ok = true.
Proof. vm_compute. reflexivity. Qed.
