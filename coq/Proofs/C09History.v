(* C09 -- statements over arbitrary operation histories from the empty heap, obtained from the
   any-state theorems and the reachability invariant (Proofs/C09Wf.v). *)
From Coq Require Import List Bool Arith Lia.
From DV Require Import Model.TransformState Proofs.C09Fresh Proofs.C09Replace Proofs.C09Regrid Proofs.C09Wf Proofs.C09Seq Proofs.C09SeqDirect.
Import ListNotations.

Section History.
Context {P G C : Type}.
Variable p0 : P.
Variable emptyP : kind -> G -> P.
Variable zeroP : P -> P.
Variable fillP : P -> P -> P.
Variable regrid : kind -> P -> G -> G -> P.
Variable callP : nat -> option C -> P.
Variable fits : kind -> P -> G -> bool.
Variable geq same_dom : G -> G -> bool.
Variable spline_ok : G -> bool.
Variable ffd_sub : G -> G -> option bool.
Variable cf : cfg.
Hypothesis Hcf : cfg_all cf = true.

Notation run := (run P G C p0 emptyP zeroP fillP regrid callP fits geq same_dom spline_ok ffd_sub cf).
Notation step := (step P G C p0 emptyP zeroP fillP regrid callP fits geq same_dom spline_ok ffd_sub cf).
Notation held := (held P G C p0 callP).

Lemma history_wf (h : list (op P G C)) : wf (run (empty_state P G C) h).
Proof. apply (reachable_wf p0 emptyP zeroP fillP regrid callP fits geq same_dom spline_ok ffd_sub cf). Qed.

(* composite call after any history *)
Theorem seq_call_history (h : list (op P G C)) (o : nat) ob (l : list (tag P G)) :
  let s := run (empty_state P G C) h in
  get_obj P G C s o = Some ob -> o_kind P G C ob = KSeq ->
  Forall (plain s) (o_members P G C ob) ->
  snd (step s (Call P G C o)) = Out P G l None ->
  Forall2 (fun t m => held s m = Some t) l (o_members P G C ob).
Proof.
  intros s Hg Hk Hpl H. cbn in H. unfold fin in H.
  destruct (call P G C p0 callP fits spline_ok cf s o) as [l' s'|] eqn:E; cbn in H; try discriminate.
  injection H as ->.
  eapply (seq_call_is_fresh p0 callP fits spline_ok cf Hcf s o ob l s'); eauto. apply history_wf.
Qed.

(* every object of a reachable state stores `params` in at most one of __dict__ / _buffers *)
Theorem history_slots_wf (h : list (op P G C)) (o : nat) ob :
  get_obj P G C (run (empty_state P G C) h) o = Some ob -> slots_wf ob.
Proof.
  intro Hg. pose proof (wf_get _ _ _ (history_wf h) Hg) as (H & _). exact H.
Qed.

(* dense grid_ after any history: no well-formedness hypothesis left *)
Theorem regrid_history (geq_sound : forall a b, geq a b = true -> a = b)
  (W : Type) (world : P -> G -> W) (h : list (op P G C)) o g s1 ob r ip :
  let s := run (empty_state P G C) h in
  (forall k p a b, world (regrid k p a b) b = world p a) ->
  get_obj P G C s o = Some ob -> is_dense (o_kind P G C ob) = true ->
  get_params P G C s ob = Some (VTen r ip) ->
  grid_set P G C p0 regrid fits geq spline_ok ffd_sub cf s o g = Ok tt s1 ->
  exists p', holds p0 s1 o p' g /\ world p' g = world (tval P G C p0 s r) (o_grid P G C ob).
Proof.
  intros s Hw Hg Hd Hp H.
  eapply (dense_grid_set_preserves_world p0 regrid fits geq spline_ok ffd_sub cf Hcf geq_sound W world); eauto.
  eapply history_slots_wf; eauto.
Qed.

(* direct access (no __call__) to a composite right after clear_buffers() on it, after any history *)
Theorem composite_direct_history (h : list (op P G C)) (o : nat) ob (l : list (tag P G)) (gout : option G) :
  let s := run (empty_state P G C) h in
  get_obj P G C s o = Some ob -> o_kind P G C ob = KSeq ->
  Forall (direct_member s) (o_members P G C ob) ->
  let s1 := fst (step s (Clear P G C o)) in
  snd (step s1 (Disp P G C o)) = Out P G l gout ->
  Forall2 (fun t m => held s1 m = Some t) l (o_members P G C ob).
Proof.
  intros s Hg Hk Hdm s1 H.
  assert (Es1 : s1 = clear_buffers P G C cf s o).
  { subst s1. cbn. fold (get_obj P G C s o). rewrite Hg. reflexivity. }
  cbn in H. destruct (TransformState.get_obj P G C s1 o); [|discriminate].
  unfold fin in H.
  destruct (forward P G C p0 callP fits spline_ok cf s1 o) as [l' s'|] eqn:E; cbn in H; try discriminate.
  injection H as -> _. rewrite Es1 in *.
  eapply (composite_direct_after_clear p0 emptyP zeroP fillP regrid callP fits geq same_dom spline_ok ffd_sub cf Hcf s o ob l s'); eauto.
  apply history_wf.
Qed.

(* a linear transform holding a tensor or Parameter is always read fresh (no buffer involved) *)
Theorem linear_tensor_direct (s : state P G C) o ob r ip l s' :
  get_obj P G C s o = Some ob -> o_kind P G C ob = KLin -> get_params P G C s ob = Some (VTen r ip) ->
  forward P G C p0 callP fits spline_ok cf s o = Ok l s' ->
  exists t, l = [t] /\ held s o = Some t.
Proof.
  intros Hg Hk Hp H. unfold forward, with_obj in H. fold (get_obj P G C s o) in H. rewrite Hg, Hk in H.
  unfold bind, tensor1, with_obj in H. fold (get_obj P G C s o) in H. rewrite Hg, Hk in H.
  unfold bind, data_ref in H. rewrite Hp in H. injection H as <- _.
  eexists. split; [reflexivity|].
  unfold TransformState.held. fold (get_obj P G C s o). rewrite Hg, Hp. unfold sign_of. rewrite Hk. reflexivity.
Qed.

(* B-spline subdivision after any history *)
Theorem spline_regrid_history (W : Type) (world : P -> G -> W) (h : list (op P G C)) o g s1 ob r ip :
  let s := run (empty_state P G C) h in
  (forall k p a b, world (regrid k p a b) b = world p a) ->
  get_obj P G C s o = Some ob -> is_spline (o_kind P G C ob) = true ->
  get_params P G C s ob = Some (VTen r ip) ->
  ffd_sub (o_grid P G C ob) g = Some true ->
  grid_set P G C p0 regrid fits geq spline_ok ffd_sub cf s o g = Ok tt s1 ->
  exists p', holds p0 s1 o p' g /\ world p' g = world (tval P G C p0 s r) (o_grid P G C ob).
Proof.
  intros s Hw Hg Hsp Hp Hsub H.
  exists (regrid (o_kind P G C ob) (tval P G C p0 s r) (o_grid P G C ob) g). split; [|apply Hw].
  eapply (spline_grid_set_reexpresses p0 regrid fits geq spline_ok ffd_sub cf Hcf); eauto.
  eapply history_slots_wf; eauto.
Qed.

End History.
