(* C05: the continuous source index deepali's resampling pipeline computes is ITK's. *)
From Coq Require Import ZArith List Field Ring Lia Bool.
From DV Require Import Base.Field Base.FieldFacts Base.LinAlg Base.Tactics Model.Enums Model.Homog Model.Grid Model.ItkSpec
  Model.Sampler Gen.GridT Gen.SampleT Model.Resample Proofs.C01Grid Proofs.C01Laws Proofs.C01TwoA Proofs.C01TwoB Proofs.C01TwoGrids.
Import ListNotations.
Local Open Scope fld_scope.

Section C05Index.
Variable K : fld.
Hypothesis Kf : is_field K.
Hypothesis Kc : char0 K.
Add Field KF_C05Index : Kf.

Let K1 := K1nz K Kf.
Let K2 := K2nz K Kf Kc.
Hint Resolve K1 K2 : core.
Ltac side := repeat split; auto.
Ltac len2 X H := destruct X as [|?x0 [|?x1 [|? ?]]]; try discriminate H; clear H.
Ltac len3 X H := destruct X as [|?x0 [|?x1 [|?x2 [|? ?]]]]; try discriminate H; clear H.

Variable D : nat.
Hypothesis HD : D = 2%nat \/ D = 3%nat.

(* source sizes are the integer sizes of the image tensor *)
Lemma zvec_vtab (nz : nat -> Z) : zvec (map nz (seq 0 D)) = vtab D (zsz (K:=K) nz).
Proof. unfold zvec, vtab, zsz. rewrite map_map. reflexivity. Qed.

(* grid_sample's un-normalisation is the CUBE / CUBE_CORNERS -> GRID map of the source grid *)
Lemma vunnorm_is_to_index (ac : bool) (nz : nat -> Z) (s c : nat -> K) (d : nat -> nat -> K) (X : list K) :
  length X = D ->
  vunnorm ac (map nz (seq 0 D)) X
  = to_index D (cube_axes ac) (vtab D (zsz nz)) (vtab D s) (vtab D c) (tab D D d) X.
Proof.
  intro HX. destruct HD as [-> | ->]; [len2 X HX | len3 X HX]; destruct ac; fcbv; list_eq; field; side.
Qed.

Lemma cube_axes_not_world ac : cube_axes ac <> WORLD.
Proof. destruct ac; discriminate. Qed.

Lemma vadd_comm (a b : list K) : vadd a b = vadd b a.
Proof.
  revert b; induction a as [|x a IH]; intros [|y b]; try reflexivity.
  unfold vadd in *. cbn [vmap2]. rewrite IH. f_equal. ring.
Qed.

(* world <-> index of the model are ITK's maps with origin = position of sample 0 *)
Lemma world_index_is_itk (tn ts tc sn ss sc : nat -> K) (td sd : nat -> nat -> K) (J : list K) :
  to_index D WORLD (vtab D sn) (vtab D ss) (vtab D sc) (tab D D sd)
    (from_index D WORLD (vtab D tn) (vtab D ts) (vtab D tc) (tab D D td) J)
  = itk_cindex D (vtab D tn) (vtab D ts) (vtab D tc) (tab D D td) (vtab D sn) (vtab D ss) (vtab D sc) (tab D D sd) J.
Proof.
  unfold itk_cindex, itk_index, itk_phys. cbn [to_index from_index].
  rewrite !(gen_origin_is_spec K Kf Kc D) by exact HD.
  rewrite (vadd_comm (origin_spec D (vtab D tn) (vtab D ts) (vtab D tc) (tab D D td))). reflexivity.
Qed.

(* target points in axes A, taken to world through the target grid *)
Lemma points_to_world (A : axes) (tn ts tc : nat -> K) (td : nat -> nat -> K) (J : list K) :
  wf D tn ts td -> length J = D ->
  to_world D A (vtab D tn) (vtab D ts) (vtab D tc) (tab D D td) (dp_points D A (vtab D tn) (vtab D ts) (vtab D tc) (tab D D td) J)
  = from_index D WORLD (vtab D tn) (vtab D ts) (vtab D tc) (tab D D td) J.
Proof.
  intros Ht HJ. destruct A; cbn [dp_points to_world].
  - reflexivity.
  - rewrite (pts_is_T_map K Kf Kc D GRID CUBE) by (auto; intros [? ?]; discriminate).
    unfold T_map. change (to_index D GRID (vtab D tn) (vtab D ts) (vtab D tc) (tab D D td) J) with J.
    rewrite (to_from_index K Kf Kc) by auto. reflexivity.
  - rewrite (pts_is_T_map K Kf Kc D GRID CUBE_CORNERS) by (auto; intros [? ?]; discriminate).
    unfold T_map. change (to_index D GRID (vtab D tn) (vtab D ts) (vtab D tc) (tab D D td) J) with J.
    rewrite (to_from_index K Kf Kc) by auto. reflexivity.
  - rewrite (pts_is_T_map K Kf Kc D GRID WORLD) by (auto; intros [? ?]; discriminate).
    unfold T_map. reflexivity.
Qed.

Lemma dp_points_length (A : axes) (tn ts tc : nat -> K) (td : nat -> nat -> K) (J : list K) :
  wf D tn ts td -> length J = D ->
  length (dp_points D A (vtab D tn) (vtab D ts) (vtab D tc) (tab D D td) J) = D.
Proof.
  intros Ht HJ. destruct A; cbn [dp_points]; auto; apply (pts_length K Kf Kc D tn ts tc td HD Ht); auto.
Qed.

(* core of both APIs: points of the target lattice given in axes A, mapped by the two-grid point map into
   the source cube of flavour ac and un-normalised, are ITK's continuous source indices *)
Lemma two_grid_index (A : axes) (ac : bool) (tn ts tc : nat -> K) (td : nat -> nat -> K)
      (snz : nat -> Z) (ss sc : nat -> K) (sd : nat -> nat -> K) (J : list K) :
  wf D tn ts td -> wf D (zsz snz) ss sd -> length J = D ->
  vunnorm ac (map snz (seq 0 D))
    (gen_pts2 D A (cube_axes ac) (vtab D tn) (vtab D ts) (vtab D tc) (tab D D td)
       (vtab D (zsz snz)) (vtab D ss) (vtab D sc) (tab D D sd)
       (dp_points D A (vtab D tn) (vtab D ts) (vtab D tc) (tab D D td) J))
  = itk_cindex D (vtab D tn) (vtab D ts) (vtab D tc) (tab D D td) (vtab D (zsz snz)) (vtab D ss) (vtab D sc) (tab D D sd) J.
Proof.
  intros Ht Hs HJ.
  pose proof (dp_points_length A tn ts tc td J Ht HJ) as HP.
  rewrite (pts2_is_T2_map K Kf Kc D HD) by auto.
  rewrite (vunnorm_is_to_index ac snz ss sc sd) by (apply (T2_map_length K D HD); exact HP).
  unfold T2_map. rewrite points_to_world by auto.
  assert (E : from_world D (cube_axes ac) (vtab D (zsz snz)) (vtab D ss) (vtab D sc) (tab D D sd)
                (from_index D WORLD (vtab D tn) (vtab D ts) (vtab D tc) (tab D D td) J)
              = from_index D (cube_axes ac) (vtab D (zsz snz)) (vtab D ss) (vtab D sc) (tab D D sd)
                  (to_index D WORLD (vtab D (zsz snz)) (vtab D ss) (vtab D sc) (tab D D sd)
                     (from_index D WORLD (vtab D tn) (vtab D ts) (vtab D tc) (tab D D td) J)))
    by (destruct ac; reflexivity).
  rewrite E. rewrite (to_from_index K Kf Kc) by
    (auto; apply (to_index_length K); auto; apply (from_index_length K); auto).
  apply world_index_is_itk.
Qed.

(* data level: ImageBatch.sample / Image.sample with a Grid *)
Lemma sample_index_matches_itk (ac : bool) (tn ts tc : nat -> K) (td : nat -> nat -> K)
      (snz : nat -> Z) (ss sc : nat -> K) (sd : nat -> nat -> K) (J : list K) :
  wf D tn ts td -> wf D (zsz snz) ss sd -> length J = D ->
  dp_index D ac (vtab D tn) (vtab D ts) (vtab D tc) (tab D D td) (map snz (seq 0 D)) (vtab D ss) (vtab D sc) (tab D D sd) J
  = itk_cindex D (vtab D tn) (vtab D ts) (vtab D tc) (tab D D td) (vtab D (zsz snz)) (vtab D ss) (vtab D sc) (tab D D sd) J.
Proof.
  intros Ht Hs HJ. unfold dp_index, dp_src_coords, dp_coords. rewrite zvec_vtab.
  pose proof (two_grid_index (cube_axes ac) ac tn ts tc td snz ss sc sd J Ht Hs HJ) as H.
  destruct ac; exact H.
Qed.

(* the precomputed module matrix is the two-grid transform target axes -> source cube (target's flag) *)
Lemma smat_is_T2 (A : axes) (ac : bool) (tn ts tc : nat -> K) (td : nat -> nat -> K)
      (sn ss sc : nat -> K) (sd : nat -> nat -> K) :
  gen_smat D A ac (vtab D tn) (vtab D ts) (vtab D tc) (tab D D td) (vtab D sn) (vtab D ss) (vtab D sc) (tab D D sd)
  = gen_T2 D A (cube_axes ac) (vtab D tn) (vtab D ts) (vtab D tc) (tab D D td) (vtab D sn) (vtab D ss) (vtab D sc) (tab D D sd).
Proof. destruct HD as [-> | ->]; destruct A, ac; reflexivity. Qed.

Lemma T2_form_FH A B : gen_T2_form A B = FH.
Proof. destruct A, B; reflexivity. Qed.

(* module level: SampleImage on target.points(axes), AlignImage / TransformImage without transform *)
Lemma module_index_matches_itk (A : axes) (ac : bool) (tn ts tc : nat -> K) (td : nat -> nat -> K)
      (snz : nat -> Z) (ss sc : nat -> K) (sd : nat -> nat -> K) (J : list K) :
  wf D tn ts td -> wf D (zsz snz) ss sd -> length J = D ->
  mod_index D A ac (vtab D tn) (vtab D ts) (vtab D tc) (tab D D td) (map snz (seq 0 D)) (vtab D ss) (vtab D sc) (tab D D sd) J
  = itk_cindex D (vtab D tn) (vtab D ts) (vtab D tc) (tab D D td) (vtab D (zsz snz)) (vtab D ss) (vtab D sc) (tab D D sd) J.
Proof.
  intros Ht Hs HJ. unfold mod_index, mod_src_coords. rewrite zvec_vtab, smat_is_T2.
  pose proof (dp_points_length A tn ts tc td J Ht HJ) as HP.
  pose proof (T2_matrix_is_pts2 K Kf Kc D HD A (cube_axes ac) tn ts tc td (zsz snz) ss sc sd _ Ht Hs HP) as E.
  unfold tapply in E. rewrite T2_form_FH in E. cbn [form_apply] in E. rewrite E.
  apply two_grid_index; auto.
Qed.
End C05Index.
