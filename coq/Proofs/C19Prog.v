(* C19 -- closure under programs: if every step is sound with respect to its operands, every typed
   value a program produces carries, per entry, the grid of an input item whose data the entry holds.
   Induction over the operation list; no bound on program length, batch sizes or grid assignment. *)
From Coq Require Import List ZArith Bool Arith Lia.
From DV Require Import Model.Enums Model.Batch Model.BatchSpec Proofs.C19Base Proofs.C19Generic Proofs.C19Aligned
  Proofs.C19Cat Proofs.C19GetItem.
Import ListNotations.
Local Arguments ndim : simpl never.

Lemma index_rest_nil s : index_rest s [] = Some s.
Proof. destruct s; reflexivity. Qed.

Section Prog.
Variable gshape : gid -> shape.
Variable gaxes : gid -> axes.
Variable grid_of : nat -> gid.

Definition no_single (p : pval) : Prop := is_single (t_kind (fst p)) = false.

Lemma nth_prov args srcs i :
  nth i (prov_of args srcs) [] =
  flat_map (fun s => nth (snd s) (snd (nth (fst s) args (mkT [] TPlain, []))) []) (nth i srcs []).
Proof.
  unfold prov_of. revert i. induction srcs as [|x l IH]; intros [|i]; cbn [map nth flat_map]; auto.
Qed.

(* one step: local soundness + the invariant of the operands give the invariant of the result *)
Lemma step_inv (args : list pval) (o : oval) :
  Forall (ginv grid_of) args -> Forall no_single args -> is_single (v_kind o) = false ->
  out_sound gshape (map fst args) o ->
  ginv grid_of (val_of o, prov_of args (v_src o)).
Proof.
  intros Hinv Hns Hos Hs. unfold ginv, out_sound in *. cbn [fst snd val_of t_kind].
  destruct (v_kind o) as [|fl gs|fl g]; [exact I| |cbn in Hos; discriminate Hos].
  destruct Hs as (_ & Hent). intros i Hi. destruct (Hent i Hi) as (_ & (s & Hin & Hg) & _).
  unfold entry_grid in Hg. rewrite nth_error_map in Hg. unfold pval in *.
  destruct (nth_error args (fst s)) as [p|] eqn:Ep; [|cbn in Hg; discriminate Hg]. cbn [option_map] in Hg.
  assert (Hp : In p args) by (eapply nth_error_In; eauto).
  rewrite Forall_forall in Hinv, Hns. specialize (Hinv p Hp). specialize (Hns p Hp).
  unfold ginv in Hinv. unfold no_single in Hns.
  destruct (t_kind (fst p)) as [|fl' G|fl' g']; [discriminate Hg| |cbn in Hns; discriminate Hns].
  assert (He : snd s < length G) by (apply nth_error_Some; congruence).
  destruct (Hinv (snd s) He) as (k & Hk & Hgk).
  exists k. split.
  - rewrite nth_prov. apply in_flat_map. exists s. split; [exact Hin|].
    rewrite (nth_error_nth _ _ _ Ep). exact Hk.
  - rewrite Hgk. apply nth_error_nth with (d := 0) in Hg. now rewrite Hg.
Qed.

(* syntactic sufficient conditions for a step to be sound (they depend on the current value) *)
Definition step_ok (cur : tval) (inputs : list tval) (st : step) : Prop :=
  match s_op st with
  | OCat d => cat_dim0 d /\ s_args st <> [] /\ all_image_batches gshape (map (resolve cur inputs) (s_args st))
  | OGetItem (GOne (ISlice _ _ _)) | OGetItem (GOne (IList _)) =>
      s_args st = [RCur] /\ exists fl gs, t_kind cur = TBatch fl gs
  | o => s_args st = [RCur] /\ generic_op o = true /\ batch_aligned o (t_shape cur) = true
         /\ exists gs, t_kind cur = TBatch None gs
  end.

Lemma step_ok_sound cur inputs st :
  wf_val gshape cur -> step_ok cur inputs st ->
  res_sound gshape (map (resolve cur inputs) (s_args st)) (run_step gshape gaxes cur inputs st).
Proof.
  intros Hwf Hok. unfold run_step, step_ok in *. destruct cur as [sh k]. cbn [t_shape t_kind] in *.
  assert (Hgen : forall o, s_args st = [RCur] /\ generic_op o = true /\ batch_aligned o sh = true /\ (exists gs, k = TBatch None gs) ->
            s_op st = o -> res_sound gshape (map (resolve (mkT sh k) inputs) (s_args st)) (run_op gshape gaxes (s_op st) (map (resolve (mkT sh k) inputs) (s_args st)))).
  { intros o (Ha & Hg & Hb & gs & ->) Ho. rewrite Ha, Ho. cbn [map resolve].
    apply generic_sound; auto. apply batch_aligned_ok; auto. }
  destruct (s_op st) as [ | | | | | | | |d| | | | | | | | | | | | | | | | |f| | | | | | | ] eqn:Eo;
    try (apply (Hgen _ Hok eq_refl)); try (destruct Hok as (_ & Hg & _); discriminate Hg).
  - (* cat *)
    destruct Hok as (Hd & Hne & Hall).
    destruct (map (resolve (mkT sh k) inputs) (s_args st)) as [|a l] eqn:El.
    { destruct (s_args st); [congruence|discriminate El]. }
    apply cat_dim0_sound; auto.
  - (* getitem *)
    destruct f as [i|l]; [|destruct Hok as (_ & Hg & _); discriminate Hg].
    destruct i; try (destruct Hok as (_ & Hg & _); discriminate Hg);
      destruct Hok as (Ha & fl & gs & ->); rewrite Ha; cbn [map resolve];
      apply getitem_one_sound; auto.
Qed.

(* the run of a program whose steps all satisfy step_ok at the state they are applied to *)
Fixpoint steps_ok (cur : tval) (inputs : list tval) (steps : list step) : Prop :=
  match steps with
  | [] => True
  | st :: r => step_ok cur inputs st
               /\ match pick_out (run_step gshape gaxes cur inputs st) (s_pick st) with
                  | Some o => steps_ok (val_of o) inputs r
                  | None => True
                  end
  end.

Lemma pick_sound args r k o : res_sound gshape args r -> pick_out r k = Some o -> out_sound gshape args o.
Proof.
  destruct r as [e|x|os]; cbn; intros H E; [discriminate| now injection E as <- |].
  rewrite Forall_forall in H. apply H. eapply nth_error_In; eauto.
Qed.

Lemma out_sound_wf args o : out_sound gshape args o -> wf_val gshape (val_of o).
Proof.
  unfold out_sound. destruct (v_kind o) eqn:E; intros H.
  - unfold wf_val, val_of. cbn. now rewrite E.
  - now destruct H.
  - now destruct H.
Qed.

Lemma step_ok_no_single cur inputs st o :
  step_ok cur inputs st -> pick_out (run_step gshape gaxes cur inputs st) (s_pick st) = Some o ->
  wf_val gshape cur -> is_single (v_kind o) = false.
Proof.
  intros Hok Hp Hwf.
  pose proof (pick_sound _ _ _ _ (step_ok_sound cur inputs st Hwf Hok) Hp) as Hs.
  destruct (v_kind o) as [| |fl g] eqn:Ek; auto. exfalso.
  (* a single image can only come out of a batch through an int index / select, which reduce ndim;
     the cases admitted by step_ok keep or type-check the batch structure: read off the model *)
  unfold run_step, step_ok in *. destruct cur as [sh k]. cbn [t_shape t_kind] in *.
  assert (Hgen : forall oo gs, generic_op oo = true ->
            pick_out (run_op gshape gaxes oo [mkT sh (TBatch None gs)]) (s_pick st) = Some o -> False).
  { intros oo gs Hg Hpo. rewrite run_generic in Hpo by exact Hg. unfold generic_result in Hpo.
    destruct (data_sem oo [sh]) as [e|d|ds]; [discriminate Hpo| |cbn [pick_out] in Hpo].
    - destruct oo; try discriminate Hg; cbv beta iota in Hpo;
        try (unfold one_kind in Hpo; destruct (res_batch gshape (d_shape d) (Some gs)) as [e|kk] eqn:ER;
             cbn [pick_out] in Hpo; [discriminate Hpo|]; injection Hpo as <-; cbn [v_kind] in Ek; subst kk;
             eapply res_batch_not_single; eauto; fail).
      cbn [pick_out] in Hpo. injection Hpo as <-. cbn in Ek. discriminate Ek.
    - apply nth_error_In in Hpo. apply in_map_iff in Hpo. destruct Hpo as (d & <- & _). cbn in Ek. discriminate Ek. }
  destruct (s_op st) as [ | | | | | | | |d| | | | | | | | | | | | | | | | |f| | | | | | | ] eqn:Eo;
    try (destruct Hok as (Ha & Hg & _ & gs & ->); rewrite Ha in Hp; cbn [map resolve] in Hp; eapply Hgen; eauto; fail);
    try (destruct Hok as (_ & Hg & _); discriminate Hg).
  - (* cat *)
    destruct Hok as (Hd & Hne & Hall).
    destruct (map (resolve (mkT sh k) inputs) (s_args st)) as [|a l] eqn:El.
    { destruct (s_args st); [congruence|discriminate El]. }
    unfold run_op in Hp. rewrite (choose_disp_image_batches gshape a l Hall) in Hp.
    unfold dispatch_batch in Hp. destruct (all_batches_kinds gshape (a :: l) Hall) as (Htb & _). rewrite Htb in Hp.
    destruct (data_sem (OCat d) (map t_shape (a :: l))) as [e|dd|ds] eqn:ED; [discriminate Hp| |].
    2:{ exfalso. cbn in ED. repeat match type of ED with context [match ?c with _ => _ end] => destruct c end; discriminate ED. }
    cbv beta iota in Hp. cbn [class_of] in Hp.
    match type of Hp with context [tf_grid_batch ?a ?b ?c] => destruct (tf_grid_batch a b c) end;
      cbn [flat_of pick_out] in Hp; try discriminate Hp;
      unfold one_kind in Hp;
      match type of Hp with context [res_batch ?a ?b ?c] => destruct (res_batch a b c) as [e|kk] eqn:ER end;
      cbn [pick_out] in Hp; try discriminate Hp; injection Hp as <-; cbn [v_kind] in Ek; subst kk;
      eapply res_batch_not_single; eauto.
  - (* getitem with a slice or an index list: never a single image *)
    destruct f as [i|l]; [|destruct Hok as (_ & Hg & _); discriminate Hg].
    destruct i as [z|a b c|l|l|]; try (destruct Hok as (_ & Hg & _); discriminate Hg);
      destruct Hok as (Ha & fl' & gs & ->); rewrite Ha in Hp; cbn [map resolve] in Hp;
      unfold run_op in Hp; cbn [nth t_kind t_shape getitem_batch] in Hp; unfold getitem_finish in Hp;
      destruct (index_data sh _) as [e|d|ds] eqn:ED; try discriminate Hp;
      cbn [index_data] in ED; destruct sh as [|n s']; try discriminate ED;
      cbn [index_first grid_index] in ED, Hp.
    + destruct (slice_sel n a b c) as [sel|] eqn:Es; cbn in ED; [|discriminate ED]. rewrite index_rest_nil in ED. injection ED as <-.
      destruct (slice_sel (length gs) a b c); cbn in Hp; [|discriminate Hp].
      repeat match type of Hp with context [if ?c then _ else _] => destruct c end; cbn in Hp;
        try (injection Hp as <-; cbn in Ek; discriminate Ek).
      unfold one_kind in Hp. match type of Hp with context [make_instance ?a ?b ?c ?d] => destruct (make_instance a b c d) as [e|kk] eqn:EM end;
        [discriminate Hp|]. apply make_instance_ok in EM. destruct EM as (f2 & -> & _). injection Hp as <-. cbn in Ek. discriminate Ek.
    + unfold norm_idxs in *. destruct (norm_dims n l) as [sel|] eqn:Es; cbn in ED; [|discriminate ED]. rewrite index_rest_nil in ED. injection ED as <-.
      destruct (norm_dims (length gs) l); cbn in Hp; [|discriminate Hp].
      repeat match type of Hp with context [if ?c then _ else _] => destruct c end; cbn in Hp;
        try (injection Hp as <-; cbn in Ek; discriminate Ek).
      unfold one_kind in Hp. match type of Hp with context [make_instance ?a ?b ?c ?d] => destruct (make_instance a b c d) as [e|kk] eqn:EM end;
        [discriminate Hp|]. apply make_instance_ok in EM. destruct EM as (f2 & -> & _). injection Hp as <-. cbn in Ek. discriminate Ek.
Qed.

Theorem prog_sound steps : forall (cur : pval) (inputs : list pval) (final : pval),
  wf_val gshape (fst cur) -> ginv grid_of cur -> no_single cur ->
  Forall (fun p => wf_val gshape (fst p) /\ ginv grid_of p /\ no_single p) inputs ->
  steps_ok (fst cur) (map fst inputs) steps ->
  prun gshape gaxes cur inputs steps = Some final ->
  wf_val gshape (fst final) /\ ginv grid_of final.
Proof.
  induction steps as [|st r IH]; intros cur inputs final Hwf Hinv Hns Hin Hok Hrun.
  - cbn in Hrun. injection Hrun as <-. auto.
  - cbn [prun] in Hrun. destruct (pstep gshape gaxes cur inputs st) as [v|] eqn:Ep; [|discriminate Hrun].
    unfold pstep in Ep. cbn [steps_ok] in Hok. destruct Hok as (Hst & Hrest).
    assert (Hargs : map fst (map (presolve cur inputs) (s_args st)) = map (resolve (fst cur) (map fst inputs)) (s_args st)).
    { rewrite map_map. apply map_ext. intros [|k]; cbn; [reflexivity|].
      change (mkT [] TPlain) with (fst (mkT [] TPlain, @nil (list nat))). now rewrite map_nth. }
    rewrite Hargs in Ep. unfold run_step in Hrest.
    destruct (pick_out (run_op gshape gaxes (s_op st) (map (resolve (fst cur) (map fst inputs)) (s_args st))) (s_pick st)) as [o|] eqn:Epick;
      [|discriminate Ep].
    injection Ep as <-.
    pose proof (step_ok_sound (fst cur) (map fst inputs) st Hwf Hst) as Hsound.
    pose proof (pick_sound _ _ _ _ Hsound Epick) as Hos.
    assert (Hsingle : is_single (v_kind o) = false) by (eapply step_ok_no_single; eauto).
    assert (HargsF : Forall (fun p => wf_val gshape (fst p) /\ ginv grid_of p /\ no_single p) (map (presolve cur inputs) (s_args st))).
    { apply Forall_forall. intros p Hp. apply in_map_iff in Hp. destruct Hp as (rf & <- & _). destruct rf as [|k]; cbn; [auto|].
      destruct (Nat.lt_ge_cases k (length inputs)) as [Hk|Hk].
      - rewrite Forall_forall in Hin. apply Hin. now apply nth_In.
      - rewrite nth_overflow by exact Hk. cbn. unfold wf_val, ginv, no_single; cbn. auto. }
    apply (IH (val_of o, prov_of (map (presolve cur inputs) (s_args st)) (v_src o)) inputs final);
      [ | | | exact Hin | exact Hrest | exact Hrun].
    + cbn [fst]. eapply out_sound_wf; eauto.
    + apply step_inv; auto.
      * eapply Forall_impl; [|exact HargsF]. intros p (_ & H & _); exact H.
      * eapply Forall_impl; [|exact HargsF]. intros p (_ & _ & H); exact H.
      * now rewrite Hargs.
    + unfold no_single. cbn. exact Hsingle.
Qed.
(* The same induction with the soundness of the steps as a hypothesis about the run: every theorem of Proofs/C19*.v
   (binary operations, splits, stack, append, from_images, FlowFields dispatcher, ...) can be plugged in step by step. *)
Fixpoint steps_sound (cur : tval) (inputs : list tval) (steps : list step) : Prop :=
  match steps with
  | [] => True
  | st :: r => res_sound gshape (map (resolve cur inputs) (s_args st)) (run_step gshape gaxes cur inputs st)
               /\ match pick_out (run_step gshape gaxes cur inputs st) (s_pick st) with
                  | Some o => is_single (v_kind o) = false /\ steps_sound (val_of o) inputs r
                  | None => True
                  end
  end.

Theorem prog_sound_general steps : forall (cur : pval) (inputs : list pval) (final : pval),
  ginv grid_of cur -> no_single cur ->
  Forall (fun p => ginv grid_of p /\ no_single p) inputs ->
  steps_sound (fst cur) (map fst inputs) steps ->
  prun gshape gaxes cur inputs steps = Some final ->
  ginv grid_of final.
Proof.
  induction steps as [|st r IH]; intros cur inputs final Hinv Hns Hin Hok Hrun.
  - cbn in Hrun. injection Hrun as <-. auto.
  - cbn [prun] in Hrun. destruct (pstep gshape gaxes cur inputs st) as [v|] eqn:Ep; [|discriminate Hrun].
    unfold pstep in Ep. cbn [steps_sound] in Hok. destruct Hok as (Hsound & Hrest).
    assert (Hargs : map fst (map (presolve cur inputs) (s_args st)) = map (resolve (fst cur) (map fst inputs)) (s_args st)).
    { rewrite map_map. apply map_ext. intros [|k]; cbn; [reflexivity|].
      change (mkT [] TPlain) with (fst (mkT [] TPlain, @nil (list nat))). now rewrite map_nth. }
    rewrite Hargs in Ep. unfold run_step in Hrest, Hsound.
    destruct (pick_out (run_op gshape gaxes (s_op st) (map (resolve (fst cur) (map fst inputs)) (s_args st))) (s_pick st)) as [o|] eqn:Epick;
      [|discriminate Ep].
    injection Ep as <-. destruct Hrest as (Hsingle & Hrest).
    pose proof (pick_sound _ _ _ _ Hsound Epick) as Hos.
    assert (HargsF : Forall (fun p => ginv grid_of p /\ no_single p) (map (presolve cur inputs) (s_args st))).
    { apply Forall_forall. intros p Hp. apply in_map_iff in Hp. destruct Hp as (rf & <- & _). destruct rf as [|k]; cbn; [auto|].
      destruct (Nat.lt_ge_cases k (length inputs)) as [Hk|Hk].
      - rewrite Forall_forall in Hin. apply Hin. now apply nth_In.
      - rewrite nth_overflow by exact Hk. cbn. unfold ginv, no_single; cbn. auto. }
    apply (IH (val_of o, prov_of (map (presolve cur inputs) (s_args st)) (v_src o)) inputs final);
      [ | | exact Hin | exact Hrest | exact Hrun].
    + apply step_inv; auto.
      * eapply Forall_impl; [|exact HargsF]. intros p (H & _); exact H.
      * eapply Forall_impl; [|exact HargsF]. intros p (_ & H); exact H.
      * now rewrite Hargs.
    + unfold no_single. cbn. exact Hsingle.
Qed.
End Prog.
