(* Convergence of the closed form of scaling and squaring (I + M/2^k)^(2^k) to exp M for the real canonical forms of a
   2 x 2 matrix that are not diagonal: the Jordan block [[a 1] [0 a]] and the rotation-scaling [[a -b] [b a]]
   (complex eigenvalues a +- i b).  With C11LimitConj2.v: every generator similar to one of the three forms. *)
From Coq Require Import Reals Lra Lia List.
From Coquelicot Require Import Coquelicot.
From DV Require Import Base.Field Base.LinAlg Base.RInst Base.Tactics Model.Sampler Model.Flow Proofs.C11Compose
  Proofs.C11Limit Proofs.C11LimitModel Proofs.C11LimitConj2 Proofs.C11LimitAnalysis.
Import ListNotations.
Local Open Scope R_scope.

(* ---------- diagonal ---------- *)
Lemma hpow_diagL2 a d m : hpow (K:=RF) 2 (L2 a 0 0 d) m = L2 (a ^ m) 0 0 (d ^ m).
Proof.
  induction m as [|m IH]; cbn [hpow pow]; [apply hid_L2|]. rewrite IH, hcomp_L2. unfold L2, H2. list_eq; cbn; ring.
Qed.

Theorem conv2_diagonal (a d : R) :
  conv2 (fun k : nat => hpow (K:=RF) 2 (hone_plus (K:=RF) 2 (/ 2 ^ k) (L2 a 0 0 d)) (2 ^ k)) (L2 (exp a) 0 0 (exp d)).
Proof.
  assert (EA : forall k : nat, hpow (K:=RF) 2 (hone_plus (K:=RF) 2 (/ 2 ^ k) (L2 a 0 0 d)) (2 ^ k)
                         = L2 ((1 + a / 2 ^ k) ^ (2 ^ k)) 0 0 ((1 + d / 2 ^ k) ^ (2 ^ k))).
  { intro k. rewrite hone_plus_L2, !Rmult_0_r. rewrite hpow_diagL2. unfold Rdiv. now rewrite !(Rmult_comm (/ 2 ^ k)). }
  intros i j Hi Hj. destruct i as [|[|i]]; [| |lia]; (destruct j as [|[|j]]; [| |lia]).
  - eapply is_lim_seq_ext; [|apply (scalar_scaling_and_squaring_converges a)]. intro k. now rewrite EA.
  - apply is_lim_seq_ext with (fun _ => 0); [intro k; now rewrite EA | apply is_lim_seq_const].
  - apply is_lim_seq_ext with (fun _ => 0); [intro k; now rewrite EA | apply is_lim_seq_const].
  - eapply is_lim_seq_ext; [|apply (scalar_scaling_and_squaring_converges d)]. intro k. now rewrite EA.
Qed.

(* ---------- Jordan block ---------- *)
(* m x^(m-1), by recurrence *)
Fixpoint pw1 (x : R) (m : nat) : R := match m with O => 0 | S m' => x ^ m' + x * pw1 x m' end.

Lemma pw1_mul x m : pw1 x m * x = INR m * x ^ m.
Proof.
  induction m as [|m IH]; [cbn; ring|]. cbn [pw1]. rewrite S_INR. cbn [pow].
  transitivity (x ^ m * x + x * (pw1 x m * x)); [ring|]. rewrite IH. ring.
Qed.

Lemma hpow_jordan x t m : hpow (K:=RF) 2 (L2 x t 0 x) m = L2 (x ^ m) (t * pw1 x m) 0 (x ^ m).
Proof.
  induction m as [|m IH]; cbn [hpow].
  - rewrite hid_L2. unfold L2, H2. list_eq; cbn; ring.
  - rewrite IH, hcomp_L2. cbn [pw1 pow]. unfold L2, H2. list_eq; cbn; ring.
Qed.

Lemma jordan_entry (n xk xn pw : R) : n <> 0 -> xk <> 0 -> pw * xk = n * xn -> xn / xk = / n * pw.
Proof.
  intros Hn Hx Hp. apply (Rmult_eq_reg_r xk); [|exact Hx]. transitivity xn; [field; exact Hx|].
  rewrite Rmult_assoc, Hp. field. exact Hn.
Qed.

Theorem conv2_jordan (a : R) :
  conv2 (fun k : nat => hpow (K:=RF) 2 (hone_plus (K:=RF) 2 (/ 2 ^ k) (L2 a 1 0 a)) (2 ^ k)) (L2 (exp a) (exp a) 0 (exp a)).
Proof.
  assert (EA : forall k : nat, hpow (K:=RF) 2 (hone_plus (K:=RF) 2 (/ 2 ^ k) (L2 a 1 0 a)) (2 ^ k)
                         = L2 ((1 + a / 2 ^ k) ^ (2 ^ k)) (/ 2 ^ k * pw1 (1 + a / 2 ^ k) (2 ^ k)) 0 ((1 + a / 2 ^ k) ^ (2 ^ k))).
  { intro k. rewrite hone_plus_L2, Rmult_0_r, Rmult_1_r. unfold Rdiv. rewrite (Rmult_comm a). apply hpow_jordan. }
  intros i j Hi Hj. destruct i as [|[|i]]; [| |lia]; (destruct j as [|[|j]]; [| |lia]).
  - eapply is_lim_seq_ext; [|apply (scalar_scaling_and_squaring_converges a)]. intro k. now rewrite EA.
  - (* x^n / x  with  x -> 1 *)
    pose proof (lim_half_pow a) as L0. apply is_lim_seq_spec in L0. destruct (L0 (mkposreal 1 Rlt_0_1)) as [N HN].
    apply is_lim_seq_ext_loc with (fun k => (1 + a / 2 ^ k) ^ (2 ^ k) / (1 + a / 2 ^ k)).
    + exists N. intros k Hk. specialize (HN k Hk). cbn in HN. rewrite Rminus_0_r in HN. apply Rabs_def2 in HN.
      rewrite EA. unfold hentry, L2, H2. cbn [nth].
      pose proof (pw1_mul (1 + a / 2 ^ k) (2 ^ k)) as Hp. rewrite pow_INR in Hp. change (INR 2) with 2 in Hp.
      pose proof (pow2_pos k) as H2k.
      assert (Hx : 1 + a / 2 ^ k <> 0) by lra.
      apply jordan_entry; [lra | exact Hx | exact Hp].
    + change (hentry (L2 (exp a) (exp a) 0 (exp a)) 0 1) with (exp a). replace (exp a) with (exp a / 1) at 1 by field.
      apply is_lim_seq_div'; [apply scalar_scaling_and_squaring_converges | apply lim_one_plus_half_pow | lra].
  - apply is_lim_seq_ext with (fun _ => 0); [intro k; now rewrite EA | apply is_lim_seq_const].
  - eapply is_lim_seq_ext; [|apply (scalar_scaling_and_squaring_converges a)]. intro k. now rewrite EA.
Qed.

(* ---------- rotation-scaling ---------- *)
(* powers of the complex number x + i y *)
Fixpoint cpw (x y : R) (m : nat) : R * R :=
  match m with O => (1, 0) | S m' => (x * fst (cpw x y m') - y * snd (cpw x y m'), x * snd (cpw x y m') + y * fst (cpw x y m')) end.

Lemma hpow_rot x y m :
  hpow (K:=RF) 2 (L2 x (- y) y x) m = L2 (fst (cpw x y m)) (- snd (cpw x y m)) (snd (cpw x y m)) (fst (cpw x y m)).
Proof.
  induction m as [|m IH]; cbn [hpow].
  - rewrite hid_L2. unfold L2, H2. list_eq; cbn; ring.
  - rewrite IH, hcomp_L2. cbn [cpw fst snd]. unfold L2, H2. list_eq; cbn; ring.
Qed.

Lemma cpw_polar rho th m :
  cpw (rho * cos th) (rho * sin th) m = (rho ^ m * cos (INR m * th), rho ^ m * sin (INR m * th)).
Proof.
  induction m as [|m IH].
  - cbn. rewrite Rmult_0_l, cos_0, sin_0. f_equal; ring.
  - cbn [cpw]. rewrite IH. cbn [fst snd]. rewrite S_INR.
    replace ((INR m + 1) * th) with (th + INR m * th) by ring. rewrite cos_plus, sin_plus. cbn [pow]. f_equal; ring.
Qed.

(* polar form of x + i y for x > 0: modulus x / cos(atan(y/x)), argument atan(y/x) *)
Lemma polar_form (x y : R) : 0 < x ->
  let th := atan (y / x) in let rho := x / cos th in
  x = rho * cos th /\ y = rho * sin th /\ 0 < rho /\ rho ^ 2 = x ^ 2 + y ^ 2.
Proof.
  intros Hx th rho.
  assert (Hc : 0 < cos th). { destruct (atan_bound (y / x)) as [B1 B2]. apply cos_gt_0; unfold th; lra. }
  assert (Hs : sin th = cos th * (y / x)).
  { pose proof (tan_atan (y / x)) as Ht. fold th in Ht. unfold tan in Ht. rewrite <- Ht. field. lra. }
  assert (E1 : x = rho * cos th) by (unfold rho; field; lra).
  assert (E2 : y = rho * sin th) by (unfold rho; rewrite Hs; field; split; lra).
  split; [exact E1|]. split; [exact E2|]. split; [unfold rho; apply Rdiv_lt_0_compat; assumption|].
  pose proof (sin2_cos2 th) as Hsc. unfold Rsqr in Hsc.
  transitivity (rho ^ 2 * (sin th * sin th + cos th * cos th)); [rewrite Hsc; ring|].
  replace (x ^ 2 + y ^ 2) with ((rho * cos th) ^ 2 + (rho * sin th) ^ 2) by (rewrite <- E1, <- E2; reflexivity). ring.
Qed.

Theorem conv2_rotation_scaling (a b : R) :
  conv2 (fun k : nat => hpow (K:=RF) 2 (hone_plus (K:=RF) 2 (/ 2 ^ k) (L2 a (- b) b a)) (2 ^ k))
        (L2 (exp a * cos b) (- (exp a * sin b)) (exp a * sin b) (exp a * cos b)).
Proof.
  set (x := fun k : nat => 1 + a / 2 ^ k). set (y := fun k : nat => b / 2 ^ k).
  set (th := fun k : nat => atan (y k / x k)). set (rho := fun k : nat => x k / cos (th k)).
  assert (EA : forall k : nat, hpow (K:=RF) 2 (hone_plus (K:=RF) 2 (/ 2 ^ k) (L2 a (- b) b a)) (2 ^ k)
               = L2 (fst (cpw (x k) (y k) (2 ^ k))) (- snd (cpw (x k) (y k) (2 ^ k))) (snd (cpw (x k) (y k) (2 ^ k))) (fst (cpw (x k) (y k) (2 ^ k)))).
  { intro k. rewrite hone_plus_L2. unfold x, y, Rdiv. rewrite <- (hpow_rot (1 + a * / 2 ^ k) (b * / 2 ^ k)).
    f_equal. unfold L2, H2. list_eq; cbn; ring. }
  (* eventually x_k > 0 *)
  pose proof (lim_half_pow a) as L0. apply is_lim_seq_spec in L0. destruct (L0 (mkposreal 1 Rlt_0_1)) as [N HN].
  assert (Hxpos : forall k, (N <= k)%nat -> 0 < x k).
  { intros k Hk. specialize (HN k Hk). cbn in HN. rewrite Rminus_0_r in HN. apply Rabs_def2 in HN. unfold x. lra. }
  assert (Ecpw : forall k, (N <= k)%nat ->
            cpw (x k) (y k) (2 ^ k) = (rho k ^ (2 ^ k) * cos (2 ^ k * th k), rho k ^ (2 ^ k) * sin (2 ^ k * th k))).
  { intros k Hk. destruct (polar_form (x k) (y k) (Hxpos k Hk)) as [E1 [E2 _]]. fold (th k) in E1, E2. fold (rho k) in E1, E2.
    rewrite E1 at 1. rewrite E2 at 1. rewrite cpw_polar, pow_INR. reflexivity. }
  (* modulus *)
  assert (Lx : is_lim_seq x 1) by apply lim_one_plus_half_pow.
  assert (Ly : is_lim_seq y 0) by apply lim_half_pow.
  assert (Lrho : is_lim_seq (fun k => rho k ^ (2 ^ k)) (exp a)).
  { set (w := fun k : nat => (2 * a + (a * a + b * b) / 2 ^ k) / 2 ^ k).
    assert (Lw2 : is_lim_seq (fun k => 2 ^ k * w k) (2 * a)).
    { apply is_lim_seq_ext with (fun k => 2 * a + (a * a + b * b) / 2 ^ k).
      - intro k. unfold w. pose proof (pow2_pos k). field. lra.
      - replace (2 * a) with (2 * a + 0) at 1 by ring. apply is_lim_seq_plus'; [apply is_lim_seq_const | apply lim_half_pow]. }
    assert (Lw : is_lim_seq w 0).
    { apply is_lim_seq_ext with (fun k => (2 * a) / 2 ^ k + ((a * a + b * b) / 2 ^ k) * (1 / 2 ^ k)).
      - intro k. unfold w. pose proof (pow2_pos k). field. lra.
      - replace 0 with (0 + 0 * 0) by ring. apply is_lim_seq_plus'; [apply lim_half_pow|].
        apply is_lim_seq_mult'; apply lim_half_pow. }
    pose proof (pow_exp_limit w (2 * a) Lw Lw2) as Lp.
    assert (Ls : is_lim_seq (fun k => sqrt ((1 + w k) ^ (2 ^ k))) (sqrt (exp (2 * a)))).
    { apply is_lim_seq_continuous; [|exact Lp]. apply continuity_pt_sqrt. left. apply exp_pos. }
    replace (exp a) with (sqrt (exp (2 * a))).
    2:{ replace (2 * a) with (a + a) by ring. rewrite exp_plus. apply sqrt_square. left. apply exp_pos. }
    apply is_lim_seq_ext_loc with (2 := Ls). exists N. intros k Hk.
    destruct (polar_form (x k) (y k) (Hxpos k Hk)) as [_ [_ [Hr Hr2]]]. fold (th k) in Hr, Hr2. fold (rho k) in Hr, Hr2.
    assert (E : 1 + w k = rho k ^ 2).
    { rewrite Hr2. unfold w, x, y. pose proof (pow2_pos k). field. lra. }
    rewrite E, <- pow_mult, Nat.mul_comm, pow_mult. apply sqrt_pow2. left. apply pow_lt. exact Hr. }
  (* argument *)
  assert (Lth : is_lim_seq (fun k => 2 ^ k * th k) b).
  { apply scaled_atan_limit.
    - replace 0 with (0 / 1) by field. apply is_lim_seq_div'; [exact Ly | exact Lx | lra].
    - apply is_lim_seq_ext_loc with (fun k => b / x k).
      + exists N. intros k Hk. pose proof (Hxpos k Hk) as Hp. unfold y. pose proof (pow2_pos k). field. split; lra.
      + replace b with (b / 1) at 1 by field. apply is_lim_seq_div'; [apply is_lim_seq_const | exact Lx | lra]. }
  assert (Lcos : is_lim_seq (fun k => cos (2 ^ k * th k)) (cos b)).
  { apply is_lim_seq_continuous; [apply continuity_cos | exact Lth]. }
  assert (Lsin : is_lim_seq (fun k => sin (2 ^ k * th k)) (sin b)).
  { apply is_lim_seq_continuous; [apply continuity_sin | exact Lth]. }
  assert (Lre : is_lim_seq (fun k => fst (cpw (x k) (y k) (2 ^ k))) (exp a * cos b)).
  { apply is_lim_seq_ext_loc with (fun k => rho k ^ (2 ^ k) * cos (2 ^ k * th k)).
    - exists N. intros k Hk. now rewrite (Ecpw k Hk).
    - apply is_lim_seq_mult'; assumption. }
  assert (Lim : is_lim_seq (fun k => snd (cpw (x k) (y k) (2 ^ k))) (exp a * sin b)).
  { apply is_lim_seq_ext_loc with (fun k => rho k ^ (2 ^ k) * sin (2 ^ k * th k)).
    - exists N. intros k Hk. now rewrite (Ecpw k Hk).
    - apply is_lim_seq_mult'; assumption. }
  intros i j Hi Hj. destruct i as [|[|i]]; [| |lia]; (destruct j as [|[|j]]; [| |lia]).
  - eapply is_lim_seq_ext; [|exact Lre]. intro k. now rewrite EA.
  - apply is_lim_seq_ext with (fun k => - snd (cpw (x k) (y k) (2 ^ k))); [intro k; now rewrite EA|].
    change (hentry (L2 (exp a * cos b) (- (exp a * sin b)) (exp a * sin b) (exp a * cos b)) 0 1) with (- (exp a * sin b)).
    apply (is_lim_seq_opp _ (Finite (exp a * sin b))). exact Lim.
  - eapply is_lim_seq_ext; [|exact Lim]. intro k. now rewrite EA.
  - eapply is_lim_seq_ext; [|exact Lre]. intro k. now rewrite EA.
Qed.
