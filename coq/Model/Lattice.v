(* Per-axis sample lattice and decimal rounding, over Q (order and floor are needed).
   torch.arange(start, stop, step) is modelled by its documented semantics:
   ceil((stop - start) / step) elements start + i * step.  Float rounding of arange is outside
   the model (see DESIGN.md, trusted base). *)
From Coq Require Import ZArith QArith Qround Qabs List.
Import ListNotations.
Local Open Scope Q_scope.

Definition arange_count (start stop step : Q) : Z := Qceiling ((stop - start) / step).
Definition arange_elem (start step : Q) (i : Z) : Q := start + inject_Z i * step.
Fixpoint arange_list (start step : Q) (k : nat) (i : Z) : list Q :=
  match k with O => [] | S k' => arange_elem start step i :: arange_list start step k' (i + 1) end.
Definition arange (start stop step : Q) : list Q :=
  arange_list start step (Z.to_nat (arange_count start stop step)) 0.

(* what the coordinate of sample i must be: the GRID -> CUBE_CORNERS / CUBE map of Model/Grid.v in 1-D *)
Definition coord_spec (ac : bool) (n : Q) (i : Q) : Q :=
  if ac then (2 * i) / (n - 1) - 1 else (2 * i + 1) / n - 1.
(* torch.nn.functional.grid_sample's un-normalisation of a coordinate to a sample index *)
Definition unnormalize (ac : bool) (n : Q) (x : Q) : Q :=
  if ac then (x + 1) / 2 * (n - 1) else ((x + 1) * n - 1) / 2.

(* round half to even, as torch.round *)
Definition round_half_even (x : Q) : Z :=
  let f := Qfloor x in
  let r := x - inject_Z f in
  match Qcompare r (1 # 2) with
  | Lt => f
  | Gt => (f + 1)%Z
  | Eq => if Z.even f then f else (f + 1)%Z
  end.
Definition pow10 (d : Z) : Q := inject_Z (10 ^ d).
Definition round_decimals (d : Z) (x : Q) : Q := inject_Z (round_half_even (x * pow10 d)) / pow10 d.
