(* C16: the list model (Model/Losses.v) specialised to short vectors IS the formula traced from
   losses/functional.py (Gen/Losses.v): coefficients, epsilons, argument order, mask handling,
   reductions and window geometry of the model are those of the source text. *)
From Coq Require Import ZArith List Field Ring Lia Bool String.
From DV Require Import Base.Field Base.FieldFacts Base.LinAlg Base.Tactics Model.Losses Gen.Losses.
Import ListNotations.
Local Open Scope fld_scope.

Ltac has_div t := match t with context [fdiv _ _] => idtac end.
Ltac no_div t := tryif has_div t then fail else idtac.

Section G.
Variable K : fld.
Hypothesis Kf : is_field K.
Add Field KF : Kf.
Variable fabs : K -> K.
Variable fleb : K -> K -> bool.

(* congruence closure on quotients: name an innermost quotient, identify every quotient that is
   equal to it up to ring equations of numerator and denominator, repeat; then ring *)
Ltac abstract_one_div :=
  match goal with
  | |- context [fdiv ?a ?b] =>
      no_div a; no_div b;
      let q := fresh "q" in
      set (q := fdiv a b);
      repeat match goal with
             | |- context [fdiv ?a' ?b'] =>
                 no_div a'; no_div b';
                 replace (fdiv a' b') with q by (subst q; f_equal; ring)
             end;
      clearbody q
  end.
Ltac div_congr := repeat abstract_one_div; ring.
Ltac gen_tac := fcbv; list_eq; div_congr.

Section V4.
Variables x0 x1 x2 x3 y0 y1 y2 y3 w0 w1 w2 w3 u0 u1 u2 u3 v0 v1 v2 v3 : K.
Let X := [x0; x1; x2; x3].
Let Y := [y0; y1; y2; y3].
Let W := [w0; w1; w2; w3].
Let U := [u0; u1; u2; u3].
Let V := [v0; v1; v2; v3].



(* ---- ssd / mse ------------------------------------------------------------------------------------ *)
Lemma gen_ssd_ok :
  gen_ssd_loss_none_mask X Y W = pointwise_loss sqd RNone X Y (Some W) /\
  gen_ssd_loss_mean_mask X Y W = pointwise_loss sqd RMean X Y (Some W) /\
  gen_ssd_loss_sum_mask X Y W = pointwise_loss sqd RSum X Y (Some W) /\
  gen_ssd_loss_none X Y = pointwise_loss sqd RNone X Y None /\
  gen_ssd_loss_mean X Y = pointwise_loss sqd RMean X Y None /\
  gen_ssd_loss_sum X Y = pointwise_loss sqd RSum X Y None.
Proof. repeat split; gen_tac. Qed.

Lemma gen_mse_ok :
  gen_mse_loss_none_mask X Y W = pointwise_loss sqd RNone X Y (Some W) /\
  gen_mse_loss_mean_mask X Y W = pointwise_loss sqd RMean X Y (Some W) /\
  gen_mse_loss_sum_mask X Y W = pointwise_loss sqd RSum X Y (Some W) /\
  gen_mse_loss_none X Y = pointwise_loss sqd RNone X Y None /\
  gen_mse_loss_mean X Y = pointwise_loss sqd RMean X Y None /\
  gen_mse_loss_sum X Y = pointwise_loss sqd RSum X Y None.
Proof. repeat split; gen_tac. Qed.

Lemma gen_ssd_norm_ok (c : K) :
  gen_ssd_loss_mean_mask_norm c X Y W = div_norm c (pointwise_loss sqd RMean X Y (Some W)) /\
  gen_mse_loss_mean_mask_norm c X Y W = div_norm c (pointwise_loss sqd RMean X Y (Some W)).
Proof. repeat split; gen_tac. Qed.

(* ---- mae / l1 (|.| is the parameter fabs) --------------------------------------------------------- *)
Lemma gen_mae_ok :
  gen_mae_loss_none_mask fabs X Y W = pointwise_loss (absd fabs) RNone X Y (Some W) /\
  gen_mae_loss_mean_mask fabs X Y W = pointwise_loss (absd fabs) RMean X Y (Some W) /\
  gen_mae_loss_sum_mask fabs X Y W = pointwise_loss (absd fabs) RSum X Y (Some W) /\
  gen_mae_loss_none fabs X Y = pointwise_loss (absd fabs) RNone X Y None /\
  gen_mae_loss_mean fabs X Y = pointwise_loss (absd fabs) RMean X Y None /\
  gen_mae_loss_sum fabs X Y = pointwise_loss (absd fabs) RSum X Y None.
Proof. repeat split; gen_tac. Qed.

Lemma gen_l1_ok :
  gen_l1_loss_none_mask fabs X Y W = pointwise_loss (absd fabs) RNone X Y (Some W) /\
  gen_l1_loss_mean_mask fabs X Y W = pointwise_loss (absd fabs) RMean X Y (Some W) /\
  gen_l1_loss_sum_mask fabs X Y W = pointwise_loss (absd fabs) RSum X Y (Some W) /\
  gen_l1_loss_none fabs X Y = pointwise_loss (absd fabs) RNone X Y None /\
  gen_l1_loss_mean fabs X Y = pointwise_loss (absd fabs) RMean X Y None /\
  gen_l1_loss_sum fabs X Y = pointwise_loss (absd fabs) RSum X Y None.
Proof. repeat split; gen_tac. Qed.

Lemma gen_mae_norm_ok (c : K) :
  gen_mae_loss_mean_mask_norm fabs c X Y W = div_norm c (pointwise_loss (absd fabs) RMean X Y (Some W)) /\
  gen_l1_loss_mean_mask_norm fabs c X Y W = div_norm c (pointwise_loss (absd fabs) RMean X Y (Some W)).
Proof. repeat split; gen_tac. Qed.

(* ---- overlap ---------------------------------------------------------------------------------------- *)
Lemma gen_dice_ok (eps : K) :
  gen_dice_w eps X Y W = [dice_score eps X Y (Some W)] /\
  gen_dice eps X Y = [dice_score eps X Y None] /\
  gen_dice_loss_w eps X Y W = [1 - dice_score eps X Y (Some W)].
Proof. repeat split; gen_tac. Qed.

Lemma gen_tversky_ok (al be eps : K) :
  gen_tversky al be eps X Y = [tversky_index al be eps X Y None].
Proof. gen_tac. Qed.

(* two channels, weight of shape (1, 1, X): broadcast over the channels *)
Lemma gen_tversky_c2w_ok (al be eps : K) :
  Some (gen_tversky_c2w al be eps X Y [w0; w1])
  = b_overlap (tversky_index al be eps) RNone [[[x0; x1]; [x2; x3]]] [[[y0; y1]; [y2; y3]]]
      (Some ([[[w0; w1]]], [1; 2]%nat)).
Proof. fcbv. apply f_equal. list_eq; div_congr. Qed.

(* one-channel input with a weight; tversky_loss with and without the focal exponent *)
Lemma gen_tversky_loss_ok (al be eps : K) :
  gen_tversky_w al be eps X Y W = [tversky_index al be eps X Y (Some W)] /\
  gen_tversky_loss_w al be eps X Y W = [tversky_loss 0 al be eps X Y (Some W)] /\
  gen_tversky_loss_g1 al be eps X Y = [tversky_loss 1 al be eps X Y None] /\
  gen_tversky_loss_g3 al be eps X Y = [tversky_loss 3 al be eps X Y None] /\
  Some (gen_tversky_loss_mean al be eps X Y)
  = b_overlap (tversky_loss 0 al be eps) RMean [[[x0; x1]; [x2; x3]]] [[[y0; y1]; [y2; y3]]] None.
Proof. repeat split; try gen_tac. fcbv. apply f_equal. list_eq; div_congr. Qed.

(* channel glue of tversky_index: a two-channel prediction with a binary target is scored on its foreground
   channel 1; a one-channel prediction with a two-channel one-hot target against the target's channel 1 *)
Lemma gen_tversky_forms_ok (al be eps : K) :
  gen_tversky_p2t1 al be eps X [y0; y1] = [tversky_index al be eps [x2; x3] [y0; y1] None] /\
  gen_tversky_p1t2 al be eps [x0; x1] Y = [tversky_index al be eps [x0; x1] [y2; y3] None].
Proof. split; gen_tac. Qed.

(* ---- global correlation ---------------------------------------------------------------------------- *)
Lemma gen_ncc_ok (eps : K) : gen_ncc eps X Y = [ncc_one eps X Y].
Proof. gen_tac. Qed.

Lemma gen_ncc_batch_ok (eps : K) :
  Some (gen_ncc_batch_mean eps X Y) = b_ncc RMean eps [[[x0; x1]]; [[x2; x3]]] [[[y0; y1]]; [[y2; y3]]] [1; 2]%nat None.
Proof. fcbv. apply f_equal. list_eq; div_congr. Qed.

(* with a mask: weighted correlation *)
Lemma gen_ncc_mask_ok (eps : K) : gen_ncc_mask eps X Y W = [ncc_w eps X Y W].
Proof. gen_tac. Qed.

End V4.

(* mi_loss / nmi_loss: the default intensity range is (min of both minima, max of both maxima), hence the same
   for (input, target) and (target, input) -- the abstract bin centres of the symmetry theorem do not depend on
   the order of the images *)
Lemma mi_default_range_ok (fmin2 fmax2 : K -> K -> K) (xmin xmax tmin tmax : K) :
  gen_mi_default_range fmin2 fmax2 xmin xmax tmin tmax = (fmin2 xmin tmin, fmax2 xmax tmax) /\
  ((forall a b, fmin2 a b = fmin2 b a) -> (forall a b, fmax2 a b = fmax2 b a) ->
   gen_mi_default_range fmin2 fmax2 tmin tmax xmin xmax = gen_mi_default_range fmin2 fmax2 xmin xmax tmin tmax).
Proof.
  split; [reflexivity|]. intros Hmin Hmax. unfold gen_mi_default_range. rewrite (Hmin tmin xmin), (Hmax tmax xmax). reflexivity.
Qed.

(* ncc_loss: mask of shape (1, 1, X) on a (2, 2, X) batch, broadcast over items and channels *)
Lemma gen_ncc_mask_bcast_ok (eps x0 x1 x2 x3 x4 x5 x6 x7 y0 y1 y2 y3 y4 y5 y6 y7 w0 w1 : K) :
  Some (gen_ncc_mask_bcast eps [x0; x1; x2; x3; x4; x5; x6; x7] [y0; y1; y2; y3; y4; y5; y6; y7] [w0; w1])
  = b_ncc RSum eps [[[x0; x1]; [x2; x3]]; [[x4; x5]; [x6; x7]]] [[[y0; y1]; [y2; y3]]; [[y4; y5]; [y6; y7]]] [1; 2]%nat
      (Some ([[[w0; w1]]], [1; 2]%nat)).
Proof. fcbv. apply f_equal. list_eq; div_congr. Qed.

(* mask of shape (1, 1, X) on a (2, 2, X) batch *)
Lemma gen_ssd_bcast_ok (x0 x1 x2 x3 x4 x5 x6 x7 y0 y1 y2 y3 y4 y5 y6 y7 w0 w1 : K) :
  Some (gen_ssd_bcast_mean [x0; x1; x2; x3; x4; x5; x6; x7] [y0; y1; y2; y3; y4; y5; y6; y7] [w0; w1])
  = b_elementwise fleb sqd RMean [[[x0; x1]; [x2; x3]]; [[x4; x5]; [x6; x7]]]
      [[[y0; y1]; [y2; y3]]; [[y4; y5]; [y6; y7]]] [1; 2]%nat (Some ([[[w0; w1]]], [1; 2]%nat)) None.
Proof. fcbv. apply f_equal. list_eq; div_congr. Qed.

End G.

(* NormalizedPairwiseImageLoss: the default normalisation factor is max_difference^2 of the images that were given --
   of the one image when only source or only target is given -- and an explicit norm wins; norm=False disables it *)
Lemma norm_defaults_ok :
  gen_norm_defaults =
  [("source", "max_difference(source, source)^2"); ("target", "max_difference(target, target)^2");
   ("source, target", "max_difference(source, target)^2"); ("target, norm=True", "max_difference(target, target)^2");
   ("source, norm=True", "max_difference(source, source)^2"); ("source, target, norm=False", "None");
   ("norm=c", "c"); ("source, target, norm=c", "c"); ("nothing", "None")]%string.
Proof. reflexivity. Qed.
