(* 3-D generators that are block diagonal: an ARBITRARY linear 2 x 2 block in the x-y plane (rotation, shear, anisotropic
   scaling, ...) plus a scaling along z.  The closed form of scaling and squaring is block diagonal with the 2-D closed
   form and the scalar closed form as blocks, for every k; hence it converges entrywise to blockdiag(exp(G2), e^z). *)
From Coq Require Import Reals Lra Lia List.
From Coquelicot Require Import Coquelicot.
From DV Require Import Base.Field Base.LinAlg Base.RInst Base.Tactics Model.Sampler Model.Flow Proofs.C11Compose Proofs.C11Compose3
  Proofs.C11Limit Proofs.C11LimitModel Proofs.C11LimitConj2 Proofs.C11LimitAnalysis Proofs.C11LimitForms2 Proofs.C11LimitClass2.
Import ListNotations.
Local Open Scope R_scope.

Definition B3 (a b c d z : R) : list (list R) := H3 (K:=RF) a b 0 0 c d 0 0 0 0 z 0.
Definition B3m (A : list (list R)) (z : R) : list (list R) := B3 (hentry A 0 0) (hentry A 0 1) (hentry A 1 0) (hentry A 1 1) z.

Lemma hcomp_B3 a b c d z a' b' c' d' z' :
  hcomp (K:=RF) 3 (B3 a b c d z) (B3 a' b' c' d' z')
  = B3 (a * a' + b * c') (a * b' + b * d') (c * a' + d * c') (c * b' + d * d') (z * z').
Proof. unfold B3. rewrite (hcomp3_H3 RF RF_field). unfold H3. list_eq; cbn; ring. Qed.

Lemma hid_B3 : hid (K:=RF) 3 = B3 1 0 0 1 1.
Proof. unfold hid, B3, H3. cbn. list_eq; cbn; ring. Qed.

Lemma hpow_B3 a b c d z m :
  hpow (K:=RF) 3 (B3 a b c d z) m = B3m (hpow (K:=RF) 2 (L2 a b c d) m) (z ^ m).
Proof.
  induction m as [|m IH]; cbn [hpow pow].
  - rewrite hid_L2, hid_B3. reflexivity.
  - rewrite IH. destruct (hpow_L2_form a b c d m) as [a' [b' [c' [d' E]]]]. rewrite E, hcomp_L2.
    unfold B3m. destruct (hentry_L2 a' b' c' d') as [E00 [E01 [E10 E11]]]. rewrite E00, E01, E10, E11.
    rewrite hcomp_B3. reflexivity.
Qed.

Lemma hone_plus_B3 t a b c d z :
  hone_plus (K:=RF) 3 t (B3 a b c d z) = B3 (1 + t * a) (t * b) (t * c) (1 + t * d) (1 + t * z).
Proof. unfold hone_plus, hid, B3, H3. cbn. list_eq; cbn; ring. Qed.

(* for every k the 3-D closed form is the block matrix of the 2-D closed form and the scalar closed form *)
Theorem closed_form_block3 a b c d z (k : nat) :
  hpow (K:=RF) 3 (hone_plus (K:=RF) 3 (/ 2 ^ k) (B3 a b c d z)) (2 ^ k)
  = B3m (hpow (K:=RF) 2 (hone_plus (K:=RF) 2 (/ 2 ^ k) (L2 a b c d)) (2 ^ k)) ((1 + z / 2 ^ k) ^ (2 ^ k)).
Proof.
  rewrite hone_plus_B3, hone_plus_L2, hpow_B3. unfold Rdiv. now rewrite (Rmult_comm z).
Qed.

Lemma hentry_B3 a b c d z :
  hentry (B3 a b c d z) 0 0 = a /\ hentry (B3 a b c d z) 0 1 = b /\ hentry (B3 a b c d z) 0 2 = 0 /\
  hentry (B3 a b c d z) 1 0 = c /\ hentry (B3 a b c d z) 1 1 = d /\ hentry (B3 a b c d z) 1 2 = 0 /\
  hentry (B3 a b c d z) 2 0 = 0 /\ hentry (B3 a b c d z) 2 1 = 0 /\ hentry (B3 a b c d z) 2 2 = z.
Proof. repeat split; reflexivity. Qed.

(* entrywise convergence of the linear 3 x 3 parts *)
Definition conv3 (A : nat -> list (list R)) (E : list (list R)) : Prop :=
  forall i j, (i < 3)%nat -> (j < 3)%nat -> is_lim_seq (fun k => hentry (A k) i j) (hentry E i j).

Theorem conv3_block (a b c d z : R) (E2 : list (list R)) :
  conv2 (fun k : nat => hpow (K:=RF) 2 (hone_plus (K:=RF) 2 (/ 2 ^ k) (L2 a b c d)) (2 ^ k)) E2 ->
  conv3 (fun k : nat => hpow (K:=RF) 3 (hone_plus (K:=RF) 3 (/ 2 ^ k) (B3 a b c d z)) (2 ^ k)) (B3m E2 (exp z)).
Proof.
  intros H2 i j Hi Hj.
  apply is_lim_seq_ext with
    (fun k => hentry (B3m (hpow (K:=RF) 2 (hone_plus (K:=RF) 2 (/ 2 ^ k) (L2 a b c d)) (2 ^ k)) ((1 + z / 2 ^ k) ^ (2 ^ k))) i j).
  { intro k. now rewrite closed_form_block3. }
  unfold B3m.
  destruct i as [|[|[|i]]]; [| | |lia]; (destruct j as [|[|[|j]]]; [| | |lia]); cbv beta;
    try (apply (H2 0%nat 0%nat); lia); try (apply (H2 0%nat 1%nat); lia);
    try (apply (H2 1%nat 0%nat); lia); try (apply (H2 1%nat 1%nat); lia);
    try (apply is_lim_seq_const).
  apply scalar_scaling_and_squaring_converges.
Qed.

(* EVERY block-diagonal 3-D generator [[a b 0] [c d 0] [0 0 z]] *)
Theorem every_block_generator_converges3 (a b c d z : R) :
  exists p q r s J EJ, p * s - q * r <> 0 /\ canonical J EJ /\ L2 a b c d = conj2m p q r s J /\
  conv3 (fun k : nat => hpow (K:=RF) 3 (hone_plus (K:=RF) 3 (/ 2 ^ k) (B3 a b c d z)) (2 ^ k))
        (B3m (conj2m p q r s EJ) (exp z)).
Proof.
  destruct (every_linear_generator_converges2 a b c d) as [p [q [r [s [J [EJ [Hd [Hc [E H2]]]]]]]]].
  exists p, q, r, s, J, EJ. split; [exact Hd|]. split; [exact Hc|]. split; [exact E|].
  apply conv3_block. exact H2.
Qed.
