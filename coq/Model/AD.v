(* C20 -- a small differentiable expression language (definitions only): constants, variables, + - * /,
   negation and the unary functions sqrt exp ln tanh sin cos; evaluation over the reals; the formal partial
   derivative D; the domain on which an expression is defined (non-zero denominators, positive arguments
   of sqrt and ln -- the "generic, non-kink inputs" of the property); and an executable evaluator over Qc
   whose transcendental nodes read their values from an oracle table (the implementation's own floats). *)
From Coq Require Import Reals QArith Qcanon List Arith Bool.
Import ListNotations.

Inductive ufun := Usqrt | Uexp | Uln | Utanh | Usin | Ucos.

Inductive expr :=
| EC (q : Q)
| EV (i : nat)
| EAdd (a b : expr) | ESub (a b : expr) | EMul (a b : expr) | EDiv (a b : expr)
| ENeg (a : expr)
| EU (f : ufun) (a : expr)
| ECut (a : expr).   (* the value of a with the differentiation graph cut: detach(), .data, computed under no_grad *)

Definition ufun_R (f : ufun) (x : R) : R :=
  match f with
  | Usqrt => sqrt x | Uexp => exp x | Uln => ln x | Utanh => tanh x | Usin => sin x | Ucos => cos x
  end.

Fixpoint evalR (env : nat -> R) (e : expr) : R :=
  match e with
  | EC q => Q2R q
  | EV i => env i
  | EAdd a b => evalR env a + evalR env b
  | ESub a b => evalR env a - evalR env b
  | EMul a b => evalR env a * evalR env b
  | EDiv a b => evalR env a / evalR env b
  | ENeg a => - evalR env a
  | EU f a => ufun_R f (evalR env a)
  | ECut a => evalR env a
  end%R.

Definition upd (env : nat -> R) (i : nat) (t : R) : nat -> R := fun j => if Nat.eqb i j then t else env j.

(* formal partial derivative with respect to variable i (no simplification) *)
Fixpoint D (i : nat) (e : expr) : expr :=
  match e with
  | EC _ => EC 0
  | EV j => if Nat.eqb i j then EC 1 else EC 0
  | EAdd a b => EAdd (D i a) (D i b)
  | ESub a b => ESub (D i a) (D i b)
  | EMul a b => EAdd (EMul (D i a) b) (EMul a (D i b))
  | EDiv a b => EDiv (ESub (EMul (D i a) b) (EMul a (D i b))) (EMul b b)
  | ENeg a => ENeg (D i a)
  | EU Usqrt a => EDiv (D i a) (EMul (EC 2) (EU Usqrt a))
  | EU Uexp a => EMul (EU Uexp a) (D i a)
  | EU Uln a => EDiv (D i a) a
  | EU Utanh a => EMul (ESub (EC 1) (EMul (EU Utanh a) (EU Utanh a))) (D i a)
  | EU Usin a => EMul (EU Ucos a) (D i a)
  | EU Ucos a => ENeg (EMul (EU Usin a) (D i a))
  | ECut a => D i a        (* the derivative of the FUNCTION does not care about the graph *)
  end.

Fixpoint defined (env : nat -> R) (e : expr) : Prop :=
  match e with
  | EC _ | EV _ => True
  | EAdd a b | ESub a b | EMul a b => defined env a /\ defined env b
  | EDiv a b => defined env a /\ defined env b /\ evalR env b <> 0%R
  | ENeg a => defined env a
  | EU Usqrt a | EU Uln a => defined env a /\ (0 < evalR env a)%R
  | EU _ a => defined env a
  | ECut a => defined env a
  end.

(* what reverse-mode automatic differentiation returns: the same rules, except that nothing flows through a cut *)
Fixpoint G (i : nat) (e : expr) : expr :=
  match e with
  | EC _ => EC 0
  | EV j => if Nat.eqb i j then EC 1 else EC 0
  | EAdd a b => EAdd (G i a) (G i b)
  | ESub a b => ESub (G i a) (G i b)
  | EMul a b => EAdd (EMul (G i a) b) (EMul a (G i b))
  | EDiv a b => EDiv (ESub (EMul (G i a) b) (EMul a (G i b))) (EMul b b)
  | ENeg a => ENeg (G i a)
  | EU Usqrt a => EDiv (G i a) (EMul (EC 2) (EU Usqrt a))
  | EU Uexp a => EMul (EU Uexp a) (G i a)
  | EU Uln a => EDiv (G i a) a
  | EU Utanh a => EMul (ESub (EC 1) (EMul (EU Utanh a) (EU Utanh a))) (G i a)
  | EU Usin a => EMul (EU Ucos a) (G i a)
  | EU Ucos a => ENeg (EMul (EU Usin a) (G i a))
  | ECut _ => EC 0
  end.

(* does the expression mention a variable at all *)
Fixpoint has_var (e : expr) : bool :=
  match e with
  | EC _ => false
  | EV _ => true
  | EAdd a b | ESub a b | EMul a b | EDiv a b => has_var a || has_var b
  | ENeg a | EU _ a | ECut a => has_var a
  end.

(* no path from a variable to the output crosses a cut *)
Fixpoint cutfree (e : expr) : bool :=
  match e with
  | EC _ | EV _ => true
  | EAdd a b | ESub a b | EMul a b | EDiv a b => cutfree a && cutfree b
  | ENeg a | EU _ a => cutfree a
  | ECut a => negb (has_var a)
  end.

(* gradient of a list of outputs with respect to a list of variables *)
Definition jacobian (vars : list nat) (outs : list expr) : list (list expr) :=
  map (fun e => map (fun i => D i e) vars) outs.

(* ---- executable instance over Qc ---- *)
Definition ufun_eqb (f g : ufun) : bool :=
  match f, g with
  | Usqrt, Usqrt | Uexp, Uexp | Uln, Uln | Utanh, Utanh | Usin, Usin | Ucos, Ucos => true
  | _, _ => false
  end.

(* oracle table: (function, exact argument, value the implementation's float library returns there) *)
Definition oracle := list (ufun * Qc * Qc).
Fixpoint lookup (o : oracle) (f : ufun) (x : Qc) : option Qc :=
  match o with
  | [] => None
  | (g, y, v) :: r => if ufun_eqb f g && Qc_eq_bool x y then Some v else lookup r f x
  end.

Definition obind2 (a b : option Qc) (f : Qc -> Qc -> option Qc) : option Qc :=
  match a, b with Some x, Some y => f x y | _, _ => None end.

Fixpoint evalQ (o : oracle) (env : list Qc) (e : expr) : option Qc :=
  match e with
  | EC q => Some (Q2Qc q)
  | EV i => nth_error env i
  | EAdd a b => obind2 (evalQ o env a) (evalQ o env b) (fun x y => Some (x + y)%Qc)
  | ESub a b => obind2 (evalQ o env a) (evalQ o env b) (fun x y => Some (x - y)%Qc)
  | EMul a b => obind2 (evalQ o env a) (evalQ o env b) (fun x y => Some (x * y)%Qc)
  | EDiv a b => obind2 (evalQ o env a) (evalQ o env b)
                  (fun x y => if Qc_eq_bool y 0%Qc then None else Some (x / y)%Qc)
  | ENeg a => match evalQ o env a with Some x => Some (- x)%Qc | None => None end
  | EU f a => match evalQ o env a with Some x => lookup o f x | None => None end
  | ECut a => evalQ o env a
  end.

(* the rational fragment: no transcendental node *)
Fixpoint rational (e : expr) : bool :=
  match e with
  | EC _ | EV _ => true
  | EAdd a b | ESub a b | EMul a b | EDiv a b => rational a && rational b
  | ENeg a | ECut a => rational a
  | EU _ _ => false
  end.

Fixpoint esize (e : expr) : nat :=
  match e with
  | EC _ | EV _ => 1
  | EAdd a b | ESub a b | EMul a b | EDiv a b => S (esize a + esize b)
  | ENeg a | EU _ a | ECut a => S (esize a)
  end.
