(* C19 -- the source tables and method fingerprints Model/Batch.v was transcribed from.
   The translator unit BatchTables regenerates the same tables from /repo on every run (coq/Gen/BatchTables.v);
   Props/C19.v proves them equal.  Each table is what a definition of Model/Batch.v encodes:
     pin_dispatch_tests    -> class_of / is_split_class / the FGridSample case of dispatch_batch, dispatch_single
     pin_grid_tests, guard, dim -> tf_grid_batch (order of the special cases, all under dim == 0) and kw_of (how dim is found)
     pin_result_conditions -> res_batch, res_flow, res_image, res_flowfield
     pin_fingerprints      -> every other transcribed method (getitem_batch, make_instance, run_op, ...) *)
From Coq Require Import List String.
Import ListNotations.
Local Open Scope string_scope.

(* per class: the `func == / in` tests of __torch_function__, in source order *)
Definition pin_dispatch_tests : list (string * list (list string)) := [
  ("ImageBatch"%string, [["F.grid_sample"%string]; ["torch.split"%string; "Tensor.split"%string; "torch.split_with_sizes"%string; "Tensor.split_with_sizes"%string; "torch.tensor_split"%string; "Tensor.tensor_split"%string]]);
  ("FlowFields"%string, [["torch.split"%string; "Tensor.split"%string; "torch.split_with_sizes"%string; "Tensor.split_with_sizes"%string; "torch.tensor_split"%string; "Tensor.tensor_split"%string]]);
  ("Image"%string, [["F.grid_sample"%string]; ["torch.split"%string; "Tensor.split"%string; "torch.split_with_sizes"%string; "Tensor.split_with_sizes"%string; "torch.tensor_split"%string; "Tensor.tensor_split"%string]]);
  ("FlowField"%string, [["F.grid_sample"%string]; ["torch.split"%string; "Tensor.split"%string; "torch.split_with_sizes"%string; "Tensor.split_with_sizes"%string; "torch.tensor_split"%string; "Tensor.tensor_split"%string]])].

(* ImageBatch._torch_function_grid: special-cased functions in source order *)
Definition pin_grid_tests : list (list string) := [["torch.cat"%string]; ["torch.split"%string; "Tensor.split"%string]; ["torch.split_with_sizes"%string; "Tensor.split_with_sizes"%string]; ["torch.tensor_split"%string; "Tensor.tensor_split"%string]].

Definition pin_grid_guard : string := "dim == 0"%string.

(* statements computing the dim the guard tests *)
Definition pin_grid_dim : list string := ["dim = kwargs.get('dim')"%string; "if dim is None:
    i = 1 if isinstance(args[0], (tuple, list)) else 2
    dim = args[i] if len(args) > i and isinstance(args[i], int) else 0"%string; "if dim < 0:
    dim += next((arg.ndim for arg in args if getattr(arg, '_grid', None) is not None))"%string].

(* per class: typing condition of _torch_function_result, its else branch, its `func` tests *)
Definition pin_result_conditions : list (string * string * string * list (list string)) := [
  ("ImageBatch"%string, "grid and data.ndim == grid[0].ndim + 2 and (data.shape[0] == len(grid)) and (data.shape[2:] == grid[0].shape) or (grid is not None and len(grid) == 0 and (data.ndim >= 4) and (data.shape[0] == 0))"%string, "if type(data) is not Tensor:
    data = data.as_subclass(Tensor)"%string, [["torch.clone"%string; "Tensor.clone"%string]]);
  ("FlowFields"%string, "grid and axes is not None and (data.ndim == grid[0].ndim + 2) and (data.shape[0] == len(grid)) and (data.shape[1] == grid[0].ndim) and (data.shape[2:] == grid[0].shape) or (grid is not None and (not grid) and (axes is not None) and (data.ndim >= 4) and (data.shape[0] == 0) and (data.shape[1] == data.ndim - 2))"%string, "data = ImageBatch._torch_function_result(func, data, grid)"%string, [["torch.clone"%string; "Tensor.clone"%string]]);
  ("Image"%string, "grid is not None and data.ndim == grid.ndim + 1 and (data.shape[1:] == grid.shape)"%string, "if type(data) is not Tensor:
    data = data.as_subclass(Tensor)"%string, [["torch.clone"%string; "Tensor.clone"%string]]);
  ("FlowField"%string, "grid is not None and axes is not None and (data.ndim == grid.ndim + 1) and (data.shape[0] == grid.ndim) and (data.shape[1:] == grid.shape)"%string, "data = Image._torch_function_result(func, data, grid)"%string, [["torch.clone"%string; "Tensor.clone"%string]])].

(* fingerprints of the transcribed methods (normalised source without docstrings / annotations) *)
Definition pin_fingerprints : list (string * string) := [
  ("ImageBatch.__init__"%string, "d0560a83398d1f957ae7"%string);
  ("ImageBatch._make_instance"%string, "89631b5d671a6c59fc9c"%string);
  ("ImageBatch._make_subitem"%string, "3f05f7d5cba06c854e62"%string);
  ("ImageBatch.__deepcopy__"%string, "e891440d58376f4899f4"%string);
  ("ImageBatch._torch_function_grid"%string, "be29a10fc7bdd9bb710f"%string);
  ("ImageBatch._torch_function_result"%string, "4eb1abfb9b46f7d08f28"%string);
  ("ImageBatch.__torch_function__"%string, "93d9a09332982e2d1540"%string);
  ("ImageBatch.from_images"%string, "f31801db437504246e90"%string);
  ("ImageBatch.append"%string, "2ace48e5ad9a1b5f0101"%string);
  ("ImageBatch.grid"%string, "f806fb73e3a52a586274"%string);
  ("ImageBatch.grid_"%string, "dbcef7b6de6afd286b06"%string);
  ("ImageBatch.__len__"%string, "a38c3cc6289bad9442a6"%string);
  ("ImageBatch.__getitem__"%string, "97eb8cc34d103d92d625"%string);
  ("ImageBatch.__iter__"%string, "83881025e2e72e66310f"%string);
  ("ImageBatch.narrow"%string, "fc8d8f3524df9ef19b14"%string);
  ("Image.__init__"%string, "af9e2701fa57f8a4a40e"%string);
  ("Image._make_instance"%string, "89631b5d671a6c59fc9c"%string);
  ("Image.__deepcopy__"%string, "f3b9750ca0ba5f1d432c"%string);
  ("Image._torch_function_grid"%string, "590db881f0367b65e677"%string);
  ("Image._torch_function_result"%string, "6f2ccd361397a4191300"%string);
  ("Image.__torch_function__"%string, "eb48557e09db34776785"%string);
  ("Image.batch"%string, "fc790b8699e23fa5093b"%string);
  ("Image.grid"%string, "28f404605540e381a262"%string);
  ("Image.grid_"%string, "8587409aef75f4a01c65"%string);
  ("Image.narrow"%string, "2a5674ce208564204bc6"%string);
  ("FlowFields.__init__"%string, "78ad643ec73e752bf2a3"%string);
  ("FlowFields._make_instance"%string, "54709c93892d651a493c"%string);
  ("FlowFields._make_subitem"%string, "09adb100636e5a6b69b0"%string);
  ("FlowFields._torch_function_axes"%string, "dedf5e8a8a1476b3eb2c"%string);
  ("FlowFields._torch_function_result"%string, "122ac28efdd467a2e152"%string);
  ("FlowFields.__torch_function__"%string, "ef3245c90f5c3f00b399"%string);
  ("FlowFields.__getitem__"%string, "9375b615b40a347af638"%string);
  ("FlowFields.from_images"%string, "3db9579839b9870126fd"%string);
  ("FlowFields.append"%string, "4c60eb1b3471fa6a85c6"%string);
  ("FlowField.__init__"%string, "f0d96efcc691d44f7475"%string);
  ("FlowField._make_instance"%string, "f5056dec5c8f048c3ce2"%string);
  ("FlowField._torch_function_axes"%string, "dedf5e8a8a1476b3eb2c"%string);
  ("FlowField._torch_function_result"%string, "0a73a24aef9686d0022d"%string);
  ("FlowField.__torch_function__"%string, "3186236201a20bd59cef"%string);
  ("FlowField.batch"%string, "a57fcb04752255041d23"%string);
  ("DataTensor.__new__"%string, "8b6aeb5ce1fb9d1c9408"%string);
  ("DataTensor._make_instance"%string, "8214c7218444e47981ea"%string);
  ("DataTensor.__copy__"%string, "88d2b6ee3a6f866d4d1d"%string);
  ("DataTensor.__deepcopy__"%string, "62a181c5829dd07f4fb5"%string);
  ("DataTensor.__reduce_ex__"%string, "389f868ac509adb1fb41"%string);
  ("DataTensor.tensor"%string, "92ddc36f979a01ce6787"%string);
  ("_rebuild_from_type"%string, "b7301fae43d8bd0507f4"%string);
  ("collate_samples"%string, "25468d4d9e1c4c51b78b"%string)].
