(* C20 -- Gradients reaching parameters and inputs are the true derivatives.
   Statements only.  What is proved: the formal derivative D of the AD expression language is THE derivative
   (Coquelicot's is_derive) of the expression's real-number meaning, for every expression and every
   environment at which it is defined -- a stronger statement than agreement with a finite-difference
   estimate; the differentiable deepali functions traced into that language (coq/Gen/ADTerms.v, regenerated
   from the source on every run) inherit it.  The autograd engine itself is trusted: the correspondence
   compares torch.autograd's gradients with D evaluated exactly, the always-run search compares autograd with
   central differences on the listed public operations. *)
From Coq Require Import Reals QArith Qcanon List Bool String Psatz Arith.
From Coquelicot Require Import Coquelicot.
From DV Require Import Base.Field Base.LinAlg Base.RInst Model.Enums Model.AD Model.GradFlowSpec Gen.ADTerms Gen.Euler Gen.GradFlow
  Proofs.C20AD Proofs.C20Q Proofs.C20Terms.
Import ListNotations.
Local Open Scope R_scope.

(* 1. the formal partial derivative is the derivative: every expression, every variable, every environment in
      the domain (non-zero denominators, positive arguments of sqrt and ln) *)
Theorem C20_D_sound :
  forall (e : expr) (env : nat -> R) (i : nat),
  defined env e ->
  is_derive (fun t => evalR (upd env i t) e) (env i) (evalR env (D i e)).
Proof. exact D_sound. Qed.
Print Assumptions C20_D_sound.

(* 2. ... for whole Jacobians (list of outputs x list of variables) *)
Theorem C20_jacobian_sound :
  forall (vars : list nat) (outs : list expr) (env : nat -> R),
  List.Forall (defined env) outs ->
  List.Forall2 (fun e row => List.Forall2 (fun i d => is_derive (fun t => evalR (upd env i t) e) (env i) (evalR env d)) vars row)
          outs (jacobian vars outs).
Proof. exact jacobian_sound. Qed.
Print Assumptions C20_jacobian_sound.

(* 3. gradients are finite: the derivative expression is defined wherever the expression is *)
Theorem C20_gradient_defined :
  forall (e : expr) (env : nat -> R) (i : nat), defined env e -> defined env (D i e).
Proof. exact D_defined. Qed.
Print Assumptions C20_gradient_defined.

(* 4. the executable evaluator used by the correspondence computes the real value whenever its oracle table is
      exact; on the rational fragment (no transcendental node) unconditionally, and D stays in that fragment *)
Theorem C20_evalQ_sound :
  forall (o : oracle) (env : list Qc) (e : expr) (v : Qc),
  oracle_exact o -> evalQ o env e = Some v -> evalR (envR env) e = Q2R (this v).
Proof. exact evalQ_sound. Qed.
Print Assumptions C20_evalQ_sound.

Theorem C20_evalQ_rational_sound :
  forall (o : oracle) (env : list Qc) (e : expr) (v : Qc) (i : nat),
  rational e = true ->
  (evalQ o env e = Some v -> evalR (envR env) e = Q2R (this v)) /\
  rational (D i e) = true.
Proof. intros o env e v i H. split; [exact (evalQ_rational_sound o env e v H) | exact (D_rational i e H)]. Qed.
Print Assumptions C20_evalQ_rational_sound.

(* 5. the traced deepali functions: every family's Jacobian is the true derivative wherever it is defined *)
Theorem C20_traced_families :
  forall (name : string) (nv : nat) (outs : list expr) (env : nat -> R),
  In (name, (nv, outs)) gen_ad_families -> List.Forall (defined env) outs ->
  List.Forall2 (fun e row => List.Forall2 (fun i d => is_derive (fun t => evalR (upd env i t) e) (env i) (evalR env d)) (seq 0 nv) row)
          outs (jacobian (seq 0 nv) outs).
Proof. intros name nv outs env _ H. exact (jacobian_sound (seq 0 nv) outs env H). Qed.
Print Assumptions C20_traced_families.

(* ... and the families without data-dependent denominators, sqrt or ln (rotation matrices from angles,
   homogeneous transforms, mse/ssd, divergence/bending/curvature losses, Jacobian determinant, divergence, curl,
   affine flow) are defined -- hence differentiable with that gradient -- at EVERY input *)
Theorem C20_total_families :
  forall (outs : list expr) (e : expr) (env : nat -> R) (i : nat),
  In outs total_families -> In e outs ->
  is_derive (fun t => evalR (upd env i t) e) (env i) (evalR env (D i e)).
Proof. exact total_families_gradients. Qed.
Print Assumptions C20_total_families.

(* 5b. what reverse-mode automatic differentiation returns.  G differentiates like D but nothing flows through a cut
       (detach(), .data, values computed under no_grad -- ECut nodes, emitted by the translator wherever the source
       does that).  G is the true derivative whenever no variable-to-output path crosses a cut; with such a cut it is not;
       and no traced deepali family contains one. *)
Theorem C20_autograd_model_sound :
  forall (e : expr) (env : nat -> R) (i : nat),
  cutfree e = true -> defined env e ->
  evalR env (G i e) = evalR env (D i e) /\
  is_derive (fun t => evalR (upd env i t) e) (env i) (evalR env (G i e)).
Proof. intros e env i Hc Hd. split; [exact (G_eq_D e env i Hc Hd) | exact (G_sound e env i Hc Hd)]. Qed.
Print Assumptions C20_autograd_model_sound.

Theorem C20_cut_loses_gradient :
  exists (e : expr) (env : nat -> R), defined env e /\ cutfree e = false /\
    is_derive (fun t => evalR (upd env 0 t) e) (env 0%nat) 1 /\ evalR env (G 0 e) = 0.
Proof. exact G_wrong_with_cut. Qed.
Print Assumptions C20_cut_loses_gradient.

Theorem C20_traced_families_cutfree : families_cutfree = true.
Proof. exact families_cutfree_hold. Qed.
Print Assumptions C20_traced_families_cutfree.

Theorem C20_traced_families_autograd :
  forall (name : string) (nv : nat) (outs : list expr) (e : expr) (env : nat -> R) (i : nat),
  In (name, (nv, outs)) gen_ad_families -> In e outs -> defined env e ->
  is_derive (fun t => evalR (upd env i t) e) (env i) (evalR env (G i e)).
Proof. exact families_autograd_sound. Qed.
Print Assumptions C20_traced_families_autograd.

(* 5c. beyond the families that fit the expression language: for EVERY operation of the registry (all transform classes,
       their inverses through inv(...), inv.tensor() and inv.disp(), sampling / warping, expv / compose, B-splines, spatial
       derivatives, every loss function and loss class w.r.t. every tensor argument) the skeleton traced on the real autograd
       graph of the working tree shows the output attached, depending on every leaf, and no detach() / .data / no_grad result
       on any leaf-to-output path -- the premise `cutfree` of theorem 5b, established per operation at a generic input *)
Theorem C20_gradient_flow_skeleton : gradflow_ok gen_gradflow = true /\ Nat.leb 300 (List.length gen_gradflow) = true.
Proof. exact gradflow_holds. Qed.
Print Assumptions C20_gradient_flow_skeleton.

(* 6. the traced Euler-matrix terms are the C08 model's closed forms at c = cos, s = sin *)
Theorem C20_euler_terms_agree :
  forall env : nat -> R,
  map (evalR env) gen_ad_euler_2d = List.concat (gen_euler2d (K:=RF) (cos (env 0%nat)) (sin (env 0%nat))) /\
  map (evalR env) gen_ad_euler_ZXZ =
    List.concat (gen_euler (K:=RF) (AZ, AX, AZ) (cos (env 0%nat)) (cos (env 1%nat)) (cos (env 2%nat))
                           (sin (env 0%nat)) (sin (env 1%nat)) (sin (env 2%nat))) /\
  map (evalR env) gen_ad_euler_XYZ =
    List.concat (gen_euler (K:=RF) (AX, AY, AZ) (cos (env 0%nat)) (cos (env 1%nat)) (cos (env 2%nat))
                           (sin (env 0%nat)) (sin (env 1%nat)) (sin (env 2%nat))).
Proof. intro env. exact (conj (ad_euler_2d_agrees env) (conj (ad_euler_ZXZ_agrees env) (ad_euler_XYZ_agrees env))). Qed.
Print Assumptions C20_euler_terms_agree.

(* non-vacuity: sqrt(x0*x0 + 1) / exp(sin x1) is defined at every environment (so theorem 1 applies to a term using
   division, sqrt, exp and sin), and the generated families are non-trivial *)
Definition ex_e : expr := EDiv (EU Usqrt (EAdd (EMul (EV 0) (EV 0)) (EC 1))) (EU Uexp (EU Usin (EV 1))).
Example C20_nonvacuous :
  (forall env, defined env ex_e) /\ Nat.leb 10 (List.length gen_ad_families) = true /\
  Nat.leb 1000 (fold_right (fun f n => (fold_right (fun e m => esize e + m) 0 (snd (snd f)) + n)%nat) 0%nat gen_ad_families) = true.
Proof.
  split; [| split; vm_compute; reflexivity].
  intro env. simpl. repeat split; auto.
  - unfold Q2R; simpl. nra.
  - apply Rgt_not_eq, exp_pos.
Qed.
