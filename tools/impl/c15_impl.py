"""Implementation-side runner for C15 (runs against /repo's working tree).

fn = "functions": before/after snapshots (value, tensor version counter) of every tensor argument of every
                  public function of deepali.core.functional and deepali.losses.functional, D in {2, 3}.
fn = "accessors": before/after snapshots of the receiver's full state (slot identities, tensor values and
                  version counters, parameters, buffers, grids, condition arguments, sub-modules) for every
                  public method without trailing underscore of Grid, Cube, Image, ImageBatch, FlowField,
                  FlowFields and the spatial transforms, called with synthesised arguments.
fn = "graph":     replays operation sequences (copies, with-argument accessors, in-place edits) on real
                  objects and reports, after every step, which objects' observable state changed and which
                  tensors are shared -- compared with the Coq object-graph model by the correspondence.
"""
import copy
import inspect
import json
import math
import sys
import traceback

import torch
from torch import Tensor

from vlib import emit_json

torch.manual_seed(0)


# ------------------------------------------------------------------------------------------------
# snapshots
# ------------------------------------------------------------------------------------------------
def walk_tensors(x, path, out, depth=0):
    if isinstance(x, Tensor):
        out.append((path, x))
    elif isinstance(x, (list, tuple)) and depth < 4:
        for i, y in enumerate(x):
            walk_tensors(y, f"{path}[{i}]", out, depth + 1)
    elif isinstance(x, dict) and depth < 4:
        for k, y in x.items():
            walk_tensors(y, f"{path}[{k!r}]", out, depth + 1)


def tensors_equal(a, b):
    if a.shape != b.shape or a.dtype != b.dtype:
        return False
    if a.is_floating_point():
        return bool(torch.all((a == b) | (torch.isnan(a) & torch.isnan(b))))
    return bool(torch.equal(a, b))


def snap_args(args, kwargs):
    found = []
    walk_tensors(list(args), "args", found)
    walk_tensors(kwargs, "kwargs", found)
    return [(p, t, t.detach().clone(), t._version, tuple(t.shape), t.dtype) for p, t in found]


def diff_args(snap):
    out = []
    for p, t, before, ver, shape, dtype in snap:
        if tuple(t.shape) != shape or t.dtype != dtype:
            out.append((p, "shape/dtype changed"))
        elif t._version != ver:
            out.append((p, f"written in place (version {ver} -> {t._version}, values {'changed' if not tensors_equal(t.detach(), before) else 'equal'})"))
        elif not tensors_equal(t.detach(), before):
            out.append((p, "values changed"))
    return out


# ------------------------------------------------------------------------------------------------
# 1. functions
# ------------------------------------------------------------------------------------------------
def recipes(D, dtype):
    N, C = 2, 2
    sp = (5, 6) if D == 2 else (4, 5, 6)
    r = lambda *s: torch.rand(*s, dtype=dtype)  # noqa
    from deepali.core.grid import Grid
    img = r(N, C, *sp) + 0.1
    flow = 0.1 * r(N, D, *sp) - 0.05
    coords = r(N, *sp, D) * 2 - 1
    points = r(N, 7, D) * 2 - 1
    hom = r(N, D, D + 1)
    eye = torch.eye(D, D + 1, dtype=dtype).unsqueeze(0).repeat(N, 1, 1)
    import deepali.core.functional as U
    rot = U.euler_rotation_matrix(r(N, 3 if D == 3 else 1))
    grid = Grid(size=tuple(reversed(sp)))
    mask = (r(N, 1, *sp) > 0.3).to(dtype)
    binary = (r(N, C, *sp) > 0.5).to(dtype)
    return dict(N=N, C=C, D=D, sp=sp, img=img, flow=flow, coords=coords, points=points, hom=hom, eye=eye, rot=rot, grid=grid,
                mask=mask, binary=binary, r=r, dtype=dtype)


def by_name(name, R, fname):
    """default argument for a required parameter, by its name"""
    r, D, N, C, sp = R["r"], R["D"], R["N"], R["C"], R["sp"]
    t = {
        "data": R["img"], "input": R["img"], "source": R["img"], "target": R["img"] * 0.9, "x": R["points"], "y": R["points"] * 0.5,
        "a": R["img"], "b": R["img"] * 0.5, "tensor": R["img"], "arr": R["img"], "arg": R["img"],
        "flow": R["flow"], "u": R["flow"], "v": R["flow"] * 0.5, "forward": R["flow"], "inverse": -R["flow"],
        "grid": R["coords"], "coords": R["coords"], "points": R["points"], "vectors": R["points"],
        "matrix": R["hom"], "transform": R["hom"], "transforms": R["hom"], "rotation_matrix": R["rot"],
        "quaternion": r(N, 4) + 0.1, "angle_axis": r(N, 3), "angles": r(N, 3 if D == 3 else 1), "scales": r(N, D) + 0.5,
        "offset": r(N, D), "kernel_size": 3, "stride": 2, "size": tuple(reversed(sp)), "shape": sp,
        "kernel": torch.tensor([0.25, 0.5, 0.25], dtype=R["dtype"]), "levels": 1, "margin": 1, "sdim": 0,
        "num_samples": 5, "dim": 1, "pos": 0, "index": torch.zeros(N, 1, dtype=torch.long),
        "indices": torch.tensor([0, 3, 7]), "loss": r(N, C, *sp), "logits": r(N, C, *sp), "mean": r(N, 4), "logvar": r(N, 4),
        "labels": torch.randint(0, 3, (N, *sp)), "num_classes": 3, "exponent": 2, "min": 0.2, "degree": 3,
        "in_spacing": 1.0, "out_spacing": 2.0,
    }
    return t.get(name)


def specs(R):
    """(args, kwargs) overrides per function; several variants per function where argument forms matter"""
    r, D, N, C, sp, dt = R["r"], R["D"], R["N"], R["C"], R["sp"], R["dtype"]
    img, flow, coords, grid, mask, binary = R["img"], R["flow"], R["coords"], R["grid"], R["mask"], R["binary"]
    cp = r(N, D, *[s // 2 + 3 for s in sp])       # B-spline coefficients
    import deepali.core.functional as UU
    U3 = lambda a: UU.euler_rotation_matrix(a)  # noqa  3-D rotation matrices
    S = {
        "affine_flow": [((R["hom"], grid), {})],
        # (ignore_index: the label map is edited before scattering -- on a private copy, also for int64 labels, other int types
        #  and float dtype of the result; the labels contain the ignored value)
        "as_one_hot_tensor": [((torch.randint(0, 3, (N, 1, *sp)), 3), {}),
                              ((torch.randint(0, 4, (N, 1, *sp)), 3), {"ignore_index": 3}),
                              ((torch.randint(0, 4, (N, 1, *sp)).fill_(3), 3), {"ignore_index": 3, "dtype": torch.float32}),
                              ((torch.randint(0, 4, (N, 1, *sp), dtype=torch.int32), 3), {"ignore_index": 3}),
                              ((torch.randint(0, 3, (N, 1, *sp)), 3), {"ignore_index": 0})],
        "batched_index_select": [((r(N, 5, 3), 1, torch.zeros(N, 2, dtype=torch.long)), {})],
        "bspline_interpolation_weights": [((3, 2), {})],
        "center_crop": [((img, tuple(s - 2 for s in reversed(sp))), {})],
        "center_pad": [((img, tuple(s + 2 for s in reversed(sp))), {})],
        "conv": [((img, torch.tensor([0.25, 0.5, 0.25], dtype=dt)), {}), ((img, torch.tensor([0.25, 0.5, 0.25], dtype=dt)), {"padding": 1})],
        "conv1d": [((img, torch.tensor([0.25, 0.5, 0.25], dtype=dt)), {"dim": -1})],
        "crop": [((img,), {"margin": 1}), ((img,), {"margin": -1})],
        "pad": [((img,), {"margin": 1}), ((img,), {"margin": 0})],
        "cubic_bspline_control_point_grid": [((grid, 2), {})],
        "cubic_bspline_control_point_grid_size": [((tuple(reversed(sp)), 2), {})],
        "evaluate_cubic_bspline": [((cp,), {"stride": 2, "size": tuple(reversed(sp))}), ((cp,), {"stride": 2})],
        "subdivide_cubic_bspline": [((cp,), {})],
        "fill_border": [((img, 1), {}), ((img, 1), {"value": 3.0})],
        "finite_differences": [((img, 0), {}), ((img, 1), {"mode": "central"})],
        "gaussian_pyramid": [((img, 2), {})],
        "grid_resample": [((img, 1.0, 2.0), {})],
        "grid_reshape": [((img, sp), {})],
        "grid_resize": [((img, tuple(reversed(sp))), {}), ((img, tuple(s + 1 for s in reversed(sp))), {})],
        "grid_sample": [((img, coords), {}), ((img, coords[:1]), {"padding": 0.5}),
                        # data of another dtype than the grid: type_as() copies, the branch of the data_ptr test that subtracts in place
                        ((img.double() if dt == torch.float32 else img.float(), coords[:1]), {"padding": 0.5}),
                        (((img * 100).to(torch.int32), coords), {"padding": 2})],
        "grid_sample_mask": [((mask, coords), {})],
        "homogeneous_matmul": [((R["hom"], R["hom"], r(N, D, 1)), {})],
        "hmm": [((R["hom"], R["hom"]), {}), ((r(N, D, 1), R["hom"]), {})],
        "homogeneous_matrix": [((r(N, D, D),), {}), ((r(N, D, D),), {"offset": r(N, D)})],
        "as_homogeneous_matrix": [((R["hom"],), {}), ((r(N, D, D),), {}), ((r(N, D, 1),), {})],
        "as_homogeneous_tensor": [((R["hom"],), {}), ((r(N, D, D),), {})],
        "homogeneous_transform": [((R["hom"], R["points"]), {}), ((R["hom"], R["points"]), {"vectors": True})],
        "apply_affine_transform": [((R["hom"], R["points"]), {})],
        "affine_transform_points": [((R["hom"], R["points"]), {})],
        "affine_transform_vectors": [((R["hom"], R["points"]), {})],
        "affine_rotation_matrix": [((r(N, 3, 4),), {}), ((r(N, 3, 3),), {})],
        "circle_image": [((), {"size": tuple(reversed(sp))})], "cshape_image": [((), {"size": tuple(reversed(sp))})],
        "empty_image": [((), {"size": tuple(reversed(sp))})], "grid_image": [((), {"size": tuple(reversed(sp))})],
        "ones_image": [((), {"size": tuple(reversed(sp))})], "zeros_image": [((), {"size": tuple(reversed(sp))})],
        "zeros_flow": [((), {"size": tuple(reversed(sp))})],
        "quaternion_log_to_exp": [((r(N, 3),), {})],
        "rotation_matrix_to_angle_axis": [((U3(r(N, 3)),), {})], "rotation_matrix_to_quaternion": [((U3(r(N, 3)),), {})],
        "identity_transform": [((N, D, D + 1), {})],
        "image_slice": [((img,), {})],
        "move_dim": [((img, 1, -1), {})],
        "multinomial": [((r(N, 6), 3), {})],
        "normalize_image": [((img,), {}), ((img,), {"mode": "center"}), ((img,), {"mode": "unit", "min": 0.2, "max": 0.8}),
                            # values partly outside the interval, also the intervals for which the rescaling is the identity
                            ((img * 2.4 - 0.7,), {"mode": "unit", "min": 0.0, "max": 1.0}), ((img * 2.4 - 0.7,), {"mode": "center", "min": -0.5, "max": 0.5}),
                            ((img * 2.4 - 0.7,), {"mode": "unit", "min": 0.25, "max": 0.75}), ((img * 2.4 - 0.7,), {"mode": "center", "min": 0.0, "max": 2.0}),
                            ((img * 2.4 - 0.7,), {"mode": "unit", "min": 1.0, "max": 2.0}), ((img * 2.4 - 0.7,), {"mode": "center"}),
                            ((img.clone(),), {"inplace": True, "_inplace_ok": True})],
        "rand_sample": [((img, 5), {}), ((img, 5), {"mask": mask})],
        "rescale": [((img,), {}), ((img,), {"min": 0, "max": 255}), ((img,), {"min": 0, "max": 1, "data_min": 0.2, "data_max": 0.7}),
                    ((img * 2.4 - 0.7,), {"min": 0, "max": 1, "data_min": 0, "data_max": 1}), ((img * 2.4 - 0.7,), {"data_min": 0.0, "data_max": 1.0})],
        "rotation_matrix": [((r(N, 3 if D == 3 else 1),), {})],
        "euler_rotation_angles": [((R["rot"],), {})],
        "euler_rotation_order": [((), {})],
        "round_decimals": [((img,), {"decimals": 2}), ((img,), {"decimals": 0}), ((img.clone(),), {"decimals": 2, "out": torch.empty_like(img), "_out": "out"})],
        "sample_flow": [((flow, coords), {})],
        "sample_image": [((img, coords), {}), ((img, r(N, 9, D) * 2 - 1), {})],
        "spatial_derivatives": [((img,), {}), ((img,), {"mode": "forward_central_backward", "order": 2})],
        "flow_derivatives": [((flow,), {}), ((flow,), {"which": ["du/dx", "dv/dy"]})],
        "tensordot": [((r(3, 4), r(4, 5)), {"dims": 1}), ((r(3, 4), r(3, 4)), {})],
        "vectordot": [((r(N, 5, D), r(N, 5, D)), {})],
        "vector_rotation": [((r(N, 3), r(N, 3)), {})],
        "threshold": [((img, 0.3), {}), ((img, 0.3), {"max": 0.8}), ((img, -1.0), {"max": 5.0})],
        "transform_grid": [((R["hom"], coords), {})],
        "transform_points": [((R["hom"], R["points"]), {})],
        "unravel_coords": [((torch.tensor([0, 3, 7]), tuple(reversed(sp))), {})],
        "unravel_index": [((torch.tensor([0, 3, 7]), sp), {})],
        "warp_grid": [((flow, coords), {})],
        "warp_image": [((img, coords), {}), ((img, coords), {"flow": flow.movedim(1, -1).contiguous()})],
        "warp_points": [((flow, r(N, 9, D) * 2 - 1), {})],
        "compose_flows": [((flow, flow * 0.5), {}), ((flow[:1], flow[:1] * 0.5), {})],
        "compose_svfs": [((flow, flow * 0.5), {}), ((flow, flow * 0.5), {"bch_terms": 2})],
        "expv": [((flow,), {}), ((flow,), {"steps": 0}), ((flow,), {"scale": 1.0, "steps": 2})],
        "logv": [((flow,), {"num_iters": 2}), ((flow[:1],), {"num_iters": 2})],
        "lie_bracket": [((flow, flow * 0.5), {})],
        "curl": [((flow,), {})], "divergence": [((flow,), {})], "divergence_free_flow": [((r(N, 1, *sp) if D == 2 else r(N, 3, *sp),), {})],
        "jacobian_det": [((flow,), {}), ((flow,), {"add_identity": False})],
        "jacobian_dict": [((flow,), {})], "jacobian_matrix": [((flow,), {})],
        "denormalize_flow": [((flow,), {}), ((flow,), {"size": tuple(reversed(sp))})],
        "normalize_flow": [((flow,), {}), ((flow,), {"size": tuple(reversed(sp))})],
        "denormalize_grid": [((coords,), {}), ((coords,), {"size": tuple(reversed(sp))})],
        "normalize_grid": [((coords,), {}), ((coords,), {"size": tuple(reversed(sp))})],
        "downsample": [((img,), {}), ((img,), {"levels": 0})],
        "upsample": [((img,), {}), ((img,), {"levels": 0})],
        "avg_pool": [((img, 2), {})], "max_pool": [((img, 2), {})], "min_pool": [((img, 2), {})],
        "dot_batch": [((img, img * 0.5), {}), ((img, img * 0.5), {"weight": mask})],
        "dot_channels": [((img, img * 0.5), {}), ((img, img * 0.5), {"weight": mask})],
        "flatten_channels": [((img,), {})],
        "closest_point_distances": [((R["points"], R["points"] * 0.5), {})],
        "closest_point_indices": [((R["points"], R["points"] * 0.5), {})],
        "distance_matrix": [((R["points"], R["points"] * 0.5), {})],
        "max_difference": [((img, img * 0.5), {})],
        "abspow": [((img, 2), {}), ((img, 1), {}), ((img, 0.5), {})],
        "atanh": [((img * 0.5,), {})],
        "as_tensor": [((img,), {}), ((img,), {"dtype": torch.float64})],
        "as_float_tensor": [((img,), {}), ((torch.arange(5),), {})],
        "atleast_1d": [((img,), {}), ((torch.tensor(1.0),), {})],
        # losses
        "balanced_binary_cross_entropy_with_logits": [((r(N, 1, *sp), binary[:, :1]), {})],
        "binary_cross_entropy_with_logits": [((r(N, 1, *sp), binary[:, :1]), {})],
        "focal_loss_with_logits": [((r(N, 1, *sp), binary[:, :1]), {})],
        "dice_loss": [((binary, binary), {}), ((img, binary), {"weight": mask})],
        "dice_score": [((binary, binary), {})],
        "tversky_index": [((img, binary), {}), ((img, binary), {"binarize": True})],
        "tversky_index_with_logits": [((r(N, C, *sp), binary), {})],
        "tversky_loss": [((img, binary), {})],
        "tversky_loss_with_logits": [((r(N, C, *sp), binary), {})],
        "kld_loss": [((r(N, 4), r(N, 4)), {})],
        "label_smoothing": [((torch.randint(0, 3, (N, 1, *sp)),), {"num_classes": 3}),
                            ((torch.randint(0, 4, (N, 1, *sp)),), {"num_classes": 3, "ignore_index": 3}),
                            ((torch.randint(0, 3, (N, 1, *sp)),), {"num_classes": 3, "ignore_index": 0})],
        "lcc_loss": [((img, img * 0.9), {"kernel_size": 3}), ((img, img * 0.9), {"mask": mask, "kernel_size": 3})],
        "wlcc_loss": [((img, img * 0.9), {"kernel_size": 3}), ((img, img * 0.9), {"mask": mask, "source_mask": mask, "target_mask": mask, "kernel_size": 3})],
        "ncc_loss": [((img, img * 0.9), {})],
        "mi_loss": [((img[:, :1], img[:, :1] * 0.9), {}), ((img[:, :1], img[:, :1] * 0.9), {"mask": mask})],
        "mae_loss": [((img, img * 0.9), {}), ((img, img * 0.9), {"mask": mask})],
        "mse_loss": [((img, img * 0.9), {}), ((img, img * 0.9), {"mask": mask, "norm": 2.0})],
        "ssd_loss": [((img, img * 0.9), {}), ((img, img * 0.9), {"mask": mask})],
        "masked_loss": [((r(N, C, *sp),), {"mask": mask}), ((r(N, C, *sp),), {}), ((r(N, C, *sp),), {"mask": mask, "inplace": True, "_inplace_ok": True})],
        "reduce_loss": [((r(N, C, *sp),), {}), ((r(N, C, *sp),), {"reduction": "sum", "mask": mask}), ((r(N, C, *sp),), {"reduction": "none"})],
        "inverse_consistency_loss": [((flow, -flow), {}), ((flow, -flow), {"grid": grid, "units": "voxel"})],
        "bspline_be_loss": [((cp,), {})], "bspline_bending_energy": [((cp,), {})], "bspline_bending_loss": [((cp,), {})],
        "elasticity_loss": [((flow,), {}), ((flow,), {"first_parameter": 1.0, "second_parameter": 0.5})],
    }
    for n in ("be_loss", "bending_energy", "bending_loss", "curvature_loss", "diffusion_loss", "divergence_loss", "grad_loss",
              "total_variation_loss", "tv_loss"):
        S[n] = [((flow,), {}), ((flow,), {"spacing": 0.5, "reduction": "sum"})]
    return S


def run_functions(p):
    import deepali.core.functional as U
    import deepali.losses.functional as L
    res = []
    for D in (2, 3):
        for dtype in (torch.float32, torch.float64):
            R = recipes(D, dtype)
            S = specs(R)
            for mod in (U, L):
                names = sorted(n for n in getattr(mod, "__all__", dir(mod)) if callable(getattr(mod, n, None)) and not n.startswith("_"))
                for name in names:
                    fn = getattr(mod, name)
                    variants = S.get(name)
                    if variants is None:
                        try:
                            sig = inspect.signature(fn)
                        except (TypeError, ValueError):
                            res.append({"mod": mod.__name__, "fn": name, "D": D, "status": "no-signature"})
                            continue
                        args = []
                        ok = True
                        for prm in sig.parameters.values():
                            if prm.default is inspect._empty and prm.kind in (prm.POSITIONAL_OR_KEYWORD, prm.POSITIONAL_ONLY):
                                v = by_name(prm.name, R, name)
                                if v is None:
                                    ok = False
                                args.append(v)
                        if not ok:
                            res.append({"mod": mod.__name__, "fn": name, "D": D, "status": "no-arguments"})
                            continue
                        variants = [(tuple(args), {})]
                    for vi, (args, kwargs) in enumerate(variants):
                        kwargs = dict(kwargs)
                        inplace_ok = kwargs.pop("_inplace_ok", False)
                        out_name = kwargs.pop("_out", None)
                        # fresh copies so that one call cannot disturb the next
                        args = tuple(a.clone() if isinstance(a, Tensor) else a for a in args)
                        kwargs = {k: (v.clone() if isinstance(v, Tensor) else v) for k, v in kwargs.items()}
                        snap = snap_args(args, kwargs)
                        status, exc = "ok", None
                        try:
                            fn(*args, **kwargs)
                        except Exception as e:  # noqa
                            status, exc = "raised", f"{type(e).__name__}: {str(e)[:100]}"
                        muts = diff_args(snap)
                        if inplace_ok:
                            muts = [m for m in muts if not m[0].startswith("args[0]")]
                        if out_name:
                            muts = [m for m in muts if m[0] != f"kwargs['{out_name}']"]
                        res.append({"mod": mod.__name__, "fn": name, "D": D, "dtype": str(dtype), "variant": vi, "status": status, "exc": exc,
                                    "mutated": [{"arg": a, "what": w} for a, w in muts],
                                    "n_tensor_args": len(snap)})
    return res


# ------------------------------------------------------------------------------------------------
# 2. accessors
# ------------------------------------------------------------------------------------------------
def obj_state(o, depth=0, seen=None):
    """observable state: {path: (kind, identity, version, value)}"""
    seen = seen if seen is not None else {}
    out = {}

    def put(path, x, d):
        if isinstance(x, Tensor):
            out[path] = ("tensor", id(x), x._version, x.detach().clone().as_subclass(Tensor), type(x).__name__)
            # attributes of tensor subclasses (grids of images, axes of flow fields)
            for k, v in sorted(getattr(x, "__dict__", {}).items()):
                put(f"{path}.{k}", v, d + 1)
        elif isinstance(x, torch.nn.Module):
            if id(x) in seen or d > 4:
                out[path] = ("module-ref", id(x))
                return
            seen[id(x)] = True
            out[path] = ("module", id(x), type(x).__name__, x.training)
            out[path + ".<non-persistent buffers>"] = ("value", repr(sorted(getattr(x, "_non_persistent_buffers_set", set()))))
            if d == 0:
                try:
                    out[path + ".<state_dict keys>"] = ("value", repr(sorted(x.state_dict().keys())))
                except Exception as e:  # noqa
                    out[path + ".<state_dict keys>"] = ("value", "raises " + type(e).__name__)
            for k, v in x._parameters.items():
                put(f"{path}._parameters[{k}]", v, d + 1)
            for k, v in x._buffers.items():
                put(f"{path}._buffers[{k}]", v, d + 1)
            for k, v in x._modules.items():
                put(f"{path}._modules[{k}]", v, d + 1)
            for k, v in sorted(x.__dict__.items()):
                if k in ("_parameters", "_buffers", "_modules") or k.startswith("_forward") or k.startswith("_backward") \
                        or k.startswith("_state_dict") or k.startswith("_load_state") or k in ("_non_persistent_buffers_set", "_is_full_backward_hook"):
                    continue
                put(f"{path}.{k}", v, d + 1)
        elif hasattr(x, "__slots__") and not isinstance(x, (str, bytes)) and type(x).__module__.startswith("deepali"):
            if d > 4:
                return
            out[path] = ("object", id(x), type(x).__name__)
            for k in x.__slots__:
                if hasattr(x, k):
                    put(f"{path}.{k}", getattr(x, k), d + 1)
        elif isinstance(x, (list, tuple)):
            out[path] = ("seq", len(x))
            for i, y in enumerate(x):
                if d < 5:
                    put(f"{path}[{i}]", y, d + 1)
        elif isinstance(x, dict):
            out[path] = ("dict", tuple(sorted(map(str, x.keys()))))
            for k, y in x.items():
                if d < 5:
                    put(f"{path}[{k}]", y, d + 1)
        elif isinstance(x, (int, float, bool, str, type(None))) or type(x).__module__ == "enum" or hasattr(x, "value"):
            out[path] = ("value", repr(x))
        else:
            out[path] = ("other", type(x).__name__, id(x))
    put("self", o, depth)
    return out


def diff_state(a, b):
    out = []
    for k in sorted(set(a) | set(b)):
        if k not in b:
            out.append((k, "removed"))
        elif k not in a:
            out.append((k, "added"))
        else:
            x, y = a[k], b[k]
            if x[0] != y[0]:
                out.append((k, f"kind {x[0]} -> {y[0]}"))
            elif x[0] == "tensor":
                if x[1] != y[1]:
                    out.append((k, "rebound to another tensor"))
                elif x[2] != y[2]:
                    out.append((k, "tensor written in place"))
                elif not tensors_equal(x[3], y[3]):
                    out.append((k, "tensor values changed"))
            elif x != y:
                out.append((k, f"{x} -> {y}"))
    return out


def method_args(cls_name, obj, mname, sig, R):
    """synthesised arguments for a public method, several variants"""
    from deepali.core.grid import Axes, Grid
    from deepali.core.cube import Cube
    D = R["D"]
    sp = R["sp"]
    size = tuple(reversed(sp))
    r = R["r"]
    g2 = Grid(size=tuple(s + 1 for s in size), spacing=(0.5,) * D)
    table = {
        "center": [((1.0,) * D,), (torch.ones(D),)], "origin": [((1.0,) * D,)], "spacing": [((2.0,) * D,), (0.5,)],
        "direction": [(torch.eye(D),)], "align_corners": [(False,), (True,)], "extent": [((3.0,) * D,)],
        "resize": [(size,), (tuple(s + 2 for s in size),)], "resample": [(2.0,), ("min",)], "reshape": [(tuple(s + 1 for s in sp),)],
        "crop": [(1,)], "pad": [(1,)], "center_crop": [(tuple(s - 2 for s in size),)], "center_pad": [(tuple(s + 2 for s in size),)],
        "narrow": [(0, 1, 2)], "downsample": [(), (1,)], "upsample": [(), (1,)], "pyramid": [(2,)],
        "avg_pool": [(2,)], "pool": [(2,)], "region_of_interest": [((1,) * D, (2,) * D)],
        # (also a grid that differs from the receiver's in the align_corners flag only: the flag is cached by sub-modules)
        "grid": [(g2,), (), (g2.align_corners(False),)] + ([(obj.grid().align_corners(not obj.grid().align_corners()),)]
                                                              if isinstance(obj, torch.nn.Module) and hasattr(obj, "grid") else []), "axes": [(Axes.WORLD,), (Axes.CUBE,), ()], "sample": [(g2,)],
        "normalize": [(), ("center",), ("unit", 0.0, 1.0), ("center", -0.5, 0.5), ("unit", 0.25, 0.75)],
        "rescale": [(0, 1), (), (0, 1, 0, 1), (None, None, 0.0, 1.0)], "conv": [(torch.tensor([0.25, 0.5, 0.25]),)],
        "transform": [(), (Axes.CUBE, Axes.WORLD)], "transform_points": [(r(3, D),)], "transform_vectors": [(r(3, D),)],
        "apply_transform": [(r(3, D), Axes.GRID, Axes.WORLD)], "inverse_transform": [()], "affine": [()], "inverse_affine": [()],
        "coords": [()], "points": [()], "cube": [()], "domain": [()], "clone": [()], "size": [()], "shape": [()],
        "index_to_cube": [(r(3, D),)], "cube_to_index": [(r(3, D),)], "index_to_world": [(r(3, D),)], "world_to_index": [(r(3, D),)],
        "cube_to_world": [(r(3, D),)], "world_to_cube": [(r(3, D),)], "same_domain_as": [(g2,)], "numpy": [()],
        "batch": [()], "tensor": [()], "exp": [(), (1.0, 2)], "curl": [()], "warp_image": "image",
        # transforms
        "data": "data", "condition": [(1,), (1, 2)], "link": "link", "unlink": [()], "inverse": [(), (False, True)],
        "matrix": "matrix", "update": [()], "forward": [(r(1, 5, D) * 2 - 1,), (r(1, *sp, D) * 2 - 1, True)],
        "disp": [(), (g2,)], "flow": [()], "fit": None, "points": [(r(1, 5, D),)], "clear_buffers": [()],
        "requires_grad": [()], "has_parameters": [()], "reset_parameters": None, "register_update_hook": None,
    }
    v = table.get(mname, "auto")
    if v is None:
        return None
    if v == "data":
        if not hasattr(obj, "data_shape"):
            return [()]
        try:
            shape = (1,) + tuple(obj.data_shape)
        except Exception:  # noqa
            return [()]
        return [(), (torch.ones(shape),)]
    if v == "link":
        try:
            return [(copy.deepcopy(obj),)]
        except Exception:  # noqa
            return None
    if v == "matrix":
        return [(), (torch.eye(D, D + 1).unsqueeze(0),)]
    if v == "image":
        from deepali.data import Image
        return [(Image(r(1, *sp), Grid(size=size)),)]
    if v == "auto":
        req = [prm for prm in sig.parameters.values()
               if prm.default is inspect._empty and prm.kind in (prm.POSITIONAL_OR_KEYWORD, prm.POSITIONAL_ONLY) and prm.name != "self"]
        if req:
            return "skip"
        return [()]
    return v


def make_objects(D):
    from deepali.core.grid import Axes, Grid
    from deepali.core.cube import Cube
    from deepali.data import FlowField, FlowFields, Image, ImageBatch
    import deepali.spatial as S
    sp = (5, 6) if D == 2 else (4, 5, 6)
    size = tuple(reversed(sp))
    g = lambda: Grid(size=size, spacing=(1.0, 2.0, 0.5)[:D], center=(1.0, -2.0, 0.5)[:D])  # noqa
    objs = {
        "Grid": g,
        "Cube": lambda: Cube(extent=(4.0, 5.0, 6.0)[:D], center=(1.0, -2.0, 0.5)[:D]),
        "Image": lambda: Image(torch.rand(2, *sp) * 2.4 - 0.7, g()),
        "ImageBatch": lambda: ImageBatch(torch.rand(2, 2, *sp) * 2.4 - 0.7, [g(), g().center((0.0,) * D)]),
        "FlowField": lambda: FlowField(0.1 * torch.rand(D, *sp), g(), Axes.WORLD),
        "FlowFields": lambda: FlowFields(0.1 * torch.rand(2, D, *sp), [g(), g().center((0.0,) * D)], Axes.CUBE_CORNERS),
    }

    # data that requires grad: DataTensor.__new__ keeps the autograd graph (the typed tensor is a non-leaf alias of the data)
    objs["Image[grad]"] = lambda: Image((torch.rand(2, *sp) * 2.4 - 0.7).requires_grad_(True), g())
    objs["ImageBatch[grad]"] = lambda: ImageBatch((torch.rand(2, 2, *sp) * 2.4 - 0.7).requires_grad_(True), [g(), g().center((0.0,) * D)])
    objs["FlowField[grad]"] = lambda: FlowField((0.1 * torch.rand(D, *sp)).requires_grad_(True), g(), Axes.WORLD)
    objs["FlowFields[grad]"] = lambda: FlowFields((0.1 * torch.rand(2, D, *sp)).requires_grad_(True), [g(), g().center((0.0,) * D)], Axes.CUBE_CORNERS)

    def tf(cls, kind):
        def f():
            t = cls(g(), params=True)
            if kind == "tensor":
                t = cls(g(), params=0.1 * torch.rand((1,) + tuple(t.data_shape)))
            elif kind == "param":
                with torch.no_grad():
                    t.params.add_(0.1 * torch.rand_like(t.params))
            t.update()
            return t
        return f
    for name in ("Translation", "EulerRotation", "IsotropicScaling", "AnisotropicScaling", "Shearing", "HomogeneousTransform",
                 "QuaternionRotation", "FreeFormDeformation", "StationaryVelocityFreeFormDeformation", "DisplacementFieldTransform",
                 "StationaryVelocityFieldTransform"):
        cls = getattr(S, name, None)
        if cls is None:
            continue
        for kind in ("param", "tensor"):
            objs[f"{name}[{kind}]"] = tf(cls, kind)
    for name in ("RigidTransform", "AffineTransform", "FullAffineTransform"):
        cls = getattr(S, name, None)
        if cls is not None:
            objs[name] = (lambda c: (lambda: c(g()).update()))(cls)
    if hasattr(S, "SequentialTransform"):
        objs["SequentialTransform"] = lambda: S.SequentialTransform(S.Translation(g(), params=torch.full((1, D), 0.1)), S.EulerRotation(g())).update()
    if hasattr(S, "MultiLevelTransform"):
        objs["MultiLevelTransform[linear]"] = lambda: S.MultiLevelTransform(S.HomogeneousTransform(g(), params=torch.eye(D, D + 1).unsqueeze(0)),
                                                                             S.HomogeneousTransform(g(), params=torch.eye(D, D + 1).unsqueeze(0)))
        objs["MultiLevelTransform[ffd]"] = lambda: S.MultiLevelTransform(S.FreeFormDeformation(g()), S.FreeFormDeformation(g(), stride=2)).update()
    # composites inside composites: the copies made by condition(...) / grid(g) must not reach the leaves of the receiver
    if hasattr(S, "SequentialTransform") and hasattr(S, "MultiLevelTransform"):
        objs["SequentialTransform[nested]"] = lambda: S.SequentialTransform(
            S.RigidTransform(g()), S.MultiLevelTransform(S.FreeFormDeformation(g()), S.FreeFormDeformation(g(), stride=2))).update()
        objs["MultiLevelTransform[nested]"] = lambda: S.MultiLevelTransform(
            S.SequentialTransform(S.Translation(g(), params=torch.full((1, D), 0.1)), S.DisplacementFieldTransform(g())),
            S.StationaryVelocityFieldTransform(g())).update()
        objs["SequentialTransform[nested2]"] = lambda: S.SequentialTransform(
            S.SequentialTransform(S.SequentialTransform(S.Translation(g()), S.DisplacementFieldTransform(g())))).update()
    # transformers wrap a transform: condition(...) must leave the wrapped transform of the receiver as it was
    if hasattr(S, "ImageTransformer"):
        objs["ImageTransformer"] = lambda: S.ImageTransformer(S.Translation(g(), params=torch.full((1, D), 0.1)).update())
        objs["ImageTransformer[composite]"] = lambda: S.ImageTransformer(S.RigidTransform(g()).update())
    if hasattr(S, "PointSetTransformer"):
        objs["PointSetTransformer"] = lambda: S.PointSetTransformer(S.Translation(g()).update(), g())
    return objs, sp


def run_accessors(p):
    res = []
    for D in (2, 3):
        R = recipes(D, torch.float32)
        objs, sp = make_objects(D)
        for oname, factory in objs.items():
            try:
                proto = factory()
            except Exception as e:  # noqa
                res.append({"obj": oname, "D": D, "method": "<construct>", "status": "raised", "exc": f"{type(e).__name__}: {str(e)[:100]}", "changed": []})
                continue
            skip_base = set(dir(torch.nn.Module)) if isinstance(proto, torch.nn.Module) else (set(dir(Tensor)) if isinstance(proto, Tensor) else set())
            own = {"grid", "tensor", "batch", "narrow", "clone", "forward"}   # defined by deepali although the name exists on the base class
            names = [n for n in dir(type(proto)) if not n.startswith("_") and not n.endswith("_") and (n not in skip_base or n in own)]
            for mname in names:
                attr = inspect.getattr_static(type(proto), mname, None)
                if isinstance(attr, (property, staticmethod, classmethod)) or not callable(getattr(proto, mname, None)):
                    continue
                if mname.startswith("from_") or mname in ("read", "write", "to_uri", "from_uri", "sitk", "register_update_hook", "remove_update_hook", "update", "clear_buffers", "fit",
                                                           "reset_parameters", "train", "eval", "zero_grad", "requires_grad"):
                    continue
                try:
                    sig = inspect.signature(getattr(proto, mname))
                except (TypeError, ValueError):
                    continue
                variants = method_args(oname, proto, mname, sig, R)
                if variants is None:
                    continue
                if variants == "skip":
                    res.append({"obj": oname, "D": D, "method": mname, "status": "no-arguments", "changed": []})
                    continue
                for vi, args in enumerate(variants):
                    try:
                        obj = factory()
                    except Exception:  # noqa
                        break
                    if oname.startswith("MultiLevel") or oname in ("SequentialTransform",):
                        pass
                    before = obj_state(obj)
                    status, exc = "ok", None
                    try:
                        with torch.no_grad():
                            getattr(obj, mname)(*args)
                    except Exception as e:  # noqa
                        status, exc = "raised", f"{type(e).__name__}: {str(e)[:100]}"
                    after = obj_state(obj)
                    ch = diff_state(before, after)
                    res.append({"obj": oname, "D": D, "method": mname, "variant": vi, "nargs": len(args), "status": status, "exc": exc,
                                "changed": [{"slot": s, "what": w} for s, w in ch[:6]]})
    return res


def reachable_tensors(o):
    return [v[3] for k, v in obj_state(o).items() if v[0] == "tensor"], [k for k, v in obj_state(o).items() if v[0] == "tensor"]


def live_tensors(o, depth=0, out=None, seen=None):
    """the actual tensor objects an object refers to (for in-place edits)"""
    out = out if out is not None else []
    seen = seen if seen is not None else set()
    if id(o) in seen or depth > 5:
        return out
    seen.add(id(o))
    if isinstance(o, Tensor):
        out.append(o)
        for v in getattr(o, "__dict__", {}).values():
            live_tensors(v, depth + 1, out, seen)
    elif isinstance(o, torch.nn.Module):
        for v in list(o._parameters.values()) + list(o._buffers.values()) + list(o._modules.values()):
            if v is not None:
                live_tensors(v, depth + 1, out, seen)
        for k, v in o.__dict__.items():
            if k not in ("_parameters", "_buffers", "_modules") and not k.startswith("_forward") and not k.startswith("_backward"):
                live_tensors(v, depth + 1, out, seen)
    elif hasattr(o, "__slots__") and type(o).__module__.startswith("deepali"):
        for k in o.__slots__:
            if hasattr(o, k):
                live_tensors(getattr(o, k), depth + 1, out, seen)
    elif isinstance(o, (list, tuple)):
        for v in o:
            live_tensors(v, depth + 1, out, seen)
    elif isinstance(o, dict):
        for v in o.values():
            live_tensors(v, depth + 1, out, seen)
    return out


def run_deepcopies(p):
    """deep copies are independent in both directions: edit every tensor of one side in place, the other side must not change"""
    res = []
    for D in (2, 3):
        objs, sp = make_objects(D)
        for oname, factory in objs.items():
            for how in ("deepcopy", "clone", "torch.clone", "pickle"):
                try:
                    o = factory()
                except Exception:  # noqa  (class not available for this dimension)
                    continue
                try:
                    if how == "clone":
                        if not hasattr(o, "clone") or isinstance(o, torch.nn.Module):
                            continue
                        c = o.clone()
                    elif how == "torch.clone":      # function form: dispatched through __torch_function__ with func == torch.clone
                        if not isinstance(o, Tensor):
                            continue
                        c = torch.clone(o)
                    elif how == "pickle":
                        if isinstance(o, torch.nn.Module):
                            continue
                        import pickle
                        c = pickle.loads(pickle.dumps(o))
                    else:
                        c = copy.deepcopy(o)
                except Exception as e:  # noqa
                    res.append({"obj": oname, "D": D, "how": how, "status": "raised", "exc": f"{type(e).__name__}: {str(e)[:100]}", "changed": []})
                    continue
                for direction, (edited, watched) in (("copy-edited", (c, o)), ("original-edited", (o, c))):
                    before = obj_state(watched)
                    with torch.no_grad():
                        for t in live_tensors(edited):
                            if t.is_floating_point() and t.numel():
                                t.add_(1.0)
                    ch = diff_state(before, obj_state(watched))
                    res.append({"obj": oname, "D": D, "how": how, "direction": direction, "status": "ok",
                                "changed": [{"slot": s_, "what": w} for s_, w in ch[:4]]})
    return res


# ------------------------------------------------------------------------------------------------
# 3. object graph replay (correspondence with Model/ObjGraph.v)
# ------------------------------------------------------------------------------------------------
def graph_fingerprint(objs):
    """per live object: state fingerprint used to decide 'changed since the previous step'"""
    return [obj_state(o) if o is not None else None for o in objs]


def run_graph(p):
    from deepali.core.grid import Grid
    from deepali.core.cube import Cube
    import deepali.spatial as S
    out = []
    for case in p["cases"]:
        kind = case["kind"]
        D = 2
        size = (6, 5)

        def fresh():
            if kind == "grid":
                return Grid(size=size, spacing=(1.0, 2.0), center=(1.0, -2.0))
            if kind == "cube":
                return Cube(extent=(4.0, 5.0), center=(1.0, -2.0))
            if kind == "transform_param":
                return S.Translation(Grid(size=size), params=True).update()
            if kind == "transform_tensor":
                return S.Translation(Grid(size=size), params=torch.zeros(1, D)).update()
            raise ValueError(kind)
        objs = [fresh()]
        steps = []
        try:
            for st in case["steps"]:
                before = graph_fingerprint(objs)
                op, k = st["op"], st["obj"]
                o = objs[k]
                new = None
                err = None
                try:
                    with torch.no_grad():
                        if op == "copy":
                            new = copy.copy(o)
                        elif op == "deepcopy":
                            new = copy.deepcopy(o)
                        elif op == "clone":
                            new = o.clone()
                        elif op == "acc_center":
                            new = o.center((3.0, 4.0))
                        elif op == "acc_spacing":
                            new = o.spacing((0.5, 0.25))
                        elif op == "acc_align":
                            new = o.align_corners(not o.align_corners())
                        elif op == "set_center":
                            o.center_((7.0, 8.0))
                        elif op == "edit_center":
                            o.center().add_(1.0)          # in-place edit of the tensor the slot refers to
                        elif op == "edit_spacing":
                            o.spacing().mul_(2.0)
                        elif op == "acc_grid":
                            new = o.grid(Grid(size=(7, 6)))
                        elif op == "acc_condition":
                            new = o.condition(1)
                        elif op == "acc_data":
                            new = o.data(torch.ones(1, D))
                        elif op == "acc_unlink":
                            new = o.unlink()
                        elif op == "set_data":
                            o.data_(torch.full((1, D), 2.0))
                        elif op == "edit_params":
                            o.params.add_(1.0)
                        elif op == "edit_buffer":
                            getattr(o, st.get("name", "p")).add_(1.0)
                        else:
                            raise ValueError(op)
                except Exception as e:  # noqa
                    err = type(e).__name__
                after = graph_fingerprint(objs)
                changed = [i for i, (a, b) in enumerate(zip(before, after)) if a is not None and diff_state(a, b)]
                if new is not None and err is None:
                    objs.append(new)
                steps.append({"error": err, "changed": changed, "new": new is not None and err is None})
                if err is not None:
                    break
        except Exception as e:  # noqa
            steps.append({"harness_error": f"{type(e).__name__}: {e}"})
        out.append({"steps": steps})
    return out


def main():
    p = json.load(sys.stdin)
    fn = p["fn"]
    if fn == "functions":
        emit_json(run_functions(p))
    elif fn == "accessors":
        emit_json(run_accessors(p))
    elif fn == "graph":
        emit_json(run_graph(p))
    elif fn == "deepcopies":
        emit_json(run_deepcopies(p))
    else:
        raise SystemExit("unknown fn")


if __name__ == "__main__":
    main()
