"""Gen/Transform.v -- spatial/*.py, traced from the REAL constructors and methods (spatial/base.py,
parametric.py, composite.py, linear.py, transformer.py, modules/sample.py, core/flow.py, core/pointset.py):

 * gen_fresh c D       tensor() of a freshly constructed instance (params=True) of every linear class found in
                       spatial/linear.py (elementary and sequential composites); the default literals written by
                       reset_parameters go through the tanh/exp/tan/cos/sin re-parameterisations, which are
                       evaluated only at their exact points (tanh 0 = 0, exp 0 = 1, cos 0 = 1, sin 0 = tan 0 = 0,
                       sqrt 1 = 1) -- anything else is a TraceError (fail closed);
 * gen_default c D     the parameter literals themselves;  gen_nonrigid_defaults_zero: the non-rigid classes reset to 0;
 * gen_forward / gen_matrix / gen_affine_flow   SpatialTransform.__call__ (forward pre-hook + forward ->
                       transform_points), LinearTransform.matrix, core.flow.affine_flow for a linear transform whose
                       tensor() is an arbitrary matrix of each of the three operand forms;
 * gen_points_world    SpatialTransform.points(x, axes=WORLD) on the transform's own (symbolic, oriented) grid;
 * gen_seq2 / gen_ml2 / gen_seq_fwd2 / gen_ml_fwd k   SequentialTransform.tensor, MultiLevelTransform.tensor for two
                       members of all 9 form pairs, and the non-linear forward() loops;
 * gen_warp_coords     (2-D) the normalised sampling coordinates ImageTransformer hands to grid_sample for a target
                       point given in the target's cube coordinates, for three different symbolic grids.
Structural checks done here (TraceError when they fail): forward(grid=True) == forward; points()/PointSetTransformer for
every (axes, to_axes) pair and other grids == Grid.transform_points o forward o Grid.transform_points with the
argument plumbing the documentation states; disp(grid) == affine_flow at grid.coords() for own and other grids;
k = 3, 4 members == one more step of the k-1 result (fold structure); ImageTransformer passes the transform's
align_corners flag to coords() and grid_sample, D = 3 sampling coordinates == the composition the model uses."""
import itertools
import types

import numpy as np

import symload
import symtorch as st
import trlib
from symtorch import E, TraceError
from tr_units.grid import mk_grid, grid_inputs

FORMS = ["T", "A", "H"]
COQF = {"T": "FT", "A": "FA", "H": "FH"}
EXACT = {("tanh", 0): 0, ("exp", 0): 1, ("cos", 0): 1, ("sin", 0): 0, ("tan", 0): 0, ("sqrt", 1): 1, ("sqrt", 0): 0}
NONRIGID = ["DisplacementFieldTransform", "StationaryVelocityFieldTransform", "FreeFormDeformation",
            "StationaryVelocityFreeFormDeformation"]


def cols(f, D):
    return {"T": 1, "A": D, "H": D + 1}[f]


def form_of(shape, D):
    for f in FORMS:
        if tuple(shape) == (D, cols(f, D)):
            return f
    raise TraceError(f"tensor() has shape {tuple(shape)}")


def fold(e):
    """evaluate transcendental nodes at their exact points; rebuild with the simplifying operators"""
    if e.op in ("const", "var"):
        return e
    if e.op == "fn":
        x = fold(e.args[1])
        if x.is_const() and (e.args[0], x.value()) in EXACT:
            return E.const(EXACT[(e.args[0], x.value())])
        return E("fn", e.args[0], x)
    if e.op == "neg":
        return -fold(e.args[0])
    a, b = fold(e.args[0]), fold(e.args[1])
    if e.op == "add":
        return a + b
    if e.op == "sub":
        return a - b
    if e.op == "mul":
        return a * b
    if e.op == "div":
        return a / b
    raise TraceError(f"fold: node {e.op}")


def fold_t(t):
    return st.Tensor(np.vectorize(fold, otypes=[object])(t.a))


def no_fn(t, what):
    def scan(e):
        if e.op == "fn":
            raise TraceError(f"{what}: transcendental node {st.to_text(e)} left after evaluating the defaults")
        if e.op not in ("const", "var"):
            for a in e.args:
                if isinstance(a, E):
                    scan(a)
    for e in t.a.reshape(-1):
        scan(e)


def private_loader(loader):
    """own loader: real spatial/base.py, parametric.py, composite.py, linear.py, transformer.py, modules/sample.py;
    stubs only for deepali.modules (DeviceProperty, ExpFlow) and deepali.data.flow (FlowFields, unused on the
    traced paths)"""
    L = symload.SymLoader(loader.root)
    mods = types.ModuleType("sym.deepali.modules")
    mods.__package__ = "deepali.modules"

    class DeviceProperty:
        @property
        def device(self):
            return st.device("cpu")

    class ExpFlow:
        def __init__(self, scale=None, steps=None, align_corners=True):
            self.scale, self.steps, self.align_corners = scale, steps, align_corners
    mods.DeviceProperty = DeviceProperty
    mods.ExpFlow = ExpFlow
    mods.__path__ = []
    L.mods["deepali.modules"] = mods
    df = types.ModuleType("sym.deepali.data.flow")
    df.__package__ = "deepali.data"

    class FlowFields:
        def __init__(self, *a, **k):
            raise TraceError("FlowFields used on a traced path")
    df.FlowFields = FlowFields
    L.mods["deepali.data.flow"] = df
    sample = L.load("deepali.modules.sample")
    mods.SampleImage = sample.SampleImage
    par = L.load("deepali.spatial.parametric")
    par.Parameter = st.SymParameter
    return L


def symmat3(prefix, D, f):
    """(1, D, cols) batch of one symbolic matrix of form f"""
    c = cols(f, D)
    return st.Tensor(np.array([[[E.var(f"{prefix}{i}{j}") for j in range(c)] for i in range(D)]], dtype=object))


def mat_input(prefix, D, f):
    return st.symmat(prefix, D, cols(f, D))


def pt(D, prefix="x", lead=2):
    """one symbolic point with `lead` leading singleton dimensions"""
    a = np.array([E.var(f"{prefix}{i}") for i in range(D)], dtype=object).reshape((1,) * lead + (D,))
    return st.Tensor(a)


def last(t):
    a = t.a
    while a.ndim > 1:
        if a.shape[0] != 1:
            raise TraceError(f"unexpected result shape {t.a.shape}")
        a = a[0]
    return st.Tensor(a)


def float_arange(*args, dtype=None, device=None):
    """torch.arange for float arguments (Grid.coords): ceil((end - start) / step) values start + i * step;
    used only for the structural disp(grid) == affine_flow(grid.coords()) check, where both sides see the same values"""
    import math
    if all(isinstance(v, (int, np.integer)) for v in args):
        return _int_arange(*args, dtype=dtype, device=device)
    start, end, step = (float(v) for v in args)
    n = int(math.ceil((end - start) / step))
    return st.tensor([start + i * step for i in range(n)])


_int_arange = st.arange


def generate(loader):
    st.arange = float_arange
    try:
        return _generate(loader)
    finally:
        st.arange = _int_arange


def _generate(loader):
    L = private_loader(loader)
    base = L.load("deepali.spatial.base")
    comp = L.load("deepali.spatial.composite")
    lin = L.load("deepali.spatial.linear")
    trf = L.load("deepali.spatial.transformer")
    G = L.load("deepali.core.grid")
    linalg = L.load("deepali.core.linalg")
    flow = L.load("deepali.core.flow")
    pointset = L.load("deepali.core.pointset")
    sample = L.load("deepali.modules.sample")
    Grid, Axes = G.Grid, G.Axes
    AXL = [Axes.GRID, Axes.CUBE, Axes.CUBE_CORNERS, Axes.WORLD]

    out = []
    # ---------------------------------------------------------------- linear classes of spatial/linear.py
    classes = []
    for name, obj in vars(lin).items():
        if isinstance(obj, type) and obj.__module__ == lin.__name__ and \
                (issubclass(obj, base.LinearTransform) or issubclass(obj, comp.SequentialTransform)):
            classes.append(name)
    if len(classes) < 12:
        raise TraceError(f"only {len(classes)} linear transform classes found in spatial/linear.py: {classes}")
    out.append("Inductive lclass := " + " | ".join("L" + c for c in classes) + ".")
    out.append("Definition all_lclass : list lclass := [" + "; ".join("L" + c for c in classes) + "].")
    out.append("Definition lclass_eqb (a b : lclass) : bool :=\n  match a, b with " +
               " | ".join(f"L{c}, L{c}" for c in classes) + " => true | _, _ => false end.\n")
    out += ["Section Gen.", "Context {K : fld}.", ""]
    fresh_arms, dflt_arms, dims, forms = [], [], {}, {}
    for c in classes:
        cls = getattr(lin, c)
        for D in (2, 3):
            g = mk_grid(Grid, D, align=False)
            try:
                t = cls(g)
            except ValueError as exc:   # documented dimension restriction (QuaternionRotation: 3-D only)
                if "dimensional" not in str(exc):
                    raise
                continue
            ten = t.tensor()
            if ten.a.ndim != 3 or ten.shape[0] != 1:
                raise TraceError(f"{c}: fresh tensor() has shape {tuple(ten.shape)}")
            m = fold_t(st.Tensor(ten.a[0]))
            no_fn(m, f"{c} D={D}")
            f = form_of(m.shape, D)
            if forms.setdefault(c, f) != f:
                raise TraceError(f"{c}: form of tensor() depends on D")
            dims.setdefault(c, []).append(D)
            out.append(trlib.emit_match_def(f"gen_fresh_{c}_{D}", [], [], m, None,
                                            f"{c}(grid).tensor() right after construction, D = {D}"))
            fresh_arms.append(f"  | L{c}, {D}%nat => gen_fresh_{c}_{D}")
            if hasattr(t, "params") and isinstance(t.params, st.Tensor):
                p = st.Tensor(t.params.a[0].reshape(-1))
                out.append(trlib.emit_match_def(f"gen_default_{c}_{D}", [], [], p, None,
                                                f"{c}: parameters written by reset_parameters, D = {D}"))
                dflt_arms.append(f"  | L{c}, {D}%nat => gen_default_{c}_{D}")
            # groups = 2: every item is the same fresh matrix; align_corners of the grid is irrelevant
            t2 = cls(mk_grid(Grid, D, align=True), groups=2)
            ten2 = t2.tensor()
            for k in range(2):
                if not trlib.same_tensor(fold_t(st.Tensor(ten2.a[k])).a, m.a):
                    raise TraceError(f"{c}: fresh tensor() of group item {k} differs")
    out.append("Definition gen_fresh (c : lclass) (D : nat) : list (list K) :=\n  match c, D with\n" +
               "\n".join(fresh_arms) + "\n  | _, _ => []\n  end.\n")
    out.append("Definition gen_default (c : lclass) (D : nat) : list K :=\n  match c, D with\n" +
               "\n".join(dflt_arms) + "\n  | _, _ => []\n  end.\n")
    out.append("Definition gen_fresh_form (c : lclass) : form :=\n  match c with\n" +
               "\n".join(f"  | L{c} => {COQF[forms[c]]}" for c in classes) + "\n  end.\n")
    out.append("Definition gen_fresh_dims (c : lclass) : list nat :=\n  match c with\n" +
               "\n".join(f"  | L{c} => [" + "; ".join(f"{d}%nat" for d in dims[c]) + "]" for c in classes) + "\n  end.\n")

    # ---------------------------------------------------------------- an arbitrary linear transform
    class AnyLinear(base.LinearTransform):
        def __init__(self, grid, m):
            super().__init__(grid)
            self._m = m

        def tensor(self):
            return self._m

    class OpaqueAffine(base.NonRigidTransform):
        """a member that is not `linear`: forward() applies a given homogeneous matrix, so that composites
        take their generic (non-matrix) branch while the order of application stays observable"""
        def __init__(self, grid, m):
            super().__init__(grid)
            self._m = m

        def forward(self, points, grid=False):
            return linalg.homogeneous_transform(self._m, points)

    class OpaqueValue(base.NonRigidTransform):
        """a member whose forward() returns a given value y_i (the points it maps x to)"""
        def __init__(self, grid, y):
            super().__init__(grid)
            self._y = y

        def forward(self, points, grid=False):
            return self._y

    disp_other_arms = []
    for D in (2, 3):
        x = st.symvec("x", D)
        for f in FORMS:
            a = mat_input("a", D, f)
            for ac in (False, True):
                g = mk_grid(Grid, D, align=ac)
                t = AnyLinear(g, st.Tensor(a.a[None]))
                y = last(t(st.Tensor(x.a.reshape(1, 1, D))))
                yg = last(t(st.Tensor(x.a.reshape((1,) * (D + 1) + (D,))), grid=True))
                yp = last(pointset.transform_points(st.Tensor(a.a[None]), st.Tensor(x.a.reshape(1, 1, D)), align_corners=ac))
                if not (trlib.same_tensor(y.a, yg.a) and trlib.same_tensor(y.a, yp.a)):
                    raise TraceError(f"forward(grid=True) / transform_points differ from forward ({f}, D={D})")
                if ac is False:
                    out.append(trlib.emit_match_def(f"gen_forward_{f}_{D}", [("a", a), ("x", x)], [], y, None,
                                                    f"SpatialTransform.__call__ of a linear transform, form {f}, D = {D}"))
                    y0 = y
                elif not trlib.same_tensor(y.a, y0.a):
                    raise TraceError("forward of a linear transform depends on align_corners")
                mt = t.matrix()
                if mt.a.ndim != 3 or tuple(mt.shape[1:]) != (D, D + 1):
                    raise TraceError(f"matrix() shape {tuple(mt.shape)}")
                if ac is False:
                    out.append(trlib.emit_match_def(f"gen_matrix_{f}_{D}", [("a", a)], [], st.Tensor(mt.a[0]), None,
                                                    f"LinearTransform.matrix(), form {f}, D = {D}"))
                # affine_flow at one point of a (N, ..., X, D) tensor of points
                fl = flow.affine_flow(st.Tensor(a.a[None]), st.Tensor(x.a.reshape((1,) * (D + 1) + (D,))))
                if tuple(fl.shape) != (1, D) + (1,) * D:
                    raise TraceError(f"affine_flow shape {tuple(fl.shape)}")
                flv = st.Tensor(fl.a.reshape(D))
                if ac is False:
                    out.append(trlib.emit_match_def(f"gen_affine_flow_{f}_{D}", [("a", a), ("x", x)], [], flv, None,
                                                    f"core.flow.affine_flow value at a point x, form {f}, D = {D}"))
                # disp(grid) == affine_flow at grid.coords(): own grid and another grid, concrete sizes 3 x 2 (x 2)
                own_axes_ = Axes.CUBE_CORNERS if ac else Axes.CUBE
                sizes = (3, 2) if D == 2 else (3, 2, 2)
                for other_ac in (False, True):
                    for own in (True, False):
                        go = mk_grid(Grid, D, p="" if own else "o", align=ac if own else other_ac)
                        go._size = st.tensor([float(v) for v in sizes])
                        if own:
                            gown = go
                        else:
                            gown = mk_grid(Grid, D, align=ac)      # own grid with concrete sizes too (Grid.__eq__ compares the sizes)
                            gown._size = st.tensor([float(v + 1) for v in sizes])
                        tt = AnyLinear(gown, st.Tensor(a.a[None]))
                        st.GENERIC_DISTINCT = True
                        try:
                            d = tt.disp() if own else tt.disp(go)
                        finally:
                            st.GENERIC_DISTINCT = False
                        co = go.coords()
                        if tuple(d.shape) != (1, D) + tuple(reversed(sizes)):
                            raise TraceError(f"disp shape {tuple(d.shape)}")
                        for idx in np.ndindex(*reversed(sizes)):
                            pnt = st.Tensor(co.a[idx].reshape((1,) * (D + 1) + (D,)))
                            mat_ = st.Tensor(a.a[None])
                            if not own:
                                # another grid: the matrix re-expressed in that grid's cube (other cube -> own cube -> M -> own cube -> other cube)
                                oax = Axes.CUBE_CORNERS if other_ac else Axes.CUBE
                                st.GENERIC_DISTINCT = True
                                try:
                                    pre_ = go.transform(oax, own_axes_, to_grid=gown)
                                    post_ = gown.transform(own_axes_, oax, to_grid=go)
                                finally:
                                    st.GENERIC_DISTINCT = False
                                mat_ = linalg.homogeneous_matmul(post_, mat_, pre_)
                            ref = flow.affine_flow(mat_, pnt).a.reshape(D)
                            got = np.array([d.a[(0, i) + idx] for i in range(D)], dtype=object)
                            if not trlib.same_tensor(got, ref):
                                raise TraceError(f"disp({'own' if own else 'other'} grid) is not affine_flow of the "
                                                 f"{'matrix' if own else 're-expressed matrix'} at grid.coords() ({f}, D={D})")
                # the dense field on ANOTHER grid at a symbolic point of that grid's cube (2-D, emitted; Coq proves it is disp_reexpressed)
                if D == 2:
                    for other_ac in (False, True):
                        xs_ = st.symvec("x", D)

                        class PointGrid(Grid):
                            __slots__ = ()

                            def coords(self, *args, **kwargs):
                                return st.Tensor(xs_.a.reshape((1,) * D + (D,)))
                        gh = mk_grid(PointGrid, D, p="h", align=other_ac)
                        st.GENERIC_DISTINCT = True
                        try:
                            dh = t.disp(gh)
                        finally:
                            st.GENERIC_DISTINCT = False
                        if tuple(dh.shape) != (1, D) + (1,) * D:
                            raise TraceError(f"disp(other grid) at one point has shape {tuple(dh.shape)}")
                        nm = f"gen_disp_other_{f}_2_{'ac' if ac else 'nac'}_{'ac' if other_ac else 'nac'}"
                        out.append(trlib.emit_match_def(nm, grid_inputs(g) + grid_inputs(gh, "h") + [("a", a), ("x", xs_)], [], st.Tensor(dh.a.reshape(D)), None,
                                                        f"SpatialTransform.disp(h) of a linear transform (form {f}, own flag {ac}) at the point x of the cube "
                                                        f"of another grid h (flag {other_ac})"))
                        disp_other_arms.append(f"  | {COQF[f]}, {'true' if ac else 'false'}, {'true' if other_ac else 'false'} => {nm} n s c d hn hs hc hd a x")
                # points(): world axes on the own grid (emitted), and the general plumbing (structural)
                gi = grid_inputs(g)
                yw = last(t.points(st.Tensor(x.a.reshape(1, 1, D)), axes=Axes.WORLD))
                out.append(trlib.emit_match_def(f"gen_points_world_{f}_{D}_{'ac' if ac else 'nac'}", gi + [("a", a), ("x", x)], [], yw, None,
                                                f"SpatialTransform.points(x, axes=WORLD), form {f}, D = {D}, align_corners = {ac}"))
                own_axes = Axes.CUBE_CORNERS if ac else Axes.CUBE
                if t.axes() is not own_axes:
                    raise TraceError("SpatialTransform.axes() is not the cube axes of the grid's align_corners flag")
                g1, g2 = mk_grid(Grid, D, p="p", align=not ac), mk_grid(Grid, D, p="q", align=ac)
                st.GENERIC_DISTINCT = True
                try:
                    xin = st.Tensor(x.a.reshape(1, 1, D))
                    for A_, B_ in itertools.product(AXL, AXL):
                        for gin, gout in ((None, None), (g1, None), (g1, g2), (None, g2)):
                            got = t.points(xin, grid=gin, axes=A_, to_grid=gout, to_axes=B_)
                            gi_, go_ = gin or g, gout or gin or g
                            ref = gi_.transform_points(xin, axes=A_, to_grid=g, to_axes=own_axes, decimals=None)
                            ref = linalg.homogeneous_transform(st.Tensor(a.a[None]), ref)
                            ref = g.transform_points(ref, axes=own_axes, to_grid=go_, to_axes=B_, decimals=None)
                            if not trlib.same_tensor(got.a, ref.a):
                                raise TraceError(f"points({A_}->{B_}) is not to-own-cube o forward o from-own-cube")
                            if f == "H":
                                # points() is the base-class method: a NON-linear transform (forward = any map of the own cube)
                                # goes through the very same re-expression
                                tn = OpaqueAffine(g, st.Tensor(a.a[None]))
                                if not trlib.same_tensor(tn.points(xin, grid=gin, axes=A_, to_grid=gout, to_axes=B_).a, ref.a) or \
                                        not trlib.same_tensor(trf.PointSetTransformer(tn, grid=gin, axes=A_, to_grid=gout, to_axes=B_)(xin).a, ref.a):
                                    raise TraceError(f"points({A_}->{B_}) of a non-linear transform is not to-own-cube o forward o from-own-cube")
                            pst = trf.PointSetTransformer(t, grid=gin, axes=A_, to_grid=gout, to_axes=B_)
                            if not trlib.same_tensor(pst(xin).a, got.a):
                                raise TraceError(f"PointSetTransformer({A_}->{B_}) differs from SpatialTransform.points")
                    # defaults: axes=None means the transform's own cube axes
                    if not trlib.same_tensor(t.points(xin).a, y.a.reshape(1, 1, D)):
                        raise TraceError("points() with default axes is not forward()")
                finally:
                    st.GENERIC_DISTINCT = False

    # ---------------------------------------------------------------- composites
    inplace = {}
    flag_table = []
    for D in (2, 3):
        g = mk_grid(Grid, D, align=False)
        x = st.symvec("x", D)
        xin = st.Tensor(x.a.reshape(1, 1, D))
        res_form = {}
        for fa, fb in itertools.product(FORMS, FORMS):
            a, b = mat_input("a", D, fa), mat_input("b", D, fb)
            ta, tb = AnyLinear(g, st.Tensor(a.a[None])), AnyLinear(g, st.Tensor(b.a[None]))
            s2 = comp.SequentialTransform(ta, tb)
            if not s2.linear:
                raise TraceError("SequentialTransform of linear members is not linear")
            m = s2.tensor()
            fc = form_of(m.shape[1:], D)
            if res_form.setdefault((fa, fb), fc) != fc:
                raise TraceError("form of sequential tensor depends on D")
            out.append(trlib.emit_match_def(f"gen_seq2_{fa}{fb}_{D}", [("a", a), ("b", b)], [], st.Tensor(m.a[0]), None,
                                            f"SequentialTransform(A, B).tensor(), forms {fa}, {fb}, D = {D}"))
            # forward of the composite uses its tensor()
            y = s2(xin)
            if not trlib.same_tensor(y.a, linalg.homogeneous_transform(m, xin).a):
                raise TraceError("SequentialTransform.forward (linear) is not transform_points(tensor())")
            ma, mb = st.Tensor(a.a.copy()[None]), st.Tensor(b.a.copy()[None])
            ml = comp.MultiLevelTransform(AnyLinear(g, ma), AnyLinear(g, mb))
            mm_ = ml.tensor()
            # does evaluating the composite write into a member's tensor?  (mat += ... on an aliased operand)
            inplace[(fa, fb, D)] = (not trlib.same_tensor(ma.a[0], a.a), not trlib.same_tensor(mb.a[0], b.a))
            mm_ = st.Tensor(mm_.a.copy())
            if tuple(mm_.shape[1:]) != (D, D + 1):
                raise TraceError(f"MultiLevelTransform.tensor shape {tuple(mm_.shape)}")
            out.append(trlib.emit_match_def(f"gen_ml2_{fa}{fb}_{D}", [("a", a), ("b", b)], [], st.Tensor(mm_.a[0]), None,
                                            f"MultiLevelTransform(A, B).tensor(), forms {fa}, {fb}, D = {D}"))
            # fold structure for 3 and 4 members
            for fc3 in FORMS:
                c3 = mat_input("c", D, fc3)
                tc = AnyLinear(g, st.Tensor(c3.a[None]))
                s3 = comp.SequentialTransform(AnyLinear(g, st.Tensor(a.a[None])), AnyLinear(g, st.Tensor(b.a[None])), tc)
                if not trlib.same_tensor(s3.tensor().a, linalg.homogeneous_matmul(st.Tensor(c3.a[None]), m).a):
                    raise TraceError("SequentialTransform.tensor of 3 members is not one more homogeneous_matmul step")
                ml3 = comp.MultiLevelTransform(AnyLinear(g, st.Tensor(a.a.copy()[None])), AnyLinear(g, st.Tensor(b.a.copy()[None])),
                                               AnyLinear(g, st.Tensor(c3.a.copy()[None])))
                # k members: sum of the homogeneous matrices minus (k - 1) identities, in this order of operations
                ref = linalg.as_homogeneous_matrix(st.Tensor(a.a.copy()[None])).clone()
                ref = ref + linalg.as_homogeneous_matrix(st.Tensor(b.a.copy()[None]))
                ref = ref + linalg.as_homogeneous_matrix(st.Tensor(c3.a.copy()[None]))
                ref = ref - 2 * st.eye(D, D + 1)
                t3 = ml3.tensor()
                if not trlib.same_tensor(t3.a, ref.a):
                    raise TraceError("MultiLevelTransform.tensor of 3 members is not (sum of the member matrices) - 2 I")
                if (fa, fb, fc3) == ("H", "H", "H"):
                    out.append(trlib.emit_match_def(f"gen_ml3_HHH_{D}", [("a", a), ("b", b), ("c", c3)], [], st.Tensor(t3.a[0]), None,
                                                    f"MultiLevelTransform(A, B, C).tensor(), homogeneous members, D = {D}"))
        # empty composites, single members
        for cls_ in (comp.SequentialTransform, comp.MultiLevelTransform):
            e0 = cls_(g)
            ident = e0.tensor()
            if not trlib.same_tensor(ident.a, st.eye(D, D + 1).a[None]):
                raise TraceError("empty composite tensor() is not the identity")
            if not trlib.same_tensor(e0(xin).a, xin.a):
                raise TraceError("empty composite forward is not the identity")
        for f in FORMS:
            a = mat_input("a", D, f)
            s1 = comp.SequentialTransform(AnyLinear(g, st.Tensor(a.a.copy()[None])))
            if not trlib.same_tensor(s1.tensor().a, a.a[None]):
                raise TraceError("SequentialTransform of one member: tensor() is not the member's")
            m1 = comp.MultiLevelTransform(AnyLinear(g, st.Tensor(a.a.copy()[None])))
            if not trlib.same_tensor(m1.tensor().a, linalg.as_homogeneous_matrix(st.Tensor(a.a[None])).a):
                raise TraceError("MultiLevelTransform of one member: tensor() is not the member's matrix")
        arms = None
        # non-linear branches of forward(): order of application, sum of displacements
        a, b = mat_input("a", D, "H"), mat_input("b", D, "H")
        s2 = comp.SequentialTransform(OpaqueAffine(g, st.Tensor(a.a[None])), OpaqueAffine(g, st.Tensor(b.a[None])))
        if s2.linear:
            raise TraceError("composite with a non-rigid member reports linear")
        y2 = s2(xin)
        out.append(trlib.emit_match_def(f"gen_seq_fwd2_{D}", [("a", a), ("b", b), ("x", x)], [], last(y2), None,
                                        f"SequentialTransform(A, B).forward for non-linear members acting as x -> a x, x -> b x, D = {D}"))
        c3 = mat_input("c", D, "H")
        s3 = comp.SequentialTransform(OpaqueAffine(g, st.Tensor(a.a[None])), OpaqueAffine(g, st.Tensor(b.a[None])),
                                      OpaqueAffine(g, st.Tensor(c3.a[None])))
        if not trlib.same_tensor(s3(xin).a, linalg.homogeneous_transform(st.Tensor(c3.a[None]), y2).a):
            raise TraceError("SequentialTransform.forward of 3 members is not one more application")
        # which member is told that the points are the undeformed lattice (grid=True)?  Only the FIRST one: after any
        # member -- linear or not -- the points are no longer the lattice of the (next) member's own domain sampling
        flags = []

        class RecLinear(AnyLinear):
            def forward(self, points, grid=False):
                flags.append(("linear", bool(grid)))
                return super().forward(points, grid)

        class RecNonRigid(OpaqueAffine):
            def forward(self, points, grid=False):
                flags.append(("nonrigid", bool(grid)))
                return super().forward(points, grid)
        xg = st.Tensor(x.a.reshape((1,) * (D + 1) + (D,)))
        for kinds in (("L", "N"), ("N", "L"), ("L", "L", "N"), ("N", "N"), ("L", "N", "L", "N")):
            for cls_ in (comp.SequentialTransform, comp.MultiLevelTransform):
                for gflag in (True, False):
                    mem = [(RecLinear if kd == "L" else RecNonRigid)(g, st.Tensor(mat_input(f"m{i}_", D, "H").a[None])) for i, kd in enumerate(kinds)]
                    del flags[:]
                    cls_(g, *mem)(xg, grid=gflag)
                    if [k_ for k_, _ in flags] != ["linear" if kd == "L" else "nonrigid" for kd in kinds]:
                        raise TraceError(f"{cls_.__name__}.forward does not visit its members once each in listed order: {flags}")
                    # the observed flags go into the generated table; Coq proves that only the first member is told that the
                    # points are the undeformed lattice (Proofs/C06Sequence.v: composite_flags_traced)
                    if D == 2:
                        flag_table.append((cls_ is comp.SequentialTransform, [kd == "L" for kd in kinds], gflag, [f_ for _, f_ in flags]))
                    elif (cls_ is comp.SequentialTransform, [kd == "L" for kd in kinds], gflag, [f_ for _, f_ in flags]) not in flag_table:
                        raise TraceError("grid flags handed to the members depend on the dimension")
        ys = [st.symvec(f"y{k}_", D) for k in range(3)]
        prev = None
        for k in (1, 2, 3):
            ml = comp.MultiLevelTransform(*[OpaqueValue(g, st.Tensor(ys[i].a.reshape(1, 1, D))) for i in range(k)])
            yk = last(ml(xin))
            out.append(trlib.emit_match_def(f"gen_ml_fwd{k}_{D}", [("x", x)] + [(f"y{i}", ys[i]) for i in range(k)], [], yk, None,
                                            f"MultiLevelTransform.forward with {k} non-linear members mapping x to y_i, D = {D}"))
    out.append("Definition gen_seq_form (fa fb : form) : form :=\n  match fa, fb with\n" +
               "\n".join(f"  | {COQF[fa]}, {COQF[fb]} => {COQF[res_form[(fa, fb)]]}" for fa in FORMS for fb in FORMS) + "\n  end.\n")
    for fa in FORMS:
        if len({inplace[(fa, fb, D)] for fb in FORMS for D in (2, 3)}) != 1:
            raise TraceError("in-place behaviour of MultiLevelTransform.tensor depends on more than the first member's form")
    def cbool(b):
        return "true" if b else "false"
    out.append("(* grid flags received by the members of a composite whose forward() runs the generic loop:\n"
               "   (is SequentialTransform, member kinds (true = linear), flag given to the composite, flags received) *)")
    out.append("Definition gen_composite_flag_table : list (bool * (list bool * bool * list bool)) :=\n  [" + ";\n   ".join(
        f"({cbool(sq)}, ([{'; '.join(cbool(k_) for k_ in kinds)}], {cbool(gf)}, [{'; '.join(cbool(f_) for f_ in seen)}]))"
        for sq, kinds, gf, seen in flag_table) + "].\n")
    out.append("(* does MultiLevelTransform.tensor() write the sum into the first member's own tensor? *)")
    out.append("Definition gen_ml_overwrites_first (fa : form) : bool :=\n  match fa with\n" +
               "\n".join(f"  | {COQF[fa]} => {'true' if inplace[(fa, 'T', 2)][0] else 'false'}" for fa in FORMS) + "\n  end.\n")
    if any(v[1] for v in inplace.values()):
        raise TraceError("MultiLevelTransform.tensor writes into a later member's tensor")
    for nm in ("gen_seq2", "gen_ml2"):
        arms = [f"  | {D}%nat, {COQF[fa]}, {COQF[fb]} => {nm}_{fa}{fb}_{D} a b" for D in (2, 3) for fa in FORMS for fb in FORMS]
        out.append(f"Definition {nm} (D : nat) (fa fb : form) (a b : list (list K)) : list (list K) :=\n"
                   "  match D, fa, fb with\n" + "\n".join(arms) + "\n  | _, _, _ => []\n  end.\n")
    for nm, extra, call, rty in (("gen_forward", " (x : list K)", " x", "list K"), ("gen_matrix", "", "", "list (list K)"),
                                 ("gen_affine_flow", " (x : list K)", " x", "list K")):
        arms = [f"  | {D}%nat, {COQF[f]} => {nm}_{f}_{D} a{call}" for D in (2, 3) for f in FORMS]
        out.append(f"Definition {nm} (D : nat) (f : form) (a : list (list K)){extra} : {rty} :=\n"
                   "  match D, f with\n" + "\n".join(arms) + "\n  | _, _ => []\n  end.\n")
    out.append("Definition gen_disp_other2 (f : form) (ac ac' : bool) (n s c : list K) (d : list (list K)) (hn hs hc : list K) (hd a : list (list K)) "
               "(x : list K) : list K :=\n  match f, ac, ac' with\n" + "\n".join(disp_other_arms) + "\n  end.\n")
    arms = [f"  | {D}%nat, {COQF[f]}, {'true' if ac else 'false'} => gen_points_world_{f}_{D}_{'ac' if ac else 'nac'} n s c d a x"
            for D in (2, 3) for f in FORMS for ac in (False, True)]
    out.append("Definition gen_points_world (D : nat) (f : form) (ac : bool) (n s c : list K) (d a : list (list K)) (x : list K) : list K :=\n"
               "  match D, f, ac with\n" + "\n".join(arms) + "\n  | _, _, _ => []\n  end.\n")

    # ---------------------------------------------------------------- ImageTransformer: sampling coordinates
    rounding = []
    it_flag_table = []
    real_round = G.round_decimals

    def round_recorder(t, decimals=0, out=None):
        rounding.append(decimals)
        return t
    captured = {}

    def grid_sample_recorder(data, grid, mode=None, padding=None, align_corners=None):
        captured["grid"], captured["ac"] = grid, align_corners
        return data
    real_gs = sample.U.grid_sample
    warp_arms = []
    warp_flip_arms = []
    try:
        G.round_decimals = round_recorder
        sample.U.grid_sample = grid_sample_recorder
        for D in (2, 3):
            xc = st.symvec("x", D)
            coords_calls = []

            class TargetGrid(Grid):
                __slots__ = ()

                def coords(self, *args, **kwargs):
                    coords_calls.append(kwargs)
                    if args or kwargs.get("flip", False) or set(kwargs) - {"align_corners", "flip", "device"}:
                        raise TraceError(f"ImageTransformer calls target.coords with {args} {kwargs}")
                    return st.Tensor(xc.a.reshape((1,) * D + (D,)))

                def same_domain_as(self, other):
                    # the answer is chosen by the unit (the cube comparison itself is C01/C03 business); what is traced is
                    # WHICH grid the target is compared with and where the answer goes
                    domain_calls.append(other)
                    return domain_answer[0]
            domain_calls, domain_answer, seen_flags = [], [True], []

            class RecAny(AnyLinear):
                def forward(self, points, grid=False):
                    seen_flags.append(bool(grid))
                    return super().forward(points, grid)
            for f in FORMS:
                a = mat_input("a", D, f)
                for ac in (False, True):
                    gt = mk_grid(Grid, D, p="g", align=ac)           # transform grid
                    tg = mk_grid(TargetGrid, D, p="t", align=not ac)  # target (its own flag must not matter)
                    src = mk_grid(Grid, D, p="u", align=not ac)       # source
                    t = RecAny(gt, st.Tensor(a.a[None]))
                    st.GENERIC_DISTINCT = True
                    try:
                        del coords_calls[:]
                        it = trf.ImageTransformer(t, target=tg, source=src)
                        if len(coords_calls) != 1 or coords_calls[0].get("align_corners") is not ac:
                            raise TraceError("ImageTransformer does not request target.coords(align_corners=transform.align_corners())")
                        img = st.Tensor(np.array([E.var("img")], dtype=object).reshape((1, 1) + (1,) * D))
                        for ans in (False, True):
                            domain_answer[0] = ans
                            del domain_calls[:], seen_flags[:]
                            captured.clear()
                            it(img)
                            if len(domain_calls) != 1 or domain_calls[0] is not gt:
                                raise TraceError("ImageTransformer.forward does not compare the target grid's domain with the transform's grid")
                            if len(seen_flags) != 1:
                                raise TraceError("ImageTransformer.forward does not call the transform exactly once")
                            it_flag_table.append((ans, seen_flags[0]))
                        if captured.get("ac") is not ac:
                            raise TraceError("ImageTransformer samples with an align_corners flag other than the transform grid's")
                        sc = last(captured["grid"])
                        own = Axes.CUBE_CORNERS if ac else Axes.CUBE
                        ref = tg.transform_points(xc, axes=own, to_grid=gt, to_axes=own, decimals=None)
                        ref = linalg.homogeneous_transform(a, ref)
                        ref = gt.transform_points(ref, axes=own, to_grid=src, to_axes=own, decimals=None)
                        if not trlib.same_tensor(sc.a, ref.a):
                            raise TraceError(f"ImageTransformer sampling coordinates are not target-cube -> transform-cube -> T -> source-cube ({f}, D={D})")
                        # flip_coords=True: the transform acts on (z, y, x) coordinates; the target lattice is pre-mapped in (x, y, z)
                        # order, flipped, transformed, flipped back and mapped to the source cube
                        del coords_calls[:]
                        itf = trf.ImageTransformer(t, target=tg, source=src, flip_coords=True)
                        if len(coords_calls) != 1 or coords_calls[0].get("align_corners") is not ac:
                            raise TraceError("ImageTransformer(flip_coords=True) does not request target.coords(align_corners=transform.align_corners())")
                        captured.clear()
                        itf(img)
                        scf = last(captured["grid"])
                        reff = tg.transform_points(xc, axes=own, to_grid=gt, to_axes=own, decimals=None)
                        reff = linalg.homogeneous_transform(a, reff.flip(-1)).flip(-1)
                        reff = gt.transform_points(reff, axes=own, to_grid=src, to_axes=own, decimals=None)
                        if not trlib.same_tensor(scf.a, reff.a):
                            raise TraceError(f"ImageTransformer(flip_coords=True) sampling coordinates are not pre-map -> flip -> T -> flip -> source-cube ({f}, D={D})")
                    finally:
                        st.GENERIC_DISTINCT = False
                    if D == 2:
                        nmf = f"gen_warp_coords_flip_{f}_2_{'ac' if ac else 'nac'}"
                        out.append(trlib.emit_match_def(nmf, grid_inputs(tg, "t") + grid_inputs(gt, "g") + grid_inputs(src, "u") + [("a", a), ("x", xc)],
                                                        [], scf, None,
                                                        f"ImageTransformer(..., flip_coords=True): normalised coordinates handed to grid_sample, form {f}, flag {ac}"))
                        warp_flip_arms.append(f"  | {COQF[f]}, {'true' if ac else 'false'} => {nmf} tn ts tc td gn gs gc gd un us uc ud a x")
                        nm = f"gen_warp_coords_{f}_2_{'ac' if ac else 'nac'}"
                        out.append(trlib.emit_match_def(nm, grid_inputs(tg, "t") + grid_inputs(gt, "g") + grid_inputs(src, "u") + [("a", a), ("x", xc)],
                                                        [], sc, None,
                                                        f"ImageTransformer(transform, target, source): normalised coordinates handed to grid_sample for the "
                                                        f"target point x (target cube coordinates, flag {ac}), form {f}"))
                        warp_arms.append(f"  | {COQF[f]}, {'true' if ac else 'false'} => {nm} tn ts tc td gn gs gc gd un us uc ud a x")
    finally:
        G.round_decimals = real_round
        sample.U.grid_sample = real_gs
    if set(rounding) - {12, None}:
        raise TraceError(f"ImageTransformer rounds pre-mapped coordinates to {set(rounding)} decimals (expected 12)")
    out.append("(* ImageTransformer.forward: (is the target a lattice of the transform's domain (target.same_domain_as(transform.grid())),\n"
               "   grid flag handed to the transform) for every traced call *)")
    out.append("Definition gen_image_transformer_flag_table : list (bool * bool) :=\n  [" +
               "; ".join(f"({'true' if a_ else 'false'}, {'true' if b_ else 'false'})" for a_, b_ in it_flag_table) + "].\n")
    out.append("Definition gen_warp_coords2 (f : form) (ac : bool) (tn ts tc : list K) (td : list (list K)) (gn gs gc : list K) (gd : list (list K))\n"
               "    (un us uc : list K) (ud a : list (list K)) (x : list K) : list K :=\n  match f, ac with\n" +
               "\n".join(warp_arms) + "\n  end.\n")
    out.append("Definition gen_warp_coords_flip2 (f : form) (ac : bool) (tn ts tc : list K) (td : list (list K)) (gn gs gc : list K) (gd : list (list K))\n"
               "    (un us uc : list K) (ud a : list (list K)) (x : list K) : list K :=\n  match f, ac with\n" +
               "\n".join(warp_flip_arms) + "\n  end.\n")
    out.append("End Gen.\n")

    # ---------------------------------------------------------------- generic configurable transform (spatial/generic.py)
    import sys as _sys
    placeholders = ["sym.deepali.core.config", "sym.deepali.spatial.generic"]   # dataclasses looks the defining module up in sys.modules
    for n_ in placeholders:
        _sys.modules[n_] = types.ModuleType(n_)
    try:
        gen = L.load("deepali.spatial.generic")
    finally:
        for n_ in placeholders:
            _sys.modules.pop(n_, None)
    configs = [("Affine", "TRS"), ("Affine", "T o R o S"), ("Affine", "SRT"), ("Affine", "A"), ("Affine", "TKRS"), ("Affine", "TQ"), ("Affine", "T"),
               ("Affine o SVF", "TRS"), ("SVF o Affine", "TR"), ("DDF", "T"), ("SVF", "RS"), ("Affine o DDF", "KS"), ("DDF o Affine", "A")]
    gtable, gfresh = [], {2: [], 3: []}
    for D in (2, 3):
        for model, aff in configs:
            if "Q" in aff and D == 2:
                continue
            g = mk_grid(Grid, D, align=True)
            g._size = st.tensor([5.0, 4.0] if D == 2 else [5.0, 4.0, 3.0])
            t = gen.GenericSpatialTransform(g, params=True, config=gen.TransformConfig(transform=model, affine_model=aff))
            if not isinstance(t, comp.SequentialTransform):
                raise TraceError("GenericSpatialTransform is not a SequentialTransform")
            names = [nm for nm, _ in t.named_transforms()]
            classes = [type(m).__name__ for m in t.transforms()]
            row = (model.split(" o "), [c_ for c_ in aff.replace(" o ", "")], names, classes)
            if D == 2:
                gtable.append(row)
            elif "Q" not in aff and row not in gtable:
                raise TraceError("composition order of GenericSpatialTransform depends on the dimension")
            elif "Q" in aff:
                gtable.append(row)
            if t.linear:
                m = fold_t(st.Tensor(t.tensor().a[0]))
                no_fn(m, f"GenericSpatialTransform({model}, {aff}) D={D}")
                gfresh[D].append((form_of(m.shape, D), m))

    def cstr(v):
        return '"' + v + '"%string'

    def clist(vs):
        return "[" + "; ".join(cstr(v) for v in vs) + "]"
    out.append("(* spatial/generic.py: names of the elementary affine members per letter (AFFINE_NAMES), their classes (AFFINE_TRANSFORMS),\n"
               "   and for traced configurations (components of `transform`, letters of `affine_model`): member names and classes in the\n"
               "   order the composite applies them *)")
    out.append("Definition gen_generic_affine_names : list (string * string) := [" +
               "; ".join(f"({cstr(k_)}, {cstr(v_)})" for k_, v_ in gen.AFFINE_NAMES.items()) + "].")
    out.append("Definition gen_generic_affine_classes : list (string * string) := [" +
               "; ".join(f"({cstr(k_)}, {cstr(v_.__name__)})" for k_, v_ in gen.AFFINE_TRANSFORMS.items()) + "].")
    out.append("Definition gen_generic_nonrigid_classes : list (string * string) := [" +
               "; ".join(f"({cstr(k_)}, {cstr(v_.__name__)})" for k_, v_ in gen.NONRIGID_TRANSFORMS.items()) + "].")
    out.append("Definition gen_generic_table : list (list string * list string * list string * list string) :=\n  [" + ";\n   ".join(
        f"({clist(c_)}, {clist(l_)}, {clist(n_)}, {clist(k_)})" for c_, l_, n_, k_ in gtable) + "].\n")
    out += ["Section GenGeneric.", "Context {K : fld}."]
    for D in (2, 3):
        out.append(f"(* tensor() of freshly constructed linear GenericSpatialTransform configurations, D = {D} *)")
        out.append(f"Definition gen_generic_fresh_{D} : list (form * list (list K)) :=\n  [" + ";\n   ".join(
            f"({COQF[f_]}, {trlib.nested(m_.a)})" for f_, m_ in gfresh[D]) + "].\n")
    out.append("End GenGeneric.\n")

    # ---------------------------------------------------------------- non-rigid classes: default parameters
    nr = L.load("deepali.spatial.nonrigid")
    bs = L.load("deepali.spatial.bspline")
    zero_ok = []
    for name in NONRIGID:
        cls = getattr(nr, name, None) or getattr(bs, name)
        for D in (2, 3):
            g = mk_grid(Grid, D, align=True)
            g._size = st.tensor([5.0, 4.0] if D == 2 else [5.0, 4.0, 3.0])
            for groups in (1, 2):
                if hasattr(nr, name):
                    t = cls(g, groups=groups)
                else:
                    # B-spline classes: the control-grid size arithmetic (integer division) is outside the traced
                    # vocabulary; the instance is allocated directly and the class's own reset_parameters() runs on
                    # an uninitialised Parameter of a control-grid shape
                    t = object.__new__(cls)
                    st.nn.Module.__init__(t)
                    t._grid = g
                    t.params = st.SymParameter(st.empty((groups, D) + (4,) * D))
                    t.reset_parameters()
                p = t.params
                if not isinstance(p, st.Tensor) or p.shape[0] != groups or p.shape[1] != D:
                    raise TraceError(f"{name}: default parameters have shape {getattr(p, 'shape', None)}")
                zero_ok.append(all(e.is_const() and e.value() == 0 for e in p.a.reshape(-1)))
    # align_corners / shape arguments reaching the resize and sampling kernels on the dense-field paths:
    # DenseVectorFieldTransform.evaluate (resize=True), SpatialTransform.disp (coarse buffer -> own grid),
    # forward -> transform_points -> warp_points -> sample_flow -> grid_sample, forward(grid=True) -> warp_grid -> grid_reshape
    Ufun = L.load("deepali.core.functional")
    calls = []

    def rec_reshape(data, shape, mode=None, align_corners=None, **kw):
        calls.append(("grid_reshape", tuple(int(v) for v in shape), align_corners))
        return st.Tensor(np.array([E.var("r")], dtype=object).reshape((1,) * data.a.ndim)).expand(*(tuple(data.shape[:2]) + tuple(int(v) for v in shape)))

    def rec_sample(data, grid, mode=None, padding=None, align_corners=None, **kw):
        calls.append(("grid_sample", None, align_corners))
        return st.Tensor(np.array([E.var("s")], dtype=object).reshape((1,) * data.a.ndim)).expand(*(tuple(data.shape[:2]) + tuple(grid.shape[1:-1])))
    dense_table = []

    def entry(path, ac, kernel, shape):
        """one traced call site: which kernel is reached, with which target shape, and the align_corners flag it is given
        (None = not passed: the kernel's default would apply)"""
        ks = [c_ for c_ in calls]
        ok_kernel = len(ks) == (1 if kernel else 0) and (not kernel or (ks[0][0] == kernel and (shape is None or ks[0][1] == shape)))
        flag = ks[0][2] if len(ks) == 1 else None
        dense_table.append((path, ac, ok_kernel, flag if kernel else ac))
    saved = (Ufun.grid_reshape, flow.grid_reshape, flow.grid_sample)
    try:
        Ufun.grid_reshape, flow.grid_reshape, flow.grid_sample = rec_reshape, rec_reshape, rec_sample
        for name in ("DisplacementFieldTransform", "StationaryVelocityFieldTransform"):
            cls = getattr(nr, name)
            for D in (2, 3):
                for ac in (False, True):
                    for resize in (False, True):
                        g = mk_grid(Grid, D, align=ac)
                        sizes = [6.0, 4.0] if D == 2 else [6.0, 4.0, 4.0]
                        g._size = st.tensor(sizes)
                        gshape = tuple(int(v) for v in reversed(sizes))
                        t = cls(g, stride=2, resize=resize)
                        if tuple(t.params.shape[2:]) != tuple(v // 2 for v in gshape):
                            raise TraceError(f"{name}(stride=2): parameter shape {tuple(t.params.shape)}")
                        tag = f"{name}:D{D}:resize={resize}"
                        del calls[:]
                        u = t.evaluate()
                        entry("evaluate:" + tag, ac, "grid_reshape" if resize else None, gshape)
                        if name != "DisplacementFieldTransform":
                            continue
                        t.register_buffer("u", u, persistent=False)     # what update() does for a displacement field
                        del calls[:]
                        t.disp()
                        entry("disp-own-grid:" + tag, ac, None if resize else "grid_reshape", gshape)
                        # dense field on ANOTHER grid (other sizes, other flag): the buffer is sampled with the OWN flag at the other grid's
                        # points mapped into the own cube (plain tensor path: sample_flow + Grid.transform_vectors)
                        go = mk_grid(Grid, D, p="o", align=not ac)
                        go._size = st.tensor([5.0, 3.0] if D == 2 else [5.0, 3.0, 3.0])
                        st.GENERIC_DISTINCT = True
                        try:
                            del calls[:]
                            do = t.disp(go)
                        finally:
                            st.GENERIC_DISTINCT = False
                        if tuple(do.shape) != (1, D) + tuple(int(v) for v in reversed([5, 3] if D == 2 else [5, 3, 3])):
                            raise TraceError(f"disp(other grid) of a dense field has shape {tuple(do.shape)}")
                        entry("disp-other-grid:" + tag, ac, "grid_sample", None)
                        xp = st.Tensor(np.array([E.var(f"x{i}") for i in range(D)], dtype=object).reshape(1, 1, D))
                        del calls[:]
                        base.SpatialTransform.forward(t, xp)
                        entry("forward-points:" + tag, ac, "grid_sample", None)
                        xl = st.Tensor(np.array([E.var(f"x{i}") for i in range(D)], dtype=object).reshape((1,) * (D + 1) + (D,)))
                        xl = xl.expand(*((1,) + (3,) * D + (D,)))
                        del calls[:]
                        base.SpatialTransform.forward(t, xl, grid=True)
                        entry("forward-lattice-grid-flag:" + tag, ac, "grid_reshape", (3,) * D)
    finally:
        Ufun.grid_reshape, flow.grid_reshape, flow.grid_sample = saved

    def copt(v):
        return "None" if v is None else f"(Some {cbool(bool(v))})"
    out.append("(* dense-field paths: (call site, align_corners of the transform's grid, expected kernel reached with the expected target shape,\n"
               "   align_corners flag handed to that kernel (None = left to the kernel's default)) *)")
    out.append("Definition gen_dense_path_table : list (string * bool * bool * option bool) :=\n  [" + ";\n   ".join(
        f'("{pth}"%string, {cbool(ac)}, {cbool(okk)}, {copt(fl)})' for pth, ac, okk, fl in dense_table) + "].\n")
    out.append("(* every non-rigid class resets its parameters (displacements / velocities / B-spline coefficients) to 0 *)")
    out.append(f"Definition gen_nonrigid_defaults_zero : bool := {'true' if all(zero_ok) else 'false'}.\n")
    return "\n".join(out)

