(* Changing the vector representation of a flow field: round trip, path independence, identity, and agreement with the
   grid's point maps -- derived from the C01 theorems (Grid.transform_vectors is the linear part of the point map),
   per batch item by induction over the batch. *)
From Coq Require Import ZArith List Field Ring Lia Bool.
From DV Require Import Base.Field Base.FieldFacts Base.LinAlg Base.Tactics Model.Enums Model.Homog Model.Grid Model.Sampler
  Model.Flow Model.FlowRepr Gen.GridT Proofs.C01Grid Proofs.C01Laws Proofs.C01TwoGrids Proofs.C01TwoA Proofs.C01TwoC.
Import ListNotations.
Local Open Scope fld_scope.

Section Axes.
Variable K : fld.
Hypothesis Kf : is_field K.
Hypothesis Kc : char0 K.
Add Field KFX : Kf.

(* list arithmetic *)
Lemma vadd_vsub (Y P : list K) : length Y = length P -> vadd Y (vsub P Y) = P.
Proof.
  revert P. induction Y as [|y Y IH]; intros [|p P] H; try discriminate; [reflexivity|].
  cbn in *. f_equal; [ring | apply IH; lia].
Qed.
Lemma vsub_vadd (X V : list K) : length X = length V -> vsub (vadd X V) X = V.
Proof.
  revert V. induction X as [|x X IH]; intros [|v V] H; try discriminate; [reflexivity|].
  cbn in *. f_equal; [ring | apply IH; lia].
Qed.
Lemma length_vsub (a b : list K) : length a = length b -> length (vsub a b) = length a.
Proof. revert b. induction a as [|x a IH]; intros [|y b] H; try discriminate; cbn in *; [reflexivity|]. f_equal. apply IH. lia. Qed.
Lemma length_vadd (a b : list K) : length a = length b -> length (vadd a b) = length a.
Proof. revert b. induction a as [|x a IH]; intros [|y b] H; try discriminate; cbn in *; [reflexivity|]. f_equal. apply IH. lia. Qed.
Lemma length_vzero D : length (vzero (K:=K) D) = D.
Proof. unfold vzero, vconst. apply repeat_length. Qed.

(* linear parts compose: if f, g, h have linear parts Lf, Lg, Lh and g o f = h then Lg o Lf = Lh *)
Section LinPart.
Variable D : nat.
Variables f g h Lf Lg Lh : list K -> list K.
Hypothesis Hf : forall X V, length X = D -> length V = D -> vsub (f (vadd X V)) (f X) = Lf V.
Hypothesis Hg : forall X V, length X = D -> length V = D -> vsub (g (vadd X V)) (g X) = Lg V.
Hypothesis Hh : forall X V, length X = D -> length V = D -> vsub (h (vadd X V)) (h X) = Lh V.
Hypothesis Hflen : forall X, length X = D -> length (f X) = D.
Hypothesis Hcomp : forall X, length X = D -> g (f X) = h X.
Lemma linpart_compose V : length V = D -> Lg (Lf V) = Lh V.
Proof.
  intro HV. pose proof (length_vzero D) as HZ.
  assert (HL : length (vadd (vzero D) V) = D) by (rewrite length_vadd; congruence).
  rewrite <- (Hh (vzero D) V HZ HV). rewrite <- !Hcomp by auto.
  assert (E : f (vadd (vzero D) V) = vadd (f (vzero D)) (Lf V)).
  { rewrite <- (Hf (vzero D) V HZ HV). symmetry. apply vadd_vsub. rewrite !Hflen by auto. reflexivity. }
  rewrite E. symmetry. apply Hg; [now apply Hflen|].
  rewrite <- (Hf (vzero D) V HZ HV). rewrite length_vsub; rewrite !Hflen by auto; reflexivity.
Qed.
End LinPart.

Variable D : nat.
Hypothesis HD : D = 2%nat \/ D = 3%nat.

Lemma gpts_lin (g : @gridf K) A B X V : gwf D g -> length X = D -> length V = D ->
  vsub (gpts D A B g (vadd X V)) (gpts D A B g X) = gvecs D A B g V.
Proof. destruct g as [[[n s] c] d]. intros Hw HX HV. now apply (vecs_linear_part K Kf Kc). Qed.
Lemma gpts_len (g : @gridf K) A B X : gwf D g -> length X = D -> length (gpts D A B g X) = D.
Proof. destruct g as [[[n s] c] d]. intros Hw HX. now apply (pts_length K Kf Kc). Qed.
Lemma gpts_inv (g : @gridf K) A B X : gwf D g -> length X = D -> gpts D B A g (gpts D A B g X) = X.
Proof. destruct g as [[[n s] c] d]. intros Hw HX. now apply (pts_inverse K Kf Kc). Qed.
Lemma gpts_comp (g : @gridf K) A B C' X : gwf D g -> length X = D -> gpts D B C' g (gpts D A B g X) = gpts D A C' g X.
Proof. destruct g as [[[n s] c] d]. intros Hw HX. now apply (pts_compose K Kf Kc). Qed.
Lemma gpts_same (g : @gridf K) A X : gwf D g -> length X = D -> gpts D A A g X = X.
Proof. intros Hw HX. rewrite <- (gpts_comp g A A A X Hw HX). now apply gpts_inv. Qed.

Lemma id_lin (X V : list K) : length X = D -> length V = D -> vsub (vadd X V) X = V.
Proof. intros. apply vsub_vadd. congruence. Qed.

(* the vector conversions of ONE grid *)
Theorem gvecs_roundtrip (g : @gridf K) A B V : gwf D g -> length V = D -> gvecs D B A g (gvecs D A B g V) = V.
Proof.
  intros Hw HV.
  apply (linpart_compose D (gpts D A B g) (gpts D B A g) (fun X => X) (gvecs D A B g) (gvecs D B A g) (fun V => V));
    auto using gpts_lin, gpts_len, gpts_inv, id_lin.
Qed.
Theorem gvecs_path_independent (g : @gridf K) A B C' V : gwf D g -> length V = D ->
  gvecs D B C' g (gvecs D A B g V) = gvecs D A C' g V.
Proof.
  intros Hw HV.
  apply (linpart_compose D (gpts D A B g) (gpts D B C' g) (gpts D A C' g) (gvecs D A B g) (gvecs D B C' g) (gvecs D A C' g));
    auto using gpts_lin, gpts_len, gpts_comp.
Qed.
Theorem gvecs_same (g : @gridf K) A V : gwf D g -> length V = D -> gvecs D A A g V = V.
Proof.
  intros Hw HV. rewrite <- (gpts_lin g A A (vzero D) V Hw (length_vzero D) HV).
  rewrite !gpts_same; auto using length_vzero. - apply vsub_vadd. rewrite length_vzero. congruence.
  - rewrite length_vadd; rewrite length_vzero; congruence.
Qed.
Lemma gvecs_len (g : @gridf K) A B V : gwf D g -> length V = D -> length (gvecs D A B g V) = D.
Proof.
  intros Hw HV. rewrite <- (gpts_lin g A B (vzero D) V Hw (length_vzero D) HV).
  assert (HL : length (vadd (vzero D) V) = D) by (rewrite length_vadd; rewrite length_vzero; congruence).
  rewrite length_vsub; rewrite !gpts_len; auto using length_vzero.
Qed.

(* ---- whole batches: induction over the batch, every item with its own grid ---- *)
Lemma map_id_on {A} (f : A -> A) (P : A -> Prop) l : (forall x, P x -> f x = x) -> Forall P l -> map f l = l.
Proof. intros H F. induction F as [|x l Hx F IH]; cbn; [reflexivity|]. now rewrite H, IH. Qed.
Lemma map_ext_on {A B} (f g : A -> B) (P : A -> Prop) l : (forall x, P x -> f x = g x) -> Forall P l -> map f l = map g l.
Proof. intros H F. induction F as [|x l Hx F IH]; cbn; [reflexivity|]. now rewrite H, IH. Qed.

Theorem axes_roundtrip A B (items : list (@item K)) : Forall (wf_item D) items -> axes_batch D B A (axes_batch D A B items) = items.
Proof.
  intro F. induction F as [|[g vs] items [Hw Hv] F IH]; [reflexivity|].
  unfold axes_batch in *. cbn [map]. rewrite IH. f_equal. unfold axes_item. cbn [fst snd] in *. f_equal.
  rewrite map_map. apply (map_id_on _ (fun v => length v = D)); [|exact Hv]. intros v Hl. now apply gvecs_roundtrip.
Qed.
Theorem axes_path_independent A B C' (items : list (@item K)) : Forall (wf_item D) items ->
  axes_batch D B C' (axes_batch D A B items) = axes_batch D A C' items.
Proof.
  intro F. induction F as [|[g vs] items [Hw Hv] F IH]; [reflexivity|].
  unfold axes_batch in *. cbn [map]. rewrite IH. f_equal. unfold axes_item. cbn [fst snd] in *. f_equal.
  rewrite map_map. apply (map_ext_on _ _ (fun v => length v = D)); [|exact Hv]. intros v Hl. now apply gvecs_path_independent.
Qed.
Theorem axes_same A (items : list (@item K)) : Forall (wf_item D) items -> axes_batch D A A items = items.
Proof.
  intro F. induction F as [|[g vs] items [Hw Hv] F IH]; [reflexivity|].
  unfold axes_batch in *. cbn [map]. rewrite IH. f_equal. unfold axes_item. cbn [fst snd] in *. f_equal.
  apply (map_id_on _ (fun v => length v = D)); [|exact Hv]. intros v Hl. now apply gvecs_same.
Qed.
(* every converted vector is the difference of the item's OWN grid's point map at x + v and at x, for every x *)
Theorem axes_is_grid_vector_map A B (items : list (@item K)) : Forall (wf_item D) items ->
  Forall2 (fun it it' => fst it' = fst it /\
             Forall2 (fun v v' => forall X, length X = D ->
                        v' = vsub (gpts D A B (fst it) (vadd X v)) (gpts D A B (fst it) X)) (snd it) (snd it'))
          items (axes_batch D A B items).
Proof.
  intro F. induction F as [|[g vs] items [Hw Hv] F IH]; [constructor|].
  unfold axes_batch in *. cbn [map]. constructor; [|exact IH]. cbn [fst snd axes_item] in *. split; [reflexivity|].
  induction Hv as [|v vs Hl Hv IHv]; cbn [map]; constructor; [|exact IHv].
  intros X HX. symmetry. now apply gpts_lin.
Qed.
End Axes.
