(* C11 -- Scaling-and-squaring equals the closed form for affine velocity fields.  Statements only.
   Model: Model/Flow.v (expv = scale by scale/2^k, then k times d <- compose d d; compose = compose_flows =
   u + v sampled by the F.grid_sample model of Model/Sampler.v at own normalised coordinates + u, border padding).
   gen_* are regenerated from core/flow.py on every run (Gen/FlowAlg.v).  Fields are lists of channels of nested lists in
   tensor order; affine maps are homogeneous D x (D+1) matrices H2 / H3; a generator G = [H | h] has the velocity field
   v(x) = H x + h (vel_field) in normalised coordinates of the given align_corners convention. *)
From Coq Require Import ZArith QArith Qabs Qcanon List Lia Reals.
From Coquelicot Require Import Coquelicot.
From DV Require Import Base.Field Base.FieldFacts Base.LinAlg Base.QcInst Model.Sampler Model.SamplerQc Model.Flow Model.FlowHull Model.FlowQc
  Gen.FlowAlg Proofs.C11Interp Proofs.C11Compose Proofs.C11Compose3 Proofs.C11Expv Proofs.C11Hull Proofs.C11Gen Base.RInst Proofs.C11Limit Proofs.C11LimitModel Proofs.C11LimitAffine Proofs.C11LimitDiagonalizable Proofs.C11LimitConj2 Proofs.C11LimitAnalysis Proofs.C11LimitForms2 Proofs.C11LimitClass2 Proofs.C11LimitBlock3 Proofs.C11LimitTrans2.
Import ListNotations.

Section Statements.
Local Open Scope fld_scope.
Variable K : fld.
Hypothesis Kf : is_field K.
Hypothesis Kc : char0 K.
Variable floorK : K -> Z.     (* any floor function: the cell hypothesis below is stated through it *)

(* 1. one squaring step: if disp = displacement field of x -> A x + t on the lattice and every sample position
      A c + t (c a lattice point) selects a cell inside the sample hull, the step yields the displacement field of the
      squared map, (A^2 - I) x + (A t + t), at EVERY lattice point; every lattice size >= 2, both conventions *)
Theorem C11_square_step_2d :
  forall (ac : bool) (nx ny : Z) (A : list (list K)), (2 <= nx)%Z -> (2 <= ny)%Z -> is_H2 K A ->
  cells_ok2 floorK ac nx ny A ->
  compose2 floorK ac (aff_field2 ac nx ny A) (aff_field2 ac nx ny A) = aff_field2 ac nx ny (hcomp 2 A A).
Proof. exact (square_step2 K Kf Kc floorK). Qed.
Theorem C11_square_step_3d :
  forall (ac : bool) (nx ny nz : Z) (A : list (list K)), (2 <= nx)%Z -> (2 <= ny)%Z -> (2 <= nz)%Z -> is_H3 K A ->
  cells_ok3 floorK ac nx ny nz A ->
  compose3 floorK ac (aff_field3 ac nx ny nz A) (aff_field3 ac nx ny nz A) = aff_field3 ac nx ny nz (hcomp 3 A A).
Proof. exact (square_step3 K Kf Kc floorK). Qed.

(* 2. the closed form for EVERY number of steps k (induction on k): expv k (v) is the displacement field of
      (I + c G)^(2^k), c = (+-scale) / 2^k, provided the sample positions of the k squaring steps stay in the hull *)
Theorem C11_expv_affine_closed_form_2d :
  forall (ac : bool) (nx ny : Z) (scale : K) (inverse : bool) (k : nat) (G : list (list K)),
  (2 <= nx)%Z -> (2 <= ny)%Z -> is_H2 K G ->
  let A0 := hone_plus 2 (expv_pre k (expv_scale scale inverse)) G in
  (forall j, (j < k)%nat -> cells_ok2 floorK ac nx ny (hsq_iter 2 j A0)) ->
  expv2 floorK ac scale inverse k (vel_field2 ac nx ny G) = aff_field2 ac nx ny (hpow 2 A0 (2 ^ k)).
Proof. exact (expv2_affine_closed_form K Kf Kc floorK). Qed.
Theorem C11_expv_affine_closed_form_3d :
  forall (ac : bool) (nx ny nz : Z) (scale : K) (inverse : bool) (k : nat) (G : list (list K)),
  (2 <= nx)%Z -> (2 <= ny)%Z -> (2 <= nz)%Z -> is_H3 K G ->
  let A0 := hone_plus 3 (expv_pre k (expv_scale scale inverse)) G in
  (forall j, (j < k)%nat -> cells_ok3 floorK ac nx ny nz (hsq_iter 3 j A0)) ->
  expv3 floorK ac scale inverse k (vel_field3 ac nx ny nz G) = aff_field3 ac nx ny nz (hpow 3 A0 (2 ^ k)).
Proof. exact (expv3_affine_closed_form K Kf Kc floorK). Qed.
Theorem C11_expv_affine_closed_form_1d :
  forall (ac : bool) (nx : Z) (scale : K) (inverse : bool) (k : nat) (G : list (list K)),
  (2 <= nx)%Z -> is_H1 K G ->
  let A0 := hone_plus 1 (expv_pre k (expv_scale scale inverse)) G in
  (forall j, (j < k)%nat -> cells_ok1 floorK ac nx (hsq_iter 1 j A0)) ->
  expv1 floorK ac scale inverse k (vel_field1 ac nx G) = aff_field1 ac nx (hpow 1 A0 (2 ^ k)).
Proof. exact (expv1_affine_closed_form K Kf Kc floorK). Qed.

(* 3. zero steps return the scaled input; the inverse flag = negated scale = negated field *)
Theorem C11_steps_zero :
  forall ac scale inverse f2 f3,
  expv2 floorK ac scale inverse 0 f2 = fscale2 (expv_scale scale inverse) f2 /\
  expv3 floorK ac scale inverse 0 f3 = fscale3 (expv_scale scale inverse) f3.
Proof. intros. split; reflexivity. Qed.
Theorem C11_inverse_flag :
  forall ac scale k f2 f3,
  expv2 floorK ac scale true k f2 = expv2 floorK ac (- scale) false k f2 /\
  expv2 floorK ac scale true k f2 = expv2 floorK ac scale false k (fscale2 (- (1)) f2) /\
  expv3 floorK ac scale true k f3 = expv3 floorK ac (- scale) false k f3 /\
  expv3 floorK ac scale true k f3 = expv3 floorK ac scale false k (fscale3 (- (1)) f3).
Proof.
  intros. repeat split; [exact (expv2_inverse_is_negated_field K Kf Kc floorK ac scale k f2) |
                         exact (expv3_inverse_is_negated_field K Kf Kc floorK ac scale k f3)].
Qed.

(* 4. the generated skeleton of expv (pre-loop factor per steps, flags handed to Grid.coords and F.grid_sample, padding
      mode, number and shape of the loop iterations) is the model, steps in [0, 8] (the range the property names) *)
Theorem C11_generated_expv_is_model :
  forall ac inverse k scale f2 f3, (k <= 8)%nat ->
  gen_expv (pmap2 K) (compose2g floorK) ac inverse k scale f2 = expv2 floorK ac scale inverse k f2 /\
  gen_expv (pmap3 K) (compose3g floorK) ac inverse k scale f3 = expv3 floorK ac scale inverse k f3.
Proof. intros. split; [now apply (gen_expv2_is_model K Kf) | now apply (gen_expv3_is_model K Kf)]. Qed.
End Statements.

(* 4b. the module wrapper ExpFlow (traced from modules/flow.py with expv replaced by a recorder): forward / inverse() / inv /
       forward(inverse=True) call expv with the module's steps (steps = 0 stays 0; None = expv's own default), its flag, and
       its scale, negated exactly on the inverse paths -- so theorems 2-4 and 5-6 apply to the module verbatim *)
Theorem C11_ExpFlow_is_expv_call :
  (forall k, (k <= 8)%nat -> gen_expflow_steps (Some k) = k) /\ gen_expflow_steps None = gen_expv_default_steps /\
  gen_expflow_forward_sign false = 1%Z /\ gen_expflow_forward_sign true = (-1)%Z /\ gen_expflow_inverse_module_sign = (-1)%Z /\
  (forall ac, gen_expflow_ac ac = ac).
Proof. exact gen_expflow_is_expv_call. Qed.
(* 4c. StationaryVelocityFieldTransform (traced from spatial/nonrigid.py with stub base classes): the align_corners flag of its
       ExpFlow module is the flag of the transformation's current grid, at construction and after grid_(g) / grid(g) for every
       combination of old and new flag (and the module shared with shallow copies is not modified) *)
Theorem C11_SVF_exp_flag_is_grid_flag :
  (forall ac, gen_svf_init_exp_ac ac = ac) /\ (forall old new, gen_svf_regrid_exp_ac old new = new).
Proof. exact gen_svf_exp_flag_is_grid_flag. Qed.
(* 4d. inverse(update_buffers=True) of StationaryVelocityFieldTransform and StationaryVelocityFreeFormDeformation (traced on
       recorder objects): the inverse's u buffer is  exp.inverse()(v)  -- the exponential with the negated scale and the same
       steps (4b) applied to the shared velocity buffer -- and the original transformation is not modified *)
Theorem C11_inverse_buffers_use_inverse_exp :
  gen_svf_inverse_u_by_inverse_exp = true /\ gen_svffd_inverse_u_by_inverse_exp = true.
Proof. exact gen_inverse_u_by_inverse_exp. Qed.
(* 4e. expv builds its identity coordinates in the dtype of the field (traced: Grid.coords(dtype=flow.dtype)), so float64 fields
       are not displaced on float32 coordinates (the model is exact; this pins the one place where the code could lose it) *)
Theorem C11_coordinates_in_field_dtype : gen_expv_coords_in_field_dtype = true.
Proof. reflexivity. Qed.
Print Assumptions C11_coordinates_in_field_dtype.
Print Assumptions C11_inverse_buffers_use_inverse_exp.
Print Assumptions C11_SVF_exp_flag_is_grid_flag.
Print Assumptions C11_ExpFlow_is_expv_call.

Print Assumptions C11_square_step_2d.
Print Assumptions C11_square_step_3d.
Print Assumptions C11_expv_affine_closed_form_2d.
Print Assumptions C11_expv_affine_closed_form_3d.
Print Assumptions C11_expv_affine_closed_form_1d.
Print Assumptions C11_steps_zero.
Print Assumptions C11_inverse_flag.
Print Assumptions C11_generated_expv_is_model.

Local Open Scope Q_scope.
(* 5. over the rationals (exact arithmetic on the values floats denote; floor = Qfloor): hull invariance of the FIRST map
      I + c G -- the computable predicate  forall rows a, sum_b |A_ab| r_b + |t_a| <= r_a  with r = 1 (align_corners) or
      (n-1)/n -- suffices for every k: all iterates stay in the hull *)
Theorem C11_expv_closed_form_hull_invariant_2d :
  forall (ac : bool) (nx ny : Z) (scale : Qc) (inverse : bool) (k : nat) (G : list (list Qc)),
  (2 <= nx)%Z -> (2 <= ny)%Z -> is_H2 QcF G ->
  let A0 := hone_plus (K:=QcF) 2 (expv_pre (K:=QcF) k (expv_scale (K:=QcF) scale inverse)) G in
  hull_invariant2 ac nx ny A0 = true ->
  expv2 (K:=QcF) floorQ ac scale inverse k (vel_field2 (K:=QcF) ac nx ny G) = aff_field2 (K:=QcF) ac nx ny (hpow (K:=QcF) 2 A0 (2 ^ k)).
Proof. exact expv2_closed_form_Q. Qed.
Theorem C11_expv_closed_form_hull_invariant_3d :
  forall (ac : bool) (nx ny nz : Z) (scale : Qc) (inverse : bool) (k : nat) (G : list (list Qc)),
  (2 <= nx)%Z -> (2 <= ny)%Z -> (2 <= nz)%Z -> is_H3 QcF G ->
  let A0 := hone_plus (K:=QcF) 3 (expv_pre (K:=QcF) k (expv_scale (K:=QcF) scale inverse)) G in
  hull_invariant3 ac nx ny nz A0 = true ->
  expv3 (K:=QcF) floorQ ac scale inverse k (vel_field3 (K:=QcF) ac nx ny nz G) = aff_field3 (K:=QcF) ac nx ny nz (hpow (K:=QcF) 3 A0 (2 ^ k)).
Proof. exact expv3_closed_form_Q. Qed.

(* 6. weighted diagonal dominance with negative diagonal of the generator (weights = hull half-widths) implies hull
      invariance, hence the closed form, as soon as c = (+-scale)/2^k >= 0 and c |G_aa| <= 1 *)
Theorem C11_diag_dominant_2d :
  forall (ac : bool) (nx ny : Z) (scale : Qc) (inverse : bool) (k : nat) (g00 g01 h0 g10 g11 h1 : Qc),
  (2 <= nx)%Z -> (2 <= ny)%Z ->
  let c := expv_pre (K:=QcF) k (expv_scale (K:=QcF) scale inverse) in
  let r0 := hull_half ac nx in let r1 := hull_half ac ny in
  0 <= this c -> -1 <= this c * this g00 -> -1 <= this c * this g11 -> this g00 <= 0 -> this g11 <= 0 ->
  Qabs (this g01) * r1 + Qabs (this h0) <= - this g00 * r0 ->
  Qabs (this g10) * r0 + Qabs (this h1) <= - this g11 * r1 ->
  expv2 (K:=QcF) floorQ ac scale inverse k (vel_field2 (K:=QcF) ac nx ny (H2 (K:=QcF) g00 g01 h0 g10 g11 h1))
  = aff_field2 (K:=QcF) ac nx ny (hpow (K:=QcF) 2 (hone_plus (K:=QcF) 2 c (H2 (K:=QcF) g00 g01 h0 g10 g11 h1)) (2 ^ k)).
Proof. exact expv2_diag_dominant. Qed.
Theorem C11_diag_dominant_3d :
  forall (ac : bool) (nx ny nz : Z) (scale : Qc) (inverse : bool) (k : nat)
         (g00 g01 g02 h0 g10 g11 g12 h1 g20 g21 g22 h2 : Qc),
  (2 <= nx)%Z -> (2 <= ny)%Z -> (2 <= nz)%Z ->
  let c := expv_pre (K:=QcF) k (expv_scale (K:=QcF) scale inverse) in
  let r0 := hull_half ac nx in let r1 := hull_half ac ny in let r2 := hull_half ac nz in
  0 <= this c -> -1 <= this c * this g00 -> -1 <= this c * this g11 -> -1 <= this c * this g22 ->
  this g00 <= 0 -> this g11 <= 0 -> this g22 <= 0 ->
  Qabs (this g01) * r1 + Qabs (this g02) * r2 + Qabs (this h0) <= - this g00 * r0 ->
  Qabs (this g10) * r0 + Qabs (this g12) * r2 + Qabs (this h1) <= - this g11 * r1 ->
  Qabs (this g20) * r0 + Qabs (this g21) * r1 + Qabs (this h2) <= - this g22 * r2 ->
  let G := H3 (K:=QcF) g00 g01 g02 h0 g10 g11 g12 h1 g20 g21 g22 h2 in
  expv3 (K:=QcF) floorQ ac scale inverse k (vel_field3 (K:=QcF) ac nx ny nz G)
  = aff_field3 (K:=QcF) ac nx ny nz (hpow (K:=QcF) 3 (hone_plus (K:=QcF) 3 c G) (2 ^ k)).
Proof. exact expv3_diag_dominant. Qed.

Print Assumptions C11_expv_closed_form_hull_invariant_2d.
Print Assumptions C11_expv_closed_form_hull_invariant_3d.
Print Assumptions C11_diag_dominant_2d.
Print Assumptions C11_diag_dominant_3d.

(* 7. convergence to the exponential as k grows (reals; stdlib real-number axioms): the scalar closed form
      (1 + h/2^k)^(2^k) tends to exp h, hence for every DIAGONAL generator (per-axis scaling velocity field, no translation) the
      closed form (I + diag(h)/2^k)^(2^k) of the theorems above tends entrywise to exp(diag(h)).
      PARTIAL: generators with off-diagonal entries / translation (the matrix exponential proper) are not proved; they are
      explored numerically on the implementation (tools/props/c11.py:search, error against torch.linalg.matrix_exp must
      decrease like |G|^2 e^|G| / 2^k).  Also not proved: exp(v) o exp(-v) = id up to second-order interpolation error for
      smooth non-affine fields (numeric exploration only). *)
Local Open Scope R_scope.
Theorem C11_convergence_scalar :
  forall h : R, is_lim_seq (fun k : nat => (1 + h / 2 ^ k) ^ (2 ^ k)) (exp h).
Proof. exact scalar_scaling_and_squaring_converges. Qed.
Theorem C11_convergence_diagonal_partial :
  forall hx hy hz : R,
  (let A := fun k : nat => hpow (K:=RF) 2 (hone_plus (K:=RF) 2 (/ 2 ^ k) (H2 (K:=RF) hx 0 0 0 hy 0)) (2 ^ k) in
   is_lim_seq (fun k => hentry (A k) 0 0) (exp hx) /\ is_lim_seq (fun k => hentry (A k) 1 1) (exp hy)) /\
  (let A := fun k : nat => hpow (K:=RF) 3 (H3 (K:=RF) (1 + hx / 2 ^ k) 0 0 0 0 (1 + hy / 2 ^ k) 0 0 0 0 (1 + hz / 2 ^ k) 0) (2 ^ k) in
   is_lim_seq (fun k => hentry (A k) 0 0) (exp hx) /\ is_lim_seq (fun k => hentry (A k) 1 1) (exp hy) /\
   is_lim_seq (fun k => hentry (A k) 2 2) (exp hz)).
Proof.
  intros hx hy hz. split.
  - intro A. destruct (closed_form_converges_diag2 hx hy) as [L0 [L1 _]]. split.
    + eapply is_lim_seq_ext; [|exact L0]. intro k. unfold A. rewrite hone_plus_diag2. unfold Rdiv. now rewrite !(Rmult_comm (/ 2 ^ k)).
    + eapply is_lim_seq_ext; [|exact L1]. intro k. unfold A. rewrite hone_plus_diag2. unfold Rdiv. now rewrite !(Rmult_comm (/ 2 ^ k)).
  - exact (closed_form_converges_diag3 hx hy hz).
Qed.
Print Assumptions C11_convergence_scalar.
Print Assumptions C11_convergence_diagonal_partial.

(* 7b. generators WITH translation, G = [diag(g) | h] (per-axis scaling velocity field v_a(x) = g_a x_a + h_a): every entry of
       the closed form (I + G/2^k)^(2^k) converges to the corresponding entry of the matrix exponential
       exp [diag(g) h; 0 0] = [diag(e^g)  h .* phi1(g); 0 1],  phi1(g) = (e^g - 1)/g  (1 at g = 0);
       and that limit is the time-one map of the flow of the velocity field (axis_flow solves x' = g x + h, x(0) = x).
       Still PARTIAL for generators with off-diagonal entries in the linear part. *)
Theorem C11_convergence_scaling_translation_2d :
  forall gx gy hx hy : R,
  let A := fun k : nat => hpow (K:=RF) 2 (hone_plus (K:=RF) 2 (/ 2 ^ k) (H2 (K:=RF) gx 0 hx 0 gy hy)) (2 ^ k) in
  is_lim_seq (fun k => hentry (A k) 0 0) (exp gx) /\ is_lim_seq (fun k => hentry (A k) 1 1) (exp gy) /\
  is_lim_seq (fun k => hentry (A k) 0 2) (hx * phi1 gx) /\ is_lim_seq (fun k => hentry (A k) 1 2) (hy * phi1 gy) /\
  (forall k, hentry (A k) 0 1 = 0 /\ hentry (A k) 1 0 = 0).
Proof. exact closed_form_converges_scaling_translation2. Qed.
Theorem C11_convergence_scaling_translation_3d :
  forall gx gy gz hx hy hz : R,
  let A := fun k : nat => hpow (K:=RF) 3 (hone_plus (K:=RF) 3 (/ 2 ^ k) (H3 (K:=RF) gx 0 0 hx 0 gy 0 hy 0 0 gz hz)) (2 ^ k) in
  is_lim_seq (fun k => hentry (A k) 0 0) (exp gx) /\ is_lim_seq (fun k => hentry (A k) 1 1) (exp gy) /\
  is_lim_seq (fun k => hentry (A k) 2 2) (exp gz) /\
  is_lim_seq (fun k => hentry (A k) 0 3) (hx * phi1 gx) /\ is_lim_seq (fun k => hentry (A k) 1 3) (hy * phi1 gy) /\
  is_lim_seq (fun k => hentry (A k) 2 3) (hz * phi1 gz).
Proof. exact closed_form_converges_scaling_translation3. Qed.
Theorem C11_limit_is_time_one_flow :
  forall g h x : R,
  axis_flow g h x 0 = x /\ axis_flow g h x 1 = exp g * x + h * phi1 g /\
  (forall t : R, is_derive (axis_flow g h x) t (g * axis_flow g h x t + h)).
Proof.
  intros g h x. split; [apply axis_flow_start | split; [apply axis_flow_time_one | intro t; apply axis_flow_solves_ode]].
Qed.
Print Assumptions C11_convergence_scaling_translation_2d.
Print Assumptions C11_convergence_scaling_translation_3d.
Print Assumptions C11_limit_is_time_one_flow.

(* 7c. generators with OFF-DIAGONAL entries, 2-D, diagonalisable over the reals: G = P diag(gx, gy) P^-1, det P <> 0 (every
       symmetric generator, every generator with two distinct real eigenvalues).  For every k the closed form is
       P diag((1+gx/2^k)^(2^k), (1+gy/2^k)^(2^k)) P^-1, and every entry converges to that of P diag(e^gx, e^gy) P^-1 = exp G.
       Still PARTIAL: generators with complex eigenvalues (rotational part) or defective ones, and 3-D non-diagonal generators. *)
Theorem C11_convergence_diagonalisable_2d :
  forall p q r s gx gy : R, p * s - q * r <> 0 ->
  let A := fun k : nat => hpow (K:=RF) 2 (hone_plus (K:=RF) 2 (/ 2 ^ k) (conj_diag p q r s gx gy)) (2 ^ k) in
  let E := conj_diag p q r s (exp gx) (exp gy) in
  (forall k, A k = conj_diag p q r s ((1 + gx / 2 ^ k) ^ (2 ^ k)) ((1 + gy / 2 ^ k) ^ (2 ^ k))) /\
  (forall i j, (i < 2)%nat -> (j < 3)%nat -> is_lim_seq (fun k => hentry (A k) i j) (hentry E i j)).
Proof. exact closed_form_converges_diagonalisable2. Qed.
Theorem C11_conj_diag_is_conjugation :
  forall p q r s a b : R, p * s - q * r <> 0 ->
  hcomp (K:=RF) 2 (conj_diag p q r s a b) (H2 (K:=RF) p q 0 r s 0)
  = hcomp (K:=RF) 2 (H2 (K:=RF) p q 0 r s 0) (H2 (K:=RF) a 0 0 0 b 0).
Proof. exact conj_diag_is_conjugation. Qed.
Example C11_conj_diag_covers_symmetric : conj_diag 1 1 1 (-1) 1 (-1) = H2 (K:=RF) 0 1 0 1 0 0.
Proof. exact conj_diag_symmetric. Qed.
Print Assumptions C11_convergence_diagonalisable_2d.
Print Assumptions C11_conj_diag_is_conjugation.

(* 7d. the three real canonical forms of a 2 x 2 matrix, and similarity invariance: for M diagonal, a Jordan block
       [[a 1] [0 a]] or a rotation-scaling [[a -b] [b a]] (complex eigenvalues a +- i b) every entry of the closed form
       (I + M/2^k)^(2^k) converges to the entry of exp M; and if the closed form for M converges entrywise to E then for every
       invertible P the closed form for P M P^-1 converges entrywise to P E P^-1 (for every k the closed form of the conjugate
       is the conjugate of the closed form).  conv2 A E := entrywise convergence of the linear 2 x 2 parts. *)
Theorem C11_convergence_canonical_forms_2d :
  forall a b d : R,
  conv2 (fun k : nat => hpow (K:=RF) 2 (hone_plus (K:=RF) 2 (/ 2 ^ k) (L2 a 0 0 d)) (2 ^ k)) (L2 (exp a) 0 0 (exp d)) /\
  conv2 (fun k : nat => hpow (K:=RF) 2 (hone_plus (K:=RF) 2 (/ 2 ^ k) (L2 a 1 0 a)) (2 ^ k)) (L2 (exp a) (exp a) 0 (exp a)) /\
  conv2 (fun k : nat => hpow (K:=RF) 2 (hone_plus (K:=RF) 2 (/ 2 ^ k) (L2 a (- b) b a)) (2 ^ k))
        (L2 (exp a * cos b) (- (exp a * sin b)) (exp a * sin b) (exp a * cos b)).
Proof. intros a b d. split; [apply conv2_diagonal | split; [apply conv2_jordan | apply conv2_rotation_scaling]]. Qed.
Theorem C11_convergence_similarity_invariant_2d :
  forall (p q r s a b c d : R) (E : list (list R)), p * s - q * r <> 0 ->
  (forall k : nat, hpow (K:=RF) 2 (hone_plus (K:=RF) 2 (/ 2 ^ k) (conj2 p q r s a b c d)) (2 ^ k)
                   = conj2m p q r s (hpow (K:=RF) 2 (hone_plus (K:=RF) 2 (/ 2 ^ k) (L2 a b c d)) (2 ^ k))) /\
  (conv2 (fun k : nat => hpow (K:=RF) 2 (hone_plus (K:=RF) 2 (/ 2 ^ k) (L2 a b c d)) (2 ^ k)) E ->
   conv2 (fun k : nat => hpow (K:=RF) 2 (hone_plus (K:=RF) 2 (/ 2 ^ k) (conj2 p q r s a b c d)) (2 ^ k)) (conj2m p q r s E)) /\
  hcomp (K:=RF) 2 (conj2 p q r s a b c d) (L2 p q r s) = hcomp (K:=RF) 2 (L2 p q r s) (L2 a b c d).
Proof.
  intros p q r s a b c d E Hd. split; [intro k; apply closed_form_conj2; exact Hd|].
  split; [apply convergence_similarity_invariant2; exact Hd | apply conj2_is_conjugation; exact Hd].
Qed.
Print Assumptions C11_convergence_canonical_forms_2d.
Print Assumptions C11_convergence_similarity_invariant_2d.

(* 7e. EVERY linear 2-D generator: every real 2 x 2 matrix is P J P^-1 with J diagonal, a Jordan block or a rotation-scaling
       (real canonical form, proved by cases on the discriminant), hence for every a b c d the closed form
       (I + G/2^k)^(2^k), G = [[a b] [c d]], converges entrywise to P exp(J) P^-1 = exp G.  `canonical J EJ` pairs each form with
       its exponential; those are characterised intrinsically: X(t) = exp(t J) has X(0) = I, X' = J X, X(1) = EJ.
       Still PARTIAL: D = 3 with off-diagonal entries, and translation combined with a non-diagonal linear part. *)
Theorem C11_convergence_every_linear_generator_2d :
  forall a b c d : R,
  exists p q r s J EJ, p * s - q * r <> 0 /\ canonical J EJ /\ L2 a b c d = conj2m p q r s J /\
  conv2 (fun k : nat => hpow (K:=RF) 2 (hone_plus (K:=RF) 2 (/ 2 ^ k) (L2 a b c d)) (2 ^ k)) (conj2m p q r s EJ).
Proof. exact every_linear_generator_converges2. Qed.
Theorem C11_canonical_exponentials_solve_ode :
  forall l1 l2 u v : R,
  (solves_ode (L2 l1 0 0 l2) (expt_diag l1 l2) /\ expt_diag l1 l2 1 = L2 (exp l1) 0 0 (exp l2)) /\
  (solves_ode (L2 l1 1 0 l1) (expt_jordan l1) /\ expt_jordan l1 1 = L2 (exp l1) (exp l1) 0 (exp l1)) /\
  (solves_ode (L2 u (- v) v u) (expt_rot u v) /\
   expt_rot u v 1 = L2 (exp u * cos v) (- (exp u * sin v)) (exp u * sin v) (exp u * cos v)).
Proof. intros l1 l2 u v. split; [apply expt_diag_ode | split; [apply expt_jordan_ode | apply expt_rot_ode]]. Qed.
(* non-vacuity: the infinitesimal rotation [[0 -1] [1 0]] is canonical with exponential the rotation by 1 rad *)
Example C11_canonical_rotation_example :
  canonical (L2 0 (- 1) 1 0) (L2 (exp 0 * cos 1) (- (exp 0 * sin 1)) (exp 0 * sin 1) (exp 0 * cos 1)).
Proof. constructor. Qed.
Print Assumptions C11_convergence_every_linear_generator_2d.
Print Assumptions C11_canonical_exponentials_solve_ode.

(* 7f. 3-D, block-diagonal generators G = [[a b 0] [c d 0] [0 0 z]] (ARBITRARY linear map in the x-y plane -- rotation, shear,
       anisotropic scaling -- plus scaling along z): for every k the closed form is the block matrix of the 2-D closed form and
       the scalar closed form, hence converges entrywise to blockdiag(exp [[a b] [c d]], e^z).
       Still PARTIAL: 3-D generators coupling all three axes. *)
Theorem C11_convergence_block_generator_3d :
  forall a b c d z : R,
  (forall k : nat, hpow (K:=RF) 3 (hone_plus (K:=RF) 3 (/ 2 ^ k) (B3 a b c d z)) (2 ^ k)
     = B3m (hpow (K:=RF) 2 (hone_plus (K:=RF) 2 (/ 2 ^ k) (L2 a b c d)) (2 ^ k)) ((1 + z / 2 ^ k) ^ (2 ^ k))) /\
  exists p q r s J EJ, p * s - q * r <> 0 /\ canonical J EJ /\ L2 a b c d = conj2m p q r s J /\
  conv3 (fun k : nat => hpow (K:=RF) 3 (hone_plus (K:=RF) 3 (/ 2 ^ k) (B3 a b c d z)) (2 ^ k))
        (B3m (conj2m p q r s EJ) (exp z)).
Proof. intros a b c d z. split; [intro k; apply closed_form_block3 | apply every_block_generator_converges3]. Qed.
Print Assumptions C11_convergence_block_generator_3d.

(* 7g. translation combined with an ARBITRARY invertible linear 2-D part: G = [M | h], det M <> 0.  For every k the translation
       t_k of the closed form satisfies M t_k = (B_k - I) h (B_k = linear part of the closed form), hence t_k -> M^-1 (exp M - I) h,
       the translation column of exp [M h; 0 0]; the linear part converges as in 7e.  (tr0, tr1) = M^-1 (E - I) h.
       Still PARTIAL: translation with a SINGULAR non-diagonal linear part (singular diagonal ones are covered by 7b). *)
Theorem C11_convergence_every_affine_generator_2d :
  forall a b c d h0 h1 : R, a * d - b * c <> 0 ->
  exists p q r s J EJ, p * s - q * r <> 0 /\ canonical J EJ /\ L2 a b c d = conj2m p q r s J /\
  let E := conj2m p q r s EJ in
  let A := fun k : nat => hpow (K:=RF) 2 (hone_plus (K:=RF) 2 (/ 2 ^ k) (H2 (K:=RF) a b h0 c d h1)) (2 ^ k) in
  is_lim_seq (fun k => hentry (A k) 0 2) (tr0 a b c d h0 h1 E) /\ is_lim_seq (fun k => hentry (A k) 1 2) (tr1 a b c d h0 h1 E) /\
  (forall i j, (i < 2)%nat -> (j < 2)%nat -> is_lim_seq (fun k => hentry (A k) i j) (hentry E i j)).
Proof. exact every_affine_generator_converges2. Qed.
Theorem C11_translation_limit_is_Minv_E_minus_I_h :
  forall (a b c d h0 h1 : R) (E : list (list R)), a * d - b * c <> 0 ->
  a * tr0 a b c d h0 h1 E + b * tr1 a b c d h0 h1 E = (hentry E 0 0 - 1) * h0 + hentry E 0 1 * h1 /\
  c * tr0 a b c d h0 h1 E + d * tr1 a b c d h0 h1 E = hentry E 1 0 * h0 + (hentry E 1 1 - 1) * h1.
Proof. exact tr_solves. Qed.
Print Assumptions C11_convergence_every_affine_generator_2d.
Print Assumptions C11_translation_limit_is_Minv_E_minus_I_h.
Local Open Scope Q_scope.

(* non-vacuity: a concrete generator on a 3 x 2 lattice (align_corners = false) that satisfies the hull predicate, is
   not trivial, and on which the executable model agrees with the closed form (computed, not by the theorem) *)
Example C11_nonvacuous :
  let G := H2 (K:=QcF) (q (-1) 2) (q 1 8) (q 1 16) (q 1 4) (q (-3) 4) (q (-1) 8) in
  let A0 := hone_plus (K:=QcF) 2 (expv_pre (K:=QcF) 3 (expv_scale (K:=QcF) (q 1 1) false)) G in
  hull_invariant2 false 3 2 A0 = true /\ is_H2 QcF G /\
  feqb2 (qexpv2 false (q 1 1) false 3 (vel_field2 (K:=QcF) false 3 2 G)) (aff_field2 (K:=QcF) false 3 2 (hpow (K:=QcF) 2 A0 8)) = true /\
  feqb2 (aff_field2 (K:=QcF) false 3 2 (hpow (K:=QcF) 2 A0 8)) (aff_field2 (K:=QcF) false 3 2 (hid 2)) = false.
Proof.
  intros G A0. split; [vm_compute; reflexivity|]. split; [repeat (eapply ex_intro); reflexivity|].
  split; vm_compute; reflexivity.
Qed.
