(* C19 -- the explicit constructors of batches: from_images / collate_samples of items of a batch in any order (with
   repetitions), append, Image.batch(), and torch.stack (always a plain tensor). *)
From Coq Require Import List ZArith Bool Arith Lia.
From DV Require Import Model.Enums Model.Batch Model.BatchSpec Proofs.C19Base Proofs.C19Generic Proofs.C19Cat Proofs.C19GetItem.
Import ListNotations.
Local Arguments ndim : simpl never.

Section Explicit.
Variable gshape : gid -> shape.
Variable gaxes : gid -> axes.

(* cls.from_images([list(batch)[k] for k in sel]) and collate_samples of the same items: entry i carries the grid of item sel[i] *)
Theorem iter_build_sound how fl sh gs sel :
  wf_val gshape (mkT sh (TBatch fl gs)) ->
  res_sound gshape [mkT sh (TBatch fl gs)] (run_op gshape gaxes (OIterBuild how sel) [mkT sh (TBatch fl gs)]).
Proof.
  intros Hwf. unfold run_op; cbn [nth t_kind t_shape data_sem nth_shape].
  unfold wf_val in Hwf; cbn [t_kind t_shape] in Hwf. destruct Hwf as (HL & H4 & HF).
  destruct (forallb (fun e => e <? nent sh) sel) eqn:Esel; [|exact I].
  destruct (length gs <? nent sh); [exact I|].
  assert (Hlt : forall i, i < length sel -> nth i sel 0 < length gs).
  { intros i Hi. rewrite forallb_forall in Esel. specialize (Esel (nth i sel 0) (nth_In _ _ Hi)). apply Nat.ltb_lt in Esel. lia. }
  assert (Hcore : forall fl', (forall ax, fl' = Some ax -> fl = Some ax) ->
            res_sound gshape [mkT sh (TBatch fl gs)]
              (one_kind (mkD (length sel :: tl sh) (map (fun e => [(0, e)]) sel))
                        (mk_batch gshape fl' (length sel :: tl sh) (map (fun e => nth e gs 0) sel)))).
  { intros fl' Hax. unfold one_kind.
    destruct (mk_batch gshape fl' (length sel :: tl sh) (map (fun e => nth e gs 0) sel)) as [er|k] eqn:EK; [exact I|].
    apply mk_batch_ok in EK. destruct EK as (-> & H4' & HF' & _).
    unfold res_sound, out_sound; cbn [v_kind v_shape v_src val_of d_shape d_src].
    split; [unfold wf_val, val_of; cbn [t_kind t_shape nent v_shape v_kind]; rewrite map_length; auto|].
    intros i Hi. rewrite map_length in Hi.
    unfold src in *. rewrite (nth_map' (fun e => [(0, e)]) sel i [] 0 Hi).
    split; [apply coherent_single|]. split.
    - exists (0, nth i sel 0). split; [left; reflexivity|]. unfold entry_grid; cbn.
      rewrite nth_map' with (d0 := 0) by exact Hi. apply nth_error_nth'. now apply Hlt.
    - intros ax Hfl. exists (0, nth i sel 0). split; [left; reflexivity|]. unfold arg_axes; cbn. auto. }
  cbv zeta. destruct (map (fun e => nth e gs 0) sel) as [|g0 gl] eqn:Egl.
  { destruct how, fl; exact I. }
  cbn [d_shape]. destruct how, fl as [ax|]; exact (Hcore _ (fun a H => H)).
Qed.

(* batch.append(other): the grids are concatenated like the data.  The result has the axes of the batch; flow fields given in
   other axes are converted by FlowFields.append (a statement about values: checked on the implementation), so the
   "same vector representation" clause is stated for an `other` in the same axes *)
Theorem append_sound fl sh gs fl' sh' gs' :
  wf_val gshape (mkT sh (TBatch fl gs)) -> wf_val gshape (mkT sh' (TBatch fl' gs')) ->
  (fl = None \/ fl' = fl) ->
  res_sound gshape [mkT sh (TBatch fl gs); mkT sh' (TBatch fl' gs')]
    (run_op gshape gaxes OAppend [mkT sh (TBatch fl gs); mkT sh' (TBatch fl' gs')]).
Proof.
  intros Hwf Hwf' Hsame. unfold run_op; cbn [nth t_kind t_shape map data_sem nth_shape].
  unfold wf_val in Hwf, Hwf'; cbn [t_kind t_shape] in Hwf, Hwf'. destruct Hwf as (HL & H4 & HF). destruct Hwf' as (HL' & H4' & HF').
  destruct (same_except 0 sh sh'); [|exact I].
  unfold one_kind; cbn [d_shape d_src].
  destruct (make_instance gshape fl (nent sh + nent sh' :: tl sh) (gs ++ gs')) as [er|k] eqn:EK; [exact I|].
  apply make_instance_ok in EK. destruct EK as (fl2 & -> & H42 & HF2 & Hax).
  unfold res_sound, out_sound; cbn [v_kind v_shape v_src val_of].
  split; [unfold wf_val, val_of; cbn [t_kind t_shape nent v_shape v_kind]; rewrite app_length; repeat split; auto; lia|].
  intros i Hi. rewrite app_length in Hi.
  destruct (Nat.lt_ge_cases i (nent sh)) as [Hlt|Hge].
  - rewrite app_nth1 by (rewrite length_ident_src; exact Hlt). rewrite nth_ident_src by exact Hlt.
    split; [apply coherent_single|]. split.
    + exists (0, i). split; [left; reflexivity|]. unfold entry_grid; cbn.
      rewrite app_nth1 by lia. apply nth_error_nth'. lia.
    + intros ax Hfl. exists (0, i). split; [left; reflexivity|]. unfold arg_axes; cbn. auto.
  - rewrite app_nth2 by (rewrite length_ident_src; exact Hge). rewrite length_ident_src.
    rewrite nth_ident_src by lia.
    split; [apply coherent_single|]. split.
    + exists (1, i - nent sh). split; [left; reflexivity|]. unfold entry_grid; cbn.
      rewrite app_nth2 by lia. rewrite HL. apply nth_error_nth'. lia.
    + (* the axes of the result are those of the batch; the appended flow fields are converted to them *)
      intros ax Hfl. exists (1, i - nent sh). split; [left; reflexivity|]. unfold arg_axes; cbn.
      specialize (Hax ax Hfl). destruct Hsame as [-> | ->]; [discriminate Hax|exact Hax].
Qed.
End Explicit.
