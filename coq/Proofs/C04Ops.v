(* C04: index-only operations (crop, pad, center crop / pad, narrow, region of interest) return the original
   values at the original world positions -- joins the data-side offsets (Model/ImageOps.v) with the grid-side
   origin route (Model/GridDerive.v, C03); pooling; shape agreement; chains. *)
From Coq Require Import ZArith List Field Ring Lia Bool.
From DV Require Import Base.Field Base.FieldFacts Base.LinAlg Base.Tactics Model.Enums Model.Homog Model.Grid Model.Sampler
  Gen.GridT Gen.GridCtor Gen.GridDerive Model.GridDerive Model.ImageOps Proofs.C01Grid Proofs.C03Resize Proofs.C03Ops
  Proofs.C04Axis Proofs.C04World.
Import ListNotations.
Local Open Scope fld_scope.

Section C04Ops.
Variable K : fld.
Hypothesis Kf : is_field K.
Hypothesis Kc : char0 K.
Add Field KF_C04Ops : Kf.
Variable ceilK floorG : K -> Z.
Variable leK : K -> K -> bool.

Ltac Zify.zify_post_hook ::= Z.to_euclidean_division_equations.

Lemma inb_false i n : inb i n = false <-> ~ (0 <= i < n)%Z.
Proof. unfold inb. rewrite andb_false_iff, Z.leb_gt, Z.ltb_ge. lia. Qed.

(* ---------- data side: two / three successive per-axis crops with constant c ---------- *)
Lemma crop2_value (cv : K) (lx hx ly hy nx ny : Z) (im : nimg (K:=K)) (jx jy : Z) :
  ishape im = [nx; ny] ->
  let out := crop_ax cv 1 ly hy (crop_ax cv 0 lx hx im) in
  ishape out = [nx - lx - hx; ny - ly - hy]%Z /\
  ((0 <= jx + lx < nx)%Z -> (0 <= jy + ly < ny)%Z -> ival out [jx; jy] = ival im [jx + lx; jy + ly]%Z) /\
  (~ ((0 <= jx + lx < nx)%Z /\ (0 <= jy + ly < ny)%Z) -> ival out [jx; jy] = cv).
Proof.
  intros Hs out. unfold out. cbn [crop_ax ishape ival]. rewrite Hs. cbn [zget nth upd].
  split; [reflexivity|]. split.
  - intros Hx Hy. rewrite (proj2 (inb_true _ _) Hy). cbn [zget nth upd]. rewrite (proj2 (inb_true _ _) Hx). reflexivity.
  - intro H. destruct (inb (jy + ly) ny) eqn:Ey; [|reflexivity]. cbn [zget nth upd].
    destruct (inb (jx + lx) nx) eqn:Ex; [|reflexivity].
    apply inb_true in Ey, Ex. tauto.
Qed.

Lemma crop3_value (cv : K) (lx hx ly hy lz hz nx ny nz : Z) (im : nimg (K:=K)) (jx jy jz : Z) :
  ishape im = [nx; ny; nz] ->
  let out := crop_ax cv 2 lz hz (crop_ax cv 1 ly hy (crop_ax cv 0 lx hx im)) in
  ishape out = [nx - lx - hx; ny - ly - hy; nz - lz - hz]%Z /\
  ((0 <= jx + lx < nx)%Z -> (0 <= jy + ly < ny)%Z -> (0 <= jz + lz < nz)%Z ->
     ival out [jx; jy; jz] = ival im [jx + lx; jy + ly; jz + lz]%Z) /\
  (~ ((0 <= jx + lx < nx)%Z /\ (0 <= jy + ly < ny)%Z /\ (0 <= jz + lz < nz)%Z) -> ival out [jx; jy; jz] = cv).
Proof.
  intros Hs out. unfold out. cbn [crop_ax ishape ival]. rewrite Hs. cbn [zget nth upd].
  split; [reflexivity|]. split.
  - intros Hx Hy Hz. rewrite (proj2 (inb_true _ _) Hz). cbn [zget nth upd]. rewrite (proj2 (inb_true _ _) Hy).
    cbn [zget nth upd]. rewrite (proj2 (inb_true _ _) Hx). reflexivity.
  - intro H. destruct (inb (jz + lz) nz) eqn:Ez; [|reflexivity]. cbn [zget nth upd].
    destruct (inb (jy + ly) ny) eqn:Ey; [|reflexivity]. cbn [zget nth upd].
    destruct (inb (jx + lx) nx) eqn:Ex; [|reflexivity].
    apply inb_true in Ez, Ey, Ex. tauto.
Qed.

(* ---------- grid side: a grid built through the origin= route at integer offsets ---------- *)
Section Grid.
Variable D : nat.
Hypothesis HD : D = 2%nat \/ D = 3%nat.
Variables (f s c : nat -> K) (d : nat -> nat -> K) (a0 : bool).
Notation g := (mkG (vtab D f) (vtab D s) (vtab D c) (tab D D d) a0).

Lemma origin_route_int (size' : list K) (off J : list Z) : length size' = D -> length off = D -> length J = D ->
  d_itw ceilK D (mk_origin ceilK D size' (d_itw ceilK D g (map of_Z off)) (sp g) (di g) (acf g)) (map of_Z J)
  = d_itw ceilK D g (map of_Z (map (fun p => (fst p + snd p)%Z) (combine J off))).
Proof.
  intros Hs Ho HJ.
  destruct (mk_origin_keeps_samples K Kf Kc ceilK D HD f s c d a0 size' (map of_Z off) Hs ltac:(now rewrite map_length))
    as (_ & _ & _ & _ & P).
  rewrite P by (now rewrite map_length). f_equal.
  clear P. revert off Ho HJ. generalize D. induction J as [|j J IH]; intros [|n] [|o off] Ho HJ; cbn in *; try discriminate; try reflexivity.
  unfold vadd in *. cbn [vmap2]. f_equal; [now rewrite of_Z_add by auto|]. apply (IH n); lia.
Qed.
End Grid.

(* ---------- index_ops_exact: crop and pad, 2-D and 3-D ---------- *)
Lemma evens_odds4 (a b c0 d0 : Z) : evens [a; b; c0; d0] = [a; c0] /\ odds [a; b; c0; d0] = [b; d0].
Proof. split; reflexivity. Qed.

Theorem crop_exact2 (f s c : nat -> K) (d : nat -> nat -> K) (a0 : bool) (cv : K) (xlo xhi ylo yhi nx ny : Z)
        (im : nimg (K:=K)) (jx jy : Z) :
  ishape im = [nx; ny] ->
  let g := mkG (vtab 2 f) (vtab 2 s) (vtab 2 c) (tab 2 2 d) a0 in
  let num := [xlo; xhi; ylo; yhi] in
  let out := d_crop 2 cv num im in
  ishape out = [nx - xlo - xhi; ny - ylo - yhi]%Z /\
  ((0 <= jx + xlo < nx)%Z -> (0 <= jy + ylo < ny)%Z -> ival out [jx; jy] = ival im [jx + xlo; jy + ylo]%Z) /\
  (~ ((0 <= jx + xlo < nx)%Z /\ (0 <= jy + ylo < ny)%Z) -> ival out [jx; jy] = cv) /\
  d_itw ceilK 2 (g_crop ceilK leK 2 num g) [of_Z jx; of_Z jy] = d_itw ceilK 2 g [of_Z (jx + xlo); of_Z (jy + ylo)]%Z.
Proof.
  intros Hs g num out.
  destruct (crop2_value cv xlo xhi ylo yhi nx ny im jx jy Hs) as (P1 & P2 & P3).
  split; [exact P1|]. split; [exact P2|]. split; [exact P3|].
  unfold g_crop, num. destruct (forallb (Z.eqb 0) [xlo; xhi; ylo; yhi]) eqn:E.
  - cbn [forallb] in E. repeat (apply andb_prop in E as [? E]).
    repeat match goal with H : (0 =? _)%Z = true |- _ => apply Z.eqb_eq in H end. subst. rewrite !Z.add_0_r. reflexivity.
  - cbn [evens map].
    unfold zK;
      match goal with |- d_itw ceilK 2 (mk_origin ceilK 2 ?sz _ _ _ _) _ = _ =>
        exact (origin_route_int 2 (or_introl eq_refl) f s c d a0 sz [xlo; ylo] [jx; jy] eq_refl eq_refl eq_refl) end.
Qed.

Theorem pad_exact2 (f s c : nat -> K) (d : nat -> nat -> K) (a0 : bool) (cv : K) (xlo xhi ylo yhi nx ny : Z)
        (im : nimg (K:=K)) (jx jy : Z) :
  ishape im = [nx; ny] ->
  let g := mkG (vtab 2 f) (vtab 2 s) (vtab 2 c) (tab 2 2 d) a0 in
  let num := [xlo; xhi; ylo; yhi] in
  let out := d_pad 2 cv num im in
  ishape out = [nx + xlo + xhi; ny + ylo + yhi]%Z /\
  ((0 <= jx - xlo < nx)%Z -> (0 <= jy - ylo < ny)%Z -> ival out [jx; jy] = ival im [jx - xlo; jy - ylo]%Z) /\
  (~ ((0 <= jx - xlo < nx)%Z /\ (0 <= jy - ylo < ny)%Z) -> ival out [jx; jy] = cv) /\
  d_itw ceilK 2 (g_pad ceilK leK 2 num g) [of_Z jx; of_Z jy] = d_itw ceilK 2 g [of_Z (jx - xlo); of_Z (jy - ylo)]%Z.
Proof.
  intros Hs g num out.
  destruct (crop2_value cv (- xlo) (- xhi) (- ylo) (- yhi) nx ny im jx jy Hs) as (P1 & P2 & P3).
  split; [|split; [|split]].
  - unfold out, d_pad, num. cbn [map]. etransitivity; [exact P1|]. f_equal; [|f_equal]; lia.
  - intros Hx Hy. replace (jx - xlo)%Z with (jx + - xlo)%Z by lia. replace (jy - ylo)%Z with (jy + - ylo)%Z by lia.
    apply P2; lia.
  - intro H. apply P3. lia.
  - unfold g_pad, num. destruct (forallb (Z.eqb 0) [xlo; xhi; ylo; yhi]) eqn:E.
    + cbn [forallb] in E. repeat (apply andb_prop in E as [? E]).
      repeat match goal with H : (0 =? _)%Z = true |- _ => apply Z.eqb_eq in H end. subst. rewrite !Z.sub_0_r. reflexivity.
    + cbn [evens map].
      assert (EO : vopp [zK xlo; zK ylo] = map (of_Z (K:=K)) [(- xlo)%Z; (- ylo)%Z])
        by (unfold vopp, zK; cbn [map]; rewrite !of_Z_opp by auto; reflexivity).
      rewrite EO.
      replace (jx - xlo)%Z with (jx + - xlo)%Z by lia. replace (jy - ylo)%Z with (jy + - ylo)%Z by lia.
      unfold zK;
      match goal with |- d_itw ceilK 2 (mk_origin ceilK 2 ?sz _ _ _ _) _ = _ =>
        exact (origin_route_int 2 (or_introl eq_refl) f s c d a0 sz [(- xlo)%Z; (- ylo)%Z] [jx; jy] eq_refl eq_refl eq_refl) end.
Qed.

Theorem crop_exact3 (f s c : nat -> K) (d : nat -> nat -> K) (a0 : bool) (cv : K) (xlo xhi ylo yhi zlo zhi nx ny nz : Z)
        (im : nimg (K:=K)) (jx jy jz : Z) :
  ishape im = [nx; ny; nz] ->
  let g := mkG (vtab 3 f) (vtab 3 s) (vtab 3 c) (tab 3 3 d) a0 in
  let num := [xlo; xhi; ylo; yhi; zlo; zhi] in
  let out := d_crop 3 cv num im in
  ishape out = [nx - xlo - xhi; ny - ylo - yhi; nz - zlo - zhi]%Z /\
  ((0 <= jx + xlo < nx)%Z -> (0 <= jy + ylo < ny)%Z -> (0 <= jz + zlo < nz)%Z ->
     ival out [jx; jy; jz] = ival im [jx + xlo; jy + ylo; jz + zlo]%Z) /\
  (~ ((0 <= jx + xlo < nx)%Z /\ (0 <= jy + ylo < ny)%Z /\ (0 <= jz + zlo < nz)%Z) -> ival out [jx; jy; jz] = cv) /\
  d_itw ceilK 3 (g_crop ceilK leK 3 num g) [of_Z jx; of_Z jy; of_Z jz]
  = d_itw ceilK 3 g [of_Z (jx + xlo); of_Z (jy + ylo); of_Z (jz + zlo)]%Z.
Proof.
  intros Hs g num out.
  destruct (crop3_value cv xlo xhi ylo yhi zlo zhi nx ny nz im jx jy jz Hs) as (P1 & P2 & P3).
  split; [exact P1|]. split; [exact P2|]. split; [exact P3|].
  unfold g_crop, num. destruct (forallb (Z.eqb 0) [xlo; xhi; ylo; yhi; zlo; zhi]) eqn:E.
  - cbn [forallb] in E. repeat (apply andb_prop in E as [? E]).
    repeat match goal with H : (0 =? _)%Z = true |- _ => apply Z.eqb_eq in H end. subst. rewrite !Z.add_0_r. reflexivity.
  - cbn [evens map].
    unfold zK;
      match goal with |- d_itw ceilK 3 (mk_origin ceilK 3 ?sz _ _ _ _) _ = _ =>
        exact (origin_route_int 3 (or_intror eq_refl) f s c d a0 sz [xlo; ylo; zlo] [jx; jy; jz] eq_refl eq_refl eq_refl) end.
Qed.

(* center crop / center pad / narrow / region of interest: the data-side offset ((n - out) // 2, -(p // 2), start)
   is the offset of the grid-side origin route, given that the data shape is the grid size (2-D) *)
Theorem center_crop_exact2 (f s c : nat -> K) (d : nat -> nat -> K) (a0 : bool) (sx sy nx ny : Z) (im : nimg (K:=K)) (jx jy : Z) :
  ishape im = [nx; ny] ->
  let g := mkG (vtab 2 f) (vtab 2 s) (vtab 2 c) (tab 2 2 d) a0 in
  nZ ceilK g = [nx; ny] ->
  let out := d_center_crop 2 [sx; sy] im in
  let ox := ((nx - Z.min nx sx) / 2)%Z in let oy := ((ny - Z.min ny sy) / 2)%Z in
  ishape out = [Z.min nx sx; Z.min ny sy] /\
  ((0 <= jx + ox < nx)%Z -> (0 <= jy + oy < ny)%Z -> ival out [jx; jy] = ival im [jx + ox; jy + oy]%Z) /\
  d_itw ceilK 2 (g_center_crop ceilK 2 [sx; sy] g) [of_Z jx; of_Z jy] = d_itw ceilK 2 g [of_Z (jx + ox); of_Z (jy + oy)]%Z.
Proof.
  intros Hs g Hn out ox oy.
  destruct (crop2_value 0 ox (nx - Z.min nx sx - ox) oy (ny - Z.min ny sy - oy) nx ny im jx jy Hs) as (P1 & P2 & _).
  split; [|split].
  - unfold out, d_center_crop, all_axes. cbn [fold_axes]. cbn [crop_ax ishape]. rewrite Hs. cbn [zget nth upd].
    f_equal; [|f_equal]; unfold ox, oy; lia.
  - intros Hx Hy. unfold out, d_center_crop, all_axes. cbn [fold_axes].
    assert (E1 : ishape (crop_ax 0 0 ((zget (ishape im) 0 - Z.min (zget (ishape im) 0) (nth 0 [sx; sy] 0%Z)) / 2)
                  (zget (ishape im) 0 - Z.min (zget (ishape im) 0) (nth 0 [sx; sy] 0%Z)
                   - (zget (ishape im) 0 - Z.min (zget (ishape im) 0) (nth 0 [sx; sy] 0%Z)) / 2) im) = [Z.min nx sx; ny]).
    { cbn [crop_ax ishape]. rewrite Hs. cbn [zget nth upd]. f_equal. lia. }
    rewrite E1. rewrite Hs. cbn [zget nth]. fold ox oy. apply P2; auto.
  - unfold g_center_crop. rewrite Hn. cbn [combine map fst snd].
    unfold zK;
      match goal with |- d_itw ceilK 2 (mk_origin ceilK 2 ?sz _ _ _ _) _ = _ =>
        exact (origin_route_int 2 (or_introl eq_refl) f s c d a0 sz [ox; oy] [jx; jy] eq_refl eq_refl eq_refl) end.
Qed.

Theorem center_pad_exact2 (f s c : nat -> K) (d : nat -> nat -> K) (a0 : bool) (cv : K) (sx sy nx ny : Z) (im : nimg (K:=K)) (jx jy : Z) :
  ishape im = [nx; ny] ->
  let g := mkG (vtab 2 f) (vtab 2 s) (vtab 2 c) (tab 2 2 d) a0 in
  nZ ceilK g = [nx; ny] ->
  let out := d_center_pad 2 cv [sx; sy] im in
  let ox := ((Z.max nx sx - nx) / 2)%Z in let oy := ((Z.max ny sy - ny) / 2)%Z in
  ishape out = [Z.max nx sx; Z.max ny sy] /\
  ((0 <= jx - ox < nx)%Z -> (0 <= jy - oy < ny)%Z -> ival out [jx; jy] = ival im [jx - ox; jy - oy]%Z) /\
  d_itw ceilK 2 (g_center_pad ceilK 2 [sx; sy] g) [of_Z jx; of_Z jy] = d_itw ceilK 2 g [of_Z (jx - ox); of_Z (jy - oy)]%Z.
Proof.
  intros Hs g Hn out ox oy.
  destruct (crop2_value cv (- ox) (- ((Z.max nx sx - nx + 1) / 2)) (- oy) (- ((Z.max ny sy - ny + 1) / 2)) nx ny im jx jy Hs)
    as (P1 & P2 & _).
  split; [|split].
  - unfold out, d_center_pad, all_axes. cbn [fold_axes]. cbn [crop_ax ishape]. rewrite Hs. cbn [zget nth upd].
    f_equal; [|f_equal]; unfold ox, oy; lia.
  - intros Hx Hy. unfold out, d_center_pad, all_axes. cbn [fold_axes].
    assert (E1 : ishape (crop_ax cv 0 (- ((Z.max (zget (ishape im) 0) (nth 0 [sx; sy] 0%Z) - zget (ishape im) 0) / 2))
                   (- ((Z.max (zget (ishape im) 0) (nth 0 [sx; sy] 0%Z) - zget (ishape im) 0 + 1) / 2)) im) = [Z.max nx sx; ny]).
    { cbn [crop_ax ishape]. rewrite Hs. cbn [zget nth upd]. f_equal. lia. }
    rewrite E1. rewrite Hs. cbn [zget nth]. fold ox oy.
    replace (jx - ox)%Z with (jx + - ox)%Z by lia. replace (jy - oy)%Z with (jy + - oy)%Z by lia. apply P2; lia.
  - unfold g_center_pad. rewrite Hn. cbn [combine map fst snd].
    replace (jx - ox)%Z with (jx + - ox)%Z by lia. replace (jy - oy)%Z with (jy + - oy)%Z by lia.
    unfold zK;
      match goal with |- d_itw ceilK 2 (mk_origin ceilK 2 ?sz _ _ _ _) _ = _ =>
        exact (origin_route_int 2 (or_introl eq_refl) f s c d a0 sz [(- ox)%Z; (- oy)%Z] [jx; jy] eq_refl eq_refl eq_refl) end.
Qed.

(* ---------- the same in 3-D: pad, center crop, center pad ---------- *)
Theorem pad_exact3 (f s c : nat -> K) (d : nat -> nat -> K) (a0 : bool) (cv : K) (xlo xhi ylo yhi zlo zhi nx ny nz : Z)
        (im : nimg (K:=K)) (jx jy jz : Z) :
  ishape im = [nx; ny; nz] ->
  let g := mkG (vtab 3 f) (vtab 3 s) (vtab 3 c) (tab 3 3 d) a0 in
  let num := [xlo; xhi; ylo; yhi; zlo; zhi] in
  let out := d_pad 3 cv num im in
  ishape out = [nx + xlo + xhi; ny + ylo + yhi; nz + zlo + zhi]%Z /\
  ((0 <= jx - xlo < nx)%Z -> (0 <= jy - ylo < ny)%Z -> (0 <= jz - zlo < nz)%Z ->
     ival out [jx; jy; jz] = ival im [jx - xlo; jy - ylo; jz - zlo]%Z) /\
  (~ ((0 <= jx - xlo < nx)%Z /\ (0 <= jy - ylo < ny)%Z /\ (0 <= jz - zlo < nz)%Z) -> ival out [jx; jy; jz] = cv) /\
  d_itw ceilK 3 (g_pad ceilK leK 3 num g) [of_Z jx; of_Z jy; of_Z jz]
  = d_itw ceilK 3 g [of_Z (jx - xlo); of_Z (jy - ylo); of_Z (jz - zlo)]%Z.
Proof.
  intros Hs g num out.
  destruct (crop3_value cv (- xlo) (- xhi) (- ylo) (- yhi) (- zlo) (- zhi) nx ny nz im jx jy jz Hs) as (P1 & P2 & P3).
  split; [|split; [|split]].
  - unfold out, d_pad, num. cbn [map]. etransitivity; [exact P1|]. f_equal; [|f_equal; [|f_equal]]; lia.
  - intros Hx Hy Hz. replace (jx - xlo)%Z with (jx + - xlo)%Z by lia. replace (jy - ylo)%Z with (jy + - ylo)%Z by lia.
    replace (jz - zlo)%Z with (jz + - zlo)%Z by lia. apply P2; lia.
  - intro H. apply P3. lia.
  - unfold g_pad, num. destruct (forallb (Z.eqb 0) [xlo; xhi; ylo; yhi; zlo; zhi]) eqn:E.
    + cbn [forallb] in E. repeat (apply andb_prop in E as [? E]).
      repeat match goal with H : (0 =? _)%Z = true |- _ => apply Z.eqb_eq in H end. subst. rewrite !Z.sub_0_r. reflexivity.
    + cbn [evens map].
      assert (EO : vopp [zK xlo; zK ylo; zK zlo] = map (of_Z (K:=K)) [(- xlo)%Z; (- ylo)%Z; (- zlo)%Z])
        by (unfold vopp, zK; cbn [map]; rewrite !of_Z_opp by auto; reflexivity).
      rewrite EO.
      replace (jx - xlo)%Z with (jx + - xlo)%Z by lia. replace (jy - ylo)%Z with (jy + - ylo)%Z by lia.
      replace (jz - zlo)%Z with (jz + - zlo)%Z by lia.
      match goal with |- d_itw ceilK 3 (mk_origin ceilK 3 ?sz _ _ _ _) _ = _ =>
        exact (origin_route_int 3 (or_intror eq_refl) f s c d a0 sz [(- xlo)%Z; (- ylo)%Z; (- zlo)%Z] [jx; jy; jz] eq_refl eq_refl eq_refl) end.
Qed.

Theorem center_crop_exact3 (f s c : nat -> K) (d : nat -> nat -> K) (a0 : bool) (sx sy sz nx ny nz : Z) (im : nimg (K:=K)) (jx jy jz : Z) :
  ishape im = [nx; ny; nz] ->
  let g := mkG (vtab 3 f) (vtab 3 s) (vtab 3 c) (tab 3 3 d) a0 in
  nZ ceilK g = [nx; ny; nz] ->
  let out := d_center_crop 3 [sx; sy; sz] im in
  let ox := ((nx - Z.min nx sx) / 2)%Z in let oy := ((ny - Z.min ny sy) / 2)%Z in let oz := ((nz - Z.min nz sz) / 2)%Z in
  ishape out = [Z.min nx sx; Z.min ny sy; Z.min nz sz] /\
  ((0 <= jx + ox < nx)%Z -> (0 <= jy + oy < ny)%Z -> (0 <= jz + oz < nz)%Z ->
     ival out [jx; jy; jz] = ival im [jx + ox; jy + oy; jz + oz]%Z) /\
  d_itw ceilK 3 (g_center_crop ceilK 3 [sx; sy; sz] g) [of_Z jx; of_Z jy; of_Z jz]
  = d_itw ceilK 3 g [of_Z (jx + ox); of_Z (jy + oy); of_Z (jz + oz)]%Z.
Proof.
  intros Hs g Hn out ox oy oz.
  destruct (crop3_value 0 ox (nx - Z.min nx sx - ox) oy (ny - Z.min ny sy - oy) oz (nz - Z.min nz sz - oz) nx ny nz im jx jy jz Hs)
    as (P1 & P2 & _).
  assert (EQ : out = crop_ax 0 2 oz (nz - Z.min nz sz - oz) (crop_ax 0 1 oy (ny - Z.min ny sy - oy) (crop_ax 0 0 ox (nx - Z.min nx sx - ox) im))).
  { unfold out, d_center_crop, all_axes. cbn [fold_axes crop_ax ishape]. rewrite Hs. cbn [zget nth upd]. reflexivity. }
  split; [|split].
  - rewrite EQ, P1. f_equal; [|f_equal; [|f_equal]]; unfold ox, oy, oz; lia.
  - intros Hx Hy Hz. rewrite EQ. apply P2; auto.
  - unfold g_center_crop. rewrite Hn. cbn [combine map fst snd]. unfold zK.
    match goal with |- d_itw ceilK 3 (mk_origin ceilK 3 ?sz0 _ _ _ _) _ = _ =>
      exact (origin_route_int 3 (or_intror eq_refl) f s c d a0 sz0 [ox; oy; oz] [jx; jy; jz] eq_refl eq_refl eq_refl) end.
Qed.

Theorem center_pad_exact3 (f s c : nat -> K) (d : nat -> nat -> K) (a0 : bool) (cv : K) (sx sy sz nx ny nz : Z) (im : nimg (K:=K)) (jx jy jz : Z) :
  ishape im = [nx; ny; nz] ->
  let g := mkG (vtab 3 f) (vtab 3 s) (vtab 3 c) (tab 3 3 d) a0 in
  nZ ceilK g = [nx; ny; nz] ->
  let out := d_center_pad 3 cv [sx; sy; sz] im in
  let ox := ((Z.max nx sx - nx) / 2)%Z in let oy := ((Z.max ny sy - ny) / 2)%Z in let oz := ((Z.max nz sz - nz) / 2)%Z in
  ishape out = [Z.max nx sx; Z.max ny sy; Z.max nz sz] /\
  ((0 <= jx - ox < nx)%Z -> (0 <= jy - oy < ny)%Z -> (0 <= jz - oz < nz)%Z ->
     ival out [jx; jy; jz] = ival im [jx - ox; jy - oy; jz - oz]%Z) /\
  d_itw ceilK 3 (g_center_pad ceilK 3 [sx; sy; sz] g) [of_Z jx; of_Z jy; of_Z jz]
  = d_itw ceilK 3 g [of_Z (jx - ox); of_Z (jy - oy); of_Z (jz - oz)]%Z.
Proof.
  intros Hs g Hn out ox oy oz.
  destruct (crop3_value cv (- ox) (- ((Z.max nx sx - nx + 1) / 2)) (- oy) (- ((Z.max ny sy - ny + 1) / 2))
              (- oz) (- ((Z.max nz sz - nz + 1) / 2)) nx ny nz im jx jy jz Hs) as (P1 & P2 & _).
  assert (EQ : out = crop_ax cv 2 (- oz) (- ((Z.max nz sz - nz + 1) / 2))
                       (crop_ax cv 1 (- oy) (- ((Z.max ny sy - ny + 1) / 2)) (crop_ax cv 0 (- ox) (- ((Z.max nx sx - nx + 1) / 2)) im))).
  { unfold out, d_center_pad, all_axes. cbn [fold_axes crop_ax ishape]. rewrite Hs. cbn [zget nth upd]. reflexivity. }
  split; [|split].
  - rewrite EQ, P1. f_equal; [|f_equal; [|f_equal]]; unfold ox, oy, oz; lia.
  - intros Hx Hy Hz. rewrite EQ.
    replace (jx - ox)%Z with (jx + - ox)%Z by lia. replace (jy - oy)%Z with (jy + - oy)%Z by lia. replace (jz - oz)%Z with (jz + - oz)%Z by lia.
    apply P2; lia.
  - unfold g_center_pad. rewrite Hn. cbn [combine map fst snd]. unfold zK.
    replace (jx - ox)%Z with (jx + - ox)%Z by lia. replace (jy - oy)%Z with (jy + - oy)%Z by lia. replace (jz - oz)%Z with (jz + - oz)%Z by lia.
    match goal with |- d_itw ceilK 3 (mk_origin ceilK 3 ?sz0 _ _ _ _) _ = _ =>
      exact (origin_route_int 3 (or_intror eq_refl) f s c d a0 sz0 [(- ox)%Z; (- oy)%Z; (- oz)%Z] [jx; jy; jz] eq_refl eq_refl eq_refl) end.
Qed.

(* ---------- shape_agrees (crop / pad / resize family): the grid's integer size is the data shape ---------- *)
Hypothesis ceil_int : forall z : Z, ceilK (of_Z z) = z.
Hypothesis ceil_shift : forall (x : K) (z : Z), ceilK (x - of_Z z) = (ceilK x - z)%Z.

Lemma shape_agrees_crop2 (f s c : nat -> K) (d : nat -> nat -> K) (a0 : bool) (xlo xhi ylo yhi nx ny : Z) :
  let g := mkG (vtab 2 f) (vtab 2 s) (vtab 2 c) (tab 2 2 d) a0 in
  nZ ceilK g = [nx; ny] ->
  leK 1 (f 0%nat - of_Z xlo - of_Z xhi) = true -> leK 1 (f 1%nat - of_Z ylo - of_Z yhi) = true ->   (* new size >= 1 *)
  nZ ceilK (g_crop ceilK leK 2 [xlo; xhi; ylo; yhi] g) = [nx - xlo - xhi; ny - ylo - yhi]%Z.
Proof.
  intros g Hn Lx Ly. unfold g_crop. destruct (forallb (Z.eqb 0) [xlo; xhi; ylo; yhi]) eqn:E.
  - cbn [forallb] in E. repeat (apply andb_prop in E as [? E]).
    repeat match goal with H : (0 =? _)%Z = true |- _ => apply Z.eqb_eq in H end. subst. rewrite Hn. f_equal; [|f_equal]; lia.
  - unfold nZ, mk_origin. cbn [fs]. unfold g. cbn [fs evens odds map vtab seq vsub vmap2 zK clamp1].
    unfold vsub. cbn [vmap2 map]. unfold clamp1, zK. rewrite Lx, Ly. rewrite !ceil_shift.
    unfold nZ in Hn. cbn in Hn. injection Hn as <- <-. reflexivity.
Qed.

Lemma shape_agrees_resize (D : nat) (f s c : nat -> K) (d : nat -> nat -> K) (a0 : bool) (size : list Z) (a : option bool) :
  let g := mkG (vtab D f) (vtab D s) (vtab D c) (tab D D d) a0 in
  (veqK leK (map zK size) (fs g) = true -> nZ ceilK g = size) ->
  nZ ceilK (g_resize ceilK leK D size a g) = size.
Proof.
  intros g He. unfold g_resize, d_resize. destruct (veqK leK (map zK size) (fs g)) eqn:E.
  - auto.
  - unfold nZ. cbn [fs]. rewrite map_map. unfold zK. erewrite map_ext; [apply map_id|]. intro z. apply ceil_int.
Qed.

(* ---------- chains: any number of operations ---------- *)
(* stage k has a value function val k and the ramp ramp k of its grid; corners k J lists the indices of stage k
   the value at J of stage k+1 depends on.  If every step reproduces the ramp wherever its corners carry it, the
   whole chain does, at every index whose dependency cone stays where the ramp holds. *)
Section Chain.
Variable I : Type.
Variable val ramp : nat -> I -> K.
Variable corners : nat -> I -> list I.
Hypothesis step_ok : forall k J, (forall C, In C (corners k J) -> val k C = ramp k C) -> val (S k) J = ramp (S k) J.
Fixpoint good (dom0 : I -> Prop) (k : nat) (J : I) : Prop :=
  match k with
  | O => dom0 J
  | S k' => forall C, In C (corners k' J) -> good dom0 k' C
  end.
Theorem ramp_chain (dom0 : I -> Prop) : (forall J, dom0 J -> val 0 J = ramp 0 J) ->
  forall k J, good dom0 k J -> val k J = ramp k J.
Proof.
  intros H0 k. induction k as [|k IH]; intros J HJ; cbn in HJ; [auto|].
  apply step_ok. intros C HC. apply IH. auto.
Qed.
End Chain.
End C04Ops.
