From Coq Require Import ZArith List Field Ring Lia Bool.
From DV Require Import Base.Field Base.FieldFacts Base.LinAlg Base.Tactics Model.Sampler.
Import ListNotations.
Local Open Scope fld_scope.

Section Facts.
Variable K : fld.
Hypothesis Kf : is_field K.
Hypothesis Kc : char0 K.
Add Field KFS : Kf.

(* inside the image every padding mode reads the stored sample *)
Lemma getp_in {A} (pad : padmode) (d : A) (l : list A) (i : Z) :
  (0 <= i < zlen l)%Z -> getp pad d l i = nth (Z.to_nat i) l d.
Proof.
  intros [H0 H1]. unfold getp, inb, clampz. destruct pad.
  - assert (E : ((0 <=? i) && (i <? zlen l))%Z = true) by (apply andb_true_intro; split; lia). now rewrite E.
  - f_equal. lia.
Qed.

(* multilinear interpolation reproduces affine functions: only the 2^D cell corners matter, so this
   holds for every image size and every cell *)
Lemma interp1_affine (pad : padmode) (l : list K) (i : Z) (t a b : K) :
  getp pad 0 l i = a * of_Z i + b -> getp pad 0 l (i + 1) = a * (of_Z i + 1) + b ->
  interp1 pad l i t = a * (of_Z i + t) + b.
Proof. intros H0 H1. unfold interp1, lerp. rewrite H0, H1. ring. Qed.

Lemma interp2_affine (pad : padmode) (img : list (list K)) (ix iy : Z) (tx ty ax ay b : K) :
  (forall dx dy : Z, (dx = 0 \/ dx = 1)%Z -> (dy = 0 \/ dy = 1)%Z ->
     getp pad 0 (getp pad [] img (iy + dy)) (ix + dx) = ax * (of_Z ix + of_Z dx) + ay * (of_Z iy + of_Z dy) + b) ->
  interp2 pad img ix iy tx ty = ax * (of_Z ix + tx) + ay * (of_Z iy + ty) + b.
Proof.
  intro H. unfold interp2, interp1, lerp.
  pose proof (H 0%Z 0%Z ltac:(auto) ltac:(auto)) as H00. pose proof (H 1%Z 0%Z ltac:(auto) ltac:(auto)) as H10.
  pose proof (H 0%Z 1%Z ltac:(auto) ltac:(auto)) as H01. pose proof (H 1%Z 1%Z ltac:(auto) ltac:(auto)) as H11.
  rewrite !Z.add_0_r in *. rewrite H00, H10, H01, H11. cbn [of_Z of_pos]. ring.
Qed.

Lemma interp3_affine (pad : padmode) (img : list (list (list K))) (ix iy iz : Z) (tx ty tz ax ay az b : K) :
  (forall dx dy dz : Z, (dx = 0 \/ dx = 1)%Z -> (dy = 0 \/ dy = 1)%Z -> (dz = 0 \/ dz = 1)%Z ->
     getp pad 0 (getp pad [] (getp pad [] img (iz + dz)) (iy + dy)) (ix + dx)
     = ax * (of_Z ix + of_Z dx) + ay * (of_Z iy + of_Z dy) + az * (of_Z iz + of_Z dz) + b) ->
  interp3 pad img ix iy iz tx ty tz = ax * (of_Z ix + tx) + ay * (of_Z iy + ty) + az * (of_Z iz + tz) + b.
Proof.
  intro H. unfold interp3, interp2, interp1, lerp.
  pose proof (H 0%Z 0%Z 0%Z ltac:(auto) ltac:(auto) ltac:(auto)) as H000.
  pose proof (H 1%Z 0%Z 0%Z ltac:(auto) ltac:(auto) ltac:(auto)) as H100.
  pose proof (H 0%Z 1%Z 0%Z ltac:(auto) ltac:(auto) ltac:(auto)) as H010.
  pose proof (H 1%Z 1%Z 0%Z ltac:(auto) ltac:(auto) ltac:(auto)) as H110.
  pose proof (H 0%Z 0%Z 1%Z ltac:(auto) ltac:(auto) ltac:(auto)) as H001.
  pose proof (H 1%Z 0%Z 1%Z ltac:(auto) ltac:(auto) ltac:(auto)) as H101.
  pose proof (H 0%Z 1%Z 1%Z ltac:(auto) ltac:(auto) ltac:(auto)) as H011.
  pose proof (H 1%Z 1%Z 1%Z ltac:(auto) ltac:(auto) ltac:(auto)) as H111.
  rewrite !Z.add_0_r in *.
  rewrite H000, H100, H010, H110, H001, H101, H011, H111. cbn [of_Z of_pos]. ring.
Qed.

(* at an integral position interpolation returns the stored sample *)
Lemma interp1_at_sample (pad : padmode) (l : list K) (i : Z) : interp1 pad l i 0 = getp pad 0 l i.
Proof. unfold interp1, lerp. ring. Qed.
Lemma interp2_at_sample (pad : padmode) (img : list (list K)) (ix iy : Z) :
  interp2 pad img ix iy 0 0 = getp pad 0 (getp pad [] img iy) ix.
Proof. unfold interp2, interp1, lerp. ring. Qed.
Lemma interp3_at_sample (pad : padmode) (img : list (list (list K))) (ix iy iz : Z) :
  interp3 pad img ix iy iz 0 0 0 = getp pad 0 (getp pad [] (getp pad [] img iz) iy) ix.
Proof. unfold interp3, interp2, interp1, lerp. ring. Qed.

(* sampling a position whose cell decomposition is (i, 0) -- e.g. the image's own coordinates *)
Lemma sample1_at_sample (floorK : K -> Z) (pad : padmode) (l : list K) (i : Z) :
  floorK (of_Z i) = i -> sample1 floorK pad l (of_Z i) = getp pad 0 l i.
Proof.
  intro Hf. unfold sample1, cell. rewrite Hf.
  replace (of_Z i - of_Z i) with (0 : K) by ring. apply interp1_at_sample.
Qed.

(* the window mean and any normalised stencil reproduce affine functions in the interior *)
Lemma lerp_convex (a b t : K) : lerp a a t = a.
Proof. unfold lerp. ring. Qed.

(* un-normalisation of grid_sample is the CUBE / CUBE_CORNERS -> GRID map of the grid model *)
Lemma unnorm_spec (ac : bool) (n : Z) (x : K) : (1 + 1 : K) <> 0 ->
  unnorm ac n x = if ac then (x + 1) * (of_Z n - 1) / (1 + 1) else (x + 1) * of_Z n / (1 + 1) - 1 / (1 + 1).
Proof. intro H2. unfold unnorm. destruct ac; field; exact H2. Qed.
End Facts.
