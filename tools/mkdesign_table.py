#!/venv/bin/python
"""Print the as-built per-property table for DESIGN.md section 9 from the property modules and Props files."""
import importlib, json, os, re, sys
HERE = os.path.dirname(os.path.abspath(__file__)); VERIF = os.path.dirname(HERE); sys.path.insert(0, HERE)
claimed = open(os.path.join(HERE, "claimed.txt")).read().split()
print("| id | theorems in Props | translator units | correspondence (quick) | known findings | fixes |")
print("|---|---|---|---|---|---|")
kf = open(os.path.join(VERIF, "known_findings.txt")).read().split("\n")
for pid in sorted(claimed):
    mod = importlib.import_module("props." + pid.lower())
    src = open(os.path.join(VERIF, "coq", mod.PROPS_FILE)).read()
    thms = re.findall(r"^\s*Theorem\s+([A-Za-z0-9_']+)", src, flags=re.M)
    ev = {}
    try:
        ev = json.load(open(os.path.join(VERIF, "evidence", pid + ".json")))
    except Exception:
        pass
    cov = ev.get("coverage", {})
    nf = sum(1 for l in kf if l.startswith(f"finding: property={pid} "))
    nx = sum(1 for l in kf if l.startswith(f"fixed: property={pid} "))
    names = ", ".join(t.replace(pid + "_", "") for t in thms)
    print(f"| {pid} | {len(thms)}: {names} | {', '.join(mod.GEN_UNITS) or '-'} | {cov.get('evaluations', '?')} cases, "
          f"{cov.get('obligations', '?')} obligations | {nf} | {nx} |")
