(* Executable instance of the derived-grid model over canonical rationals. *)
From Coq Require Import ZArith QArith Qround Qcanon List Bool.
From DV Require Import Base.Field Base.QcInst Model.GridDerive.
Import ListNotations.

Definition ceilQc (x : Qc) : Z := Qceiling (this x).
Definition floorQc (x : Qc) : Z := Qfloor (this x).
Definition leQc (x y : Qc) : bool := Qle_bool (this x) (this y).

From DV Require Import Base.QcCmp Gen.GridT Model.Enums.
(* comparison of a model state with what the implementation reports:
   (float size, rounded size, spacing, center, origin, cube extent, flag) *)
Definition state_ok (tol : Q) (D : nat) (g : dgrid (K:=QcF))
  (e : list Qc * list Z * list Qc * list Qc * list Qc * list Qc * bool) : bool :=
  let '(efs, en, esp, ece, eo, ecube, eac) := e in
  vcloser tol (fs g) efs &&
  forallb (fun p => Z.eqb (fst p) (snd p)) (combine (nZ (K:=QcF) ceilQc g) en) && Nat.eqb (length en) (length (fs g)) &&
  vcloser tol (sp g) esp && vcloser tol (ce g) ece &&
  vcloser tol (d_origin (K:=QcF) ceilQc D g) eo && vcloser tol (d_cube_extent (K:=QcF) ceilQc D g) ecube &&
  Bool.eqb (acf g) eac.
Fixpoint states_ok (tol : Q) (D : nat) (gs : list (dgrid (K:=QcF))) es : bool :=
  match gs, es with
  | [], [] => true
  | g :: gs', e :: es' => state_ok tol D g e && states_ok tol D gs' es'
  | _, _ => false
  end.
Definition run_qc (D : nat) (ops : list (gop (K:=QcF))) (g : dgrid (K:=QcF)) := run_ops (K:=QcF) ceilQc floorQc leQc D ops g.
