(* C15 -- effect skeletons of tensor-level functions and their (may-alias) semantics (definitions only).

   A skeleton is what the translator unit MutSkeleton extracts from a function body: which variables may
   refer to which other variables' tensors (assignments, views, "returns its argument when nothing is to be
   done" calls -- each such uncertain edge guarded by a branch bit) and where tensors are written in place
   (trailing-underscore methods / functions, augmented assignment, subscript assignment, out=).
   The function's parameters are the first variables; sk_targs lists those that can hold tensors.  The semantics computes, for a branch vector,
   the set of parameters whose tensor may be written: a certified may-alias effect analysis. *)
From Coq Require Import List Bool Arith String.
Import ListNotations.

Inductive asrc := SFresh | SVar (v : nat) | SMaybe (v : nat) (bit : nat).
Inductive instr :=
| IAssign (strong : bool) (v : nat) (srcs : list asrc)     (* v = expr; expr may refer to the tensors of srcs *)
| IInplace (v : nat)                                          (* the tensor(s) v may refer to are written in place *)
| ILoop (body : list instr).                                  (* for / while: the body runs any number of times *)
Record skel := mkSkel { sk_name : string; sk_targs : list nat; sk_nvars : nat; sk_nbits : nat; sk_code : list instr }.
(* sk_targs: the parameters that can hold a tensor / mutable container (by their annotation); int / float / bool / str /
   enum parameters are immutable values, `n += 1` rebinds them *)

Definition pstate := list (list nat).          (* per variable: parameters whose tensor it may refer to *)
Definition get (p : pstate) (v : nat) : list nat := nth v p [].
Fixpoint set_nth (p : pstate) (v : nat) (x : list nat) : pstate :=
  match p, v with
  | [], _ => []
  | _ :: r, 0 => x :: r
  | y :: r, S k => y :: set_nth r k x
  end.
Fixpoint union (a b : list nat) : list nat :=
  match a with
  | [] => b
  | x :: r => if existsb (Nat.eqb x) b then union r b else x :: union r b
  end.
Definition src_pts (bv : list bool) (p : pstate) (s : asrc) : list nat :=
  match s with
  | SFresh => []
  | SVar v => get p v
  | SMaybe v bit => if nth bit bv true then get p v else []
  end.
Definition init_state (sk : skel) : pstate :=
  map (fun k => if existsb (Nat.eqb k) (sk_targs sk) then [k] else []) (seq 0 (sk_nvars sk)).
Fixpoint list_eqb {A} (eqb : A -> A -> bool) (a b : list A) : bool :=
  match a, b with
  | [], [] => true
  | x :: a', y :: b' => eqb x y && list_eqb eqb a' b'
  | _, _ => false
  end.
Definition state_eqb (a b : pstate * list nat) : bool :=
  list_eqb (list_eqb Nat.eqb) (fst a) (fst b) && list_eqb Nat.eqb (snd a) (snd b).
(* iterate a loop body until nothing changes (points-to sets only grow), at most n times *)
Fixpoint iter (n : nat) (f : pstate * list nat -> pstate * list nat) (x : pstate * list nat) : pstate * list nat :=
  match n with
  | 0 => x
  | S k => let y := f x in if state_eqb y x then x else iter k f y
  end.
(* k: bound on the number of iterations of a loop body; (number of variables + 1) * (number of parameters + 1) changes suffice *)
Fixpoint step (k : nat) (bv : list bool) (st : pstate * list nat) (i : instr) : pstate * list nat :=
  match i with
  | IAssign strong v srcs =>
      let '(p, w) := st in
      let new := fold_left (fun acc s => union (src_pts bv p s) acc) srcs [] in
      (set_nth p v (if strong then new else union new (get p v)), w)
  | IInplace v => let '(p, w) := st in (p, union (get p v) w)
  | ILoop body => iter k (fun s => fold_left (step k bv) body s) st
  end.
Definition written (sk : skel) (bv : list bool) : list nat :=
  snd (fold_left (step (S (sk_nvars sk) * S (List.length (sk_targs sk))) bv) (sk_code sk) (init_state sk, [])).

Fixpoint all_vectors (n : nat) : list (list bool) :=
  match n with
  | 0 => [[]]
  | S k => flat_map (fun v => [true :: v; false :: v]) (all_vectors k)
  end.
Definition no_arg_mutation (sk : skel) : bool :=
  forallb (fun bv => match written sk bv with [] => true | _ => false end) (all_vectors (sk_nbits sk)).
