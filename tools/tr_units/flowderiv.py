"""Gen/FlowDeriv.v -- core/image.py (finite_differences, spatial_derivatives) and core/flow.py (jacobian_det,
divergence, curl, lie_bracket, jacobian_dict / jacobian_matrix, flow_derivatives), traced from the source text:

* gen_fd_fwd / gen_fd_bwd / gen_fd_cen / gen_fcb_first / gen_fcb_mid / gen_fcb_last : the scalar stencils of the four
  finite-difference modes including the division by the spacing (traced on 6 symbolic samples; for every length
  2..9, every position must be the stencil at the clamped (replicate-padded) neighbours; other axes and per-batch
  spacings must give the same stencils)
* gen_avg_prewitt / gen_avg_sobel : the replicate-padded smoothing applied across the other axes
* spatial_derivatives for every finite-difference mode, D = 2, 3, first and second order keys (mixed, unsorted,
  repeated), scalar / per-axis / per-batch spacing, checked sample by sample (exact rationals) against the closed-form
  composition `for each letter of the sorted key: [smooth the other axes;] difference along that axis` -- the model of
  Model/FiniteDiff.v
* spatial_derivatives(mode='gaussian') with the Gaussian kernels replaced by symbolic 3-tap kernels: every axis is
  correlated (derivative kernel on the differentiated axis, replicate padding) and the result is divided by the spacing
  of the differentiated axis -- in every mode the divisor of d/dx_a is spacing[a]
* data/flow.py FlowFields.curl / FlowField.curl executed on recording stand-ins: default spacing per axes of the vectors
* flow_derivatives: shorthand expansion, grouping per component, de-duplication of mixed keys: on symbolic fields the
  value returned for a key must not depend on which other keys were requested (subset = all restricted), and the
  returned keys are exactly the requested ones in order
* gen_det2/3 (with and without identity), gen_div2/3, gen_curl2/3, gen_lie2/3 : the formulas of jacobian_det, divergence,
  curl and lie_bracket in terms of symbolic derivative entries (flow_derivatives replaced by a table of symbols);
  jacobian_matrix must be laid out [.., i, j] = d u_i / d x_j."""
import itertools
import random
from fractions import Fraction

import numpy as np

import symtorch as st
import trlib
from symtorch import E, TraceError
from tr_units.bspline import patched, simple_float_literals, fr_eval, int_tolist

MODES = ["forward", "backward", "central", "forward_central_backward", "prewitt", "sobel"]


def sym(shape, p="c"):
    a = np.empty(shape, dtype=object)
    for idx in np.ndindex(shape):
        a[idx] = E.var(p + "_".join(map(str, idx)))
    return st.Tensor(a)


def ren(e, m):
    return trlib.rename(e, m)


def sem_same(a, b):
    """equal as rational functions: same value at three generic rational points (exact arithmetic)"""
    names = sorted(set(a.free_vars()) | set(b.free_vars()))
    for seed in (3, 7, 11):
        env = {n: Fraction((seed * (i + 2) * 7919) % 97 + 1, (seed + i) % 13 + 2) for i, n in enumerate(names)}
        if fr_eval(a, env) != fr_eval(b, env):
            return False
    return True


# ------------------------------------------------------------------------------------------------
# 1. scalar stencils of finite_differences
# ------------------------------------------------------------------------------------------------
def line(img, n, mode, h):
    data = st.Tensor(np.array([E.var(f"l{i}") for i in range(n)], dtype=object).reshape(1, 1, 1, n))
    r = img.finite_differences(data, 0, mode=mode, spacing=h)
    if r.shape != (1, 1, 1, n):
        raise TraceError(f"finite_differences({mode}) changes the size: {r.shape}")
    st._check_init(r.a)
    return [r.a[0, 0, 0, i] for i in range(n)]


def stencil_section(img):
    h = st.Tensor(np.array([E.var("h")], dtype=object))
    n = 6
    f, b, c, m = (line(img, n, mode, h) for mode in MODES[:4])
    st_ = {
        "gen_fd_fwd": (ren(f[2], {"l2": "b", "l3": "c"}), ["b", "c"]),
        "gen_fd_bwd": (ren(b[2], {"l1": "a", "l2": "b"}), ["a", "b"]),
        "gen_fd_cen": (ren(c[2], {"l1": "a", "l3": "c"}), ["a", "c"]),
        "gen_fcb_first": (ren(m[0], {"l0": "b", "l1": "c"}), ["b", "c"]),
        "gen_fcb_mid": (ren(m[2], {"l1": "a", "l3": "c"}), ["a", "c"]),
        "gen_fcb_last": (ren(m[n - 1], {f"l{n - 2}": "a", f"l{n - 1}": "b"}), ["a", "b"]),
    }
    for name, (e, vs) in st_.items():
        if set(e.free_vars()) - set(vs) - {"h"}:
            raise TraceError(f"{name}: stencil reaches beyond its neighbours: {e}")
    # every length, every position: the stencil at clamped neighbours
    for n_ in range(2, 10):
        L = [f"l{i}" for i in range(n_)]
        cl = lambda i: L[min(max(i, 0), n_ - 1)]
        for mode in MODES[:4]:
            got = line(img, n_, mode, h)
            for i in range(n_):
                if mode == "forward":
                    want = ren(st_["gen_fd_fwd"][0], {"b": L[i], "c": cl(i + 1)})
                elif mode == "backward":
                    want = ren(st_["gen_fd_bwd"][0], {"a": cl(i - 1), "b": L[i]})
                elif mode == "central":
                    want = ren(st_["gen_fd_cen"][0], {"a": cl(i - 1), "c": cl(i + 1)})
                elif i == 0:
                    want = ren(st_["gen_fcb_first"][0], {"b": L[0], "c": L[1]})
                elif i == n_ - 1:
                    want = ren(st_["gen_fcb_last"][0], {"a": L[n_ - 2], "b": L[n_ - 1]})
                else:
                    want = ren(st_["gen_fcb_mid"][0], {"a": L[i - 1], "c": L[i + 1]})
                if not sem_same(got[i], want):
                    raise TraceError(f"finite_differences({mode}), length {n_}, position {i}: {got[i]} is not {want}")
    # other axes, batch items with their own spacing
    for mode in MODES[:4]:
        data = sym((2, 1, 4, 3))
        hs = st.Tensor(np.array([E.var("h0"), E.var("h1")], dtype=object))
        r = img.finite_differences(data, 1, mode=mode, spacing=hs)
        r0 = img.finite_differences(data, "y", mode=mode, spacing=hs)
        if not trlib.same_tensor(r.a, r0.a):
            raise TraceError("sdim=1 and sdim='y' differ")
        for b_ in range(2):
            for x in range(3):
                got = [r.a[b_, 0, y, x] for y in range(4)]
                one = line(img, 4, mode, st.Tensor(np.array([E.var(f"h{b_}")], dtype=object)))
                want = [ren(e, {f"l{y}": f"c{b_}_0_{y}_{x}" for y in range(4)}) for e in one]
                if not all(sem_same(g, w) for g, w in zip(got, want)):
                    raise TraceError(f"finite_differences({mode}) along y / per-batch spacing is not the 1-D stencil")
    out = []
    for name, (e, vs) in st_.items():
        out.append(f"Definition {name} ({' '.join(vs)} h : K) : K :=\n  {st.to_coq(e)}.\n")
    return out, st_


# ------------------------------------------------------------------------------------------------
# 2. closed-form reference of spatial_derivatives (exact rationals) -- mirrors Model/FiniteDiff.v
# ------------------------------------------------------------------------------------------------
def fd_line(mode, l, h):
    n = len(l)
    cl = lambda i: l[min(max(i, 0), n - 1)]
    if mode == "forward":
        return [(cl(i + 1) - l[i]) / h for i in range(n)]
    if mode == "backward":
        return [(l[i] - cl(i - 1)) / h for i in range(n)]
    if mode == "central":
        return [(cl(i + 1) - cl(i - 1)) / (2 * h) for i in range(n)]
    return [(l[1] - l[0]) / h] + [(l[i + 1] - l[i - 1]) / (2 * h) for i in range(1, n - 1)] + [(l[n - 1] - l[n - 2]) / h]


def avg_line(k, l):
    """3-tap smoothing with replicate padding (clamped neighbours)"""
    n = len(l)
    z = lambda i: l[min(max(i, 0), n - 1)]
    return [k[0] * z(i - 1) + k[1] * l[i] + k[2] * z(i + 1) for i in range(n)]


def along(arr, axis, fn):
    """apply fn : list -> list along a numpy object-array axis"""
    out = np.empty(arr.shape, dtype=object)
    it = [range(s) for i, s in enumerate(arr.shape) if i != axis]
    for idx in itertools.product(*it):
        sl = list(idx)
        sl.insert(axis, slice(None))
        out[tuple(sl)] = fn(list(arr[tuple(sl)]))
    return out


def ref_deriv(arr, code, mode, spacing, kernels):
    """arr: object array of Fractions in tensor order (.., Y, X); code: letters; spacing per spatial dim (x, y, z)"""
    D = arr.ndim
    cur = arr
    for letter in sorted(code):
        sd = "xyz".index(letter)
        ax = D - 1 - sd
        if mode in ("prewitt", "sobel"):
            for d in range(D):
                if d != sd:
                    cur = along(cur, D - 1 - d, lambda l: avg_line(kernels[mode], l))
            cur = along(cur, ax, lambda l: fd_line("forward_central_backward", l, spacing[sd]))
        else:
            cur = along(cur, ax, lambda l: fd_line(mode, l, spacing[sd]))
    return cur


def avg_kernels(img):
    ks = {}
    for mode in ("prewitt", "sobel"):
        data = sym((1, 1, 3, 5))
        r = img.spatial_derivatives(data, which=["x"], mode=mode, spacing=1)["x"]
        e = r.a[0, 0, 1, 2]
        names = [v.args[0] for v in data.a.reshape(-1)]
        k = []
        for row in range(3):
            env = {nm: Fraction(0) for nm in names}
            env[f"c0_0_{row}_3"] = Fraction(1)
            k.append(fr_eval(e, env) * 2)
        ks[mode] = k
    return ks


def check_spatial_derivatives(img, kernels):
    rng = random.Random(5)
    for shape in ((5, 6), (4, 5, 5)):
        D = len(shape)
        letters = "xyz"[:D]
        first = list(letters)
        second = [a + b for a in letters for b in letters]
        for mode in MODES:
            for N, form in ((1, "none"), (1, "scalar"), (2, "axis"), (2, "batch")):
                if D == 3 and form in ("none", "axis") and mode not in ("forward_central_backward", "sobel"):
                    continue
                data = sym((N, 1) + shape)
                env = {v.args[0]: Fraction(rng.randint(-12, 12), 4) for v in data.a.reshape(-1)}
                spv = [[Fraction(rng.choice([1, 2, 3, 4]), rng.choice([1, 2, 4])) for _ in range(D)] for _ in range(N)]
                if form == "none":
                    spacing, spv = None, [[Fraction(1)] * D] * N
                elif form == "scalar":
                    spacing, spv = spv[0][0], [[spv[0][0]] * D] * N
                elif form == "axis":
                    spacing, spv = st.Tensor(st._lift_array(spv[0])), [spv[0]] * N
                else:
                    spacing = st.Tensor(st._lift_array(spv))
                which = rng.sample(first + second, rng.randint(2, 5)) if D == 2 else rng.sample(first + second, 3)
                which = which + [which[0]]
                r = img.spatial_derivatives(data, which=which, mode=mode, spacing=spacing)
                if list(r.keys()) != list(dict.fromkeys(which)):
                    raise TraceError(f"spatial_derivatives({mode}): keys {list(r.keys())} for which={which}")
                for key, val in r.items():
                    if val.shape != (N, 1) + shape:
                        raise TraceError(f"spatial_derivatives({mode})[{key}] has shape {val.shape}")
                    for b_ in range(N):
                        arr = np.empty(shape, dtype=object)
                        for idx in np.ndindex(shape):
                            arr[idx] = env[data.a[(b_, 0) + idx].args[0]]
                        want = ref_deriv(arr, key, mode, spv[b_], kernels)
                        for idx in np.ndindex(shape):
                            if fr_eval(val.a[(b_, 0) + idx], env) != want[idx]:
                                raise TraceError(f"spatial_derivatives(mode={mode}, D={D}, spacing form {form})[{key}] at {idx} "
                                                 "differs from the closed-form composition of stencils")
        # order= argument and which=None
        data = sym((1, 1) + shape)
        r1 = img.spatial_derivatives(data, mode="central", spacing=1)
        if list(r1.keys()) != first:
            raise TraceError(f"default derivative keys {list(r1.keys())}")
        r2 = img.spatial_derivatives(data, order=2, mode="central", spacing=1)
        if list(r2.keys()) != second:
            raise TraceError(f"order=2 derivative keys {list(r2.keys())}")
        r3 = img.spatial_derivatives(data, which=first + second, order=2, mode="central", spacing=1)
        if list(r3.keys()) != second:
            raise TraceError("which + order does not filter by order")
        for k in second:
            if not trlib.same_tensor(r2[k].a, r3[k].a):
                raise TraceError("order=2 and explicit keys disagree")
            if not trlib.same_tensor(r2[k].a, r2["".join(sorted(k))].a):
                raise TraceError("mixed derivative depends on the spelling of its key")


# ------------------------------------------------------------------------------------------------
# 2b. mode='gaussian': Gaussian kernels are replaced by symbolic 3-tap kernels (k0 = smoothing, k1 = derivative of
#     Gaussian); the branch must be "for every letter of the sorted key: correlate every axis with k0, the differentiated
#     axis with k1 (replicate padding), divide by the spacing OF THAT AXIS"
# ------------------------------------------------------------------------------------------------
def corr_line(k, l):
    n = len(l)
    c = lambda i: l[min(max(i, 0), n - 1)]
    return [k[0] * c(i - 1) + k[1] * l[i] + k[2] * c(i + 1) for i in range(n)]


def ref_gauss(arr, code, spacing, k0, k1):
    D = arr.ndim
    cur = arr
    for letter in sorted(code):
        sd = "xyz".index(letter)
        for d in range(D):
            cur = along(cur, D - 1 - d, lambda l, kk=(k1 if d == sd else k0): corr_line(kk, l))
        cur = cur / spacing[sd] if False else np.vectorize(lambda v: v / spacing[sd], otypes=[object])(cur)
    return cur


def check_gaussian_mode(img):
    rng = random.Random(9)
    calls = []

    def g0(sigma, *a, normalize=True, **kw):
        calls.append(("g0", sigma, normalize))
        return st.Tensor(np.array([E.var(f"k0_{i}") for i in range(3)], dtype=object))

    def g1(sigma, *a, normalize=True, **kw):
        calls.append(("g1", sigma, normalize))
        return st.Tensor(np.array([E.var(f"k1_{i}") for i in range(3)], dtype=object))

    with patched(img, "gaussian1d", g0), patched(img, "gaussian1d_I", g1):
        for shape in ((3, 4), (3, 3, 3)):
            D = len(shape)
            letters = "xyz"[:D]
            for N, form in ((1, "axis"), (2, "batch"), (1, "scalar"), (1, "none")):
                data = sym((N, 1) + shape)
                names = [v.args[0] for v in data.a.reshape(-1)]
                env = {nm: Fraction(rng.randint(-9, 9), 2) for nm in names}
                kenv = {f"k{j}_{i}": Fraction(rng.randint(1, 7), rng.choice([2, 3, 5])) for j in (0, 1) for i in range(3)}
                env.update(kenv)
                spv = [[Fraction(rng.choice([1, 2, 3, 5]), rng.choice([1, 2, 4])) for _ in range(D)] for _ in range(N)]
                for r_ in spv:  # pairwise different spacings along the axes, so that a wrong axis shows
                    for i in range(1, D):
                        while r_[i] in r_[:i]:
                            r_[i] += 1
                if form == "none":
                    spacing, spv = None, [[Fraction(1)] * D] * N
                elif form == "scalar":
                    spacing, spv = spv[0][0], [[spv[0][0]] * D] * N
                elif form == "axis":
                    spacing, spv = st.Tensor(st._lift_array(spv[0])), [spv[0]] * N
                else:
                    spacing = st.Tensor(st._lift_array(spv))
                which = list(letters) + [letters[-1] + letters[0], letters[0] * 2]
                r = img.spatial_derivatives(data, which=which, mode="gaussian", spacing=spacing)
                if list(r.keys()) != which:
                    raise TraceError(f"spatial_derivatives(gaussian): keys {list(r.keys())}")
                k0 = [kenv[f"k0_{i}"] for i in range(3)]
                k1 = [kenv[f"k1_{i}"] for i in range(3)]
                for key, val in r.items():
                    if val.shape != (N, 1) + shape:
                        raise TraceError(f"spatial_derivatives(gaussian)[{key}] has shape {val.shape}")
                    for b_ in range(N):
                        arr = np.empty(shape, dtype=object)
                        for idx in np.ndindex(shape):
                            arr[idx] = env[data.a[(b_, 0) + idx].args[0]]
                        want = ref_gauss(arr, key, spv[b_], k0, k1)
                        for idx in np.ndindex(shape):
                            if fr_eval(val.a[(b_, 0) + idx], env) != want[idx]:
                                raise TraceError(f"spatial_derivatives(mode=gaussian, D={D}, spacing form {form})[{key}] at {idx} is not "
                                                 "'correlate every axis (derivative kernel on the differentiated one), divide by the spacing "
                                                 "of the differentiated axis'")
    if not calls or any(c[2] is not False for c in calls):
        raise TraceError("gaussian mode does not build its kernels with normalize=False")

# ------------------------------------------------------------------------------------------------
# 3. flow_derivatives: key parsing, grouping, de-duplication
# ------------------------------------------------------------------------------------------------
def expand_keys(D, which):
    out = []
    for w in which:
        if w.startswith("d"):
            ch, der = w[1:].split("/d")
            out += [f"d{c}/d{der}" for c in ch]
        else:
            out += [f"d{c}/d{w}" for c in "uvw"[:D]]
    return out


def check_flow_derivatives(flow_mod):
    rng = random.Random(11)
    for D, shape in ((2, (4, 5)), (3, (3, 4, 4))):
        letters = "xyz"[:D]
        chans = "uvw"[:D]
        flow = sym((1, D) + shape, "f")
        sp = st.Tensor(st._lift_array([Fraction(1, 2), Fraction(2), Fraction(3, 4)][:D]))
        for mode in ("forward_central_backward", "sobel", "central") if D == 2 else ("forward_central_backward",):
            codes = list(letters) + [a + b for a in letters for b in letters]
            allkeys = [f"d{c}/d{k}" for c in chans for k in codes]
            full = flow_mod.flow_derivatives(flow, which=allkeys, mode=mode, spacing=sp)
            if list(full.keys()) != allkeys:
                raise TraceError("flow_derivatives: keys of the full request")
            for c_i, c in enumerate(chans):  # mixed derivatives are symmetric, component c reads channel c only
                for a, b in itertools.combinations(letters, 2):
                    if not trlib.same_tensor(full[f"d{c}/d{a + b}"].a, full[f"d{c}/d{b + a}"].a):
                        raise TraceError("mixed flow derivative depends on the order of its letters")
                for k in codes:
                    for e in full[f"d{c}/d{k}"].a.reshape(-1):
                        if any(not v.startswith(f"f0_{c_i}_") for v in e.free_vars()):
                            raise TraceError(f"d{c}/d{k} reads another component")
            subsets = [["x"], ["du/dx", "dv/dy"], [f"d{chans}/d{letters[-1]}{letters[0]}", "y"],
                       ["dv/dxy", "dv/dyx", "du/dyy", "dv/dxy"], ["xx", "du/dx"]]
            for _ in range(4):
                subsets.append(rng.sample(allkeys, rng.randint(1, 5)))
            for which in subsets:
                got = flow_mod.flow_derivatives(flow, which=which, mode=mode, spacing=sp)
                want_keys = list(dict.fromkeys(expand_keys(D, which)))
                if list(got.keys()) != want_keys:
                    raise TraceError(f"flow_derivatives(which={which}) returns keys {list(got.keys())}, expected {want_keys}")
                for k, v in got.items():
                    if not trlib.same_tensor(v.a, full[k].a):
                        raise TraceError(f"flow_derivatives(which={which})[{k}] differs from the value in the full request")
            # order filter
            got = flow_mod.flow_derivatives(flow, which=allkeys, order=2, mode=mode, spacing=sp)
            if list(got.keys()) != [k for k in allkeys if len(k.split('/d')[1]) == 2]:
                raise TraceError("flow_derivatives(order=2) does not filter by order")
            got = flow_mod.flow_derivatives(flow, mode=mode, spacing=sp)
            if list(got.keys()) != [f"d{c}/d{l}" for c in chans for l in letters]:
                raise TraceError("flow_derivatives default keys are not the Jacobian entries")
        # default spacing: normalised cube, 2 / (n - 1) per axis
        a = flow_mod.flow_derivatives(flow, which=["x"], mode="central")
        b = flow_mod.flow_derivatives(flow, which=["x"], mode="central",
                                      spacing=st.Tensor(st._lift_array([Fraction(2, n - 1) for n in reversed(shape)])))
        for k in a:
            env = {v.args[0]: Fraction(i % 7 - 3, 2) for i, v in enumerate(flow.a.reshape(-1))}
            for x, y in zip(a[k].a.reshape(-1), b[k].a.reshape(-1)):
                if fr_eval(x, env) != fr_eval(y, env):
                    raise TraceError("default spacing of flow_derivatives is not 2 / (n - 1) per axis")


# ------------------------------------------------------------------------------------------------
# 4. formulas over symbolic derivative entries
# ------------------------------------------------------------------------------------------------
loader_ref = [None]


def formulas_section(flow_mod):
    out = []
    requested = []

    def make_stub(prefixes):
        def stub(flow, which=None, order=None, mode=None, sigma=None, spacing=None, stride=None):
            p = prefixes[id(flow)]
            D = flow.shape[1]
            keys = which if which is not None else [f"d{c}/d{l}" for c in "uvw"[:D] for l in "xyz"[:D]]
            requested.append(list(keys))
            res = {}
            for k in keys:
                c, l = k[1], k.split("/d")[1]
                if len(l) != 1:
                    raise TraceError("formula requests a higher-order derivative")
                e = np.empty((1, 1) + (1,) * D, dtype=object)
                e[...] = E.var(f"{p}{'uvw'.index(c)}{'xyz'.index(l)}")
                res[k] = st.Tensor(e)
            return res
        return stub

    def field(D, p):
        a = np.empty((1, D) + (1,) * D, dtype=object)
        for i in range(D):
            a[(0, i) + (0,) * D] = E.var(f"{p}{i}")
        return st.Tensor(a)

    for D in (2, 3):
        u = field(D, "u")
        jn = [f"j{i}{k}" for i in range(D) for k in range(D)]
        with patched(flow_mod, "flow_derivatives", make_stub({id(u): "j"})):
            for ident, nm in ((False, f"gen_det{D}"), (True, f"gen_det{D}_id")):
                r = flow_mod.jacobian_det(u, add_identity=ident)
                if r.shape != (1, 1) + (1,) * D:
                    raise TraceError("jacobian_det shape")
                out.append(f"(* jacobian_det(add_identity={ident}), D = {D}; j_ik = d u_i / d x_k *)\n"
                           f"Definition {nm} ({' '.join(jn)} : K) : K :=\n  {st.to_coq(r.a.reshape(-1)[0])}.\n")
            r = flow_mod.divergence(u)
            if r.shape != (1, 1) + (1,) * D:
                raise TraceError("divergence shape")
            out.append(f"Definition gen_div{D} ({' '.join(jn)} : K) : K :=\n  {st.to_coq(r.a.reshape(-1)[0])}.\n")
            r = flow_mod.curl(u)
            want = 1 if D == 2 else 3
            if r.shape != (1, want) + (1,) * D:
                raise TraceError("curl shape")
            out.append(f"Definition gen_curl{D} ({' '.join(jn)} : K) : list K :=\n  [" +
                       "; ".join(st.to_coq(e) for e in r.a.reshape(-1)) + "].\n")
            # jacobian_dict / jacobian_matrix layout
            for ident in (False, True):
                jd = flow_mod.jacobian_dict(u, add_identity=ident)
                jm = flow_mod.jacobian_matrix(u, add_identity=ident)
                if jm.shape != (1,) + (1,) * D + (D, D):
                    raise TraceError(f"jacobian_matrix shape {jm.shape}")
                for i in range(D):
                    for k in range(D):
                        want_e = E.var(f"j{i}{k}") + (1 if (ident and i == k) else 0)
                        if not jm.a[(0,) + (0,) * D + (i, k)].same(want_e) or not jd[(i, k)].a.reshape(-1)[0].same(want_e):
                            raise TraceError("jacobian_matrix / jacobian_dict entry [i, k] is not d u_i / d x_k (+ identity)")
        v = field(D, "v")
        with patched(flow_mod, "flow_derivatives", make_stub({id(u): "ju", id(v): "jv"})):
            r = flow_mod.lie_bracket(v, u)
            if r.shape != (1, D) + (1,) * D:
                raise TraceError("lie_bracket shape")
            args = [f"jv{i}{k}" for i in range(D) for k in range(D)] + [f"ju{i}{k}" for i in range(D) for k in range(D)] + \
                   [f"v{i}" for i in range(D)] + [f"u{i}" for i in range(D)]
            out.append(f"(* lie_bracket(v, u), D = {D}: jv = Jacobian of the first argument, ju of the second *)\n"
                       f"Definition gen_lie{D} ({' '.join(args)} : K) : list K :=\n  [" +
                       "; ".join(st.to_coq(e) for e in r.a.reshape(-1)) + "].\n")
            # mode='bspline': the Jacobians live on the evaluated (output) grid, so u and v must be evaluated there too
            bsm = loader_ref[0].load("deepali.core.bspline")
            evals = []

            def ev_stub(data, stride=None, **kw):
                if kw:
                    raise TraceError(f"lie_bracket(mode='bspline') evaluates the fields with unexpected options {kw}")
                pfx = {id(u): "u", id(v): "v"}.get(id(data))
                if pfx is None:
                    raise TraceError("lie_bracket(mode='bspline') evaluates something else than its arguments")
                evals.append((pfx, stride))
                return field(D, pfx + "e")

            strides = tuple(range(2, 2 + D))
            with patched(bsm, "evaluate_cubic_bspline", ev_stub):
                rb = flow_mod.lie_bracket(v, u, mode="bspline", stride=strides)
            if sorted(evals) != [("u", strides), ("v", strides)]:
                raise TraceError(f"lie_bracket(mode='bspline') evaluates {evals}, expected u and v with the given stride")
            for i in range(D):
                want_e = ren(r.a.reshape(-1)[i], dict([(f"u{k}", f"ue{k}") for k in range(D)] + [(f"v{k}", f"ve{k}") for k in range(D)]))
                if not sem_same(rb.a.reshape(-1)[i], want_e):
                    raise TraceError("lie_bracket(mode='bspline') is not Jac(v) u - Jac(u) v with u, v evaluated on the output grid")
            # the inputs must not be modified
            for i in range(D):
                if not u.a[(0, i) + (0,) * D].same(E.var(f"u{i}")) or not v.a[(0, i) + (0,) * D].same(E.var(f"v{i}")):
                    raise TraceError("lie_bracket modifies its arguments")
    return out


def check_conv1d_padding(img, enum_mod):
    """core.image.conv1d: int padding = zero padding of that margin; PaddingMode.NONE = no padding; ZEROS / REPLICATE = 'same'
    padding with zeros / replicated boundary values, along any tensor axis"""
    PM = enum_mod.PaddingMode
    for K_ in (3, 5):
        ker = st.Tensor(np.array([E.var(f"k{i}") for i in range(K_)], dtype=object))
        r_ = K_ // 2
        for shape, dim in (((1, 1, 6), 2), ((1, 2, 3, 5), 3), ((1, 1, 5, 2), 2)):
            data = sym(shape)
            n = shape[dim]
            for pad, kind in ((PM.REPLICATE, "rep"), (PM.ZEROS, "zero"), (PM.NONE, "none"), (r_, "zero"), (0, "none"), ("replicate", "rep")):
                out = img.conv1d(data, ker, dim=dim, padding=pad)
                n_out = n if kind != "none" else n - K_ + 1
                want_shape = tuple(n_out if a == dim else s_ for a, s_ in enumerate(shape))
                if out.shape != want_shape:
                    raise TraceError(f"conv1d(padding={pad}) output shape {out.shape}, expected {want_shape}")
                for idx in np.ndindex(want_shape):
                    terms = E.const(0)
                    for t in range(K_):
                        j = idx[dim] + t - (0 if kind == "none" else r_)
                        if kind == "rep":
                            j = min(max(j, 0), n - 1)
                        if 0 <= j < n:
                            src = list(idx)
                            src[dim] = j
                            terms = terms + E.var(f"k{t}") * data.a[tuple(src)]
                    if not sem_same(out.a[idx], terms):
                        raise TraceError(f"conv1d(padding={pad}, dim={dim}) at {idx} is not the {kind}-padded correlation")


def check_integer_data(img):
    """finite_differences / spatial_derivatives on integer data: the spacing must be converted to a floating point type (the
    data are cast to float first), never to the integer dtype of the data"""
    seen = []
    orig = img.as_tensor

    def rec(arg, dtype=None, device=None):
        seen.append(dtype)
        return orig(arg, dtype=dtype, device=device)

    data = st.Tensor(sym((1, 1, 3, 4)).a, dtype=st.int64)
    with patched(img, "as_tensor", rec):
        for mode in MODES[:4]:
            seen.clear()
            r = img.finite_differences(data, 0, mode=mode, spacing=0.5)
            if not seen or any(dt is None or not dt.is_floating_point for dt in seen):
                raise TraceError(f"finite_differences({mode}) on integer data converts the spacing to {seen} (must be a floating point dtype)")
            if not r.dtype.is_floating_point:
                raise TraceError("finite_differences on integer data does not return floating point values")
            ref = img.finite_differences(st.Tensor(data.a, dtype=st.float32), 0, mode=mode, spacing=0.5)
            if not trlib.same_tensor(r.a, ref.a):
                raise TraceError("finite_differences on integer data differs from the result on the same data as float")


def check_flowfields_curl(loader):
    """data/flow.py FlowFields.curl / FlowField.curl (function bodies taken from the source text, run on recording stand-ins):
    the spacing handed to core.flow.curl defaults to the distance of neighbouring grid points in the axes of the flow vectors
    (GRID: 1, WORLD: grid spacing, CUBE: 2 / n, CUBE_CORNERS: 2 / (n - 1)); an explicit spacing and mode / sigma / stride are
    passed through; only 2-D and 3-D fields are accepted; FlowField.curl is the first item of the batch method"""
    import ast
    import os
    path = os.path.join(loader.root, "deepali", "data", "flow.py")
    tree = ast.parse(open(path).read())
    grid_mod = loader.load("deepali.core.grid")
    Axes = grid_mod.Axes
    calls = []

    class UStub:
        @staticmethod
        def curl(tensor, **kw):
            calls.append((tensor, kw))
            return "ROT"

    def extract(cls_name, fn_name, ns):
        cls = [n for n in tree.body if isinstance(n, ast.ClassDef) and n.name == cls_name]
        fns = [n for n in (cls[0].body if cls else []) if isinstance(n, ast.FunctionDef) and n.name == fn_name]
        if len(fns) != 1:
            raise TraceError(f"{cls_name}.{fn_name} not found in data/flow.py")
        node = fns[0]
        node.decorator_list = []
        node.returns = None
        for a_ in node.args.args:
            a_.annotation = None
        mod = ast.Module(body=[node], type_ignores=[])
        ast.fix_missing_locations(mod)
        exec(compile(mod, path, "exec"), ns)
        return ns[fn_name]

    made = []

    def image_batch(data, grid):
        made.append((data, grid))
        return ("BATCH", data, grid)

    ns = {"U": UStub, "Axes": Axes, "ImageBatch": image_batch}
    batch_curl = extract("FlowFields", "curl", dict(ns))
    single_curl = extract("FlowField", "curl", dict(ns))

    class GridStub:
        def __init__(self, size):
            self._size = size

        def size(self):
            return self._size

    class FF:
        curl = batch_curl

        def __init__(self, sdim, axes, size):
            self.sdim, self._axes, self._grid = sdim, axes, ("GRIDS", size)
            self._g = GridStub(size)

        def axes(self):
            return self._axes

        def grid(self):
            return self._g

        def spacing(self):
            return "SPACING"

        def tensor(self):
            return "TENSOR"

    for size in ((7, 5), (6, 4, 9)):
        D = len(size)
        for ax in Axes:
            want = {Axes.GRID: 1, Axes.WORLD: "SPACING", Axes.CUBE: tuple(Fraction(2, n) for n in size),
                    Axes.CUBE_CORNERS: tuple(Fraction(2, n - 1) for n in size)}[ax]
            calls.clear()
            made.clear()
            r = FF(D, ax, size).curl()
            if len(calls) != 1 or calls[0][0] != "TENSOR":
                raise TraceError("FlowFields.curl does not call core.flow.curl once on the flow tensor")
            sp = calls[0][1].get("spacing")
            if isinstance(want, tuple):
                ok = isinstance(sp, (tuple, list)) and len(sp) == D and all(abs(Fraction(a_).limit_denominator(10 ** 6) - b_) < Fraction(1, 10 ** 9) for a_, b_ in zip(sp, want))
            else:
                ok = sp == want
            if not ok:
                raise TraceError(f"FlowFields.curl with {ax} vectors on a grid of size {size} uses spacing {sp}, expected {want}")
            if calls[0][1].get("mode") is not None or calls[0][1].get("sigma") is not None or calls[0][1].get("stride") is not None:
                raise TraceError("FlowFields.curl does not pass mode / sigma / stride through unchanged")
            if r != ("BATCH", "ROT", ("GRIDS", size)):
                raise TraceError("FlowFields.curl does not return the rotation field on the grids of the flow fields")
            calls.clear()
            FF(D, ax, size).curl(mode="sobel", sigma=0.5, spacing=(3, 4, 5)[:D], stride=2)
            if calls[0][1] != {"mode": "sobel", "sigma": 0.5, "spacing": (3, 4, 5)[:D], "stride": 2}:
                raise TraceError(f"FlowFields.curl passes {calls[0][1]} for explicit arguments")
    for bad in (1, 4):
        try:
            FF(bad, Axes.GRID, (5,) * bad).curl()
        except RuntimeError:
            continue
        raise TraceError(f"FlowFields.curl accepts a {bad}-dimensional flow field")

    class One:
        curl = single_curl

        def batch(self):
            class B_:
                def curl(self, **kw):
                    calls.append(("batch", kw))
                    return ["ITEM0", "ITEM1"]
            return B_()

    calls.clear()
    if One().curl(mode="central", spacing=2) != "ITEM0" or calls != [("batch", {"mode": "central", "sigma": None, "spacing": 2, "stride": None})]:
        raise TraceError("FlowField.curl is not item 0 of FlowFields.curl with the same arguments")


def generate(loader):
    img = loader.load("deepali.core.image")
    flow_mod = loader.load("deepali.core.flow")
    loader_ref[0] = loader
    out = ["Section Gen.", "Context {K : fld}.", ""]
    with simple_float_literals(), int_tolist():
        s, _ = stencil_section(img)
        check_conv1d_padding(img, loader.load("deepali.core.enum"))
        check_integer_data(img)
        check_flowfields_curl(loader)
        kernels = avg_kernels(img)
        check_spatial_derivatives(img, kernels)
        check_gaussian_mode(img)
        check_flow_derivatives(flow_mod)
        f = formulas_section(flow_mod)
    out += s
    for mode in ("prewitt", "sobel"):
        k = kernels[mode]
        body = " + ".join(f"{st.to_coq(E.const(c))} * {v}" for c, v in zip(k, "abc"))
        out.append(f"(* smoothing across the other axes in mode '{mode}' (replicate padded: clamped neighbours) *)\n"
                   f"Definition gen_avg_{mode} (a b c : K) : K :=\n  {body}.\n")
    out += f
    out.append("End Gen.\n")
    return "\n".join(out)
