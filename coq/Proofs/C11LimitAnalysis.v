(* Real-analysis core for the convergence of scaling and squaring: for a function f differentiable at x0 with derivative d,
   c_k (f (x0 + w_k) - f x0) -> l d whenever w_k -> 0 and c_k w_k -> l (no "eventually non-zero" side condition); hence
   (1 + w_k)^(2^k) -> exp l  and  2^k atan(u_k) -> l. *)
From Coq Require Import Reals Lra Lia.
From Coquelicot Require Import Coquelicot.
From DV Require Import Proofs.C11Limit.
Local Open Scope R_scope.

(* difference quotient of f at x0, continued by d at 0 *)
Definition dqx (f : R -> R) (x0 d x : R) : R := if Req_EM_T x 0 then d else (f (x0 + x) - f x0) / x.

Lemma dqx_0 f x0 d : dqx f x0 d 0 = d.
Proof. unfold dqx. destruct (Req_EM_T 0 0) as [_ | F]; [reflexivity | contradiction]. Qed.

Lemma dqx_continuous f x0 d : derivable_pt_lim f x0 d -> continuity_pt (dqx f x0 d) 0.
Proof.
  intros Hd eps Heps. destruct (Hd eps Heps) as [delta Hdl]. exists delta. split; [apply cond_pos|].
  intros x [[_ Hne] Hdist]. cbn in Hdist |- *. unfold R_dist in *. rewrite dqx_0. rewrite Rminus_0_r in Hdist.
  unfold dqx. destruct (Req_EM_T x 0) as [E | _]; [symmetry in E; contradiction|].
  apply Hdl; [intro E; apply Hne; symmetry; exact E | exact Hdist].
Qed.

Lemma dqx_eq f x0 d x : f (x0 + x) - f x0 = x * dqx f x0 d x.
Proof.
  unfold dqx. destruct (Req_EM_T x 0) as [-> | Hne].
  - rewrite Rplus_0_r. ring.
  - field. exact Hne.
Qed.

Theorem scaled_increment_limit (f : R -> R) (x0 d l : R) (c w : nat -> R) :
  derivable_pt_lim f x0 d -> is_lim_seq w 0 -> is_lim_seq (fun k => c k * w k) l ->
  is_lim_seq (fun k => c k * (f (x0 + w k) - f x0)) (l * d).
Proof.
  intros Hd Hw Hcw.
  apply is_lim_seq_ext with (fun k => (c k * w k) * dqx f x0 d (w k)).
  - intro k. rewrite (dqx_eq f x0 d (w k)). ring.
  - apply is_lim_seq_mult'; [exact Hcw|].
    pose proof (is_lim_seq_continuous (dqx f x0 d) w 0 (dqx_continuous f x0 d Hd) Hw) as Lc.
    rewrite dqx_0 in Lc. exact Lc.
Qed.

(* (1 + w_k)^(2^k) -> exp l  when  w_k -> 0  and  2^k w_k -> l *)
Theorem pow_exp_limit (w : nat -> R) (l : R) :
  is_lim_seq w 0 -> is_lim_seq (fun k => 2 ^ k * w k) l ->
  is_lim_seq (fun k : nat => (1 + w k) ^ (2 ^ k)) (exp l).
Proof.
  intros Hw Hcw.
  assert (L : is_lim_seq (fun k => 2 ^ k * (ln (1 + w k) - ln 1)) (l * 1)).
  { apply (scaled_increment_limit ln 1 1 l (fun k => 2 ^ k) w); [|exact Hw|exact Hcw].
    replace 1 with (/ 1) at 2 by field. apply derivable_pt_lim_ln. lra. }
  rewrite Rmult_1_r in L.
  assert (L' : is_lim_seq (fun k => exp (2 ^ k * (ln (1 + w k) - ln 1))) (exp l)).
  { apply (is_lim_seq_continuous exp _ l); [|exact L]. apply derivable_continuous_pt. apply derivable_pt_exp. }
  pose proof Hw as Hw'. apply is_lim_seq_spec in Hw'. destruct (Hw' (mkposreal 1 Rlt_0_1)) as [N HN].
  apply is_lim_seq_ext_loc with (fun k => exp (2 ^ k * (ln (1 + w k) - ln 1))); [|exact L'].
  exists N. intros k Hk. specialize (HN k Hk). cbn in HN. rewrite Rminus_0_r in HN. apply Rabs_def2 in HN.
  assert (Hpos : 0 < 1 + w k) by lra.
  rewrite <- (exp_ln ((1 + w k) ^ (2 ^ k))) by (apply pow_lt; exact Hpos).
  f_equal. rewrite ln_pow by exact Hpos. rewrite pow_INR, ln_1. change (INR 2) with 2. ring.
Qed.

(* 2^k atan(u_k) -> l  when  u_k -> 0  and  2^k u_k -> l *)
Theorem scaled_atan_limit (u : nat -> R) (l : R) :
  is_lim_seq u 0 -> is_lim_seq (fun k => 2 ^ k * u k) l ->
  is_lim_seq (fun k : nat => 2 ^ k * atan (u k)) l.
Proof.
  intros Hu Hcu.
  assert (L : is_lim_seq (fun k => 2 ^ k * (atan (0 + u k) - atan 0)) (l * 1)).
  { apply (scaled_increment_limit atan 0 1 l (fun k => 2 ^ k) u); [|exact Hu|exact Hcu].
    replace 1 with (/ (1 + 0 ^ 2)) by (field; lra). apply derivable_pt_lim_atan. }
  rewrite Rmult_1_r in L.
  apply is_lim_seq_ext with (2 := L). intro k. rewrite atan_0, Rplus_0_l. ring.
Qed.

(* 1 + a / 2^k -> 1 *)
Lemma lim_one_plus_half_pow (a : R) : is_lim_seq (fun k : nat => 1 + a / 2 ^ k) 1.
Proof.
  pose proof (is_lim_seq_plus' (fun _ => 1) (fun k => a / 2 ^ k) 1 0 (is_lim_seq_const 1) (lim_half_pow a)) as L.
  rewrite Rplus_0_r in L. exact L.
Qed.
