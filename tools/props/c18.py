"""C18 -- images and flow fields survive a write/read round trip in every supported format."""
import itertools
import json
import math
import os
from concurrent.futures import ThreadPoolExecutor
from fractions import Fraction

import numpy as np

import vlib
from vlib import Violation, qc, qc_mat, qc_vec, coq_list

ID = "C18"
GEN_UNITS = ["Codec"]
PROPS_FILE = "Props/C18.v"
PROPS_MOD = "Props.C18"
COQ_TARGETS = ["Props/C18.vo", "Model/CodecCheck.vo"]
SOURCES = ["deepali/utils/imageio/__init__.py", "deepali/utils/imageio/meta.py", "deepali/utils/imageio/nifti.py",
           "deepali/utils/imageio/sitk.py", "deepali/utils/simpleitk/torch.py", "deepali/utils/simpleitk/imageio.py",
           "deepali/data/image.py", "deepali/data/flow.py", "deepali/core/grid.py"]
TRUSTED = [
    "Coq 8.16.1 kernel + vm_compute",
    "translator tools/tr_units/codec_trace.py: runs deepali's own I/O functions on symbolic / position-coded values with nibabel, "
    "StorageObject and Grid construction replaced by recorders (validated by this run's correspondence on real files)",
    "modelled not verified: byte encodings, zlib, MetaImage header text, nibabel (incl. 'affine must be 4x4', pixdim from column norms), "
    "ITK/SimpleITK readers and writers -- their conventions enter as itk_read_mha / itk_write_mha / itk_write_nii (Model/Codec.v), "
    "checked only against real files written and read in this run",
    "float32 storage of Grid attributes and origin<->center conversion (C01/C03): geometry compared to 1e-5, voxel data exactly",
]
ASSUMPTIONS = [
    "the I/O code is parametric in the channel count beyond distinguishing C = 1 from C > 1 (status tables traced for C = 1, 2, 3; "
    "C = 2 and C = 3 rows checked to agree)",
    "NIfTI reader: values snapped to 0 below machine epsilon are outside the model (generic branch traced)",
    "Grid(size, origin, spacing, direction) returns the same origin/spacing/direction it was given (C01/C03; checked numerically here)",
]

FORMATS = [".mha", ".mhd", ".nii", ".nii.gz", ".nrrd"]
FAMILY = {".mha": "mha", ".mhd": "mhd", ".nii": "nifti", ".nii.gz": "nifti", ".nrrd": "nrrd"}
KIND_OF = {".mha": "meta", ".mhd": "sitk", ".nii": "nifti", ".nii.gz": "nifti", ".nrrd": "sitk"}
DTYPES = ["uint8", "int16", "int32", "float32", "float64"]
NPTY = {"uint8": "U8", "int8": "I8", "int16": "I16", "uint16": "U16", "int32": "I32", "uint32": "U32", "int64": "I64",
        "uint64": "U64", "float32": "F32", "float64": "F64"}
RANGE = {"uint8": (0, 255), "int16": (-32768, 32767), "int32": (-2 ** 31, 2 ** 31 - 1)}
AXES = ["grid", "cube", "cube_corners", "world"]
LAYOUTS = ["contiguous", "fortran", "strided"]
TOL = "1 # 100000"
_CACHE = {}


def f32(x):
    return float(np.float32(x))


# ------------------------------------------------------------------------------------------------
# generators
# ------------------------------------------------------------------------------------------------
def rand_direction(rng, D):
    if D == 2:
        a, b, c = rng.choice([(3, 4, 5), (5, 12, 13), (8, 15, 17), (0, 1, 1), (1, 0, 1), (20, 21, 29)])
        co, si = Fraction(a, c), Fraction(b, c)
        if rng.random() < 0.5:
            si = -si
        R = [[co, -si], [si, co]]
    else:
        while True:
            w, x, y, z = [rng.randint(-3, 3) for _ in range(4)]
            n = w * w + x * x + y * y + z * z
            if n:
                break
        R = [[Fraction(w * w + x * x - y * y - z * z, n), Fraction(2 * (x * y - w * z), n), Fraction(2 * (x * z + w * y), n)],
             [Fraction(2 * (x * y + w * z), n), Fraction(w * w - x * x + y * y - z * z, n), Fraction(2 * (y * z - w * x), n)],
             [Fraction(2 * (x * z - w * y), n), Fraction(2 * (y * z + w * x), n), Fraction(w * w - x * x - y * y + z * z, n)]]
    if rng.random() < 0.3:          # reflect an axis (|det| = 1 is all Grid asks for)
        j = rng.randrange(D)
        for r in R:
            r[j] = -r[j]
    if rng.random() < 0.3:          # permute axes
        p = list(range(D))
        rng.shuffle(p)
        R = [[r[j] for j in p] for r in R]
    return [[f32(v) for v in r] for r in R]


def rand_grid(rng, D):
    size = [rng.randint(2, 4) for _ in range(D)]
    if rng.random() < 0.08:
        size[-1] = 1
    sp = rng.sample([0.5, 0.75, 1.0, 1.25, 1.5, 2.0, 2.5, f32(0.8), f32(0.3), 3.0], D)
    org = [rng.randint(-200, 200) / 4 if rng.random() < 0.8 else f32(rng.uniform(-100, 100)) for _ in range(D)]
    return {"size": size, "origin": org, "spacing": sp, "direction": rand_direction(rng, D), "align_corners": rng.random() < 0.5}


def rand_values(rng, dtype, n):
    if dtype in RANGE:
        lo, hi = RANGE[dtype]
        v = [rng.randint(lo, hi) for _ in range(n)]
        for k, e in zip(rng.sample(range(n), min(n, 3)), (lo, hi, 0)):
            v[k] = e
        return v
    v = [rng.randint(-2 ** 13, 2 ** 13) / 8 for _ in range(n)]
    special = [3.4028234663852886e38, -3.4028234663852886e38, 2.0 ** -149, 0.1 if dtype == "float64" else f32(0.1), -0.0]
    for k, e in zip(rng.sample(range(n), min(n, 3)), rng.sample(special, 3)):
        v[k] = e
    return v


def all_configs():
    return list(itertools.product(FORMATS, (2, 3), (1, 2, 3), DTYPES, (True, False)))


def pick_configs(rng, n):
    """stratified slice: every (format, D, scalar/multi) cell first, then random; dtype and compress cycle"""
    cfgs = all_configs()
    rng.shuffle(cfgs)
    seen, out, rest = set(), [], []
    for c in cfgs:
        cell = (c[0], c[1], c[2] > 1)
        if cell not in seen:
            seen.add(cell)
            out.append(c)
        else:
            rest.append(c)
    # make sure every dtype and both compress values appear in the first pass
    out += rest[: max(0, n - len(out))]
    return out[:max(n, len(seen))]


def mk_case(rng, kind, fmt, D, C, dtype, compress, **extra):
    g = rand_grid(rng, D)
    if extra.get("no_channel_dim") or (KIND_OF.get(fmt) == "nifti" and C > 1):
        # NIfTI stores vector images as dim = [5, X, Y, Z, 1, C]: a trailing singleton SPATIAL axis cannot be told from padding
        g["size"] = [max(2, n) for n in g["size"]]
    n = C * int(np.prod(g["size"]))
    c = {"kind": kind, "fmt": fmt, "C": C, "dtype": dtype, "compress": compress, "grid": g, "values": rand_values(rng, dtype, n)}
    c.update(extra)
    if kind in ("roundtrip", "convert"):
        # memory layout of the tensor handed to the writer: the file must not depend on it
        c["layout"] = rng.choice(LAYOUTS + (["expanded"] if C > 1 and not extra.get("no_channel_dim") else []))
        if c["layout"] == "expanded":
            m = n // C
            c["values"] = c["values"][:m] * C
    return c


def traced_flag(name):
    """a capability flag of the regenerated Gen/Codec.v (the generator exercises a feature only where the traced source has it;
    once it has, a theorem of Props/C18.v pins the flag, so a regression breaks an obligation instead of dropping the cases)"""
    import re
    try:
        txt = open(os.path.join(vlib.COQ, "Gen", "Codec.v")).read()
    except OSError:
        return False
    m = re.search(r"Definition " + name + r" : bool := (true|false)", txt)
    if m:
        return m.group(1) == "true"
    m = re.search(r"Definition " + name + r" : list[^\n]*\n([^\n]*)", txt)
    return bool(m) and "), false)" not in m.group(1) and "), true)" in m.group(1)     # rows are ((key ...), value)


def gen_cases(ctx):
    rng = ctx.rng
    thorough = ctx.thorough()
    cases = []
    cfgs = all_configs() if thorough else pick_configs(rng, 40)
    for (fmt, D, C, dt, comp) in cfgs:
        cases.append(mk_case(rng, "roundtrip", fmt, D, C, dt, comp))
    cfgs2 = all_configs() if thorough else pick_configs(rng, 30)
    for (fmt, D, C, dt, comp) in cfgs2:
        cases.append(mk_case(rng, "from_sitk", fmt, D, C, dt, comp))
    # unsigned 16/32-bit files written by SimpleITK (promotions)
    for fmt in FORMATS:
        for dt in ("uint16", "uint32"):
            for D in ((2, 3) if (thorough or fmt == ".mha") else (rng.choice([2, 3]),)):
                c = mk_case(rng, "from_sitk", fmt, D, 1, "int32", True)
                hi = 65535 if dt == "uint16" else 2 ** 32 - 1
                c["dtype"] = dt
                c["values"] = [rng.choice([0, hi, rng.randint(0, hi)]) for _ in c["values"]]
                cases.append(c)
    # in-memory conversion
    for D in (2, 3):
        for C in (1, 2, 3):
            for dt in (DTYPES if thorough else [rng.choice(DTYPES)]):
                c = mk_case(rng, "convert", "", D, C, dt, False)
                cases.append(c)
    # the Image.read / Image.write entry points and data without channel dimension (search only)
    for fmt in FORMATS:
        for D in (2, 3):
            for C in (1, 2):
                cases.append(mk_case(rng, "roundtrip", fmt, D, C, rng.choice(DTYPES), True, entry="Image", search_only=True))
            if True:   # every writer admits data.ndim == grid.ndim (pinned by C18_big_endian_and_channelless / C18_meta_no_channel_dim)
                cases.append(mk_case(rng, "roundtrip", fmt, D, 1, rng.choice(DTYPES), rng.random() < 0.5, no_channel_dim=True))
    # big-endian MetaImage files (written by the harness); the capability is pinned by theorem C18_big_endian_and_channelless
    if True:
        for key in ("BinaryDataByteOrderMSB", "ElementByteOrderMSB"):
            for D in (2, 3):
                for C in (1, 2):
                    for comp in (True, False):
                        cases.append(mk_case(rng, "msb_mha", ".mha", D, C, rng.choice(["int16", "int32", "float32", "float64"]), comp,
                                             msb_key=key, search_only=True))
    # flow fields
    for fmt in FORMATS:
        for D in (2, 3):
            # "from_grid": vectors in the grid's own normalised axes (Axes.from_grid), on an align_corners=False grid
            for ax in ((AXES if thorough else rng.sample(AXES, 2)) + ["from_grid"]):
                for dt in (("float32", "float64") if thorough else (rng.choice(["float32", "float64"]),)):
                    g = rand_grid(rng, D)
                    g["size"] = [max(2, s) for s in g["size"]]
                    if ax == "from_grid":
                        g["align_corners"] = False
                    n = D * int(np.prod(g["size"]))
                    cases.append({"kind": "flow", "fmt": fmt, "C": D, "dtype": dt, "compress": rng.random() < 0.5, "axes": ax, "grid": g,
                                  "layout": rng.choice(LAYOUTS), "values": [rng.randint(-64, 64) / 32 for _ in range(n)]})
    for D in (2, 3):
        for ax in AXES + ["from_grid"]:
            g = rand_grid(rng, D)
            g["size"] = [max(2, s) for s in g["size"]]
            if ax == "from_grid":
                g["align_corners"] = False
            n = D * int(np.prod(g["size"]))
            cases.append({"kind": "flow_sitk", "fmt": "", "C": D, "dtype": "float64", "axes": ax, "grid": g, "layout": rng.choice(LAYOUTS),
                          "values": [rng.randint(-64, 64) / 32 for _ in range(n)]})
    return cases


def run_cases(ctx):
    if "res" not in _CACHE:
        cases = gen_cases(ctx)
        res = vlib.run_impl("c18_impl", {"fn": "cases", "scratch": os.path.join(ctx.scratch, "files"), "cases": cases}, timeout=1500)
        _CACHE["cases"], _CACHE["res"] = cases, res
    return _CACHE["cases"], _CACHE["res"]


# ------------------------------------------------------------------------------------------------
# Coq terms
# ------------------------------------------------------------------------------------------------
def nats(l):
    return coq_list([f"{int(x)}%nat" for x in l])


def coq_bool(b):
    return "true" if b else "false"


def coq_image(size, C, dtype, origin, spacing, direction, values):
    return (f"(@mkImage QcF Qc {nats(size)} {C}%nat {NPTY[dtype]} {qc_vec(origin)} {qc_vec(spacing)} {qc_mat(direction)} {qc_vec(values)})")


def coq_mfile(raw):
    return (f"(@mkMfile QcF Qc {raw['ndims']}%nat {nats(raw['dimsize'])} {raw['nchan']}%nat \"{raw['elemtype']}\"%string "
            f"{qc_vec(raw['offset'])} {qc_vec(raw['spacing'])} {qc_vec(raw['tm'])} {coq_bool(raw['compressed'])} {qc_vec(raw['payload'])})")


def coq_sfile(v):
    return (f"(@mkSfile QcF Qc {nats(v['size'])} {v['ncomp']}%nat {NPTY[v['dtype']]} {qc_vec(v['origin'])} {qc_vec(v['spacing'])} "
            f"{qc_vec(v['direction'])} {qc_vec(v['payload'])})")


def coq_nfile(v, layout, D, C):
    dim = v["dim"]
    if layout == "LScalar":
        sizes = dim[1:D + 1]
    elif layout == "LItkVector":
        sizes = dim[1:D + 1]
    else:
        sizes = dim[1:D + 1]
    return (f"(@mkNfile QcF Qc {layout} {D}%nat {nats(sizes)} {C}%nat {qc_vec(v['pixdim'][1:4])} {qc_mat(v['affine'])} "
            f"{NPTY[v['dtype']]} {qc_vec(v['payload'])})")


def classify_nifti(v, kind, D, C):
    dim, intent = v["dim"], v["intent"]
    if kind == "roundtrip" and intent == 0 and dim[0] == D + 1 and dim[D + 1] == C and not (C == 1 and D == 2 and False):
        return "LOwn"          # channels on the axis after the spatial ones (what the unrepaired writer would hand to nibabel)
    if C == 1:
        return "LScalar" if dim[0] == D and intent == 0 else None
    return "LItkVector" if dim[0] == 5 and intent == 1007 and dim[5] == C else None


def read_result_term(r):
    """impl read-back as an image term"""
    d, g = r["data"], r["grid"]
    return coq_image(g["size"], d["shape"][0], d["dtype"], g["origin"], g["spacing"], g["direction"], d["values"])


def reader_checks(c, r, D, checks, tag):
    """tie of the reader: model reader applied to the ACTUAL file content vs deepali's read-back"""
    fam = KIND_OF[c["fmt"]]
    rd = r.get("read")
    if rd is None:
        return
    if fam == "meta":
        raw = r.get("raw")
        if not raw or "error" in raw or raw.get("payload") is None:
            checks.append((tag + ":raw-view", None, "independent .mha parser failed: " + json.dumps(raw)[:200]))
            return
        model = f"(read_meta {coq_mfile(raw)})"
    elif fam == "nifti":
        nv = r.get("nib")
        if not nv or "error" in nv:
            checks.append((tag + ":nib-view", None, "nibabel view failed: " + json.dumps(nv)[:200]))
            return
        lay = classify_nifti(nv, c["kind"], D, c["C"])
        if lay is None:
            checks.append((tag + ":nifti-layout", None, f"NIfTI file layout not one of the modelled ones: dim={nv['dim']} intent={nv['intent']}"))
            return
        model = f"(read_nifti {coq_nfile(nv, lay, D, c['C'])})"
    else:
        sv = r.get("sitk")
        if not sv or "error" in sv:
            checks.append((tag + ":sitk-view", None, "SimpleITK view failed: " + json.dumps(sv)[:200]))
            return
        model = f"(read_sitk {D} {coq_sfile(sv)})"
    if "error" in rd:
        checks.append((tag + ":reader", f"is_none {model}", f"implementation read raises {rd['error']} ({rd['msg'][:80]}), model reader returns an image"))
    else:
        checks.append((tag + ":reader", f"opt_close (image_close tol) {model} (Some {read_result_term(rd)})",
                       "model reader applied to the file content differs from deepali's read-back (or model rejects the file)"))


def case_checks(c, r):
    """list of (check name, coq bool term or None, what it means when false)"""
    checks = []
    kind = c["kind"]
    D = len(c["grid"]["size"])
    if "harness" in r or "setup" in r:
        checks.append(("harness", None, "implementation-side harness failed: " + json.dumps(r)[:300]))
        return checks
    if kind == "roundtrip":
        gi = r["grid_in"]
        X = coq_image(gi["size"], c["C"], c["dtype"], gi["origin"], gi["spacing"], gi["direction"], c["values"])
        fam = KIND_OF[c["fmt"]]
        wrote = r["write"] == "ok"
        if fam == "meta":
            wm = f"(write_meta {D} {coq_bool(c['compress'])} {X})"
            if wrote:
                raw = r["raw"]
                if "error" in raw:
                    checks.append(("raw-view", None, "independent .mha parser failed: " + json.dumps(raw)[:200]))
                else:
                    checks.append(("writer", f"opt_close (mfile_close tol) {wm} (Some {coq_mfile(raw)})",
                                   "header/payload on disk differ from the model's prediction"))
                    sv = r["sitk"]
                    if "error" in sv:
                        checks.append(("itk-read", f"is_none (itk_read_mha {coq_mfile(raw)})", "SimpleITK cannot read the file the library wrote"))
                    else:
                        checks.append(("itk-read", f"opt_close (sfile_close tol) (itk_read_mha {coq_mfile(raw)}) (Some {coq_sfile(sv)})",
                                       "SimpleITK's view of the file differs from the ITK MetaImage convention of the model"))
            else:
                checks.append(("writer", f"is_none {wm}", f"implementation write raises {r['write']}, model writes a file"))
        elif fam == "nifti":
            wn = f"(write_nifti {D} {X})"
            if wrote:
                nv = r["nib"]
                lay = classify_nifti(nv, kind, D, c["C"]) if "error" not in nv else None
                if lay is None:
                    checks.append(("writer", None, "library-written NIfTI file has an unmodelled layout: " + json.dumps(nv)[:200]))
                else:
                    checks.append(("writer", f"opt_close (nfile_close tol) {wn} (Some {coq_nfile(nv, lay, D, c['C'])})",
                                   "NIfTI header/payload on disk differ from the model's prediction"))
            else:
                checks.append(("writer", f"is_none {wn}", f"implementation write raises {r['write']}, model writes a file"))
        else:
            if wrote:
                sv = r["sitk"]
                if "error" in sv:
                    checks.append(("writer", None, "SimpleITK cannot read back its own file: " + json.dumps(sv)[:200]))
                else:
                    checks.append(("writer", f"sfile_close tol (write_sitk {D} {X}) {coq_sfile(sv)}",
                                   "SimpleITK image on disk differs from the model's prediction"))
            else:
                checks.append(("writer", None, f"implementation write raises {r['write']}, model writes a file"))
        if wrote:
            reader_checks(c, r, D, checks, "lib")
    elif kind == "from_sitk":
        g = c["grid"]
        X = coq_image(g["size"], c["C"], c["dtype"], g["origin"], g["spacing"], g["direction"], c["values"])
        if r["write"] != "ok":
            checks.append(("sitk-write", None, "SimpleITK could not write the file: " + json.dumps(r["write"])[:200]))
            return checks
        fam = KIND_OF[c["fmt"]]
        if fam == "meta" and "error" not in r["raw"]:
            checks.append(("itk-writer-spec", f"opt_close (mfile_close tol) (itk_write_mha {D} {coq_bool(c['compress'])} (write_sitk {D} {X})) (Some {coq_mfile(r['raw'])})",
                           "file written by SimpleITK differs from the ITK MetaImage convention of the model"))
        elif fam == "nifti" and "error" not in r["nib"]:
            lay = classify_nifti(r["nib"], kind, D, c["C"])
            if lay is None:
                checks.append(("itk-writer-spec", None, "SimpleITK-written NIfTI has an unmodelled layout: " + json.dumps(r["nib"])[:200]))
            else:
                checks.append(("itk-writer-spec", f"nfile_close tol (itk_write_nii {D} {X}) {coq_nfile(r['nib'], lay, D, c['C'])}",
                               "file written by SimpleITK differs from the ITK NIfTI convention of the model"))
        elif fam == "sitk" and "error" not in r["sitk"]:
            checks.append(("itk-writer-spec", f"sfile_close tol (write_sitk {D} {X}) {coq_sfile(r['sitk'])}",
                           "SimpleITK image read back differs from the image written"))
        reader_checks(c, r, D, checks, "sitk")
    elif kind == "convert":
        if "convert" in r:
            checks.append(("convert", None, "Image.sitk / from_sitk raised: " + json.dumps(r["convert"])[:200]))
            return checks
        gi = r["grid_in"]
        X = coq_image(gi["size"], c["C"], c["dtype"], gi["origin"], gi["spacing"], gi["direction"], c["values"])
        checks.append(("Image.sitk", f"sfile_close tol (write_sitk {D} {X}) {coq_sfile(r['sitk'])}", "Image.sitk() differs from the model"))
        g = c["grid"]
        X0 = coq_image(g["size"], c["C"], c["dtype"], g["origin"], g["spacing"], g["direction"], c["values"])
        checks.append(("Image.from_sitk", f"opt_close (image_close tol) (read_sitk {D} (write_sitk {D} {X0})) (Some {read_result_term(r['read'])})",
                       "Image.from_sitk() differs from the model"))
    elif kind in ("flow", "flow_sitk"):
        if "world" not in r:
            checks.append(("flow", None, "flow conversion raised: " + json.dumps(r)[:200]))
            return checks
        gi = r.get("grid_in") or c["grid"]
        size = gi["size"]
        N = int(np.prod(size))
        u = np.array(c["values"], dtype=float).reshape(D, N)
        w = np.array(r["world"]["values"], dtype=float).reshape(D, N)
        ax = {"grid": "GRID", "cube": "CUBE", "cube_corners": "CUBE_CORNERS", "world": "WORLD"}[r.get("axes_in", c["axes"])]
        nvec = qc_vec([float(s) for s in size])
        idx = sorted(set([0, N - 1, N // 2]))
        terms, terms_b = [], []
        for k in idx:
            terms.append(f"vrel ftol (flow_to_file (K:=QcF) {D} {ax} {nvec} {qc_vec(gi['spacing'])} {qc_mat(gi['direction'])} {qc_vec(u[:, k].tolist())}) {qc_vec(w[:, k].tolist())}")
            terms_b.append(f"vrel ftol (flow_from_file (K:=QcF) {D} {ax} {nvec} {qc_vec(gi['spacing'])} {qc_mat(gi['direction'])} {qc_vec(w[:, k].tolist())}) {qc_vec(u[:, k].tolist())}")
        checks.append(("flow-to-world", " && ".join(terms), "world-axes vectors differ from the traced conversion"))
        checks.append(("flow-from-world", " && ".join(terms_b), "conversion back from world axes differs from the original vectors"))
    return checks


def correspondence(ctx):
    cases, res = run_cases(ctx)
    head = ["From Coq Require Import String ZArith QArith Qcanon List Bool.",
            "From DV Require Import Base.Field Base.LinAlg Base.QcInst Model.Enums Model.CodecTypes Gen.Codec Model.Codec Model.CodecCheck.",
            "Import ListNotations.", f"Definition tol : Q := {TOL}.", "Definition ftol : Q := 1 # 10000."]
    failures, items = [], []
    dist = {}
    for i, (c, r) in enumerate(zip(cases, res)):
        if c.get("search_only"):
            continue
        D = len(c["grid"]["size"])
        tag = f"{c['kind']}:{FAMILY.get(c['fmt'], 'memory')}:D{D}:{'scalar' if c['C'] == 1 else 'multi'}"
        dist[tag] = dist.get(tag, 0) + 1
        if c.get("layout"):
            dist["layout:" + c["layout"]] = dist.get("layout:" + c["layout"], 0) + 1
        for name, term, what in case_checks(c, r):
            if term is None:
                failures.append({"case": brief(c), "check": name, "why": what})
            else:
                items.append((i, name, term, what))
    # shards
    shard = 60 if ctx.thorough() else 40
    groups = [items[k:k + shard] for k in range(0, len(items), shard)]

    def run_shard(gk):
        k, grp = gk
        lines = list(head)
        for j, (i, name, term, what) in enumerate(grp):
            lines.append(f"Definition c{j} : bool := {term}.")
        lines.append("Definition results : list bool := " + coq_list([f"c{j}" for j in range(len(grp))]) + ".")
        lines.append('Eval vm_compute in ("FAIL"%string, failing results).')
        rc, out = vlib.coqc_text("\n".join(lines) + "\n", ctx.scratch, f"cases_c18_{k}", timeout=900)
        return k, rc, out

    with ThreadPoolExecutor(max_workers=6) as ex:
        outs = list(ex.map(run_shard, list(enumerate(groups))))
    for k, rc, out in outs:
        bad = vlib.parse_nat_list(out, "FAIL")
        if rc != 0 or bad is None:
            failures.append({"why": "case file did not evaluate (generated definitions missing or ill-typed)", "shard": k, "coq": out[-500:]})
            continue
        for j in bad:
            i, name, term, what = groups[k][j]
            failures.append({"case": brief(cases[i]), "check": name, "why": what, "impl": brief_res(res[i])})
    n_eval = len(items)
    samples = []
    for i in (0, len(cases) // 3, len(cases) // 2):
        samples.append({"case": brief(cases[i]), "impl": brief_res(res[i])})
    ctx.notes.append(f"correspondence: {len(groups)} Coq case files, {n_eval} model-vs-file comparisons over {sum(dist.values())} cases")
    return {"evaluations": n_eval, "distinct_nontrivial": len({json.dumps(brief(c), sort_keys=True) for c in cases if not c.get('search_only')}),
            "rule": "every case really writes and reads a file (or converts in memory); quick = stratified slice covering every (format, D, scalar/multi) "
                    "cell, thorough = the complete format x D x channels x dtype x compress space (300 configurations) in both directions "
                    "(library writes / SimpleITK writes), plus uint16/uint32 files, in-memory conversions and flow fields; grids are random "
                    "oriented (rational rotations, reflections, axis permutations), anisotropic, float32-exact; data include type extremes; "
                    "non-trivial = every case (sizes >= 2 except an occasional singleton axis); distinct by (kind, format, D, C, dtype, compress, grid)",
            "samples": samples, "failures": failures, "distribution": dist,
            "tolerances": {"geometry": "1e-5 * (1 + |x|) on header numbers (float32 storage, decimal header text)", "voxel data": "exact",
                           "flow vectors": "1e-4 * (1 + |x|) (float32 arithmetic of the implementation vs exact rationals)"}}


def brief(c):
    d = {k: v for k, v in c.items() if k != "values"}
    d["n_values"] = len(c["values"])
    return d


def brief_res(r):
    def short(v):
        if isinstance(v, dict):
            return {k: short(w) for k, w in v.items() if k not in ("values", "payload")}
        return v
    return short(r)


# ------------------------------------------------------------------------------------------------
# the property itself on the implementation
# ------------------------------------------------------------------------------------------------
def close(a, b, tol=1e-5):
    a, b = np.asarray(a, dtype=float), np.asarray(b, dtype=float)
    return a.shape == b.shape and bool(np.all(np.abs(a - b) <= tol * (1 + np.abs(b))))


def same_values(a, b):
    """exact equality of value lists (NaN never generated; -0.0 == 0.0 accepted)"""
    return len(a) == len(b) and all(x == y for x, y in zip(a, b))


def expected_sitk_buffer(c):
    size, C = c["grid"]["size"], c["C"]
    shape = (C,) + tuple(reversed(size))
    a = np.array(c["values"], dtype=object).reshape(shape)
    if C == 1:
        return a[0].reshape(-1).tolist(), list(reversed(size))
    b = np.moveaxis(a, 0, -1)
    return b.reshape(-1).tolist(), list(reversed(size)) + [C]


def compare_image(c, rd, grid_ref, site, out, key_prefix, promoted=None):
    D = len(c["grid"]["size"])
    d, g = rd["data"], rd["grid"]
    want_dtype = promoted or c["dtype"]
    want_shape = [c["C"]] + list(reversed(c["grid"]["size"]))
    if d["dtype"] != want_dtype:
        out.append((key_prefix + ":dtype-changed", f"{site}: element type {want_dtype} came back as {d['dtype']}"))
    if d["shape"] != want_shape:
        out.append((key_prefix + ":shape-changed", f"{site}: data shape {want_shape} came back as {d['shape']}"))
    elif not same_values(d["values"], c["values"]):
        k = next(i for i, (x, y) in enumerate(zip(d["values"], c["values"])) if x != y)
        out.append((key_prefix + ":data-changed", f"{site}: voxel values differ (first at flat index {k}: wrote {c['values'][k]!r}, read {d['values'][k]!r})"))
    if g["size"] != list(grid_ref["size"]):
        out.append((key_prefix + ":grid-size-changed", f"{site}: grid size {grid_ref['size']} came back as {g['size']}"))
    elif not (close(g["origin"], grid_ref["origin"]) and close(g["spacing"], grid_ref["spacing"]) and close(g["direction"], grid_ref["direction"])):
        out.append((key_prefix + ":grid-changed", f"{site}: grid came back as origin {g['origin']} spacing {g['spacing']} direction {g['direction']}, "
                    f"written {grid_ref['origin']} {grid_ref['spacing']} {grid_ref['direction']}"))


def evaluate(c, r):
    """violations of the property visible in one case: list of (key, what)"""
    out = []
    kind = c["kind"]
    D = len(c["grid"]["size"])
    fam = FAMILY.get(c["fmt"], "memory")
    sc = "scalar" if c["C"] == 1 else "multi"
    if "harness" in r or "setup" in r:
        out.append((f"C18:harness:{kind}:{fam}:D{D}:{sc}", "harness/setup failure: " + json.dumps(r)[:200]))
        return out
    if kind == "roundtrip":
        entry = "Image.write" if c.get("entry") == "Image" else "write_image"
        rentry = "Image.read" if c.get("entry") == "Image" else "read_image"
        tagw = f"C18:{entry}:{fam}:D{D}:{'no-channel-dim' if c.get('no_channel_dim') else sc}"
        tagr = f"C18:{rentry}:{fam}:D{D}:{'no-channel-dim' if c.get('no_channel_dim') else sc}:library-written"
        if r["write"] != "ok":
            out.append((tagw + f":raises-{r['write']['error']}", f"{entry}(…, '{c['fmt']}') raises {r['write']['error']}: {r['write']['msg'][:100]}"))
            return out
        gref = r["grid_in"]
        # SimpleITK must see the image Image.sitk() describes
        sv = r.get("sitk", {})
        pre = len(out)
        if "error" in sv:
            out.append((tagw + ":sitk-cannot-read", f"SimpleITK cannot read the {c['fmt']} file the library wrote: {sv['msg'][:100]}"))
        else:
            buf, shp = expected_sitk_buffer(c)
            if sv["size"] != list(c["grid"]["size"]) or sv["ncomp"] != c["C"] or sv["shape"] != shp:
                out.append((tagw + ":sitk-sees-other-shape", f"SimpleITK sees size {sv['size']} x {sv['ncomp']} components (array {sv['shape']}) in the file written for "
                            f"size {c['grid']['size']} x {c['C']} channels"))
            elif not same_values(sv["payload"], buf) or sv["dtype"] != c["dtype"]:
                out.append((tagw + ":sitk-sees-other-data", f"SimpleITK reads other voxel values / type ({sv['dtype']}) than were written ({c['dtype']})"))
            elif not (close(sv["origin"], gref["origin"]) and close(sv["spacing"], gref["spacing"]) and close(sv["direction"], np.array(gref["direction"]).reshape(-1))):
                out.append((tagw + ":sitk-sees-other-grid", f"SimpleITK reads origin {sv['origin']} spacing {sv['spacing']} direction {sv['direction']}; written {gref}"))
        if c.get("no_channel_dim") and len(out) > pre:
            # how the mislabelled file fails depends on the sizes; one canonical key
            out[pre:] = [(tagw + ":file-is-not-the-image", "data without channel dimension: " + out[pre][1])]
        rd = r["read"]
        if "error" in rd:
            out.append((tagr + f":raises-{rd['error']}", f"{rentry}('{c['fmt']}') of a file written by the library raises {rd['error']}: {rd['msg'][:100]}"))
        else:
            compare_image(c, rd, gref, f"{entry}/{rentry} '{c['fmt']}'", out, tagr)
            if c.get("entry") == "Image" and rd["grid"].get("align_corners") != gref["align_corners"]:
                out.append((tagr + ":align-corners-flag-changed", f"Image.read(align_corners={gref['align_corners']}) returns a grid with the other flag"))
        ff = r.get("from_file")
        if ff is not None and not c.get("no_channel_dim"):
            if "error" in ff:
                out.append((f"C18:Grid.from_file:{fam}:D{D}:{sc}:raises-{ff['error']}", f"Grid.from_file('{c['fmt']}') raises {ff['error']}: {ff['msg'][:100]}"))
            elif ff.get("align_corners") != gref["align_corners"]:
                out.append((f"C18:Grid.from_file:{fam}:D{D}:{sc}:align-corners-flag-changed", f"Grid.from_file(align_corners={gref['align_corners']}) returns the other flag"))
            elif not c.get("no_channel_dim") and not (ff["size"] == list(gref["size"]) and close(ff["origin"], gref["origin"]) and close(ff["spacing"], gref["spacing"])
                                                       and close(ff["direction"], gref["direction"])):
                out.append((f"C18:Grid.from_file:{fam}:D{D}:{sc}:grid-changed", f"Grid.from_file('{c['fmt']}') gives {ff}, written {gref}"))
    elif kind == "msb_mha":
        tagr = f"C18:read_image:{fam}:D{D}:{sc}:big-endian-{'compressed' if c['compress'] else 'raw'}"
        rd = r["read"]
        if "error" in rd:
            out.append((tagr + f":raises-{rd['error']}", f"read_image of a big-endian ({c['msb_key']}) .mha raises {rd['error']}: {rd['msg'][:100]}"))
        else:
            compare_image(c, rd, c["grid"], "read_image of big-endian .mha", out, tagr)
    elif kind == "from_sitk":
        tagr = f"C18:read_image:{fam}:D{D}:{sc}:sitk-written"
        if r["write"] != "ok":
            return out      # SimpleITK itself does not support this configuration: nothing to read
        rd = r["read"]
        promoted = {"uint16": "int32", "uint32": "int64"}.get(c["dtype"])
        if "error" in rd:
            out.append((tagr + f":raises-{rd['error']}", f"read_image('{c['fmt']}') of a file written by SimpleITK raises {rd['error']}: {rd['msg'][:100]}"))
        else:
            compare_image(c, rd, c["grid"], f"read_image of SimpleITK-written '{c['fmt']}'", out, tagr, promoted=promoted)
    elif kind == "convert":
        if "convert" in r:
            out.append((f"C18:Image.sitk:D{D}:{sc}:raises-{r['convert']['error']}", f"Image.sitk()/from_sitk() raises: {r['convert']['msg'][:100]}"))
            return out
        sv = r["sitk"]
        buf, shp = expected_sitk_buffer(c)
        if sv["size"] != list(c["grid"]["size"]) or sv["ncomp"] != c["C"] or not same_values(sv["payload"], buf):
            out.append((f"C18:Image.sitk:D{D}:{sc}:other-image", "Image.sitk() does not describe the image (size/components/buffer)"))
        compare_image(c, r["read"], c["grid"], "Image.from_sitk", out, f"C18:Image.from_sitk:D{D}:{sc}")
    elif kind in ("flow", "flow_sitk"):
        site = "FlowField.write" if kind == "flow" else "FlowField.sitk"
        tag = f"C18:{site}:{fam}:D{D}:{c['axes']}"
        tag0 = f"C18:{site}:{fam}:D{D}"
        if "convert" in r:
            out.append((tag0 + f":raises-{r['convert']['error']}", f"{site} raises: {r['convert']['msg'][:100]}"))
            return out
        if r.get("write", "ok") != "ok":
            out.append((tag0 + f":raises-{r['write']['error']}", f"FlowField.write('{c['fmt']}') raises {r['write']['error']}: {r['write']['msg'][:100]}"))
            return out
        gi = r["grid_in"]
        size = gi["size"]
        N = int(np.prod(size))
        u = np.array(c["values"], dtype=float).reshape(D, N)
        R, s, n = np.array(gi["direction"]), np.array(gi["spacing"]), np.array(size, dtype=float)
        axes_in = r.get("axes_in", c["axes"])
        if c["axes"] == "from_grid" and axes_in != ("cube_corners" if gi["align_corners"] else "cube"):
            out.append((tag + ":from-grid-axes", f"Axes.from_grid of an align_corners={gi['align_corners']} grid is {axes_in}"))
        scale = {"grid": np.ones(D), "cube": n / 2, "cube_corners": (n - 1) / 2}.get(axes_in)
        world = u if axes_in == "world" else (R @ np.diag(s) @ np.diag(scale) @ u)
        sv = r.get("sitk", {})
        if "error" in sv:
            out.append((tag0 + ":sitk-cannot-read", f"SimpleITK cannot read the flow field file: {sv['msg'][:100]}"))
        elif sv:
            stored = np.array(sv["payload"], dtype=float).reshape(N, D).T
            if sv["ncomp"] != D or not close(stored, world, 1e-4):
                out.append((tag + ":not-world-vectors", f"vectors stored in the file are not the world-space vectors (max dev {np.abs(stored - world).max():.3g})"))
        rd = r.get("read", {})
        if "error" in rd:
            out.append((f"C18:FlowField.read:{fam}:D{D}:raises-{rd['error']}", f"FlowField.read('{c['fmt']}') raises {rd['error']}: {rd['msg'][:100]}"))
        else:
            if r.get("read_axes") != "world":
                out.append((tag + ":read-axes", f"flow field read back is labelled {r.get('read_axes')}, not world"))
            back = np.array(r["back"]["values"], dtype=float).reshape(D, N)
            if r["back"]["dtype"] != c["dtype"] or not close(back, u, 1e-4):
                out.append((tag + ":axes-roundtrip", f"vectors do not return to their original representation (max dev {np.abs(back - u).max():.3g}, dtype {r['back']['dtype']})"))
            g = rd.get("grid")
            if g and g.get("align_corners") != gi["align_corners"]:
                out.append((tag0 + ":align-corners-flag-changed", f"flow field written from an align_corners={gi['align_corners']} grid and read with "
                            f"align_corners={gi['align_corners']} has a grid with align_corners={g.get('align_corners')}"))
            if g and not (g["size"] == list(size) and close(g["origin"], gi["origin"]) and close(g["spacing"], gi["spacing"]) and close(g["direction"], gi["direction"])):
                out.append((tag0 + ":grid-changed", f"flow field grid came back as {g}, written {gi}"))
    return out


def search(ctx, broken, corr_failures):
    cases, res = run_cases(ctx)
    found, seen = [], set()
    counts = {"cases": 0, "violating_cases": 0}
    for c, r in zip(cases, res):
        counts["cases"] += 1
        ev = evaluate(c, r)
        if ev:
            counts["violating_cases"] += 1
        for key, what in ev:
            if key in seen:
                continue
            seen.add(key)
            found.append(Violation(key=key, what=what, replay={"case": c, "key": key}))
    ctx.notes.append(f"implementation-side property evaluation: {counts}; distinct violation keys: {len(seen)}")
    return found


def _unknown(found):
    known, _ = vlib.load_findings()
    return [v for v in found if v.key not in known]


def explains(broken_item, found):
    """a broken obligation (proof, translator unit, correspondence item) is attributed to any NEW concrete violation found by
    the search -- one root cause in the I/O code typically breaks obligations of several format families at once (the ITK
    specs share write_sitk).  Violations listed as known findings never explain anything: a known defect must not mask a
    new break."""
    return bool(_unknown(found))


def replay(ctx, data):
    c = data["case"]
    res = vlib.run_impl("c18_impl", {"fn": "cases", "scratch": os.path.join(ctx.scratch, "files"), "cases": [c]})
    for key, what in evaluate(c, res[0]):
        if key == data.get("key"):
            return what
    return None


MANIFEST_ENTRY = {
    "text": "Theorems (Coq, closed under the global context) about the convention layer of image I/O, whose header conventions, "
            "status/branch tables and element-type tables are regenerated on every run by executing deepali's own writer/reader "
            "functions (meta.py, nifti.py, sitk.py, simpleitk/torch.py, Grid.from_sitk, Grid.transform_vectors, FlowField.read/write) on "
            "symbolic / position-coded values: the channel-axis move is a transposition and write/read moves are inverse for every "
            "channel count and size (induction); SimpleITK-backed formats round-trip exactly for D in {2,3}, any C, any grid, every "
            "torch element type (full); a library-written .mha read under ITK's convention is Image.sitk() (full); native .mha "
            "round trip and reading of ITK-written .mha exact for D in {2,3}, any C, compressed or not (full; data without channel "
            "dimension is traced to give the C = 1 file); native NIfTI round trip and reading of ITK-written scalar and vector NIfTI exact for "
            "D in {2,3}, any C (full); element-type tables and promotions value-preserving (finite, complete); flow vectors go to "
            "world axes on write and return to the original axes for orthonormal directions (field algebra); the align_corners flag requested on "
            "reading is the flag of the returned grid; suffix dispatch uses the same backend for writing and reading; the file order does not "
            "depend on the memory layout of the input tensor (contiguous / Fortran / strided traces); NIfTI round trip and ITK-layout reading in "
            "conditional form for every layout and channel count. Tie: correspondence that "
            "really writes and reads files over format x D x channels x dtype x compress (complete in thorough) in both directions of "
            "SimpleITK interoperability, comparing header fields, payload order and read-back to the model inside Coq.",
    "note": "Partial: byte formats, zlib, header text, nibabel and ITK are runtime (trusted, tied only by the correspondence on real files); "
            "the ITK MetaImage/NIfTI conventions are hand-written specifications validated the same way; Grid's float32 origin<->center "
            "conversion is compared to 1e-5, voxel data exactly. The five defects found by this check (2-D, multi-channel and channel-less "
            "MetaImage; NIfTI writer; ITK vector NIfTI reader) are repaired in /repo. NIfTI cannot distinguish a trailing singleton spatial axis of a "
            "vector image from padding (format limit shared with ITK): such grids are not generated for multi-channel NIfTI.",
}
