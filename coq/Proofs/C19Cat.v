(* C19 -- torch.cat of image batches along the batch dimension: the grids are concatenated in the
   same order as the data, for any number of operands of any batch sizes. *)
From Coq Require Import List ZArith Bool Arith Lia.
From DV Require Import Model.Enums Model.Batch Model.BatchSpec Proofs.C19Base Proofs.C19Generic.
Import ListNotations.
Local Arguments ndim : simpl never.

Lemma map_nth_seq {A B} (f : A -> B) (l : list A) d :
  map f l = map (fun j => f (nth j l d)) (seq 0 (length l)).
Proof.
  induction l as [|x l IH]; [reflexivity|]. cbn [length seq map nth]. f_equal.
  rewrite <- seq_shift, map_map. exact IH.
Qed.

(* position i of a concatenation: which block, which offset *)
Lemma concat_blocks (N : nat -> nat) (G : nat -> list gid) k :
  (forall j, length (G j) = N j) ->
  forall a i, i < length (concat (map G (seq a k))) ->
  exists j e, a <= j < a + k /\ nth i (concat (map (fun j => ident_src j (N j)) (seq a k))) [] = [(j, e)]
              /\ nth_error (G j) e = Some (nth i (concat (map G (seq a k))) 0).
Proof.
  intros HG. induction k as [|k IH]; intros a i Hi; [simpl in Hi; lia|].
  cbn [seq map concat] in *. rewrite app_length in Hi.
  destruct (Nat.lt_ge_cases i (N a)) as [Hlt|Hge].
  - exists a, i. split; [lia|]. split.
    + rewrite app_nth1 by (rewrite length_ident_src; exact Hlt). now apply nth_ident_src.
    + rewrite app_nth1 by (rewrite HG; exact Hlt). apply nth_error_nth'. rewrite HG. exact Hlt.
  - destruct (IH (S a) (i - N a)) as (j & e & Hj & Hs & Hg).
    { rewrite HG in Hi. lia. }
    exists j, e. split; [lia|]. split.
    + rewrite app_nth2 by (rewrite length_ident_src; exact Hge). now rewrite length_ident_src.
    + rewrite app_nth2 by (rewrite HG; exact Hge). now rewrite HG.
Qed.

Lemma norm_dim_lt' n z d : norm_dim n z = Some d -> d < n.
Proof.
  unfold norm_dim.
  destruct ((0 <=? z)%Z && (z <? Z.of_nat n)%Z) eqn:E1.
  - apply andb_true_iff in E1. destruct E1 as [A B]. apply Z.leb_le in A. apply Z.ltb_lt in B.
    intros H; inversion H; subst. lia.
  - destruct ((- Z.of_nat n <=? z)%Z && (z <? 0)%Z) eqn:E2; [|discriminate].
    apply andb_true_iff in E2. destruct E2 as [A B]. apply Z.leb_le in A. apply Z.ltb_lt in B.
    intros H; inversion H; subst. lia.
Qed.

Section Cat.
Variable gshape : gid -> shape.
Variable gaxes : gid -> axes.

Definition grids_of (a : tval) : list gid := match t_kind a with TBatch _ gs => gs | _ => [] end.
Definition all_image_batches (args : list tval) : Prop :=
  Forall (fun a => exists gs, t_kind a = TBatch None gs /\ wf_val gshape a) args.
Definition cat_dim0 (d : dimarg) : Prop := d = DNone \/ d = DPos 0%Z \/ d = DKw 0%Z.

Lemma all_batches_kinds args :
  all_image_batches args ->
  map to_batch args = args
  /\ flat_map (fun k => match k with TBatch _ gs => [gs] | TSingle _ g => [[g]] | TPlain => [] end) (map t_kind args)
     = map grids_of args.
Proof.
  induction 1 as [|a l (gs & Hk & _) _ (IH1 & IH2)]; [auto|]. cbn [map flat_map]. rewrite IH1, IH2.
  unfold to_batch, grids_of. rewrite Hk. destruct a; simpl in *; subst; auto.
Qed.

Lemma choose_disp_image_batches a args :
  all_image_batches (a :: args) -> choose_disp (map t_kind (a :: args)) = DImageBatch.
Proof.
  intros H. unfold choose_disp. cbn [map fold_left].
  inversion H as [|? ? (gs & Hk & _) Hr]; subst. rewrite Hk. cbn.
  assert (Hgen : forall l, all_image_batches l ->
            fold_left (fun acc k => let d := disp_of k in
               match d with DNoDisp => acc | _ => if existsb (disp_eqb d) acc then acc else insert_disp d acc end)
               (map t_kind l) [DImageBatch] = [DImageBatch]).
  { induction 1 as [|b l (gs' & Hk' & _) _ IH]; [reflexivity|]. cbn [map fold_left]. rewrite Hk'. cbn. exact IH. }
  now rewrite Hgen.
Qed.

Theorem cat_dim0_sound d a args :
  cat_dim0 d -> all_image_batches (a :: args) ->
  res_sound gshape (a :: args) (run_op gshape gaxes (OCat d) (a :: args)).
Proof.
  intros Hd Hall. set (l := a :: args) in *.
  assert (Hrun : run_op gshape gaxes (OCat d) l = dispatch_batch gshape false (OCat d) l).
  { unfold run_op. subst l. now rewrite choose_disp_image_batches. }
  rewrite Hrun. unfold dispatch_batch.
  destruct (all_batches_kinds l Hall) as (Htb & Hgr). rewrite Htb.
  destruct (data_sem (OCat d) (map t_shape l)) as [e|dd|ds] eqn:ED; [exact I| |].
  2:{ exfalso. cbn in ED. repeat match type of ED with context [match ?c with _ => _ end] => destruct c end; discriminate ED. }
  cbn [tf_axes].
  assert (Hkw : kw_of (OCat d) = 0%Z) by (destruct Hd as [->|[->| ->]]; reflexivity).
  assert (Hdv : dim_value d = 0%Z) by (destruct Hd as [->|[->| ->]]; reflexivity).
  unfold tf_grid_batch. rewrite Hkw, Hgr. cbn [Z.eqb Z.ltb Z.compare].
  destruct (map grids_of l) as [|g0 gr] eqn:EG; [subst l; discriminate EG|].
  rewrite <- EG. cbn [class_of flat_of].
  unfold one_kind.
  destruct (res_batch gshape (d_shape dd) (Some (concat (map grids_of l)))) as [e|k] eqn:ER; simpl; auto.
  destruct k as [|fl gs'|fl g]; unfold out_sound; cbn [v_kind v_src v_shape]; auto.
  2:{ exfalso. eapply res_batch_not_single; eauto. }
  apply res_batch_typed in ER. destruct ER as (-> & -> & HN & H4 & HF).
  split; [unfold wf_val; cbn; auto|].
  intros i Hi.
  (* the data provenance of a concatenation along dimension 0 *)
  set (N := fun j => nent (nth_shape (map t_shape l) j)).
  assert (Hsrc : d_src dd = concat (map (fun j => ident_src j (N j)) (seq 0 (length l)))).
  { cbn -[nth_shape] in ED. rewrite Hdv in ED.
    match type of ED with context [norm_dim ?n ?z] => destruct (norm_dim n z) as [nd|] eqn:En; [|discriminate ED] end.
    assert (nd = 0).
    { unfold norm_dim in En. cbn [Z.leb] in En.
      match type of En with context [(0 <? ?x)%Z] => destruct (0 <? x)%Z end; cbn in En; [now inversion En|].
      rewrite ?andb_false_r in En. discriminate En. }
    subst nd.
    match type of ED with context [if ?c then _ else _] => destruct c; [|discriminate ED] end.
    injection ED as <-. cbn [d_src Nat.eqb]. subst N l. cbn [length map]. now rewrite map_length. }
  rewrite Hsrc.
  set (G := fun j => grids_of (nth j l (mkT [] TPlain))).
  assert (HGN : forall j, length (G j) = N j).
  { intros j. unfold G, N, nth_shape. destruct (Nat.lt_ge_cases j (length l)) as [Hj|Hj].
    - unfold all_image_batches in Hall. rewrite Forall_forall in Hall. destruct (Hall (nth j l (mkT [] TPlain)) (nth_In _ _ Hj)) as (gs & Hk & Hwf).
      unfold grids_of. rewrite Hk. unfold wf_val in Hwf. rewrite Hk in Hwf. destruct Hwf as (HL & _).
      rewrite HL. f_equal. change [] with (t_shape (mkT [] TPlain)). now rewrite map_nth.
    - rewrite nth_overflow by exact Hj. rewrite nth_overflow by (rewrite map_length; exact Hj). reflexivity. }
  assert (Hmap : map grids_of l = map G (seq 0 (length l))) by (apply map_nth_seq).
  rewrite Hmap in Hi |- *.
  destruct (concat_blocks N G (length l) HGN 0 i Hi) as (j & e & Hj & Hs & Hg).
  rewrite Hs. split; [apply coherent_single|]. split.
  - exists (j, e). split; [left; reflexivity|]. unfold entry_grid. cbn [fst snd].
    rewrite nth_error_nth' with (d := mkT [] TPlain) by lia.
    unfold G, grids_of in Hg. destruct (t_kind (nth j l (mkT [] TPlain))); auto.
    + destruct e; discriminate Hg.
    + destruct e; discriminate Hg.
  - intros ax Hax; discriminate Hax.
Qed.
(* torch.cat along another dimension (channels; a spatial dimension only if the shape still matches): typed with the grids
   of the first operand, entry i holds entry i of every operand *)
Theorem cat_other_dim_sound d a args :
  (0 < dim_value d)%Z -> all_image_batches (a :: args) ->
  res_sound gshape (a :: args) (run_op gshape gaxes (OCat d) (a :: args)).
Proof.
  intros Hd Hall. set (l := a :: args) in *.
  assert (Hrun : run_op gshape gaxes (OCat d) l = dispatch_batch gshape false (OCat d) l).
  { unfold run_op. subst l. now rewrite choose_disp_image_batches. }
  rewrite Hrun. unfold dispatch_batch.
  destruct (all_batches_kinds l Hall) as (Htb & Hgr). rewrite Htb.
  destruct (data_sem (OCat d) (map t_shape l)) as [e|dd|ds] eqn:ED; [exact I| |].
  2:{ exfalso. cbn in ED. repeat match type of ED with context [match ?c with _ => _ end] => destruct c end; discriminate ED. }
  cbn [tf_axes].
  unfold tf_grid_batch. rewrite Hgr. cbn [kw_of].
  assert (Hlt : (dim_value d <? 0)%Z = false) by (apply Z.ltb_ge; lia).
  assert (Hne : (dim_value d =? 0)%Z = false) by (apply Z.eqb_neq; lia).
  rewrite Hlt, Hne.
  subst l. cbn [map]. cbn [class_of flat_of].
  inversion Hall as [|? ? (g0 & Hk0 & Hwf0) Hrest]; subst.
  unfold grids_of at 1. rewrite Hk0.
  unfold one_kind.
  destruct (res_batch gshape (d_shape dd) (Some g0)) as [e|k] eqn:ER; [exact I|].
  destruct k as [|fl gs'|fl g]; unfold res_sound, out_sound; cbn [v_kind v_src v_shape]; auto.
  2:{ exfalso. exact (res_batch_not_single gshape _ _ _ _ ER). }
  apply res_batch_typed in ER. destruct ER as (-> & -> & HN & H4 & HF).
  split; [unfold wf_val, val_of; cbn [t_kind t_shape v_shape v_kind]; repeat split; auto|].
  intros i Hi.
  unfold wf_val in Hwf0. rewrite Hk0 in Hwf0. destruct Hwf0 as (HL0 & H40 & _).
  (* provenance of a concatenation along a dimension other than the first *)
  assert (Hsrc : nth i (d_src dd) [] = map (fun j => (j, i)) (seq 0 (S (length args)))).
  { cbn -[nth_shape] in ED.
    match type of ED with context [norm_dim ?n ?z] => destruct (norm_dim n z) as [nd|] eqn:En; [|discriminate ED] end.
    assert (Hnd : nd <> 0).
    { unfold norm_dim in En.
      match type of En with context [if ?c then _ else _] => destruct c eqn:E1 end.
      - injection En as <-. lia.
      - match type of En with context [if ?c then _ else _] => destruct c eqn:E2 end; [|discriminate En].
        apply andb_true_iff in E2. destruct E2 as [_ E2]. apply Z.ltb_lt in E2. lia. }
    match type of ED with context [if ?c then _ else _] => destruct c; [|discriminate ED] end.
    injection ED as <-. cbn [d_src]. destruct (nd =? 0) eqn:E0; [apply Nat.eqb_eq in E0; contradiction|].
    cbn [nth_shape nth length map]. rewrite map_length.
    rewrite nth_map_seq; [reflexivity|]. unfold gid in *. rewrite <- HL0. exact Hi. }
  rewrite Hsrc. split; [|split].
  - intros x y Hx Hy _ _. apply in_map_iff in Hx. apply in_map_iff in Hy.
    destruct Hx as (jx & <- & _). destruct Hy as (jy & <- & _). reflexivity.
  - exists (0, i). split; [apply in_map_iff; exists 0; split; [reflexivity|apply in_seq; lia]|].
    unfold entry_grid. cbn [fst snd nth_error]. rewrite Hk0. now apply nth_error_nth'.
  - intros ax Hax; discriminate Hax.
Qed.
Lemma length_ins_nth {A} (l : list A) k x : k <= length l -> length (ins_nth l k x) = S (length l).
Proof. intros H. unfold ins_nth. rewrite app_length, firstn_length. cbn [length]. rewrite skipn_length. lia. Qed.

(* torch.stack of image batches has one dimension more than any grid accounts for: the result is never a (non-empty)
   batch; in particular it is sound *)
Theorem stack_sound d a args :
  all_image_batches (a :: args) ->
  res_sound gshape (a :: args) (run_op gshape gaxes (OStack d) (a :: args))
  /\ (0 < nent (t_shape a) -> forall o, run_op gshape gaxes (OStack d) (a :: args) = OOne o -> v_kind o = TPlain).
Proof.
  intros Hall. set (l := a :: args) in *.
  assert (Hrun : run_op gshape gaxes (OStack d) l = dispatch_batch gshape false (OStack d) l).
  { unfold run_op. subst l. now rewrite choose_disp_image_batches. }
  rewrite Hrun. unfold dispatch_batch.
  destruct (all_batches_kinds l Hall) as (Htb & Hgr). rewrite Htb.
  inversion Hall as [|? ? (g0 & Hk0 & Hwf0) Hrest]; subst.
  unfold wf_val in Hwf0. rewrite Hk0 in Hwf0. destruct Hwf0 as (HL0 & H40 & HF0).
  assert (Hgrid : exists gf, tf_grid_batch (OStack d) (kw_of (OStack d))
                    (hd 0 (flat_map (fun x => match t_kind x with TPlain => [] | _ => [ndim (t_shape x)] end) l)) (map t_kind l) = GFlat gf
                    /\ gf = g0).
  { unfold tf_grid_batch. rewrite Hgr. subst l. cbn [map]. unfold grids_of at 1. rewrite Hk0.
    exists g0. split; [|reflexivity]. repeat match goal with |- context [if ?c then _ else _] => destruct c end; unfold grids_of; rewrite ?Hk0; reflexivity. }
  destruct Hgrid as (gf & Hgrid & ->). rewrite Hgrid.
  destruct (data_sem (OStack d) (map t_shape l)) as [e|dd|ds] eqn:ED; [split; [exact I|discriminate]| |].
  2:{ exfalso. cbn in ED. repeat match type of ED with context [match ?c with _ => _ end] => destruct c end; discriminate ED. }
  cbn [tf_axes class_of flat_of].
  (* the stacked data has one more dimension *)
  assert (Hnd : ndim (d_shape dd) = S (ndim (t_shape a))).
  { subst l. cbn -[nth_shape] in ED. cbn [nth_shape nth] in ED.
    match type of ED with context [norm_dim ?n ?z] => destruct (norm_dim n z) as [nd|] eqn:En; [|discriminate ED] end.
    match type of ED with context [if ?c then _ else _] => destruct c; [|discriminate ED] end.
    injection ED as <-. cbn [d_shape]. apply norm_dim_lt' in En. unfold ndim in *. apply length_ins_nth. lia. }
  unfold one_kind. destruct (res_batch gshape (d_shape dd) (Some g0)) as [e|k] eqn:ER; [split; [exact I|discriminate]|].
  destruct k as [|fl gs'|fl g].
  - split; [unfold res_sound, out_sound; cbn; exact I|]. intros _ o Ho. injection Ho as <-. reflexivity.
  - pose proof ER as ER'. apply res_batch_typed in ER. destruct ER as (-> & -> & HN & H4 & HF).
    destruct g0 as [|g1 gr].
    + split.
      * unfold res_sound, out_sound; cbn [v_kind v_shape v_src]. split; [unfold wf_val, val_of; cbn; auto|]. intros i Hi; cbn in Hi; lia.
      * intros Hpos. cbn in HL0. lia.
    + exfalso. apply res_batch_typed_ndim in ER'. inversion HF0 as [|? ? Hg1 _]; subst.
      rewrite Hg1, skipn_length in ER'. unfold ndim in *. lia.
  - exfalso. exact (res_batch_not_single gshape _ _ _ _ ER).
Qed.
End Cat.
