(* C16: the box windows of lcc_loss / wlcc_loss (box_nb: kernel k, padding k/2, stride 1, row-major lattice of
   any dimension) form a valid window system: every window is non-empty and lies inside the image. *)
From Coq Require Import ZArith List Lia Bool Arith.
From DV Require Import Base.Field Base.FieldFacts Base.LinAlg Model.Losses Proofs.C16Lists Proofs.C16Corr.
Import ListNotations.

Fixpoint inr (sh m : list nat) : Prop :=
  match sh, m with
  | n :: r, c :: cr => (c < n)%nat /\ inr r cr
  | _, _ => True
  end.
Definition pos (l : list nat) : Prop := Forall (fun n => (1 <= n)%nat) l.

Lemma prodn_pos sh : pos sh -> (0 < prodn sh)%nat.
Proof.
  induction 1 as [|n r Hn _ IH]; [cbn; lia|]. change (prodn (n :: r)) with (n * prodn r)%nat. nia.
Qed.

Lemma flat_lt sh m : pos sh -> inr sh m -> (flat sh m < prodn sh)%nat.
Proof.
  intro Hp. revert m. induction Hp as [|n r Hn Hr IH]; intros m H.
  - destruct m; cbn; lia.
  - destruct m as [|c cr].
    + cbn [flat]. pose proof (prodn_pos r Hr). change (prodn (n :: r)) with (n * prodn r)%nat. nia.
    + cbn [inr] in H. destruct H as [Hc Hcr]. specialize (IH cr Hcr).
      cbn [flat]. change (prodn (n :: r)) with (n * prodn r)%nat. nia.
Qed.

Lemma unflat_inr sh i : pos sh -> (i < prodn sh)%nat -> inr sh (unflat sh i).
Proof.
  intro Hp. revert i. induction Hp as [|n r Hn Hr IH]; intros i Hi; [exact I|].
  cbn [unflat]. cbv zeta. cbn [inr]. change (prodn (n :: r)) with (n * prodn r)%nat in Hi.
  pose proof (prodn_pos r Hr) as Hs. split.
  - apply Nat.div_lt_upper_bound; lia.
  - apply IH. apply Nat.mod_upper_bound. lia.
Qed.

Lemma win_in n k c a : In a (win n k c) -> (a < n)%nat.
Proof. unfold win. intro H. apply filter_In in H. destruct H as [H _]. apply in_seq in H. lia. Qed.

Lemma win_center n k c : (c < n)%nat -> (1 <= k)%nat -> In c (win n k c).
Proof.
  intros Hc Hk. unfold win. apply filter_In. split; [apply in_seq; lia|].
  apply andb_true_iff. split; apply Nat.leb_le; [lia|].
  assert (k / 2 < k)%nat by (apply Nat.div_lt; lia). lia.
Qed.

Lemma cart_wins_inr sh ks idx m : In m (cart (wins sh ks idx)) -> inr sh m.
Proof.
  revert ks idx m. induction sh as [|n r IH]; intros ks idx m H; [destruct m; exact I|].
  destruct ks as [|k kr]; [cbn in H; destruct H as [<-|[]]; exact I|].
  destruct idx as [|c cr]; [cbn in H; destruct H as [<-|[]]; exact I|].
  cbn [wins cart] in H. apply in_flat_map in H. destruct H as (a & Ha & Hm).
  apply in_map_iff in Hm. destruct Hm as (m' & <- & Hm'). cbn [inr]. split; [exact (win_in _ _ _ _ Ha) | exact (IH _ _ _ Hm')].
Qed.

Lemma cart_wins_nonempty sh ks idx : pos ks -> inr sh idx -> cart (wins sh ks idx) <> [].
Proof.
  revert ks idx. induction sh as [|n r IH]; intros ks idx Hk Hi; [cbn; discriminate|].
  destruct ks as [|k kr]; [cbn; discriminate|]. destruct idx as [|c cr]; [cbn; discriminate|].
  cbn [inr] in Hi. destruct Hi as [Hc Hcr]. inversion Hk as [|? ? Hk1 Hkr]; subst.
  cbn [wins cart]. specialize (IH kr cr Hkr Hcr).
  pose proof (win_center n k c Hc Hk1) as Hin.
  destruct (cart (wins r kr cr)) as [|m0 ms] eqn:E; [contradiction|].
  intro Hnil. assert (Hx : In (c :: m0) (flat_map (fun a => map (cons a) (m0 :: ms)) (win n k c))).
  { apply in_flat_map. exists c. split; [exact Hin | left; reflexivity]. }
  rewrite Hnil in Hx. exact Hx.
Qed.

(* every window is non-empty and inside the image: the hypothesis nb_ok of the windowed theorems holds *)
Lemma box_nb_valid sh ks i : pos sh -> pos ks -> (i < prodn sh)%nat ->
  box_nb sh ks i <> [] /\ Forall (fun j => (j < prodn sh)%nat) (box_nb sh ks i).
Proof.
  intros Hs Hk Hi. unfold box_nb. pose proof (unflat_inr sh i Hs Hi) as Hu. split.
  - intro E. apply map_eq_nil in E. exact (cart_wins_nonempty sh ks _ Hk Hu E).
  - apply Forall_forall. intros j Hj. apply in_map_iff in Hj. destruct Hj as (m & <- & Hm).
    apply flat_lt; [exact Hs | exact (cart_wins_inr _ _ _ _ Hm)].
Qed.

Lemma box_nb_ok (K : fld) (Kf : is_field K) (Kc : char0 K) sh ks : pos sh -> pos ks -> nb_ok K (prodn sh) (box_nb sh ks).
Proof.
  intros Hs Hk i Hi. destruct (box_nb_valid sh ks i Hs Hk Hi) as [Hne Hin]. split; [|exact Hin].
  apply (of_nat_nz K Kf Kc). destruct (box_nb sh ks i); [contradiction | discriminate].
Qed.
