(* C04: chains of concrete operations, world level (D in {2,3}): ramp images stay ramps on grids that are in lock-step
   with the chain; lock-step composes; the grids derived by resize / resample / crop family / pooling are in lock-step
   with the per-axis steps of the corresponding data operations. *)
From Coq Require Import ZArith List Field Ring Lia Bool.
From DV Require Import Base.Field Base.FieldFacts Base.LinAlg Base.Tactics Model.Enums Model.Homog Model.Grid Model.Sampler
  Gen.GridT Gen.GridCtor Gen.GridDerive Model.ImageOps Model.ImageChain Proofs.C01Grid Proofs.C03Resize Proofs.C04Axis
  Proofs.C04World Proofs.C04Chain.
Import ListNotations.
Local Open Scope fld_scope.

Section C04ChainWorld.
Variable K : fld.
Hypothesis Kf : is_field K.
Hypothesis Kc : char0 K.
Add Field KF_C04ChainWorld : Kf.
Variable floorK : K -> Z.
Let K1 := K1nz K Kf.
Let K2 := K2nz K Kf Kc.
Hint Resolve K1 K2 : core.
Ltac side := repeat split; auto.
Ltac len2 X H := destruct X as [|?x0 [|?x1 [|? ?]]]; try discriminate H; clear H.
Ltac len3 X H := destruct X as [|?x0 [|?x1 [|?x2 [|? ?]]]]; try discriminate H; clear H.
Ltac nz H := pose proof (H 0%nat ltac:(lia)); pose proof (H 1%nat ltac:(lia)); try pose proof (H 2%nat ltac:(lia)).

Variable D : nat.
Hypothesis HD : D = 2%nat \/ D = 3%nat.

(* ---------- ramp_preserved for chains of ANY length ---------- *)
Theorem ramp_chain_world (n s c : nat -> K) (d : nat -> nat -> K) (A : list K) (b : K)
        (im : nimg (K:=K)) (V : list Z -> Prop) (l : list (axstep (K:=K))) (N' S' C' : list K) :
  length A = D -> length (ishape im) = D -> steps_ok D l ->
  (forall J, length J = D -> V J -> in_box (ishape im) J = true /\
     ival im J = dot A (gen_pts D GRID WORLD (vtab D n) (vtab D s) (vtab D c) (tab D D d) (map of_Z J)) + b) ->
  lock D (vtab D n) (vtab D s) (vtab D c) (tab D D d) N' S' C' l ->
  forall J, length J = D -> valid_chain floorK l im V J ->
  ival (run_steps floorK l im) J = dot A (gen_pts D GRID WORLD N' S' C' (tab D D d) (map of_Z J)) + b.
Proof.
  intros HA Hs Hl Hramp Hlock J HJ HV.
  assert (Aff : affine_on D im (vtab D (ramp_coef K D s d A), ramp_off K D n s c d A b) V).
  { split; [|split; [exact Hs|]].
    - cbn [fst]. unfold vtab. now rewrite map_length, seq_length.
    - intros I HI VI. destruct (Hramp I HI VI) as [B E]. split; [exact B|]. cbn [fst snd]. rewrite E.
      rewrite (ramp_is_affine K Kf Kc D HD n s c d A b) by (auto; now rewrite map_length). reflexivity. }
  destruct (steps_affine K Kf Kc floorK D l Hl im _ V Aff) as (_ & _ & HVal).
  destruct (HVal J HJ HV) as [_ E]. rewrite E. unfold aff.
  rewrite (coef_phi K Kf D l Hl) by (unfold vtab; rewrite ?map_length, ?seq_length; auto).
  rewrite Hlock by (now rewrite map_length).
  rewrite (ramp_is_affine K Kf Kc D HD n s c d A b) by (auto; rewrite steps_phi_length, map_length; auto).
  reflexivity.
Qed.

(* ---------- lock-step composes: chains of operations ---------- *)
Lemma lock_refl (N S C : list K) Dm : lock D N S C Dm N S C [].
Proof. intros X HX. reflexivity. Qed.
Lemma lock_trans (N S C : list K) Dm (N1 S1 C1 N2 S2 C2 : list K) l1 l2 :
  lock D N S C Dm N1 S1 C1 l1 -> lock D N1 S1 C1 Dm N2 S2 C2 l2 -> lock D N S C Dm N2 S2 C2 (l1 ++ l2).
Proof.
  intros H1 H2 X HX. rewrite steps_phi_app, H2 by exact HX. apply H1. now rewrite steps_phi_length.
Qed.

(* ---------- the derived grids are in lock-step with the data steps ---------- *)
Variables (n s c : nat -> K) (d : nat -> nat -> K).
Notation N := (vtab D n). Notation S := (vtab D s). Notation C := (vtab D c). Notation Dm := (tab D D d).

(* resize family (Grid._resize spacing formulas, generated): resize, downsample, upsample, pyramid levels *)
Lemma lock_resize (ac : bool) (nz mz : nat -> Z) :
  (forall i, n i = of_Z (nz i)) ->
  (forall i, (i < D)%nat -> of_Z (K:=K) (mz i) - 1 <> 0) -> (forall i, (i < D)%nat -> of_Z (K:=K) (mz i) <> 0) ->
  lock D N S C Dm (vtab D (fun i => of_Z (mz i)))
       ((if ac then gen_resize_spacing_ac else gen_resize_spacing_nac) D N S C Dm (vtab D (fun i => of_Z (mz i)))) C
       (resize_steps D ac nz mz).
Proof.
  intros Hn H1 H0 X HX.
  rewrite (lockstep_resize K Kf Kc D HD n s c (fun i => of_Z (mz i)) d ac X HX H1 H0). f_equal.
  destruct HD as [-> | ->]; [len2 X HX | len3 X HX]; nz H1; nz H0; destruct ac;
    cbn [resize_steps map seq steps_phi step_phi step_axis step_map rsz_coef upd nth vtab]; rewrite !Hn; unfold rsz; list_eq; field; side.
Qed.

(* resample: same center and direction, new spacing and size *)
Lemma lock_resample (nz mz : nat -> Z) (s' : nat -> K) :
  (forall i, n i = of_Z (nz i)) -> (forall i, (i < D)%nat -> s i <> 0) ->
  lock D N S C Dm (vtab D (fun i => of_Z (mz i))) (vtab D s') C (resample_steps D nz mz s s').
Proof.
  intros Hn Hs X HX.
  rewrite (lockstep_resample K Kf Kc D HD n s c (fun i => of_Z (mz i)) d s' X HX Hs). f_equal.
  destruct HD as [-> | ->]; [len2 X HX | len3 X HX]; nz Hs;
    cbn [resample_steps map seq steps_phi step_phi step_axis step_map rsm_coef upd nth vtab]; rewrite !Hn; unfold rsm; list_eq; field; side.
Qed.

(* crop family (crop, pad, center crop / pad, narrow, region of interest): a grid of any size built through the origin=
   route at the position of index lo *)
Lemma lock_crop (cv : K) (lo hi : nat -> Z) (n' : nat -> K) :
  lock D N S C Dm (vtab D n') S
       (gen_center_of_origin D (vtab D n') S Dm (gen_pts D GRID WORLD N S C Dm (vtab D (fun i => of_Z (lo i))))) (crop_steps D cv lo hi).
Proof.
  intros X HX.
  rewrite (origin_route_keeps_samples K Kf Kc D HD n s c d n' (vtab D (fun i => of_Z (lo i))) X)
    by (auto; unfold vtab; now rewrite map_length, seq_length).
  f_equal. destruct HD as [-> | ->]; [len2 X HX | len3 X HX];
    cbn [crop_steps map seq steps_phi step_phi step_axis step_map upd nth vtab vadd vmap2]; unfold vadd; cbn [vmap2]; list_eq; ring.
Qed.

(* pooling with window ks: size n', spacing s * ks, origin at the centroid of the first window *)
Lemma lock_pool (ks : nat -> Z) (n' : nat -> K) :
  let Kk := vtab D (fun i => of_Z (K:=K) (ks i)) in
  lock D N S C Dm (vtab D n') (vmul S Kk)
       (gen_center_of_origin D (vtab D n') (vmul S Kk) Dm
          (gen_pts D GRID WORLD N S C Dm (vscale (1 / (1 + 1)) (vsub Kk (repeat 1 (length Kk))))))
       (pool_steps D ks).
Proof.
  intros Kk X HX. subst Kk. unfold lock in *.
  rewrite (pool_keeps_centroids K Kf Kc D HD n s c d n' (fun i => of_Z (ks i)) X HX). f_equal.
  destruct HD as [-> | ->]; [len2 X HX | len3 X HX];
    cbn [pool_steps map seq steps_phi step_phi step_axis step_map upd nth vtab]; fcbv; list_eq; field; side.
Qed.
End C04ChainWorld.
