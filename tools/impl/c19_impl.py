"""Implementation-side runner for C19 (runs against /repo's working tree).

Executes short programs of torch operations on ImageBatch / FlowFields / Image / FlowField values with
pairwise distinct grids.  For every step it reports, for every output: type, shape, grid ids, axes,
and the *provenance* of every dim-0 entry -- measured, not assumed: the step is re-run once per
(operand, dim-0 entry) with that entry set to one and everything else to zero, and the non-zero
entries of the result are read off.  The same measurements feed the direct evaluation of the
property (oracle), which is what `search` uses.
"""
import copy
import json
import pickle
import sys

import numpy as np
import torch
import torch.nn.functional as F
from torch import Tensor

from vlib import emit_json

from deepali.core.grid import Axes, Grid
from deepali.data import FlowField, FlowFields, Image, ImageBatch, collate_samples

AXES = {"GRID": Axes.GRID, "CUBE": Axes.CUBE, "CUBE_CORNERS": Axes.CUBE_CORNERS, "WORLD": Axes.WORLD}
AXES_NAME = {v: k for k, v in AXES.items()}
ERR = {"ValueError": "EValue", "TypeError": "EType", "IndexError": "EIndex", "AssertionError": "EAssert",
       "AttributeError": "EAttr", "RuntimeError": "ERuntime"}


def mkgrid(gid, sp):
    # grid id coded in the spacing of the first axis (distinct grids, readable after clone / pickle)
    return Grid(shape=tuple(sp), spacing=(1.0 + gid,) + (1.0,) * (len(sp) - 1))


def gid_of(g):
    return int(round(float(g.spacing()[0]) - 1.0))


def build(desc, data=None):
    """desc: {"kind": "P"|"B"|"F"|"I"|"FI", "shape": [...], "grids": [...], "axes": name}"""
    shape = tuple(desc["shape"])
    if data is None:
        # distinct, exactly representable values: the real run of a program carries recognisable data
        n = 1
        for k in shape:
            n *= k
        data = (torch.arange(n, dtype=torch.float32).reshape(shape) % 251.0 + 1.0) / 8.0 + float(desc.get("grids", [0])[0] if desc.get("grids") else 0)
    k = desc["kind"]
    if desc.get("rg"):
        # data that requires grad: DataTensor.__new__ then keeps the autograd graph (data.as_subclass(cls), a non-leaf alias)
        data = data.clone().requires_grad_(True)
    if k == "P":
        return data
    if k in ("B", "F"):
        sp = shape[2:]
        grids = [mkgrid(g, sp) for g in desc["grids"]]
        return ImageBatch(data, grids) if k == "B" else FlowFields(data, grids, AXES[desc["axes"]])
    sp = shape[1:]
    g = mkgrid(desc["grids"][0], sp)
    return Image(data, g) if k == "I" else FlowField(data, g, AXES[desc["axes"]])


def describe(x):
    """type, shape, grids, axes of a value (without data)"""
    if not isinstance(x, Tensor):
        return {"kind": "X", "shape": [], "repr": type(x).__name__}
    d = {"shape": list(x.shape)}
    if type(x) is Tensor:
        d["kind"] = "P"
    elif isinstance(x, FlowFields):
        d.update(kind="F", grids=[gid_of(g) for g in x.grids()], gshapes=[list(g.shape) for g in x.grids()],
                 axes=AXES_NAME.get(x.axes(), "?"))
    elif isinstance(x, ImageBatch):
        d.update(kind="B", grids=[gid_of(g) for g in x.grids()], gshapes=[list(g.shape) for g in x.grids()])
    elif isinstance(x, FlowField):
        d.update(kind="FI", grids=[gid_of(x.grid())], gshapes=[list(x.grid().shape)], axes=AXES_NAME.get(x.axes(), "?"))
    elif isinstance(x, Image):
        d.update(kind="I", grids=[gid_of(x.grid())], gshapes=[list(x.grid().shape)])
    else:
        d["kind"] = "X"
    return d


def rebuild(x, data):
    """same type / grids / axes as x with other data (constructors do not check the number of grids)"""
    if isinstance(x, Tensor) and x.requires_grad and data.is_floating_point():
        data = data.clone().requires_grad_(True)
    if type(x) is Tensor or not isinstance(x, Tensor):
        return data
    if isinstance(x, FlowFields):
        return FlowFields(data, x.grids(), x.axes())
    if isinstance(x, ImageBatch):
        return ImageBatch(data, x.grids())
    if isinstance(x, FlowField):
        return FlowField(data, x.grid(), x.axes())
    if isinstance(x, Image):
        return Image(data, x.grid())
    return data


def plain(x):
    return x.as_subclass(Tensor) if isinstance(x, Tensor) else x


def dimargs(d):
    if d["k"] == "none":
        return (), {}
    if d["k"] == "pos":
        return (d["v"],), {}
    return (), {"dim": d["v"]}


def pyindex(ix):
    t = ix["t"]
    if t == "int":
        return ix["v"]
    if t == "slice":
        return slice(ix["a"], ix["b"], ix["c"])
    if t == "ell":
        return ...
    if t in ("list", "bools"):
        v = ix["v"]
        how = ix.get("as", "list")
        if how == "tensor":
            return torch.tensor(v, dtype=torch.bool if t == "bools" else torch.long)
        if how == "numpy":
            return np.array(v, dtype=bool if t == "bools" else np.int64)
        return list(v)
    raise ValueError(t)


def apply(op, xs):
    k = op["op"]
    x = xs[0]
    fn = op.get("fn")
    if k == "unary":
        if fn == "abs":
            return torch.abs(x)
        if fn == "neg":
            return -x
        if fn == "mul2":
            return x * 2
        if fn == "double":
            return x.double()
        if fn == "same_dtype":
            return x.to(x.dtype)
        if fn == "clone":
            return x.clone()
        if fn == "torch_clone":
            return torch.clone(x)
        if fn == "contiguous":
            return x.contiguous()
        if fn == "detach":
            return x.detach()
        if fn == "cpu":
            return x.to("cpu")
        if fn == "relu":
            return torch.relu(x)
        if fn == "imul":
            return x.mul_(1)
        if fn == "type":
            return x.type(torch.float64)
        raise ValueError(fn)
    if k == "binary":
        if fn == "add":
            return xs[0] + xs[1]
        if fn == "torch_add":
            return torch.add(xs[0], xs[1])
        if fn == "maximum":
            return torch.maximum(xs[0], xs[1])
        raise ValueError(fn)
    if k == "reduce":
        f = {"sum": torch.sum, "amax": torch.amax, "mean": torch.mean}[fn]
        return f(x, tuple(op["dims"]), keepdim=op["keep"])
    if k == "reduce_all":
        return x.sum()
    if k == "scan":
        return torch.cumsum(x, op["dim"])
    if k == "narrow":
        return torch.narrow(x, op["dim"], op["start"], op["len"])
    if k == "select":
        return torch.select(x, op["dim"], op["idx"]) if fn == "func" else Tensor.select(x, op["dim"], op["idx"])
    if k == "index_select":
        return torch.index_select(x, op["dim"], torch.tensor(op["idx"], dtype=torch.long))
    a, kw = dimargs(op["d"]) if "d" in op else ((), {})
    if k == "cat":
        return torch.cat(list(xs), *a, **kw)
    if k == "stack":
        return torch.stack(list(xs), *a, **kw)
    if k == "split":
        return torch.split(x, op["size"], *a, **kw) if fn == "func" else x.split(op["size"], *a, **kw)
    if k == "split_list":
        sizes = list(op["sizes"]) if op.get("seq", "list") == "list" else tuple(op["sizes"])
        return torch.split(x, sizes, *a, **kw) if fn == "func" else x.split(sizes, *a, **kw)
    if k == "split_with_sizes":
        return torch.split_with_sizes(x, list(op["sizes"]), *a, **kw) if fn == "func" else x.split_with_sizes(list(op["sizes"]), *a, **kw)
    if k == "tensor_split_n":
        return torch.tensor_split(x, op["n"], *a, **kw) if fn == "func" else x.tensor_split(op["n"], *a, **kw)
    if k == "tensor_split_idx":
        idx = list(op["idx"]) if op.get("seq", "list") == "list" else (torch.tensor(op["idx"]) if op["seq"] == "tensor" else tuple(op["idx"]))
        return torch.tensor_split(x, idx, *a, **kw) if fn == "func" else x.tensor_split(idx, *a, **kw)
    if k == "chunk":
        return torch.chunk(x, op["n"], *a, **kw) if fn == "func" else x.chunk(op["n"], *a, **kw)
    if k == "unbind":
        return torch.unbind(x, *a, **kw) if fn == "func" else x.unbind(*a, **kw)
    if k == "flip":
        return torch.flip(x, tuple(op["dims"])) if fn == "func" else x.flip(*op["dims"])
    if k == "roll":
        return torch.roll(x, op["shift"], op["dim"])
    if k == "permute":
        if fn == "transpose":
            return x.transpose(op["d1"], op["d2"])
        if fn == "movedim":
            return x.movedim(op["d1"], op["d2"])
        return x.permute(*op["perm"])
    if k == "expand":
        return x.expand(*op["sizes"])
    if k == "repeat":
        return x.repeat(*op["reps"])
    if k == "reshape":
        if fn == "unsqueeze":
            return x.unsqueeze(op["dim"])
        if fn == "squeeze":
            return x.squeeze(op["dim"])
        if fn == "flatten":
            return x.flatten(op["d1"], op["d2"])
        return x.reshape(*op["shape"])
    if k == "spatial":
        D = x.ndim - 2 if op.get("batched", True) else x.ndim - 1
        if fn == "interp":
            return F.interpolate(x, size=tuple(op["size"]), mode="nearest")
        if fn == "avg_pool":
            return getattr(F, f"avg_pool{D}d")(x, op["k"])
        if fn == "max_pool":
            return getattr(F, f"max_pool{D}d")(x, op["k"])
        if fn == "pad":
            return F.pad(x, tuple(op["pad"]))
        if fn == "conv":
            w = torch.ones((op["cout"], x.shape[1]) + (1,) * D, dtype=x.dtype)
            return getattr(F, f"conv{D}d")(x, w)
        raise ValueError(fn)
    if k == "grid_sample":
        D = x.ndim - 2
        coords = torch.zeros((x.shape[0],) + tuple(op["sp"]) + (D,), dtype=x.dtype)
        return F.grid_sample(x, coords, mode="nearest", align_corners=True)
    if k == "getitem":
        ix = [pyindex(i) for i in op["ix"]]
        return x[tuple(ix)] if op["tuple"] else x[ix[0]]
    if k == "iter_build":
        items = list(x)
        sel = [items[i] for i in op["sel"]]
        if op["how"] == "from_images":
            return type(x).from_images(sel)
        return collate_samples([{"x": it} for it in sel])["x"]
    if k == "iter_pick":
        return list(x)[op["k"]]
    if k == "narrow_method":
        return x.narrow(op["dim"], op["start"], op["len"])
    if k == "copy":
        if fn == "copy":
            return copy.copy(x)
        if fn == "deepcopy":
            return copy.deepcopy(x)
        return pickle.loads(pickle.dumps(x))
    if k == "append":
        return xs[0].append(xs[1])
    if k == "to_batch":
        return x.batch()
    if k == "as_flows":      # FlowFields(batch) constructor
        return FlowFields(x)
    if k == "sample_grid":   # search only
        sp = x.shape[2:]
        return x.sample(mkgrid(op["gid"], sp) if op["n"] == 1 else [mkgrid(op["gid"] + i, sp) for i in range(op["n"])])
    raise ValueError(k)


def outputs_of(r):
    if isinstance(r, (tuple, list)):
        return True, list(r)
    return False, [r]


def flags(t):
    t = plain(t)
    if t.ndim == 0:
        return []
    return [bool((t[i] != 0).any()) for i in range(t.shape[0])]


def zeros_like_val(x):
    return rebuild(x, torch.zeros_like(plain(x)))


def ones_like_val(x):
    return rebuild(x, torch.ones_like(plain(x)))


def run_step(op, operands):
    """-> (observation dict, list of output values or None)"""
    try:
        base = apply(op, [ones_like_val(x) for x in operands])
    except Exception as e:  # noqa
        obs = {"error": ERR.get(type(e).__name__, "Other"), "exc": type(e).__name__, "msg": str(e)[:160]}
        try:
            apply_plain(op, operands)
            obs["plain_ok"] = True
        except Exception:  # noqa
            obs["plain_ok"] = False
        return obs, None
    is_tuple, outs = outputs_of(base)
    descs = [describe(o) for o in outs]
    srcs = [[[] for _ in range(d["shape"][0])] if d["shape"] else [] for d in descs]
    for j, x in enumerate(operands):
        if not isinstance(x, Tensor) or x.ndim == 0:
            continue
        for e in range(x.shape[0]):
            args = [zeros_like_val(y) for y in operands]
            d = torch.zeros_like(plain(x))
            d[e] = 1
            args[j] = rebuild(x, d)
            try:
                _, po = outputs_of(apply(op, args))
            except Exception as exc:  # noqa
                return {"error": "Other", "exc": type(exc).__name__, "msg": "probe run raised: " + str(exc)[:120], "plain_ok": True}, None
            for oi, o in enumerate(po):
                if oi < len(srcs) and isinstance(o, Tensor):
                    for i, f in enumerate(flags(o)):
                        if f and i < len(srcs[oi]):
                            srcs[oi][i].append([j, e])
    for d, s in zip(descs, srcs):
        d["src"] = s
    obs = {"tuple": is_tuple, "outs": descs}
    # the same operation on the plain data: the typed result must have the same shape(s)
    try:
        pr = apply_plain(op, operands)
        if pr is not None:
            _, pouts = outputs_of(pr)
            obs["plain_shapes"] = [list(o.shape) if isinstance(o, Tensor) else None for o in pouts]
    except Exception:  # noqa
        pass
    return obs, outs


def apply_plain(op, operands):
    if op["op"] == "narrow_method":
        return torch.ones_like(plain(operands[0])).narrow(op["dim"], op["start"], op["len"])
    if op["op"] in ("iter_build", "iter_pick", "append", "to_batch", "sample_grid", "copy", "as_flows"):
        return None
    return apply(op, [torch.ones_like(plain(x)) if isinstance(x, Tensor) else x for x in operands])


# ------------------------------------------------------------------------------------------------
# the property itself
# ------------------------------------------------------------------------------------------------
SITE = {"B": "ImageBatch", "F": "FlowFields", "I": "Image", "FI": "FlowField"}


FAMILY = {"flip": "batch-reorder", "roll": "batch-reorder", "index_select": "batch-reorder",
          "permute": "batch-mix", "scan": "batch-mix",
          "split_list": "split-sizes", "split_with_sizes": "split-sizes",
          "tensor_split_n": "tensor_split-int", "tensor_split_idx": "tensor_split-indices"}


def op_name(op):
    """operation family used in violation keys (root cause level, stable across seeds)"""
    k = op["op"]
    if k == "getitem":
        kinds = [i["t"] for i in op["ix"]]
        if kinds == ["ell"] and not op["tuple"]:
            return "getitem-ellipsis"
        if "bools" in kinds:
            return "getitem-mask"
        if any(i.get("as") == "numpy" for i in op["ix"]) and "ell" in kinds:
            return "getitem-numpy-ellipsis"
        return "getitem"
    name = FAMILY.get(k, k)
    if k == "tensor_split_idx" and op.get("seq") == "tensor":
        name = "tensor_split-tensor-indices"
    if k in ("split", "split_list", "split_with_sizes", "tensor_split_n", "tensor_split_idx", "chunk", "unbind"):
        d = op.get("d", {"k": "none"})
        if d["k"] != "none" and d.get("v") != 0:
            name = "split-other-dim"
    if k == "narrow_method" and op["start"] < 0:
        return "narrow-negative-start"
    if k == "copy":
        return op["fn"]
    if k == "iter_build":
        return op["how"]
    return name


def wellformed(x):
    """one grid per entry, of the data's spatial shape (what every constructor call is meant to guarantee)"""
    d = describe(x)
    if d["kind"] in ("B", "F"):
        return len(d["grids"]) == d["shape"][0] and all(g == d["shape"][2:] for g in d["gshapes"])
    if d["kind"] in ("I", "FI"):
        return d["gshapes"][0] == d["shape"][1:]
    return True


def site_of(op, operands):
    kinds = [describe(x)["kind"] for x in operands]
    k = op["op"]
    first = next((c for c in kinds if c != "P"), "P")
    if "F" in kinds and first in ("B", "F"):
        first = "F"      # subclass' __torch_function__ runs first
    if "FI" in kinds and first in ("I", "FI"):
        first = "FI"
    cls = SITE.get(first, "Tensor")
    if k == "getitem" and first in ("B", "F"):
        return "ImageBatch.__getitem__" if first == "B" else "FlowFields.__getitem__"
    if k == "iter_build":
        return cls + (".from_images" if op["how"] == "from_images" else ":collate_samples")
    if k == "iter_pick":
        return cls + ".__iter__"
    if k == "narrow_method":
        # (a negative start is resolved in ImageBatch.narrow, which Image.narrow delegates to: one root cause for all four classes)
        return "ImageBatch.narrow" if op["start"] < 0 else cls + ".narrow"
    if k == "copy":
        return cls + {"copy": ".__copy__", "deepcopy": ".__deepcopy__", "pickle": ".__reduce_ex__"}[op["fn"]]
    if k == "append":
        return cls + ".append"
    if k == "to_batch":
        return cls + ".batch"
    if k == "sample_grid":
        return cls + ".sample"
    if k == "as_flows":
        return "FlowFields.__init__"
    return cls + ".__torch_function__"


def oracle(op, operands, obs):
    """violations of the property at this step: list of (key, what)"""
    site = site_of(op, operands)
    name = op_name(op)
    if op["op"] in ("split", "split_list", "split_with_sizes", "tensor_split_n", "tensor_split_idx") and isinstance(operands[0], Tensor) \
            and operands[0].ndim and operands[0].shape[0] == 0:
        name = "split-of-empty-batch"
    if "error" in obs and obs.get("exc") == "ValueError" and "nchannels" in obs.get("msg", "") and isinstance(operands[0], FlowFields) \
            and operands[0].shape[0] == 0:
        name = "channel-change-of-empty-batch"
    key = lambda kind: f"C19:{site}:{name}:{kind}"  # noqa
    if "error" in obs and "view of a leaf Variable" in obs.get("msg", ""):
        # ImageBatch.__iter__ squeezes the narrowed view in place: one root cause for __iter__ / from_images / collate of both classes
        key = lambda kind: f"C19:ImageBatch.__iter__:batch-that-requires-grad:{kind}"  # noqa
    out = []
    descs_in = [describe(x) for x in operands]
    typed_in = [d["kind"] in ("B", "F", "I", "FI") for d in descs_in]
    if "error" in obs:
        flow_axes = {d.get("axes") for d in descs_in if d["kind"] in ("F", "FI")}
        if obs["exc"] == "ValueError" and "mismatching axes" in obs["msg"] and len(flow_axes) > 1:
            return out      # combining flow fields with different axes is refused on purpose
        if op["op"] == "as_flows" and ((obs["exc"] == "ValueError" and "nchannels" in obs["msg"])
                                       or (obs["exc"] == "IndexError" and operands[0].shape[0] == 0)):
            return out      # the constructor refuses data whose channels are not vector components (and has no default axes without a grid)
        if any(typed_in) and obs.get("plain_ok") and op["op"] not in ("grid_sample",):
            out.append((key("raises-" + obs["exc"]), f"raises {obs['exc']} ({obs['msg'][:80]}) although the operation succeeds on the plain data"))
        elif op["op"] in ("copy", "iter_build", "iter_pick", "append", "to_batch", "narrow_method", "sample_grid", "as_flows") and obs["exc"] not in ("IndexError", "RuntimeError"):
            out.append((key("raises-" + obs["exc"]), f"raises {obs['exc']} ({obs['msg'][:80]})"))
        return out
    ps = obs.get("plain_shapes")
    if ps is not None and any(typed_in):
        got = [d["shape"] if d["kind"] != "X" else None for d in obs["outs"]]
        if got != ps:
            out.append((key("result-shape-differs-from-plain-operation"), f"result shape(s) {got}, the same operation on the plain data gives {ps}"))
    for oi, d in enumerate(obs["outs"]):
        if d["kind"] == "X":
            continue
        if d["kind"] == "P":
            if op["op"] in ("copy",) and any(typed_in):
                out.append((key("type-lost"), "copy of a typed value is a plain tensor"))
            continue
        shape = d["shape"]
        batched = d["kind"] in ("B", "F")
        spatial = shape[2:] if batched else shape[1:]
        if batched and len(d["grids"]) != shape[0]:
            k2 = key("grid-count")
            if site == "FlowFields.__torch_function__":
                k2 = f"C19:{site}:any-op-changing-batch-size:grid-count"      # root cause does not depend on the operation
            out.append((k2, f"result of type {SITE[d['kind']]} has {shape[0]} entries but {len(d['grids'])} grids ({op['op']})"))
            continue
        if op["op"] == "sample_grid":
            want = [op["gid"] + (i if op["n"] > 1 else 0) for i in range(shape[0])]
            if d["grids"] != want:
                out.append((key("wrong-grids"), f"sampled batch carries grids {d['grids']}, expected the target grids {want}"))
            continue
        if any(gs != spatial for gs in d["gshapes"]):
            out.append((key("grid-shape"), f"grid shape {d['gshapes'][0]} differs from the data's spatial shape {spatial}"))
            continue
        entries = d["src"] if batched else [[s for e in d["src"] for s in e]]
        for i, srcs in enumerate(entries):
            typed_srcs = [(j, e) for j, e in srcs if typed_in[j]]
            if not typed_srcs:
                continue
            per_op = {}
            for j, e in typed_srcs:
                per_op.setdefault(j, set()).add(e)
            batched_mix = [j for j, es in per_op.items() if len(es) > 1 and descs_in[j]["kind"] in ("B", "F")]
            if batched and batched_mix:
                out.append((key("mixed-entries"), f"entry {i} of the {SITE[d['kind']]} result mixes entries {sorted(per_op[batched_mix[0]])} of one input batch"))
                break
            cands = set()
            for j, e in typed_srcs:
                gl = descs_in[j]["grids"]
                if descs_in[j]["kind"] in ("B", "F"):
                    if e < len(gl):
                        cands.add(gl[e])
                else:
                    cands.add(gl[0])
            g = d["grids"][i] if batched else d["grids"][0]
            if not batched:
                # an operand without elements (zero channels) contributes no data but may lend its grid
                for j, dj in enumerate(descs_in):
                    if typed_in[j] and dj["kind"] in ("I", "FI") and 0 in dj["shape"]:
                        cands.add(dj["grids"][0])
            if g not in cands:
                out.append((key("grid-of-other-item"), f"entry {i} holds the data of input item(s) with grid(s) {sorted(cands)} but carries grid {g}"))
                break
            if d["kind"] in ("F", "FI"):
                axs = {descs_in[j].get("axes") for j, _ in typed_srcs if descs_in[j]["kind"] in ("F", "FI")}
                if op["op"] == "append" and descs_in[0]["kind"] == "F":
                    axs = {descs_in[0]["axes"]}       # the appended flow fields are converted to the axes of the batch
                if axs and d["axes"] not in axs:
                    out.append((key("axes-lost"), f"flow result has axes {d['axes']} but its data comes from flow fields with axes {sorted(axs)}"))
                    break
        if op["op"] == "copy":
            din = descs_in[0]
            if d["kind"] != din["kind"] or d.get("grids") != din.get("grids") or d.get("axes") != din.get("axes") or shape != din["shape"]:
                out.append((key("not-preserved"), f"copy changed type/grids/axes: {din} -> {d}"))
    return out


def to_world(data, grid, axes):
    """reference conversion of flow vectors (D, ...X) of one item to world units (grids with identity direction)"""
    D = grid.ndim
    spacing = grid.spacing().to(data.dtype)                 # (x, y, ...)
    size = torch.tensor(list(grid.size()), dtype=data.dtype)  # (x, y, ...)
    if axes is Axes.WORLD:
        scale = torch.ones(D, dtype=data.dtype)
    elif axes is Axes.GRID:
        scale = spacing
    elif axes is Axes.CUBE:
        scale = spacing * size / 2
    else:
        scale = spacing * (size - 1) / 2
    return data.double() * scale.double().reshape((D,) + (1,) * D)


def value_oracle(op, operands, before, real):
    """checks that need the real data: copies reproduce the data (also of views), joined flow fields are expressed in the
    axes the result reports"""
    out = []
    site = site_of(op, operands)
    name = op_name(op)
    k = op["op"]
    if k == "copy" and isinstance(real[0], Tensor) and before[0] is not None:
        r = plain(real[0])
        if r.shape == before[0].shape and r.dtype == before[0].dtype and not tensors_same(r, before[0]):
            n = int((r != before[0]).sum())
            view = "a view with storage offset %d" % operands[0].storage_offset() if operands[0].storage_offset() else "not a view"
            out.append((f"C19:{site}:{name}:data-not-preserved", f"{op['fn']} changed {n} of {r.numel()} values (the copied value is {view})"))
    if k == "narrow_method" and hasattr(operands[0], "grids" if operands[0].__class__.__name__ in ("ImageBatch", "FlowFields") else "grid") \
            and type(real[0]) is type(operands[0]):
        # narrowing a spatial dimension: sample 0 of the result grid is sample `start` of the operand's grid, same spacing / direction
        x, r = operands[0], real[0]
        batched = hasattr(x, "grids")
        dim = op["dim"] + x.ndim if op["dim"] < 0 else op["dim"]
        if dim > (1 if batched else 0):
            gdim = x.ndim - dim - 1
            start = op["start"] + x.shape[dim] if op["start"] < 0 else op["start"]
            src = list(x.grids()) if batched else [x.grid()]
            res = list(r.grids()) if batched else [r.grid()]
            for i, (gs, gr) in enumerate(zip(src, res)):
                off = torch.zeros(1, gs.ndim, dtype=torch.double)
                off[0, gdim] = start
                want = gs.index_to_world(off).double()
                got = gr.index_to_world(torch.zeros(1, gs.ndim, dtype=torch.double)).double()
                if not torch.allclose(want, got, atol=1e-6) or not torch.allclose(gs.spacing().double(), gr.spacing().double()) \
                        or not torch.allclose(gs.direction().double(), gr.direction().double()):
                    out.append((f"C19:{site}:{name}:grid-not-aligned-with-data",
                                f"narrow({op['dim']}, {op['start']}, {op['len']}): the first sample of the result grid of item {i} is at world position "
                                f"{[round(v, 4) for v in got[0].tolist()]}, the data starts at sample {start} of the operand's grid, at {[round(v, 4) for v in want[0].tolist()]}"))
                    break
    if k == "append" and all(isinstance(x, FlowFields) for x in operands[:2]) and isinstance(real[0], FlowFields):
        a, b, r = operands[0], operands[1], real[0]
        if len(r.grids()) == r.shape[0] == a.shape[0] + b.shape[0]:
            want = [to_world(before[0][i], a.grids()[i], a.axes()) for i in range(a.shape[0])] \
                + [to_world(before[1][i], b.grids()[i], b.axes()) for i in range(b.shape[0])]
            got = [to_world(plain(r)[i], r.grids()[i], r.axes()) for i in range(r.shape[0])]
            for i, (w, g) in enumerate(zip(want, got)):
                if w.shape != g.shape or not torch.allclose(w, g, rtol=1e-4, atol=1e-5):
                    out.append((f"C19:{site}:{name}:vectors-not-in-reported-axes",
                                f"entry {i} of the result (axes {AXES_NAME.get(r.axes())}) is not the appended flow field converted to these axes: "
                                f"world-unit vectors differ by {float((w - g).abs().max()) if w.shape == g.shape else 'shape'} "
                                f"(batch axes {AXES_NAME.get(a.axes())}, appended axes {AXES_NAME.get(b.axes())})"))
                    break
    return out


def tensors_same(a, b):
    if a.is_floating_point():
        return bool(torch.all((a == b) | (torch.isnan(a) & torch.isnan(b))))
    return bool(torch.equal(a, b))


def run_case(case):
    cur = build(case["cur"])
    inputs = [build(d) for d in case.get("inputs", [])]
    steps_out = []
    viols = []
    for si, st in enumerate(case["steps"]):
        operands = [cur if r == "cur" else inputs[r] for r in st["args"]]
        before = [plain(x).detach().clone() if isinstance(x, Tensor) else None for x in operands]
        obs, outs = run_step(st["op"], operands)
        # the real run: the actual values (views into earlier storage, real vectors) go through the same operation
        real = None
        if outs is not None:
            try:
                _, real = outputs_of(apply(st["op"], operands))
            except Exception as e:  # noqa
                obs["real_run_raised"] = f"{type(e).__name__}: {str(e)[:100]}"
            if real is not None and all(wellformed(x) for x in operands):
                for key, what in value_oracle(st["op"], operands, before, real):
                    viols.append({"key": key, "what": what, "step": si})
        # the property is evaluated on steps whose operands are well described; the consequences of an
        # earlier violation (a value with the wrong number of grids) are not reported a second time
        if all(wellformed(x) for x in operands):
            for key, what in oracle(st["op"], operands, obs):
                viols.append({"key": key, "what": what, "step": si})
        else:
            obs["operands_not_wellformed"] = True
        steps_out.append(obs)
        if outs is None:
            break
        k = st.get("pick", 0)
        if k >= len(outs) or not isinstance(outs[k], Tensor):
            break
        # continue with the real value when it has the type / shape the probe run predicted (it always should)
        if real is not None and k < len(real) and isinstance(real[k], Tensor) and describe(real[k]) == {kk: v for kk, v in obs["outs"][k].items() if kk != "src"}:
            cur = real[k]
        else:
            if real is not None:
                viols.append({"key": f"C19:{site_of(st['op'], operands)}:{op_name(st['op'])}:result-depends-on-data",
                              "what": "type / shape / grids of the result differ between two runs with different data", "step": si})
            cur = outs[k]
    return {"steps": steps_out, "violations": viols}


def main():
    p = json.load(sys.stdin)
    torch.manual_seed(0)
    res = []
    for c in p["cases"]:
        try:
            res.append(run_case(c))
        except Exception as e:  # noqa  harness failure, reported as such
            import traceback
            res.append({"harness_error": f"{type(e).__name__}: {e}", "tb": traceback.format_exc(limit=4)})
    emit_json(res)


if __name__ == "__main__":
    main()
