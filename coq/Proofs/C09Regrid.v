(* C09 -- grid_() of a dense vector field model re-expresses the parameters on the new grid and
   installs that grid, so the world-space deformation is preserved.  SpatialTransform.grid_ returns
   early only when its test (Grid.__eq__ and equal align_corners) passes, i.e. for the grid the
   transform already has. *)
From Coq Require Import List Bool Arith Lia.
From DV Require Import Model.TransformState Proofs.C09Fresh Proofs.C09Replace.
Import ListNotations.

Section Regrid.
Context {P G C : Type}.
Variable p0 : P.
Variable regrid : kind -> P -> G -> G -> P.
Variable fits : kind -> P -> G -> bool.
Variable geq : G -> G -> bool.
Variable spline_ok : G -> bool.
Variable ffd_sub : G -> G -> option bool.
Variable cf : cfg.
Hypothesis Hcf : cfg_all cf = true.

Notation state := (state P G C).
Notation obj := (obj P G C).
Notation get_obj := (get_obj P G C).
Notation set_obj := (set_obj P G C).
Notation get_params := (get_params P G C).
Notation tval := (tval P G C p0).
Notation set_params := (set_params P G C).
Notation data_set := (data_set P G C fits cf).
Notation grid_set := (grid_set P G C p0 regrid fits geq spline_ok ffd_sub cf).
Notation clear_buffers := (clear_buffers P G C cf).

(* `params` is stored in at most one of the instance __dict__ and the _buffers dict
   (register_buffer refuses a name that already is an attribute) *)
Definition slots_wf (ob : obj) : Prop := o_adict P G C ob = None \/ o_bpar P G C ob = None.

(* what an object holds: parameter content and grid *)
Definition holds (s : state) (o : nat) (p : P) (g : G) : Prop :=
  exists ob r ip, get_obj s o = Some ob /\ get_params s ob = Some (VTen r ip) /\ tval s r = p /\ o_grid P G C ob = g.

Lemma set_params_ten s o r ip s2 ob :
  get_obj s o = Some ob -> slots_wf ob -> set_params s o (SetTen r ip) = Ok tt s2 ->
  exists ob2, get_obj s2 o = Some ob2 /\ (exists ip', get_params s2 ob2 = Some (VTen r ip'))
    /\ o_grid P G C ob2 = o_grid P G C ob /\ o_kind P G C ob2 = o_kind P G C ob
    /\ tens P G C s2 = tens P G C s /\ slots_wf ob2.
Proof.
  intros Hg Hw H. unfold TransformState.set_params, with_obj in H. fold (get_obj s o) in H. rewrite Hg in H.
  unfold slots_wf in *.
  destruct ip.
  - injection H as <-. eexists. split.
    { unfold TransformState.get_obj, TransformState.set_pd; cbn. apply (nth_error_replace_same _ _ _ ob). exact Hg. }
    repeat split; try (destruct ob; reflexivity).
    + exists true. unfold TransformState.get_params, get_pd, set_pd; cbn.
      destruct ob; cbn. rewrite Nat.eqb_refl. reflexivity.
    + left. destruct ob; reflexivity.
  - destruct (get_pd P G C s (o_pd P G C ob)) eqn:Epd; try discriminate.
    destruct (o_mpar P G C ob) eqn:Em; try discriminate.
    destruct (o_bpar P G C ob) eqn:Eb.
    + destruct Hw as [Ha | Hb]; [|congruence].
      injection H as <-. eexists. split. { apply (get_set_same' _ _ _ _ Hg). }
      repeat split; try (destruct ob; reflexivity).
      * exists false. unfold TransformState.get_params. destruct ob; cbn in *. subst.
        unfold get_pd in *; cbn. rewrite Epd. reflexivity.
      * left. destruct ob; cbn in *; auto.
    + injection H as <-. eexists. split. { apply (get_set_same' _ _ _ _ Hg). }
      repeat split; try (destruct ob; reflexivity).
      * exists false. unfold TransformState.get_params. destruct ob; reflexivity.
      * right. destruct ob; reflexivity.
Qed.

Lemma clear_keeps_params s o ob :
  get_obj s o = Some ob -> o_kind P G C ob <> KSeq ->
  exists ob1, get_obj (clear_buffers s o) o = Some ob1 /\ get_params (clear_buffers s o) ob1 = get_params s ob
    /\ o_grid P G C ob1 = o_grid P G C ob /\ tens P G C (clear_buffers s o) = tens P G C s
    /\ o_kind P G C ob1 = o_kind P G C ob.
Proof.
  intros Hg Hk. unfold TransformState.clear_buffers. fold (get_obj s o). rewrite Hg.
  assert (E : TransformState.clear1 P G C cf s o = set_obj s o (clear_obj P G C cf ob)).
  { unfold clear1. fold (get_obj s o). rewrite Hg. reflexivity. }
  exists (clear_obj P G C cf ob).
  assert (R : get_obj (set_obj s o (clear_obj P G C cf ob)) o = Some (clear_obj P G C cf ob))
    by apply (get_set_same' _ _ _ _ Hg).
  assert (Q : get_params (set_obj s o (clear_obj P G C cf ob)) (clear_obj P G C cf ob) = get_params s ob).
  { unfold TransformState.get_params, clear_obj. destruct (is_nonrigid (o_kind P G C ob)); destruct ob; reflexivity. }
  assert (Gd : o_grid P G C (clear_obj P G C cf ob) = o_grid P G C ob /\ o_kind P G C (clear_obj P G C cf ob) = o_kind P G C ob).
  { unfold clear_obj. destruct (is_nonrigid (o_kind P G C ob)); destruct ob; split; reflexivity. }
  destruct Gd. destruct (o_kind P G C ob) eqn:Ek; try congruence; rewrite E; repeat split; auto.
Qed.

Lemma data_set_holds s o p s1 ob :
  get_obj s o = Some ob -> o_kind P G C ob <> KSeq -> slots_wf ob ->
  data_set s o p false = Ok tt s1 -> holds s1 o p (o_grid P G C ob).
Proof.
  destruct (cfg_all_fields _ Hcf) as (Hdc & _).
  intros Hg Hk Hw H. unfold TransformState.data_set, with_obj in H. fold (get_obj s o) in H. rewrite Hg, Hdc in H.
  assert (H' : match get_params s ob with
               | Some pv => if is_callable pv then Er ReadOnly s else
                   if negb (fits (o_kind P G C ob) p (o_grid P G C ob)) then Er ValueErr s else
                   let (r, s1) := new_ten P G C s p in
                   let keep := match pv with VTen _ true => true | _ => false end in
                   bind P G C (set_params s1 o (SetTen r (keep || false))) (fun _ s2 => Ok tt (clear_buffers s2 o))
               | None => Er AttrErr s end = Ok tt s1).
  { destruct (o_kind P G C ob); try congruence; exact H. }
  clear H. destruct (get_params s ob) as [pv|]; try discriminate.
  destruct (is_callable pv); try discriminate.
  destruct (negb (fits (o_kind P G C ob) p (o_grid P G C ob))); try discriminate.
  cbn in H'. unfold bind in H'.
  match type of H' with context [TransformState.set_params _ _ _ ?s' _ (SetTen ?r ?b)] =>
    destruct (set_params s' o (SetTen r b)) as [[] s2|] eqn:Es; try discriminate;
    assert (Hg' : get_obj s' o = Some ob) by exact Hg;
    destruct (set_params_ten _ _ _ _ _ _ Hg' Hw Es) as (ob2 & Hg2 & (ip' & Hp2) & Hgr2 & Hk2 & Ht2 & _)
  end.
  injection H' as <-.
  destruct (clear_keeps_params s2 o ob2 Hg2) as (ob3 & Hg3 & Hp3 & Hgr3 & Ht3 & _); [congruence|].
  exists ob3, (length (tens P G C s)), ip'. repeat split; auto; try congruence.
  unfold TransformState.tval. rewrite Ht3, Ht2. cbn. apply nth_app_new.
Qed.

(* the theorem: for EVERY new grid; `geq` (the early-return test of SpatialTransform.grid_) is assumed
   to pass only for the grid the transform already has *)
Hypothesis geq_sound : forall a b, geq a b = true -> a = b.

Theorem dense_grid_set_reexpresses s o g s1 ob r ip :
  get_obj s o = Some ob -> is_dense (o_kind P G C ob) = true -> slots_wf ob ->
  get_params s ob = Some (VTen r ip) ->
  grid_set s o g = Ok tt s1 ->
  holds s1 o (regrid (o_kind P G C ob) (tval s r) (o_grid P G C ob) g) g.
Proof.
  destruct (cfg_all_fields _ Hcf) as (_ & _ & _ & Hgc & _ & _ & _ & _ & _ & _ & _ & _ & _ & _ & _ & Hdg & _).
  intros Hg Hd Hw Hp H. unfold TransformState.grid_set, with_obj in H. fold (get_obj s o) in H.
  rewrite Hg, Hd, Hp, Hdg in H.
  assert (Hnr : is_nonrigid (o_kind P G C ob) = true) by (unfold is_nonrigid; rewrite Hd; reflexivity).
  assert (Hks : o_kind P G C ob <> KSeq) by (destruct (o_kind P G C ob); cbn in Hd; congruence).
  unfold base_grid_set in H. fold (get_obj s o) in H. rewrite Hg, Hgc in H.
  destruct (geq (o_grid P G C ob) g) eqn:Hq.
  - (* the grid the transform already has: parameters re-expressed on the same grid *)
    apply geq_sound in Hq. subst g.
    match type of H with context [TransformState.data_set _ _ _ _ _ ?s' _ ?p false] =>
      destruct (data_set s' o p false) as [[] s2|] eqn:Ed; try discriminate end.
    injection H as <-. exact (data_set_holds _ _ _ _ _ Hg Hks Hw Ed).
  - (* the base method clears and installs g *)
    destruct (clear_keeps_params s o ob Hg Hks) as (ob1 & Hg1 & Hp1 & Hgr1 & Ht1 & Hk1).
    fold (get_obj (clear_buffers s o) o) in H. rewrite Hg1 in H.
    match type of H with context [TransformState.data_set _ _ _ _ _ ?s' _ ?p false] =>
      destruct (data_set s' o p false) as [[] s2|] eqn:Ed; try discriminate;
      assert (Hg2 : get_obj s' o = Some (set_grid P G C ob1 g)) by apply (get_set_same' _ _ _ _ Hg1)
    end.
    injection H as <-.
    assert (Hw2 : slots_wf (set_grid P G C ob1 g)).
    { unfold TransformState.clear_buffers in Hg1. fold (get_obj s o) in Hg1. rewrite Hg in Hg1.
      assert (E : TransformState.clear1 P G C cf s o = set_obj s o (clear_obj P G C cf ob)).
      { unfold clear1. fold (get_obj s o). rewrite Hg. reflexivity. }
      assert (Hx : ob1 = clear_obj P G C cf ob).
      { destruct (o_kind P G C ob) eqn:Ek; try congruence; rewrite E in Hg1;
        rewrite (get_set_same' _ _ _ _ Hg) in Hg1; congruence. }
      subst ob1. unfold slots_wf, clear_obj in *. destruct (is_nonrigid (o_kind P G C ob)); destruct ob; cbn in *; auto. }
    assert (Hk2 : o_kind P G C (set_grid P G C ob1 g) <> KSeq) by (destruct ob1; cbn in *; congruence).
    pose proof (data_set_holds _ _ _ _ _ Hg2 Hk2 Hw2 Ed) as Hh.
    replace (o_grid P G C (set_grid P G C ob1 g)) with g in Hh by (destruct ob1; reflexivity).
    exact Hh.
Qed.

(* world-space reading: any semantics under which regrid preserves the deformation *)
Corollary dense_grid_set_preserves_world (W : Type) (world : P -> G -> W) s o g s1 ob r ip :
  (forall k p a b, world (regrid k p a b) b = world p a) ->
  get_obj s o = Some ob -> is_dense (o_kind P G C ob) = true -> slots_wf ob ->
  get_params s ob = Some (VTen r ip) ->
  grid_set s o g = Ok tt s1 ->
  exists p', holds s1 o p' g /\ world p' g = world (tval s r) (o_grid P G C ob).
Proof.
  intros Hw Hg Hd Hs Hp H.
  exists (regrid (o_kind P G C ob) (tval s r) (o_grid P G C ob) g). split.
  - eapply dense_grid_set_reexpresses; eauto.
  - apply Hw.
Qed.

(* B-spline models: subdivision of the control grid installs the new grid and the subdivided coefficients *)
Theorem spline_grid_set_reexpresses s o g s1 ob r ip :
  get_obj s o = Some ob -> is_spline (o_kind P G C ob) = true -> slots_wf ob ->
  get_params s ob = Some (VTen r ip) ->
  ffd_sub (o_grid P G C ob) g = Some true ->
  grid_set s o g = Ok tt s1 ->
  holds s1 o (regrid (o_kind P G C ob) (tval s r) (o_grid P G C ob) g) g.
Proof.
  destruct (cfg_all_fields _ Hcf) as (_ & _ & _ & _ & _ & _ & _ & _ & _ & _ & _ & _ & _ & _ & _ & _ & Hsg & _).
  intros Hg Hsp Hw Hp Hsub H. unfold TransformState.grid_set, with_obj in H. fold (get_obj s o) in H.
  assert (Hd : is_dense (o_kind P G C ob) = false) by (destruct (o_kind P G C ob); cbn in *; congruence).
  rewrite Hg, Hd, Hsp, Hp, Hsub in H.
  destruct (negb (spline_ok g)); try discriminate.
  assert (Hks : o_kind P G C ob <> KSeq) by (destruct (o_kind P G C ob); cbn in Hsp; congruence).
  unfold spline_install in H. rewrite Hsg in H.
  destruct (clear_keeps_params s o ob Hg Hks) as (ob1 & Hg1 & Hp1 & Hgr1 & Ht1 & Hk1).
  fold (get_obj (clear_buffers s o) o) in H. rewrite Hg1 in H.
  assert (Hg2 : get_obj (set_obj (clear_buffers s o) o (set_grid P G C ob1 g)) o = Some (set_grid P G C ob1 g))
    by apply (get_set_same' _ _ _ _ Hg1).
  assert (Hw2 : slots_wf (set_grid P G C ob1 g)).
  { unfold TransformState.clear_buffers in Hg1. fold (get_obj s o) in Hg1. rewrite Hg in Hg1.
    assert (E : TransformState.clear1 P G C cf s o = set_obj s o (clear_obj P G C cf ob)).
    { unfold clear1. fold (get_obj s o). rewrite Hg. reflexivity. }
    assert (Hx : ob1 = clear_obj P G C cf ob).
    { destruct (o_kind P G C ob) eqn:Ek; try congruence; rewrite E in Hg1;
      rewrite (get_set_same' _ _ _ _ Hg) in Hg1; congruence. }
    subst ob1. unfold slots_wf, clear_obj in *. destruct (is_nonrigid (o_kind P G C ob)); destruct ob; cbn in *; auto. }
  assert (Hk2 : o_kind P G C (set_grid P G C ob1 g) <> KSeq) by (destruct ob1; cbn in *; congruence).
  pose proof (data_set_holds _ _ _ _ _ Hg2 Hk2 Hw2 H) as Hh.
  replace (o_grid P G C (set_grid P G C ob1 g)) with g in Hh by (destruct ob1; reflexivity).
  exact Hh.
Qed.

End Regrid.
