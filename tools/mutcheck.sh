#!/bin/bash
# usage: tools/mutcheck.sh <PID> <patch.diff> [tier]
# Runs ./check <PID> against a scratch worktree of /repo with the patch applied, from a private copy of
# /verif (so concurrent work in /verif and /repo is not disturbed). Prints the tail of the check output.
set -u
PID=$1; PATCH=$(readlink -f "$2"); TIER=${3:-quick}
TAG=mc_$$_$RANDOM
WT=/tmp/${TAG}_wt; VC=/tmp/${TAG}_verif
git -C /repo worktree add --detach "$WT" HEAD >/dev/null 2>&1 || { echo "worktree failed"; exit 2; }
if ! git -C "$WT" apply "$PATCH"; then echo "PATCH DOES NOT APPLY"; git -C /repo worktree remove --force "$WT"; exit 2; fi
rsync -a --exclude .git --exclude replays /verif/ "$VC"/
cd "$VC" && DEEPALI_REPO="$WT" timeout 3000 ./check "$PID" --tier "$TIER" > "/tmp/${TAG}.log" 2>&1
RC=$?
grep -E "VIOLATION|KNOWN-FINDING" "/tmp/${TAG}.log" | cut -c1-300 | head -${MUTCHECK_LINES:-20}
grep -E "^C[0-9]+: obligations" "/tmp/${TAG}.log" | cut -c1-300
echo "violations_with_input=$(grep '^VIOLATION' "/tmp/${TAG}.log" | grep -vc no-failing-input-found) violations_without_input=$(grep '^VIOLATION' "/tmp/${TAG}.log" | grep -c no-failing-input-found)"
echo "exit=$RC"
git -C /repo worktree remove --force "$WT"; rm -rf "$VC" "/tmp/${TAG}.log"
exit $RC
