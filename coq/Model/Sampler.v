(* Models of the torch kernels deepali's image code is built from (modelled, not verified; validated
   against torch by the correspondence checks that import this file):
     F.grid_sample   (bilinear / trilinear / nearest; zeros / border padding; align_corners),
     F.interpolate   (linear modes, nearest), F.pad (constant), F.avg_pool*d, F.conv*d (correlation).
   Images are nested lists in torch order: 1-D  [x],  2-D  [y][x],  3-D  [z][y][x]; positions are
   continuous indices given in (x, y, z) order.  floor / round-to-nearest on coordinates are Section
   variables (instantiated over Qc in Model/SamplerQc.v). *)
From Coq Require Import ZArith List Bool.
From DV Require Import Base.Field Base.LinAlg.
Import ListNotations.
Local Open Scope fld_scope.

Section Sampler.
Context {K : fld}.
Variable floorK : K -> Z.
Variable nearK : K -> Z.        (* round half to even, as torch's nearbyint *)

Inductive padmode := PZeros | PBorder.

Definition zlen {A} (l : list A) : Z := Z.of_nat (length l).
Definition clampz (i n : Z) : Z := Z.max 0 (Z.min i (n - 1)).
Definition inb (i n : Z) : bool := (0 <=? i)%Z && (i <? n)%Z.

(* element access with padding; A-valued with an explicit out-of-range value *)
Definition getp {A} (pad : padmode) (dflt : A) (l : list A) (i : Z) : A :=
  match pad with
  | PZeros => if inb i (zlen l) then nth (Z.to_nat i) l dflt else dflt
  | PBorder => nth (Z.to_nat (clampz i (zlen l))) l dflt
  end.

(* linear interpolation between cell corners i and i+1 with fraction t *)
Definition lerp (a b t : K) : K := (1 - t) * a + t * b.
Definition interp1 (pad : padmode) (l : list K) (i : Z) (t : K) : K :=
  lerp (getp pad 0 l i) (getp pad 0 l (i + 1)) t.
Definition interp2 (pad : padmode) (img : list (list K)) (ix iy : Z) (tx ty : K) : K :=
  lerp (interp1 pad (getp pad [] img iy) ix tx) (interp1 pad (getp pad [] img (iy + 1)) ix tx) ty.
Definition interp3 (pad : padmode) (img : list (list (list K))) (ix iy iz : Z) (tx ty tz : K) : K :=
  lerp (interp2 pad (getp pad [] img iz) ix iy tx ty) (interp2 pad (getp pad [] img (iz + 1)) ix iy tx ty) tz.

Definition cell (x : K) : Z * K := let i := floorK x in (i, x - of_Z i).
(* sampling at a continuous index position *)
Definition sample1 (pad : padmode) (l : list K) (x : K) : K :=
  let '(i, t) := cell x in interp1 pad l i t.
Definition sample2 (pad : padmode) (img : list (list K)) (x y : K) : K :=
  let '(ix, tx) := cell x in let '(iy, ty) := cell y in interp2 pad img ix iy tx ty.
Definition sample3 (pad : padmode) (img : list (list (list K))) (x y z : K) : K :=
  let '(ix, tx) := cell x in let '(iy, ty) := cell y in let '(iz, tz) := cell z in
  interp3 pad img ix iy iz tx ty tz.
Definition nearest1 (pad : padmode) (l : list K) (x : K) : K := getp pad 0 l (nearK x).
Definition nearest2 (pad : padmode) (img : list (list K)) (x y : K) : K :=
  getp pad 0 (getp pad [] img (nearK y)) (nearK x).
Definition nearest3 (pad : padmode) (img : list (list (list K))) (x y z : K) : K :=
  getp pad 0 (getp pad [] (getp pad [] img (nearK z)) (nearK y)) (nearK x).

(* grid_sample: normalised coordinate -> continuous index *)
Definition unnorm (ac : bool) (n : Z) (x : K) : K :=
  if ac then (x + 1) / (1 + 1) * (of_Z n - 1) else ((x + 1) * of_Z n - 1) / (1 + 1).
Definition grid_sample1 (pad : padmode) (ac : bool) (l : list K) (x : K) : K :=
  sample1 pad l (unnorm ac (zlen l) x).
Definition grid_sample2 (pad : padmode) (ac : bool) (img : list (list K)) (x y : K) : K :=
  sample2 pad img (unnorm ac (zlen (hd [] img)) x) (unnorm ac (zlen img) y).
Definition grid_sample3 (pad : padmode) (ac : bool) (img : list (list (list K))) (x y z : K) : K :=
  sample3 pad img (unnorm ac (zlen (hd [] (hd [] img))) x) (unnorm ac (zlen (hd [] img)) y) (unnorm ac (zlen img) z).

(* F.interpolate, linear modes: source index of output sample j when resizing n -> m.  The lower
   clamp at 0 and the upper index clamp of torch coincide with border-padded sampling. *)
Definition interp_src (ac : bool) (n m : Z) (j : Z) : K :=
  if ac then (if (m =? 1)%Z then 0 else of_Z j * (of_Z n - 1) / (of_Z m - 1))
  else (of_Z j + 1 / (1 + 1)) * of_Z n / of_Z m - 1 / (1 + 1).
Definition zseq (m : Z) : list Z := map Z.of_nat (seq 0 (Z.to_nat m)).
Definition resize1 (ac : bool) (m : Z) (l : list K) : list K :=
  map (fun j => sample1 PBorder l (interp_src ac (zlen l) m j)) (zseq m).
Definition resize2 (ac : bool) (mx my : Z) (img : list (list K)) : list (list K) :=
  map (fun jy => map (fun jx =>
       sample2 PBorder img (interp_src ac (zlen (hd [] img)) mx jx) (interp_src ac (zlen img) my jy)) (zseq mx)) (zseq my).
Definition resize3 (ac : bool) (mx my mz : Z) (img : list (list (list K))) : list (list (list K)) :=
  map (fun jz => map (fun jy => map (fun jx =>
       sample3 PBorder img (interp_src ac (zlen (hd [] (hd [] img))) mx jx) (interp_src ac (zlen (hd [] img)) my jy)
                           (interp_src ac (zlen img) mz jz)) (zseq mx)) (zseq my)) (zseq mz).

(* index-only operations on one axis: crop lo / hi (negative = pad with constant c) *)
Definition crop1 {A} (dflt : A) (lo hi : Z) (l : list A) : list A :=
  map (fun j => getp PZeros dflt l (j + lo)) (zseq (zlen l - lo - hi)).
(* window mean (avg_pool, kernel = stride = k, floor mode) and correlation with a stencil *)
Definition mean_list (l : list K) : K := vsum l / of_Z (zlen l).
Definition pool1 (k : Z) (l : list K) : list K :=
  map (fun j => mean_list (map (fun d => getp PZeros 0 l (j * k + d)) (zseq k))) (zseq (zlen l / k)).
Definition corr1 (pad : padmode) (w : list K) (l : list K) : list K :=   (* "same" size, kernel centred *)
  let r := (zlen w / 2)%Z in
  map (fun j => vsum (map (fun p => fst p * getp pad 0 l (j + snd p - r)) (combine w (zseq (zlen w))))) (zseq (zlen l)).
End Sampler.
