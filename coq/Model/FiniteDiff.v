(* Hand-written executable model of core/image.py finite_differences / spatial_derivatives (finite-difference modes)
   around the generated stencils (Gen/FlowDeriv.v), and the specification side of the flow-field operators of
   core/flow.py.  Definitions only.  Tensors are nested lists in tensor order [z][y][x]. *)
From Coq Require Import ZArith List Bool.
From DV Require Import Base.Field Base.LinAlg Model.BSplineBase Gen.BSpline Model.BSpline Gen.FlowDeriv.
Import ListNotations.
Local Open Scope fld_scope.

Inductive fdmode := Fwd | Bwd | Cen | Fcb | Prewitt | Sobel.
Definition all_fdmodes := [Fwd; Bwd; Cen; Fcb; Prewitt; Sobel].

Section FiniteDiff.
Context {K : fld}.

(* replicate padding = clamped neighbour indices *)
Definition nxt (n i : nat) : nat := Nat.min (S i) (n - 1).

(* finite_differences(mode, spacing = h) along a line *)
Definition fd1 (m : fdmode) (h : K) (l : list K) : list K :=
  let n := length l in
  map (fun i =>
         match m with
         | Fwd => gen_fd_fwd (nth i l 0) (nth (nxt n i) l 0) h
         | Bwd => gen_fd_bwd (nth (Nat.pred i) l 0) (nth i l 0) h
         | Cen => gen_fd_cen (nth (Nat.pred i) l 0) (nth (nxt n i) l 0) h
         | _ => (* forward_central_backward, also used by prewitt / sobel *)
             if (i =? 0)%nat then gen_fcb_first (nth 0 l 0) (nth 1 l 0) h
             else if (i =? n - 1)%nat then gen_fcb_last (nth (n - 2) l 0) (nth (n - 1) l 0) h
             else gen_fcb_mid (nth (i - 1) l 0) (nth (i + 1) l 0) h
         end) (seq 0 n).

(* replicate-padded 3-tap smoothing (conv1d(padding=PaddingMode.REPLICATE)): clamped neighbours *)
Definition avg1 (kern : K -> K -> K -> K) (l : list K) : list K :=
  let n := length l in
  map (fun i => kern (nth (Nat.pred i) l 0) (nth i l 0) (nth (nxt n i) l 0)) (seq 0 n).
Definition smooth1 (m : fdmode) (l : list K) : list K :=
  match m with Prewitt => avg1 gen_avg_prewitt l | Sobel => avg1 gen_avg_sobel l | _ => l end.

(* one differentiation step of spatial_derivatives along spatial dim sd (0 = x), D = 2, 3:
   [prewitt / sobel: smooth along every other axis, in the order x, y, z;] difference along sd with spacing h *)
Definition dstep2 (m : fdmode) (sd : nat) (h : K) (c : list (list K)) : list (list K) :=
  match sd with
  | 0%nat => along_x2 (fd1 m h) (along_y2 (smooth1 m) c)
  | _ => along_y2 (fd1 m h) (along_x2 (smooth1 m) c)
  end.
Definition dstep3 (m : fdmode) (sd : nat) (h : K) (c : list (list (list K))) : list (list (list K)) :=
  match sd with
  | 0%nat => along_x3 (fd1 m h) (along_z3 (smooth1 m) (along_y3 (smooth1 m) c))
  | 1%nat => along_y3 (fd1 m h) (along_z3 (smooth1 m) (along_x3 (smooth1 m) c))
  | _ => along_z3 (fd1 m h) (along_y3 (smooth1 m) (along_x3 (smooth1 m) c))
  end.
(* spatial derivative for a *sorted* key (list of spatial dims), spacing per spatial dim *)
Definition deriv2 (m : fdmode) (sp : list K) (key : list nat) (c : list (list K)) : list (list K) :=
  fold_left (fun acc sd => dstep2 m sd (nth sd sp 1) acc) key c.
Definition deriv3 (m : fdmode) (sp : list K) (key : list nat) (c : list (list (list K))) : list (list (list K)) :=
  fold_left (fun acc sd => dstep3 m sd (nth sd sp 1) acc) key c.

(* sample sequences: f(i) = a (i h) + b and f(i) = a (i h)^2 + b (i h) + c *)
Definition aff_seq (a b h : K) (n : nat) : list K := map (fun i => a * (zn i * h) + b) (seq 0 n).
Definition quad_seq (a b c h : K) (n : nat) : list K :=
  map (fun i => a * ((zn i * h) * (zn i * h)) + b * (zn i * h) + c) (seq 0 n).

(* ---- specification side of the flow operators (J = Jacobian as list of rows, J[i][k] = d u_i / d x_k) ---- *)
Definition jat (J : list (list K)) (i k : nat) : K := nth k (nth i J []) 0.
Definition trace_spec (D : nat) (J : list (list K)) : K := vsum (map (fun i => jat J i i) (seq 0 D)).
Definition curl2_spec (J : list (list K)) : list K := [jat J 1 0 - jat J 0 1].
Definition curl3_spec (J : list (list K)) : list K :=
  [jat J 2 1 - jat J 1 2; jat J 0 2 - jat J 2 0; jat J 1 0 - jat J 0 1].
(* [v, u] = Jac(v) u - Jac(u) v  (the convention of lie_bracket's docstring) *)
Definition lie_spec (Jv Ju : list (list K)) (v u : list K) : list K := vsub (mv Jv u) (mv Ju v).
Definition plus_id (D : nat) (J : list (list K)) : list (list K) := madd J (eye D).
End FiniteDiff.


(* ---- flow-field operators assembled from the derivative tensors (core/flow.py): a D-dimensional flow field is the list
        of its D components (each a nested-list tensor); sp = spacing per spatial dim (x, y, z) ---- *)
Section FlowOps.
Context {K : fld}.
(* Jacobian as tensors: JT[i][k] = d u_i / d x_k on the whole grid *)
Definition jacT2 (m : fdmode) (sp : list K) (u : list (list (list K))) : list (list (list (list K))) :=
  map (fun ui => map (fun k => dstep2 m k (nth k sp 1) ui) (seq 0 2)) u.
Definition jacT3 (m : fdmode) (sp : list K) (u : list (list (list (list K)))) : list (list (list (list (list K)))) :=
  map (fun ui => map (fun k => dstep3 m k (nth k sp 1) ui) (seq 0 3)) u.
Definition je2 (JT : list (list (list (list K)))) (i k y x : nat) : K := at2 (nth k (nth i JT []) []) y x.
Definition je3 (JT : list (list (list (list (list K))))) (i k z y x : nat) : K := at3 (nth k (nth i JT []) []) z y x.
Definition jac2_at JT y x : list (list K) := map (fun i => map (fun k => je2 JT i k y x) (seq 0 2)) (seq 0 2).
Definition jac3_at JT z y x : list (list K) := map (fun i => map (fun k => je3 JT i k z y x) (seq 0 3)) (seq 0 3).
Definition vec2_at (u : list (list (list K))) y x : list K := map (fun ui => at2 ui y x) u.
Definition vec3_at (u : list (list (list (list K)))) z y x : list K := map (fun ui => at3 ui z y x) u.

Definition on4 {R} (f : K -> K -> K -> K -> R) (J : list (list K)) : R := f (jat J 0 0) (jat J 0 1) (jat J 1 0) (jat J 1 1).
Definition on9 {R} (f : K -> K -> K -> K -> K -> K -> K -> K -> K -> R) (J : list (list K)) : R :=
  f (jat J 0 0) (jat J 0 1) (jat J 0 2) (jat J 1 0) (jat J 1 1) (jat J 1 2) (jat J 2 0) (jat J 2 1) (jat J 2 2).

Definition tab2 {R} (ny nx : nat) (f : nat -> nat -> R) : list (list R) := map (fun y => map (fun x => f y x) (seq 0 nx)) (seq 0 ny).
Definition tab3 {R} (nz ny nx : nat) (f : nat -> nat -> nat -> R) : list (list (list R)) :=
  map (fun z => tab2 ny nx (f z)) (seq 0 nz).

(* jacobian_det(add_identity), divergence, curl, lie_bracket(v, u) as fields; curl / lie give a vector per point *)
Definition det2_field (m : fdmode) (sp : list K) (ident : bool) (u : list (list (list K))) (ny nx : nat) :=
  let JT := jacT2 m sp u in tab2 ny nx (fun y x => on4 (if ident then gen_det2_id else gen_det2) (jac2_at JT y x)).
Definition div2_field m sp (u : list (list (list K))) ny nx :=
  let JT := jacT2 m sp u in tab2 ny nx (fun y x => on4 gen_div2 (jac2_at JT y x)).
Definition curl2_field m sp (u : list (list (list K))) ny nx :=
  let JT := jacT2 m sp u in tab2 ny nx (fun y x => on4 gen_curl2 (jac2_at JT y x)).
Definition lie2_at (Jv Ju : list (list K)) (v u : list K) : list K :=
  on4 (fun a b c d => on4 (fun e f g h => gen_lie2 a b c d e f g h (nth 0 v 0) (nth 1 v 0) (nth 0 u 0) (nth 1 u 0)) Ju) Jv.
Definition lie2_field m sp (v u : list (list (list K))) ny nx :=
  let JV := jacT2 m sp v in let JU := jacT2 m sp u in
  tab2 ny nx (fun y x => lie2_at (jac2_at JV y x) (jac2_at JU y x) (vec2_at v y x) (vec2_at u y x)).

Definition det3_field (m : fdmode) (sp : list K) (ident : bool) (u : list (list (list (list K)))) (nz ny nx : nat) :=
  let JT := jacT3 m sp u in tab3 nz ny nx (fun z y x => on9 (if ident then gen_det3_id else gen_det3) (jac3_at JT z y x)).
Definition div3_field m sp (u : list (list (list (list K)))) nz ny nx :=
  let JT := jacT3 m sp u in tab3 nz ny nx (fun z y x => on9 gen_div3 (jac3_at JT z y x)).
Definition curl3_field m sp (u : list (list (list (list K)))) nz ny nx :=
  let JT := jacT3 m sp u in tab3 nz ny nx (fun z y x => on9 gen_curl3 (jac3_at JT z y x)).
Definition lie3_at (Jv Ju : list (list K)) (v u : list K) : list K :=
  on9 (fun a b c d e f g h i => on9 (fun a' b' c' d' e' f' g' h' i' =>
        gen_lie3 a b c d e f g h i a' b' c' d' e' f' g' h' i'
                 (nth 0 v 0) (nth 1 v 0) (nth 2 v 0) (nth 0 u 0) (nth 1 u 0) (nth 2 u 0)) Ju) Jv.
Definition lie3_field m sp (v u : list (list (list (list K)))) nz ny nx :=
  let JV := jacT3 m sp v in let JU := jacT3 m sp u in
  tab3 nz ny nx (fun z y x => lie3_at (jac3_at JV z y x) (jac3_at JU z y x) (vec3_at v z y x) (vec3_at u z y x)).
End FlowOps.

(* ---- key handling of spatial_derivatives / flow_derivatives: the table-building loop ---- *)
Section Keys.
Variable V : Type.
Variable data : V.
Variable step : nat -> V -> V.   (* differentiate once along a spatial dim *)

Fixpoint code_eqb (a b : list nat) : bool :=
  match a, b with
  | [], [] => true
  | x :: a', y :: b' => (x =? y)%nat && code_eqb a' b'
  | _, _ => false
  end.
Fixpoint lookup (t : list (list nat * V)) (k : list nat) : option V :=
  match t with
  | [] => None
  | (k', v) :: r => if code_eqb k' k then Some v else lookup r k
  end.
(* the value a key stands for: differentiate along its letters from left to right *)
Fixpoint dcode_rev (rc : list nat) : V := match rc with [] => data | a :: r => step a (dcode_rev r) end.
Definition dcode (c : list nat) : V := dcode_rev (rev c).

(* body of `for i, code in product(range(max_order), unique_keys)` *)
Definition visit (i : nat) (t : list (list nat * V)) (c : list nat) : list (list nat * V) :=
  let key := firstn (S i) c in
  if (i <? length c)%nat then
    match lookup t key with
    | Some _ => t
    | None =>
        let src := match i with O => Some data | _ => lookup t (firstn i c) end in
        match src with Some v => (key, step (nth i c 0%nat) v) :: t | None => t (* KeyError in the code *) end
    end
  else t.
Definition round (codes : list (list nat)) (t : list (list nat * V)) (i : nat) : list (list nat * V) :=
  fold_left (visit i) codes t.
Definition build (codes : list (list nat)) (maxo : nat) : list (list nat * V) :=
  fold_left (round codes) (seq 0 maxo) [].
Definition max_order (codes : list (list nat)) : nat := fold_right (fun c m => Nat.max (length c) m) 0%nat codes.

(* insertion sort of the letters of a key (SpatialDerivativeKeys.sorted) *)
Fixpoint insert_sorted (a : nat) (l : list nat) : list nat :=
  match l with [] => [a] | b :: r => if (a <=? b)%nat then a :: l else b :: insert_sorted a r end.
Definition sort_code (c : list nat) : list nat := fold_right insert_sorted [] c.

(* spatial_derivatives(which): table over the unique sorted keys, then one entry per requested key *)
Definition sderivs (which : list (list nat)) : list (list nat * option V) :=
  let uniq := map sort_code which in
  let t := build uniq (max_order which) in
  map (fun k => (k, lookup t (sort_code k))) which.
End Keys.
