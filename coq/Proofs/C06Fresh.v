(* C06, clause 1: every transformation model is the identity when freshly constructed.
   gen_fresh c D is the tensor() of a freshly constructed instance (traced from the real constructors,
   reset_parameters and tensor() of spatial/linear.py). *)
From Coq Require Import ZArith List Field Ring Lia.
From DV Require Import Base.Field Base.FieldFacts Base.LinAlg Base.Tactics Base.QcInst Model.Enums Model.Homog
  Model.Rotation Model.Grid Model.Transform Gen.Hmm Gen.Quat Gen.LinInv Gen.Transform Proofs.C08Quat.
Import ListNotations.
Local Open Scope fld_scope.

Section Fresh.
Variable K : fld.
Hypothesis Kf : is_field K.
Add Field KF_C06Fresh : Kf.
Let K1 : (1 : K) <> 0. Proof. destruct Kf as [_ H1 _ _]. exact H1. Qed.
Hint Resolve K1 : core.
Ltac side := repeat split; auto.

(* the classes whose default parameters do NOT give the identity on the unchanged tree *)
Definition fresh_defect (c : lclass) : bool :=
  match c with LHomogeneousTransform | LQuaternionRotation | LRigidQuaternionTransform => true | _ => false end.

Lemma fresh_is_identity_partial (c : lclass) (D : nat) :
  fresh_defect c = false -> In D (gen_fresh_dims c) -> fresh_identity (K:=K) c D.
Proof.
  intros Hc HD x. destruct c; try discriminate Hc; cbn in HD;
    repeat (destruct HD as [<- | HD]; [fcbv; list_eq; ring|]); destruct HD.
Qed.

Lemma fresh_is_identity_but3 (c : lclass) (D : nat) :
  c <> LHomogeneousTransform -> c <> LQuaternionRotation -> c <> LRigidQuaternionTransform ->
  In D (gen_fresh_dims c) -> fresh_identity (K:=K) c D.
Proof.
  intros H1 H2 H3. apply fresh_is_identity_partial. destruct c; try reflexivity; congruence.
Qed.

(* the parameter -> matrix maps of C07's unit (Gen/LinInv.v) evaluated at the default literals, with the
   re-parameterisations evaluated (tanh 0 = 0, exp 0 = 1: scale 1; cos 0 = 1, sin 0 = 0; tan 0 = 0; |q| = 1),
   are the fresh tensors *)
Lemma fresh_is_tensor_of_defaults :
  gen_fresh (K:=K) LTranslation 2 = gen_translation2_fwd 0 0 /\
  gen_fresh (K:=K) LTranslation 3 = gen_translation3_fwd 0 0 0 /\
  gen_fresh (K:=K) LEulerRotation 2 = gen_euler2_fwd 1 0 /\
  gen_fresh (K:=K) LEulerRotation 3 = gen_euler3_fwd gen_euler3_default_order 1 1 1 0 0 0 /\
  gen_fresh (K:=K) LIsotropicScaling 2 = gen_isoscale2_fwd 1 /\
  gen_fresh (K:=K) LIsotropicScaling 3 = gen_isoscale3_fwd 1 /\
  gen_fresh (K:=K) LAnisotropicScaling 2 = gen_anisoscale2_fwd 1 1 /\
  gen_fresh (K:=K) LAnisotropicScaling 3 = gen_anisoscale3_fwd 1 1 1 /\
  gen_fresh (K:=K) LShearing 2 = gen_shear2_fwd 0 /\
  gen_fresh (K:=K) LShearing 3 = gen_shear3_fwd 0 0 0 /\
  gen_fresh (K:=K) LHomogeneousTransform 2 = gen_homogeneous2_fwd 0 0 0 0 0 0 /\
  gen_fresh (K:=K) LHomogeneousTransform 3 = gen_homogeneous3_fwd 0 0 0 0 0 0 0 0 0 0 0 0 /\
  gen_fresh (K:=K) LQuaternionRotation 3 = gen_quaternion_fwd 1 0 0 0 1.
Proof. repeat split; fcbv; list_eq; try reflexivity; field; side. Qed.

(* the default literals themselves *)
Lemma default_literals :
  gen_default (K:=K) LQuaternionRotation 3 = [0; 0; 0; 1] /\
  gen_default (K:=K) LHomogeneousTransform 2 = vzero 6 /\
  gen_default (K:=K) LHomogeneousTransform 3 = vzero 12 /\
  gen_default (K:=K) LTranslation 3 = vzero 3 /\ gen_default (K:=K) LEulerRotation 3 = vzero 3 /\
  gen_default (K:=K) LShearing 3 = vzero 3 /\
  gen_default (K:=K) LIsotropicScaling 3 = [1] /\ gen_default (K:=K) LAnisotropicScaling 3 = [1; 1; 1] /\
  gen_nonrigid_defaults_zero = true.
Proof. repeat split; reflexivity. Qed.

(* what the quaternion default should be: (w, x, y, z) = (1, 0, 0, 0) is the identity rotation *)
Lemma quaternion_wxyz_identity : gen_quaternion_fwd (K:=K) 1 1 0 0 0 = eye 3.
Proof. fcbv. list_eq; field; side. Qed.

(* the fresh QuaternionRotation is the rotation by 180 degrees about z *)
Lemma fresh_quaternion_is_halfturn :
  gen_fresh (K:=K) LQuaternionRotation 3 = rot AZ (- (1)) 0.
Proof. fcbv. list_eq; ring. Qed.

Hypothesis Kc : char0 K.
Lemma fresh_quaternion_refuted :
  ~ fresh_identity (K:=K) LQuaternionRotation 3 /\ ~ fresh_identity (K:=K) LRigidQuaternionTransform 3.
Proof.
  split; intro H; specialize (H (fun i => match i with 0%nat => 1 | _ => 0 end)); fcbv_in H;
    injection H as H0 _ _; apply (two_nz K Kf Kc);
    transitivity ((1:K) - (- (1) * 1 + (0 * 0 + (0 * 0 + 0)))); try ring.
  - rewrite H0. ring.
  - transitivity ((1:K) - ((- (1) * 1 + (0 * 0 + (0 * 0 + 0))) + 0)); [ring|]. rewrite H0. ring.
Qed.

Lemma fresh_homogeneous_refuted (D : nat) : D = 2%nat \/ D = 3%nat -> ~ fresh_identity (K:=K) LHomogeneousTransform D.
Proof.
  intros [-> | ->] H; specialize (H (fun _ => 1)); fcbv_in H; injection H as H0; apply K1; rewrite <- H0; ring.
Qed.
End Fresh.
