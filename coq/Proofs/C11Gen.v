(* The skeletons of expv / compose_flows regenerated from core/flow.py (Gen/FlowAlg.v) are the hand-written model
   (Model/Flow.v) for every steps in [0, 8], both flags: whatever is proved about the model is proved about what the
   source says now. *)
From Coq Require Import ZArith List Field Ring Lia Bool.
From DV Require Import Base.Field Base.FieldFacts Base.LinAlg Base.Tactics Model.Sampler Model.Flow Gen.FlowAlg.
Import ListNotations.
Local Open Scope fld_scope.

Section Gen.
Variable K : fld.
Hypothesis Kf : is_field K.
Add Field KFG : Kf.
Variable floorK : K -> Z.

Definition pmap2 (g : K -> K) (u : list (list (list K))) : list (list (list K)) := map (map (map g)) u.
Definition pmap3 (g : K -> K) (u : list (list (list (list K)))) : list (list (list (list K))) := map (map (map (map g))) u.

Lemma pmap2_scale g c u : (forall f, g f = c * f) -> pmap2 g u = fscale2 c u.
Proof.
  intro H. unfold pmap2, fscale2. apply map_ext. intro a. apply map_ext. intro b. apply map_ext. exact H.
Qed.
Lemma pmap3_scale g c u : (forall f, g f = c * f) -> pmap3 g u = fscale3 c u.
Proof.
  intro H. unfold pmap3, fscale3. apply map_ext. intro a. apply map_ext. intro b. apply map_ext. intro d. apply map_ext. exact H.
Qed.

Lemma gen_pre_is_model (k : nat) (s f : K) : (k <= 8)%nat ->
  match k with
  | 0 => gen_expv_pre_0 f s | 1 => gen_expv_pre_1 f s | 2 => gen_expv_pre_2 f s | 3 => gen_expv_pre_3 f s
  | 4 => gen_expv_pre_4 f s | 5 => gen_expv_pre_5 f s | 6 => gen_expv_pre_6 f s | 7 => gen_expv_pre_7 f s
  | _ => gen_expv_pre_8 f s
  end%nat = expv_pre k s * f.
Proof.
  intro H. do 9 (destruct k as [|k]; [unfold expv_pre, pow2; cbn [Z.of_nat Pos.of_succ_nat Pos.succ];
    try (unfold gen_expv_pre_0; ring);
    match goal with |- context [of_Z (2 ^ ?e)%Z] => let v := eval vm_compute in (2 ^ e)%Z in change (2 ^ e)%Z with v end;
    unfold gen_expv_pre_1, gen_expv_pre_2, gen_expv_pre_3, gen_expv_pre_4, gen_expv_pre_5, gen_expv_pre_6,
           gen_expv_pre_7, gen_expv_pre_8; unfold fdiv; try ring; rewrite ?(Fdiv_def Kf); ring |]).
  lia.
Qed.

Theorem gen_expv2_is_model ac inverse k scale flow : (k <= 8)%nat ->
  gen_expv pmap2 (compose2g floorK) ac inverse k scale flow = expv2 floorK ac scale inverse k flow.
Proof.
  intro H. unfold expv2, expv_scale.
  assert (P : forall j s f, (j <= 8)%nat -> _ = expv_pre j s * f) by (intros j s f Hj; exact (gen_pre_is_model j s f Hj)).
  do 9 (destruct k as [|k]; [
    unfold gen_expv, gen_expv_gac, gen_expv_sac, gen_expv_pad; cbn [sq_iter];
    match goal with |- context [expv_pre ?j ?s] => rewrite (pmap2_scale _ (expv_pre j s)) by (intro f; exact (P j s f ltac:(lia))) end;
    unfold compose2, compose3; destruct ac, inverse; reflexivity |]).
  clear P. lia.
Qed.
Theorem gen_expv3_is_model ac inverse k scale flow : (k <= 8)%nat ->
  gen_expv pmap3 (compose3g floorK) ac inverse k scale flow = expv3 floorK ac scale inverse k flow.
Proof.
  intro H. unfold expv3, expv_scale.
  assert (P : forall j s f, (j <= 8)%nat -> _ = expv_pre j s * f) by (intros j s f Hj; exact (gen_pre_is_model j s f Hj)).
  do 9 (destruct k as [|k]; [
    unfold gen_expv, gen_expv_gac, gen_expv_sac, gen_expv_pad; cbn [sq_iter];
    match goal with |- context [expv_pre ?j ?s] => rewrite (pmap3_scale _ (expv_pre j s)) by (intro f; exact (P j s f ltac:(lia))) end;
    unfold compose2, compose3; destruct ac, inverse; reflexivity |]).
  clear P. lia.
Qed.

Theorem gen_compose2_is_model ac u v : gen_compose_flows (compose2g floorK) ac u v = compose2 floorK ac u v.
Proof. destruct ac; reflexivity. Qed.
Theorem gen_compose3_is_model ac u v : gen_compose_flows (compose3g floorK) ac u v = compose3 floorK ac u v.
Proof. destruct ac; reflexivity. Qed.
End Gen.

(* modules/flow.py ExpFlow: the module hands expv its own scale (negated by forward(inverse=True) and by inverse() / inv),
   its steps (None = expv's default) and its align_corners flag *)
Lemma gen_expflow_is_expv_call :
  (forall k, (k <= 8)%nat -> gen_expflow_steps (Some k) = k) /\ gen_expflow_steps None = gen_expv_default_steps /\
  gen_expflow_forward_sign false = 1%Z /\ gen_expflow_forward_sign true = (-1)%Z /\ gen_expflow_inverse_module_sign = (-1)%Z /\
  (forall ac, gen_expflow_ac ac = ac).
Proof.
  split; [|repeat split; try reflexivity; intros []; reflexivity].
  intros k H. do 9 (destruct k as [|k]; [reflexivity|]). lia.
Qed.

(* spatial/nonrigid.py StationaryVelocityFieldTransform: its exponential works in the convention of the transformation's
   CURRENT grid -- at construction and after grid_() / grid() -- so the u buffer is expv in that convention *)
Lemma gen_svf_exp_flag_is_grid_flag :
  (forall ac, gen_svf_init_exp_ac ac = ac) /\ (forall old new, gen_svf_regrid_exp_ac old new = new).
Proof. split; [intros [] | intros [] []]; reflexivity. Qed.
Lemma gen_inverse_u_by_inverse_exp :
  gen_svf_inverse_u_by_inverse_exp = true /\ gen_svffd_inverse_u_by_inverse_exp = true.
Proof. split; reflexivity. Qed.
