From Coq Require Import ZArith List Field Ring Lia Bool.
From DV Require Import Base.Field Base.FieldFacts Base.LinAlg Base.Tactics Model.Sampler Proofs.SamplerFacts.
Import ListNotations.
Local Open Scope fld_scope.

Section OwnCoords.
Variable K : fld.
Hypothesis Kf : is_field K.
Hypothesis Kc : char0 K.
Add Field KFO : Kf.
Variable floorK : K -> Z.
Hypothesis floor_int : forall i : Z, floorK (of_Z i) = i.

(* the normalised coordinate Grid.coords reports for sample j of an axis with n samples (the GRID -> CUBE_CORNERS /
   CUBE map of Model/Grid.v in one dimension; equal to the arange lattice by C01_lattice) *)
Definition coordK (ac : bool) (n j : Z) : K :=
  if ac then (1 + 1) * of_Z j / (of_Z n - 1) - 1 else ((1 + 1) * of_Z j + 1) / of_Z n - 1.

Lemma unnorm_coord (ac : bool) (n j : Z) : (2 <= n)%Z -> unnorm ac n (coordK ac n j) = of_Z j.
Proof.
  intro Hn. pose proof (two_nz K Kf Kc) as H2.
  assert (Hn0 : of_Z n <> (0 : K)) by (apply (of_Z_nz K Kf Kc); lia).
  assert (Hn1 : of_Z n - 1 <> (0 : K)).
  { replace (of_Z n - 1) with (@of_Z K (n - 1)) by (rewrite (of_Z_sub K Kf); cbn [of_Z of_pos]; ring).
    apply (of_Z_nz K Kf Kc); lia. }
  unfold unnorm, coordK. destruct ac; field; auto.
Qed.

(* sampling an image at its own coordinates with the matching flag returns the image: 1-D, 2-D, 3-D, every size >= 2,
   either padding mode *)
Lemma sample_own_coords_1d (pad : padmode) (ac : bool) (l : list K) (j : Z) :
  (2 <= zlen l)%Z -> (0 <= j < zlen l)%Z ->
  grid_sample1 floorK pad ac l (coordK ac (zlen l) j) = nth (Z.to_nat j) l 0.
Proof.
  intros Hn Hj. unfold grid_sample1. rewrite unnorm_coord by exact Hn.
  rewrite (sample1_at_sample K Kf floorK pad l j (floor_int j)). apply getp_in; exact Hj.
Qed.

Lemma sample_own_coords_2d (pad : padmode) (ac : bool) (img : list (list K)) (jx jy : Z) :
  (2 <= zlen img)%Z -> (2 <= zlen (hd [] img))%Z ->
  (forall row, In row img -> zlen row = zlen (hd [] img)) ->
  (0 <= jy < zlen img)%Z -> (0 <= jx < zlen (hd [] img))%Z ->
  grid_sample2 floorK pad ac img (coordK ac (zlen (hd [] img)) jx) (coordK ac (zlen img) jy)
  = nth (Z.to_nat jx) (nth (Z.to_nat jy) img []) 0.
Proof.
  intros Hy Hx Hrect Hjy Hjx. unfold grid_sample2. rewrite !unnorm_coord by assumption.
  unfold sample2, cell. rewrite !floor_int.
  replace (of_Z jx - of_Z jx) with (0 : K) by ring. replace (of_Z jy - of_Z jy) with (0 : K) by ring.
  rewrite interp2_at_sample by exact Kf.
  rewrite (getp_in pad [] img jy Hjy).
  assert (Hin : In (nth (Z.to_nat jy) img []) img).
  { apply nth_In. unfold zlen in Hjy. lia. }
  apply getp_in. rewrite (Hrect _ Hin). exact Hjx.
Qed.

Lemma sample_own_coords_3d (pad : padmode) (ac : bool) (img : list (list (list K))) (jx jy jz : Z) :
  let ny := zlen (hd [] img) in let nx := zlen (hd [] (hd [] img)) in
  (2 <= zlen img)%Z -> (2 <= ny)%Z -> (2 <= nx)%Z ->
  (forall sl, In sl img -> zlen sl = ny /\ forall row, In row sl -> zlen row = nx) ->
  (0 <= jz < zlen img)%Z -> (0 <= jy < ny)%Z -> (0 <= jx < nx)%Z ->
  grid_sample3 floorK pad ac img (coordK ac nx jx) (coordK ac ny jy) (coordK ac (zlen img) jz)
  = nth (Z.to_nat jx) (nth (Z.to_nat jy) (nth (Z.to_nat jz) img []) []) 0.
Proof.
  intros ny nx Hz Hy Hx Hrect Hjz Hjy Hjx. unfold grid_sample3. fold ny nx. rewrite !unnorm_coord by assumption.
  unfold sample3, cell. rewrite !floor_int.
  replace (of_Z jx - of_Z jx) with (0 : K) by ring. replace (of_Z jy - of_Z jy) with (0 : K) by ring.
  replace (of_Z jz - of_Z jz) with (0 : K) by ring.
  rewrite interp3_at_sample by exact Kf.
  rewrite (getp_in pad [] img jz Hjz).
  assert (Hin : In (nth (Z.to_nat jz) img []) img) by (apply nth_In; unfold zlen in Hjz; lia).
  destruct (Hrect _ Hin) as [Hsl Hrows].
  rewrite (getp_in pad [] _ jy) by (rewrite Hsl; exact Hjy).
  assert (Hin2 : In (nth (Z.to_nat jy) (nth (Z.to_nat jz) img []) []) (nth (Z.to_nat jz) img [])).
  { apply nth_In. unfold zlen in Hsl. unfold ny, zlen in Hjy. unfold zlen in *. lia. }
  apply getp_in. rewrite (Hrows _ Hin2). exact Hjx.
Qed.
End OwnCoords.
