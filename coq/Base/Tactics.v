From Coq Require Import List.
From DV Require Import Base.Field.
Import ListNotations.

(* split an equation between explicit lists into its component equations *)
Ltac list_eq :=
  repeat match goal with
         | |- _ :: _ = _ :: _ => f_equal
         | |- (_, _) = (_, _) => f_equal
         | |- @nil _ = @nil _ => reflexivity
         | |- true = true => reflexivity
         | |- false = false => reflexivity
         end.

(* unfold everything (model and generated definitions, integer literals) down to field operations *)
Ltac fcbv := cbv - [fadd fmul fsub fopp fdiv finv f0 f1 T].
Ltac fcbv_in H := cbv - [fadd fmul fsub fopp fdiv finv f0 f1 T] in H.
