(* C19 -- witnesses: where the faithful model of the dispatcher violates the property.
   Every witness is a concrete batch with pairwise distinct grids, decided by vm_compute. *)
From Coq Require Import List ZArith Bool Arith Lia.
From DV Require Import Model.Enums Model.Batch Model.BatchSpec.
Import ListNotations.

Definition gsh2 : gid -> shape := fun _ => [3; 4].
Definition gax : gid -> axes := fun _ => CUBE_CORNERS.
Definition b3 : tval := mkT [3; 2; 3; 4] (TBatch None [0; 1; 2]).          (* 3 images, grids 0 1 2 *)
Definition b2sq : tval := mkT [2; 2; 3; 4] (TBatch None [0; 1]).             (* N = C = 2 *)
Definition b6 : tval := mkT [6; 2; 3; 4] (TBatch None [0; 1; 2; 3; 4; 5]).
Definition f3 : tval := mkT [3; 2; 3; 4] (TBatch (Some WORLD) [0; 1; 2]).   (* 3 flow fields *)

(* executable form of the property for one typed batch output with a single batch operand:
   one grid per entry and entry i carries the grid of the (only) operand entry it holds *)
Definition entry_ok (gs_in : list gid) (g : gid) (srcs : list src) : bool :=
  match srcs with
  | [(0, e)] => match nth_error gs_in e with Some g' => g =? g' | None => false end
  | _ => false          (* no data of the operand, or several of its entries mixed *)
  end.
Definition batch_out_ok (gs_in : list gid) (o : oval) : bool :=
  match v_kind o with
  | TBatch _ gs => (length gs =? nent (v_shape o))
                   && forallb (fun p => entry_ok gs_in (fst p) (snd p)) (combine gs (v_src o))
  | _ => true
  end.
Definition res_ok (gs_in : list gid) (r : ores) : bool :=
  match r with
  | OErr _ => true
  | OOne o => batch_out_ok gs_in o
  | OTuple os => forallb (batch_out_ok gs_in) os
  end.
Definition raises (r : ores) (e : errk) : bool :=
  match r with OErr e' => err_class e =? err_class e' | _ => false end.
Definition run1 (o : op) (v : tval) : ores := run_op gsh2 gax o [v].

(* the executable check agrees with the specification predicate on what it rejects *)
Lemma batch_out_ok_complete (gs_in : list gid) (sh : shape) (fl : option axes) (o : oval) :
  (forall i, i < length (v_src o) -> exists e, nth i (v_src o) [] = [(0, e)]) ->
  length (v_src o) = nent (v_shape o) ->
  out_sound gsh2 [mkT sh (TBatch fl gs_in)] o -> batch_out_ok gs_in o = true.
Proof.
  intros Hsingle Hlen Hs. unfold batch_out_ok, out_sound in *.
  destruct (v_kind o) as [|fl' gs|fl' g] eqn:Ek; auto.
  destruct Hs as (Hwf & Hent). unfold wf_val, val_of in Hwf. cbn [t_kind t_shape] in Hwf. rewrite Ek in Hwf.
  destruct Hwf as (HL & _). rewrite HL, Nat.eqb_refl. cbn [andb].
  apply forallb_forall. intros [g srcs] Hin. cbn [fst snd].
  apply In_nth with (d := (0, [])) in Hin. destruct Hin as (i & Hi & Hn).
  rewrite combine_length in Hi. assert (Hll : length gs = length (v_src o)) by congruence.
  pose proof (combine_nth gs (v_src o) i 0 [] Hll) as Hc. unfold gid, src in *. rewrite Hc in Hn. injection Hn as Hg Hsr.
  assert (Hi' : i < length gs) by lia.
  destruct (Hent i Hi') as (_ & (s & Hins & Hgrid) & _).
  destruct (Hsingle i ltac:(lia)) as (e & He). rewrite He in Hins, Hsr. subst srcs.
  destruct Hins as [<-|[]]. unfold entry_grid in Hgrid. cbn in Hgrid. unfold entry_ok. rewrite Hgrid, Hg.
  apply Nat.eqb_refl.
Qed.

(* 1. reordering along the batch dimension keeps the grid order *)
Lemma flip0_refuted : res_ok [0; 1; 2] (run1 (OFlip [0%Z]) b3) = false.
Proof. vm_compute. reflexivity. Qed.
Lemma roll0_refuted : res_ok [0; 1; 2] (run1 (ORoll 1%Z 0%Z) b3) = false.
Proof. vm_compute. reflexivity. Qed.
Lemma index_select0_refuted : res_ok [0; 1; 2] (run1 (OIndexSelect 0%Z [2; 0; 1]) b3) = false.
Proof. vm_compute. reflexivity. Qed.
(* 2. mixing along the batch dimension with unchanged shape is typed as a batch *)
Lemma transpose01_refuted : res_ok [0; 1] (run1 (OPermute [1; 0; 2; 3]) b2sq) = false.
Proof. vm_compute. reflexivity. Qed.
Lemma cumsum0_refuted : res_ok [0; 1; 2] (run1 (OScan 0%Z) b3) = false.
Proof. vm_compute. reflexivity. Qed.
(* ---- former counterexamples that the repaired dispatcher now handles (general theorems: Proofs/C19Split.v,
        C19GetItem.v; the FlowFields dispatcher has no general theorem, these concrete runs pin its repaired behaviour) ---- *)
Definition typed_pieces (r : ores) : list (list gid) :=
  match r with
  | OTuple os => map (fun o => match v_kind o with TBatch _ gs => gs | _ => [] end) os
  | _ => []
  end.
Lemma split_sizes_fixed :
  res_ok [0; 1; 2] (run1 (OSplitL [1; 2] DNone) b3) = true /\ typed_pieces (run1 (OSplitSizes [1; 2] DNone) b3) = [[0]; [1; 2]].
Proof. split; vm_compute; reflexivity. Qed.
Lemma tensor_split_int_fixed : typed_pieces (run1 (OTSplitN 3 DNone) b6) = [[0; 1]; [2; 3]; [4; 5]].
Proof. vm_compute. reflexivity. Qed.
(* splitting along the channel dimension: every piece keeps all grids (keyword, positional and negative dim alike) *)
Lemma split_other_dim_fixed :
  typed_pieces (run1 (OSplit 1 (DKw 1%Z)) b3) = [[0; 1; 2]; [0; 1; 2]]
  /\ typed_pieces (run1 (OTSplitI [1] (DPos 1%Z)) b3) = [[0; 1; 2]; [0; 1; 2]]
  /\ typed_pieces (run1 (OSplitSizes [1; 2] (DPos (-4)%Z)) b3) = [[0]; [1; 2]].
Proof. repeat split; vm_compute; reflexivity. Qed.
Lemma getitem_narrow_fixed :
  res_ok [0; 1; 2] (run1 (OGetItem (GOne IEll)) b3) = true
  /\ res_ok [0; 1; 2] (run1 (OGetItem (GOne (IBools [true; false; true]))) b3) = true
  /\ res_ok [0; 1; 2] (run1 (ONarrowM (-4)%Z 1%Z 2) b3) = true.
Proof. repeat split; vm_compute; reflexivity. Qed.
Lemma flowfields_fixed :
  (res_ok [0; 1; 2] (run1 (ONarrow 0%Z 1 2) f3) = true /\ res_ok [0; 1; 2] (run1 (ORepeat [2; 1; 1; 1]) f3) = true)
  /\ typed_pieces (run1 (OSplit 1 DNone) f3) = [[0]; [1]; [2]]
  /\ run1 (OCopy CCopy) f3 = OOne (mkO [3; 2; 3; 4] (TBatch (Some WORLD) [0; 1; 2]) [[(0, 0)]; [(0, 1)]; [(0, 2)]])
  /\ match run1 (OIterBuild BFromImages [0; 1; 2]) f3 with OOne o => kind_axes (v_kind o) | _ => None end = Some WORLD.
Proof. repeat split; vm_compute; reflexivity. Qed.
