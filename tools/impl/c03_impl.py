"""Implementation-side runner for C03 (derived grids)."""
import json
import random
import sys

import torch

from vlib import emit_json
from c01_impl import rand_dir

from deepali.core.grid import Grid


def mk(g):
    return Grid(size=g["size"], spacing=g["spacing"], center=g["center"],
                direction=[v for r in g["direction"] for v in r], align_corners=g["align_corners"])


def state(g):
    return {"fs": [float(v) for v in g._size], "n": [int(v) for v in g.size()], "s": [float(v) for v in g.spacing()],
            "c": [float(v) for v in g.center()], "d": [[float(v) for v in r] for r in g.direction()],
            "o": [float(v) for v in g.origin()], "cube": [float(v) for v in g.cube_extent()], "ac": bool(g.align_corners())}


def apply(g, op):
    k = op["op"]
    if k == "resize":
        return g.resize(op["size"], align_corners=op.get("ac"))
    if k == "reshape":
        return g.reshape(op["shape"], align_corners=op.get("ac"))
    if k == "down":
        return g.downsample(op["levels"], dims=op.get("dims"), min_size=op.get("min_size", 1), align_corners=op.get("ac"))
    if k == "up":
        return g.upsample(op["levels"], dims=op.get("dims"), align_corners=op.get("ac"))
    if k == "pyr":
        return g.pyramid(op["levels"], dims=op.get("dims"), min_size=op.get("min_size", 0))[op["level"]]
    if k == "resample":
        return g.resample(op["spacing"], min_size=op.get("min_size", 1))
    if k == "crop":
        return g.crop(num=op["num"])
    if k == "pad":
        return g.pad(num=op["num"])
    if k == "center_crop":
        return g.center_crop(op["size"])
    if k == "center_pad":
        return g.center_pad(op["size"])
    if k == "narrow":
        return g.narrow(op["dim"], op["start"], op["length"])
    if k == "roi":
        return g.region_of_interest(op["start"], op["size"])
    if k == "pool":
        return g.pool(op["ks"], ceil_mode=op.get("ceil_mode", False))
    raise KeyError(k)


def run_chains(p):
    out = []
    for c in p["cases"]:
        try:
            g = mk(c["grid"])
            r = {"init": state(g), "states": []}
            for op in c["ops"]:
                try:
                    g = apply(g, op)
                    r["states"].append(state(g))
                except Exception as e:  # noqa
                    r["states"].append({"error": type(e).__name__, "msg": str(e)[:160]})
                    break
            out.append(r)
        except Exception as e:  # noqa
            out.append({"error": type(e).__name__, "msg": str(e)[:160]})
    return out


# ------------------------------------------------------------------------------------------------
def rand_grid(rng, D, lo=4, hi=40):
    return dict(size=[rng.randint(lo, hi) for _ in range(D)],
                spacing=[rng.choice([0.25, 0.5, 0.75, 1.0, 1.5, 2.0, 3.0]) for _ in range(D)],
                center=[rng.randint(-200, 200) / 4 for _ in range(D)], direction=rand_dir(rng, D),
                align_corners=rng.random() < .5)


def rand_op(rng, g, D):
    """random valid operation for the implementation grid g (sizes kept >= 2)"""
    n = [int(v) for v in g.size()]
    k = rng.choice(["resize", "reshape", "down", "up", "pyr", "resample", "crop", "pad", "center_crop", "center_pad",
                    "narrow", "roi", "pool"])
    ac = rng.choice([None, True, False])
    if k == "resize":
        return {"op": k, "size": [rng.randint(2, 48) for _ in range(D)], "ac": ac}
    if k == "reshape":
        return {"op": k, "shape": [rng.randint(2, 48) for _ in range(D)], "ac": ac}
    if k == "down":
        L = rng.randint(1, 3)
        while L > 1 and min(n) / 2 ** L < 2:
            L -= 1
        if min(n) / 2 ** L < 2:  # the property quantifies over levels with size / 2^levels >= 2
            return {"op": "up", "levels": 1, "ac": ac, "dims": None}
        return {"op": k, "levels": L, "min_size": rng.choice([1, 1, 2, 4]), "ac": ac,
                "dims": None if rng.random() < .7 else sorted(rng.sample(range(D), rng.randint(1, D)))}
    if k == "up":
        return {"op": k, "levels": rng.randint(1, 2), "ac": ac,
                "dims": None if rng.random() < .7 else sorted(rng.sample(range(D), rng.randint(1, D)))}
    if k == "pyr":
        L = rng.randint(1, 3)
        while L > 1 and min(n) / 2 ** L < 2:
            L -= 1
        if min(n) / 2 ** L < 2:
            return {"op": "up", "levels": 1, "ac": ac, "dims": None}
        return {"op": k, "levels": L, "level": rng.randint(0, L), "min_size": rng.choice([0, 0, 2, 4]),
                "dims": None if rng.random() < .8 else sorted(rng.sample(range(D), rng.randint(1, D)))}
    if k == "resample":
        return {"op": k, "spacing": [rng.choice([0.25, 0.5, 0.75, 1.0, 1.25, 1.5, 2.0, 3.0]) for _ in range(D)],
                "min_size": rng.choice([1, 1, 2])}
    if k in ("crop", "pad"):
        num = []
        for i in range(D):
            for _ in range(2):
                m = rng.randint(-3, 3)
                if k == "crop" and m > 0:
                    m = min(m, max((n[i] - 2) // 2, 0))
                if k == "pad" and m < 0:
                    m = -min(-m, max((n[i] - 2) // 2, 0))
                num.append(m)
        return {"op": k, "num": num}
    if k == "center_crop":
        return {"op": k, "size": [rng.randint(2, n[i] + 3) for i in range(D)]}
    if k == "center_pad":
        return {"op": k, "size": [rng.randint(2, n[i] + 6) for i in range(D)]}
    if k == "narrow":
        d = rng.randrange(D)
        st = rng.randint(0, max(n[d] - 2, 0))
        return {"op": k, "dim": d, "start": st, "length": rng.randint(2, max(n[d] - st, 2))}
    if k == "roi":
        st = [rng.randint(-2, max(n[i] - 3, 0)) for i in range(D)]
        return {"op": k, "start": st, "size": [rng.randint(2, max(n[i] - st[i], 2) + 1) for i in range(D)]}
    return {"op": "pool", "ks": [rng.randint(1, 3) for _ in range(D)], "ceil_mode": rng.random() < .3}


def gen_chains(p):
    """generate chains by running the implementation (so that arguments are valid for the current sizes)"""
    rng = random.Random(p["seed"])
    cases = []
    for _ in range(p["n"]):
        D = rng.choice([2, 3])
        gd = rand_grid(rng, D)
        g = mk(gd)
        ops = []
        for _ in range(rng.randint(1, p["maxlen"])):
            op = rand_op(rng, g, D)
            try:
                g2 = apply(g, op)
            except Exception:
                ops.append(op)
                break
            ops.append(op)
            g = g2
            if min(int(v) for v in g.size()) < 2 or max(int(v) for v in g.size()) > 400:
                break
        cases.append({"grid": gd, "ops": ops})
    return cases


def world(g, idx):
    return g.index_to_world(torch.tensor(idx, dtype=torch.float64), decimals=None).double()


def oracle(p):
    """the property itself: what each derivation promises, checked on the implementation's own grids"""
    rng = random.Random(p["seed"])
    fails = []
    counts = {}

    def fail(key, what, **kw):
        fails.append(dict(key=key, what=what, **kw))

    for it in range(p["n"]):
        D = rng.choice([2, 3])
        gd = rand_grid(rng, D) if rng.random() < .8 else dict(rand_grid(rng, D), center=[rng.choice([1e4, -3e4, 5e3]) + rng.random() for _ in range(D)],
                                                              spacing=[rng.choice([0.01, 0.03, 0.1]) for _ in range(D)])
        try:
            g0 = mk(gd)
        except Exception as e:  # noqa
            fail("C03:Grid:construct", f"{type(e).__name__}", grid=gd)
            continue
        g = g0
        chain = []
        for step in range(rng.randint(1, p["maxlen"])):
            op = rand_op(rng, g, D)
            chain.append(op)
            k = op["op"]
            counts[k] = counts.get(k, 0) + 1
            scale = float(g.center().abs().max()) + float((g.spacing() * g.size_tensor()).max()) + 1
            try:
                h = apply(g, op)
            except Exception as e:  # noqa
                fail(f"C03:{k}:raises:{type(e).__name__}", f"valid derivation raises {type(e).__name__}: {str(e)[:100]}", grid=gd, chain=chain)
                break
            try:
                if not bool(torch.allclose(h.direction(), g.direction(), atol=1e-6)):
                    fail(f"C03:{k}:direction", "orientation changed", grid=gd, chain=chain)
                tol = 2e-5 * scale
                if k in ("resize", "reshape", "down", "up", "pyr", "resample"):
                    if not bool(torch.all((h.center() - g.center()).abs() <= tol)):
                        fail(f"C03:{k}:center", "center moved", grid=gd, chain=chain, got=h.center().tolist(), want=g.center().tolist())
                if k in ("resize", "reshape", "down", "up", "pyr"):
                    flag = op.get("ac")
                    if flag is None or k == "pyr":
                        flag = g.align_corners()
                    n_new = [int(v) for v in h.size()]
                    n_old = [int(v) for v in g.size()]
                    if flag:
                        a = world(h, [0.0] * D) - world(g, [0.0] * D)
                        b = world(h, [v - 1.0 for v in n_new]) - world(g, [v - 1.0 for v in n_old])
                        if not bool(torch.all(a.abs() <= tol)) or not bool(torch.all(b.abs() <= tol)):
                            fail(f"C03:{k}:corners", "align_corners=True but the corner samples moved", grid=gd, chain=chain,
                                 first=a.tolist(), last=b.tolist())
                    else:
                        e1, e2 = h.extent().double(), g.extent().double()
                        if not bool(torch.all((e1 - e2).abs() <= 2e-5 * (1 + e2.abs()))):
                            fail(f"C03:{k}:extent", "align_corners=False but the physical extent changed", grid=gd, chain=chain,
                                 got=e1.tolist(), want=e2.tolist())
                    if k == "pyr" and not h.same_domain_as(g):
                        c1, c2 = h.cube_extent().double(), g.cube_extent().double()
                        if not bool(torch.all((c1 - c2).abs() <= 2e-5 * (1 + c2.abs()))):
                            fail("C03:pyr:domain", "pyramid level does not cover the same domain", grid=gd, chain=chain)
                if k == "resample" and h is not g:
                    # internal size * new spacing = old physical extent (= number of samples * old spacing), unless clamped
                    e_old = g.extent().double()
                    e_new = (h._size.double() * h.spacing().double())
                    unclamped = [float(e_old[i] / h.spacing()[i]) >= op.get("min_size", 1) for i in range(D)]
                    if all(unclamped) and not bool(torch.all((e_new - e_old).abs() <= 2e-5 * (1 + e_old.abs()))):
                        fail("C03:resample:extent", "resample: internal size * new spacing is not the old physical extent", grid=gd, chain=chain,
                             got=e_new.tolist(), want=e_old.tolist(), stored_size=[float(v) for v in g._size])
                if k == "down":
                    # downsample followed by upsample returns the original grid when no axis was clamped
                    n_f = [float(v) for v in g._size]
                    dims = op.get("dims") or list(range(D))
                    clamped = any(n_f[i] / 2 ** op["levels"] < op.get("min_size", 1) for i in dims)
                    if not clamped:
                        u = h.upsample(op["levels"], dims=op.get("dims"), align_corners=op.get("ac"))
                        if [float(v) for v in u._size] != n_f or not bool(torch.all((u.spacing() - g.spacing()).abs() <= 1e-5 * g.spacing())) \
                                or not bool(torch.all((u.center() - g.center()).abs() <= tol)):
                            fail("C03:down_up", "downsample followed by upsample does not return the original grid", grid=gd, chain=chain,
                                 size=[float(v) for v in u._size], spacing=u.spacing().tolist())
                if k in ("crop", "pad", "center_crop", "center_pad", "narrow", "roi", "pool"):
                    if k != "pool" and not bool(torch.all((h.spacing() - g.spacing()).abs() <= 1e-6 * g.spacing())):
                        fail(f"C03:{k}:spacing", "spacing changed", grid=gd, chain=chain)
                    n_old = [int(v) for v in g.size()]
                    n_new = [int(v) for v in h.size()]
                    if k == "crop":
                        start = [op["num"][2 * i] for i in range(D)]
                        want_n = [max(n_old[i] - op["num"][2 * i] - op["num"][2 * i + 1], 1) for i in range(D)]
                    elif k == "pad":
                        start = [-op["num"][2 * i] for i in range(D)]
                        want_n = [max(n_old[i] + op["num"][2 * i] + op["num"][2 * i + 1], 1) for i in range(D)]
                    elif k == "center_crop":
                        want_n = [min(n_old[i], op["size"][i]) for i in range(D)]
                        start = [(n_old[i] - want_n[i]) // 2 for i in range(D)]
                    elif k == "center_pad":
                        want_n = [max(n_old[i], op["size"][i]) for i in range(D)]
                        start = [-((want_n[i] - n_old[i]) // 2) for i in range(D)]
                    elif k == "narrow":
                        want_n = [op["length"] if i == op["dim"] else n_old[i] for i in range(D)]
                        start = [op["start"] if i == op["dim"] else 0 for i in range(D)]
                    elif k == "roi":
                        want_n = [max(op["size"][i], 1) for i in range(D)]
                        start = list(op["start"])
                    else:
                        want_n = [(-(-n_old[i] // op["ks"][i])) if op.get("ceil_mode") else n_old[i] // op["ks"][i] for i in range(D)]
                        start = None
                    if n_new != want_n:
                        fail(f"C03:{k}:size", f"size {n_new}, expected {want_n}", grid=gd, chain=chain)
                    for _ in range(3):
                        j = [rng.randrange(max(v, 1)) for v in n_new]
                        if k == "pool":
                            src = [op["ks"][i] * j[i] + (op["ks"][i] - 1) / 2 for i in range(D)]
                        else:
                            src = [j[i] + start[i] for i in range(D)]
                        dlt = world(h, [float(v) for v in j]) - world(g, [float(v) for v in src])
                        if not bool(torch.all(dlt.abs() <= tol)):
                            fail(f"C03:{k}:sample_position", "a retained sample changed its world position", grid=gd, chain=chain,
                                 index=j, delta=dlt.tolist())
                            break
            except Exception as e:  # noqa
                fail(f"C03:{k}:oracle", f"{type(e).__name__}: {str(e)[:120]}", grid=gd, chain=chain)
            g = h
            if min(int(v) for v in g.size()) < 2 or max(int(v) for v in g.size()) > 400:
                break
    return {"fails": fails, "counts": counts}


def rounding_stress(p):
    """valid derivations must never fail an internal consistency check because of rounding: many cheap
    derivations on grids chosen to provoke float32 cancellation (origin components near zero: centred at or
    near the world origin, arbitrary rotation angles, non-dyadic spacings, and far-away centres)"""
    import math
    rng = random.Random(p["seed"] + 77)
    fails, n_ops = [], 0
    for it in range(p["n"]):
        D = 2 if rng.random() < .6 else 3
        size = [rng.randint(4, 64) for _ in range(D)]
        spacing = [round(rng.uniform(0.2, 4.0), 2) for _ in range(D)]
        kind = rng.random()
        if kind < .5:
            center = [0.0] * D
        elif kind < .75:
            center = [rng.uniform(-1, 1) for _ in range(D)]
        else:
            center = [rng.choice([-1, 1]) * rng.uniform(50, 5e3) for _ in range(D)]
        if D == 2:
            a = rng.uniform(-math.pi, math.pi)
            d = [[math.cos(a), -math.sin(a)], [math.sin(a), math.cos(a)]]
        else:
            d = rand_dir(rng, 3)
        gd = dict(size=size, spacing=spacing, center=center, direction=d, align_corners=rng.random() < .7)
        try:
            g = mk(gd)
        except Exception:
            continue
        n = [int(v) for v in g.size()]
        ops = [{"op": "resize", "size": [rng.randint(2, 80) for _ in range(D)], "ac": rng.choice([None, True, False])},
               {"op": "down", "levels": 1, "min_size": 1, "ac": rng.choice([None, True]), "dims": None},
               {"op": "up", "levels": 1, "ac": rng.choice([None, True]), "dims": None},
               {"op": "pyr", "levels": 2 if min(n) >= 8 else 1, "level": 1, "min_size": 0, "dims": None}]
        for op in ops:
            n_ops += 1
            try:
                apply(g, op)
            except Exception as e:  # noqa
                fails.append({"key": f"C03:{op['op']}:raises:{type(e).__name__}", "what": f"valid derivation raises {type(e).__name__}: {str(e)[:80]}",
                              "grid": gd, "chain": [op]})
    return {"fails": fails, "ops": n_ops}


if __name__ == "__main__":
    payload = json.load(sys.stdin)
    emit_json({"run_chains": run_chains, "gen_chains": gen_chains, "oracle": oracle, "rounding_stress": rounding_stress}[payload["fn"]](payload))
